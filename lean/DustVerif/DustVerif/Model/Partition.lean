/-
Model of the PARTITION test of dust-dds endpoint matching:
  dds/src/dcps/dcps_domain_participant/discovery_methods.rs
    process_discovered_readers :849-891 / process_discovered_writers :1410-1450  (the inline test, identical on both sides)
    fnmatch_to_regex :3381  (partition name -> regular expression, then `regex::Regex::is_match`)
The regular expression is folded into a glob matcher for the pattern subset
    literal characters, `*` (-> `.*`), `?` (-> `.`), `[…]` / `[!…]` / `[^…]` with single characters and ranges `x-y`,
    and `+` directly after a literal, `?` or class (the code turns it into the regex QUANTIFIER `+`, finding D20c — kept
    open: two tests of the repository rely on it);
the empty list is the default partition "" (D20a; `partitionMatchOld` is the test before it); an expression is tried on the
NAMES of the other side only, never on its expressions (fixes/D20b.patch; `partitionMatchOldB` is the test before it);
every other pattern (backslash, unclosed or empty class, class with other regex syntax, `+` elsewhere) is outside the model:
`parsePat` returns `none` and the driver answers `bad-op`.
`.` of the regex crate does not match '\n'; this is modelled.
Import-free.
-/
namespace DustVerif.Partition

inductive Atom
  | lit (c : Char)
  | any                                        -- `?`  -> `.`
  | star                                       -- `*`  -> `.*`
  | cls (neg : Bool) (items : List (Char × Char))   -- `[a-cx]` -> items [(a,c),(x,x)]
  | rep (a : Atom)                             -- `<atom>+` -> one or more (D20)
deriving DecidableEq, Repr

def isMeta (c : Char) : Bool := c == '*' || c == '?' || c == '[' || c == ']' || c == '+' || c == '\\'

/-- class body up to the closing `]`: single characters and ranges of alphanumerics only -/
def parseClass : List Char → List (Char × Char) → Option (List (Char × Char) × List Char)
  | [], _ => none                                   -- unclosed: outside the model
  | ']' :: rest, acc => if acc.isEmpty then none else some (acc.reverse, rest)   -- `[]` is an invalid regex: outside
  | a :: '-' :: b :: rest, acc =>
    if a.isAlphanum && b.isAlphanum && decide (a.toNat ≤ b.toNat) then parseClass rest ((a, b) :: acc)
    else none
  | a :: rest, acc => if a.isAlphanum then parseClass rest ((a, a) :: acc) else none

def isRepeatable : Atom → Bool
  | .lit _ => true
  | .any => true
  | .cls _ _ => true
  | _ => false

/-- fuel = length of the input (the class parser consumes a prefix) -/
def parseAux : Nat → List Char → List Atom → Option (List Atom)
  | _, [], acc => some acc.reverse
  | 0, _ :: _, _ => none
  | fuel + 1, c :: rest, acc =>
    if c == '*' then parseAux fuel rest (.star :: acc)
    else if c == '?' then parseAux fuel rest (.any :: acc)
    else if c == '+' then
      match acc with
      | a :: acc' => if isRepeatable a then parseAux fuel rest (.rep a :: acc') else none
      | [] => none
    else if c == '[' then
      let (neg, body) := match rest with
        | '!' :: r => (true, r)
        | '^' :: r => (true, r)
        | r => (false, r)
      match parseClass body [] with
      | some (items, rest') => parseAux fuel rest' (.cls neg items :: acc)
      | none => none
    else if c == ']' || c == '\\' then none
    else parseAux fuel rest (.lit c :: acc)

def parsePat (p : List Char) : Option (List Atom) := parseAux p.length p []

def inItem (c : Char) (it : Char × Char) : Bool := decide (it.1.toNat ≤ c.toNat) && decide (c.toNat ≤ it.2.toNat)

/-- does a one-character atom accept `c`? (`.` and negated classes of the regex crate do / do not match '\n': `.` does not,
    `[^a]` does) -/
def atomMatch : Atom → Char → Bool
  | .lit x, c => x == c
  | .any, c => c != '\n'
  | .cls neg items, c => if neg then !(items.any (inItem c)) else items.any (inItem c)
  | _, _ => false

/-- the suffixes `.*` can leave: it swallows any run of non-newline characters -/
def starTails : List Char → List (List Char)
  | [] => [[]]
  | c :: s => (c :: s) :: (if c == '\n' then [] else starTails s)

/-- the suffixes `<atom>+` can leave: one or more characters accepted by the atom -/
def repTails (a : Atom) : List Char → List (List Char)
  | [] => []
  | c :: s => if atomMatch a c then s :: repTails a s else []

/-- anchored match `^…$` -/
def matchP : List Atom → List Char → Bool
  | [], s => s.isEmpty
  | .star :: ps, s => (starTails s).any (fun t => matchP ps t)
  | .rep a :: ps, s => (repTails a s).any (fun t => matchP ps t)
  | a :: ps, c :: s => atomMatch a c && matchP ps s
  | _ :: _, [] => false

/-- a partition name / pattern as its characters -/
abbrev Name := List Char

/-- `Regex::new(&fnmatch_to_regex(p)).ok()` … `.is_match(n)`; patterns outside the model never match (the driver refuses them) -/
def globMatch (p n : Name) : Bool :=
  match parsePat p with
  | some as => matchP as n
  | none => false

def supported (p : Name) : Bool := (parsePat p).isSome

/-- is_partition_expression (fixes/D20b.patch): the name contains `*`, `?` or `[` (a backslash is outside the model) -/
def isPattern (n : Name) : Bool := n.any (fun c => c == '*' || c == '?' || c == '[')

/-- `ns.iter().any(|n| !is_partition_expression(n) && regex.is_match(n))`: an expression is tried on the NAMES of the other
    side only (repaired code, fixes/D20b.patch) -/
def nameMatches (p : Name) (ns : List Name) : Bool := ns.any (fun n => !isPattern n && globMatch p n)

/-- is any entry of `ps`, compiled to a regular expression, matching any NAME of `ns`?
    (`filter_map(Regex::new).any(|re| ns.any(…))`) -/
def anyPatternMatch (ps ns : List Name) : Bool := ps.any (fun p => nameMatches p ns)

/-- before fixes/D20b.patch: the expression was tried on every entry of the other side, expressions included -/
def nameMatchesOld (p : Name) (ns : List Name) : Bool := ns.any (fun n => globMatch p n)
def anyPatternMatchOld (ps ns : List Name) : Bool := ps.any (fun p => nameMatchesOld p ns)

def anyCommonName (a b : List Name) : Bool := a.any (fun n => b.contains n)

/-- matches_default_partition: is one of the names the empty name, or a pattern that matches the empty name? -/
def matchesDefault (names : List Name) : Bool := names.any (fun n => n.isEmpty || globMatch n [])

/-- is_default_partition_matched: one side has no names (= the default partition "") and the other side matches "" -/
def defaultMatch (a b : List Name) : Bool := (a.isEmpty && matchesDefault b) || (b.isEmpty && matchesDefault a)

/-- the inline test before fixes/D20a.patch (and D20b) -/
def partitionMatchOld (received loc : List Name) : Bool :=
  received == loc || anyCommonName received loc || anyPatternMatchOld received loc || anyPatternMatchOld loc received

/-- the inline test before fixes/D20b.patch (with D20a) -/
def partitionMatchOldB (received loc : List Name) : Bool :=
  received == loc || anyCommonName received loc || anyPatternMatchOld received loc || anyPatternMatchOld loc received
    || defaultMatch received loc

/-- the inline test: `received` = the partition of the discovered endpoint, `loc` = the partition of the local
    publisher / subscriber -/
def partitionMatch (received loc : List Name) : Bool :=
  received == loc || anyCommonName received loc || anyPatternMatch received loc || anyPatternMatch loc received
    || defaultMatch received loc

/-- the test as written in process_discovered_readers (the WRITER's participant): received = the partition the discovered
    reader announced (its subscriber's), local = the publisher's -/
def writerSideMatch (pub sub : List Name) : Bool :=
  sub == pub || anyCommonName sub pub || anyPatternMatch sub pub || anyPatternMatch pub sub || defaultMatch sub pub

/-- the test as written in process_discovered_writers (the READER's participant): received = the partition the discovered
    writer announced (its publisher's), local = the subscriber's -/
def readerSideMatch (pub sub : List Name) : Bool :=
  pub == sub || anyCommonName pub sub || anyPatternMatch pub sub || anyPatternMatch sub pub || defaultMatch pub sub

end DustVerif.Partition
