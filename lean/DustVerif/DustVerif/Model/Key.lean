import DustVerif.Model.XcdrWF
import DustVerif.Model.Md5
/-!
# Instance handles / key hashes (model of `dds/src/dcps/xtypes_glue/key_and_instance_handle.rs`)

On top of `Model/Xcdr.lean`.  The XCDR model's `Ms` has no key flag (it has no influence on the wire), so keyed
types are described by the mirror `KTy` / `KMs` (with the key flag) and `erase` maps them to `Ty` / `Ms`.

* `flatT` / `flatV` = `KeyHolderType::from_dynamic_type` / `KeyHolderData::from_dynamic_data` (:12-110): key members in
  declaration order, descending into non-key, non-optional STRUCTURE members, **flattened into one member list by
  their own member ids**; the data is a `BTreeMap<MemberId, DataStorage>`, so a later member with the same id
  overwrites an earlier one, while the member list keeps both entries.
* `keyBytes` = `serialize_final_without_header` (serializer.rs:40): big-endian XCDR1 `serialize_fstruct_type` over the
  key-holder member list; member `j` is serialized with the descriptor of the FIRST list entry that has its id
  (`DynamicType::get_member`) and the value stored under that id (the LAST one set).
* `handle` = `get_instance_handle_from_key_holder_data` (:112): zero-padded to 16 bytes if the ACTUAL length is <= 16,
  MD5 otherwise.
-/
namespace DustVerif.Xcdr

mutual
  inductive KTy
    | prim (p : Prim)
    | str
    | enum (holder : Prim) (labels : List Int) (ext : Ext)
    | wstr
    | seq (elem : KTy)
    | arr (elem : KTy) (n : Nat)
    | struct (ext : Ext) (ms : KMs)
    /-- final / appendable union (branches carry no key flags) -/
    | union (app : Bool) (disc : Prim) (bs : Bs)
  inductive KMs
    | nil
    | cons (id : Nat) (opt : Bool) (mu : Bool) (key : Bool) (t : KTy) (rest : KMs)
end

mutual
  def KTy.erase : KTy → Ty
    | .prim p => .prim p
    | .str => .str
    | .enum h ls x => .enum h ls x
    | .wstr => .wstr
    | .seq el => .seq el.erase
    | .arr el n => .arr el.erase n
    | .struct x ms => .struct x ms.erase
    | .union a d bs => .union a d bs
  def KMs.erase : KMs → Ms
    | .nil => .nil
    | .cons id opt mu _ t rest => .cons id opt mu t.erase rest.erase
end

/-- an entry of the key-holder member list -/
structure KEntry where
  id : Nat
  opt : Bool
  mu : Bool
  ty : Ty

inductive KErr
  /-- `get_value` / `get_complex_value` of a member that has no value -/
  | invalidId
  /-- the stored value is not of the storage kind the descriptor asks for -/
  | invalidType
  deriving DecidableEq, Repr

mutual
  /-- `fill_struct_key_holder_type` (:19) -/
  def flatT : KMs → List KEntry
    | .nil => []
    | .cons id opt mu key t rest =>
      (if key then [⟨id, opt, mu, t.erase⟩] else if opt then [] else flatTy t) ++ flatT rest
  def flatTy : KTy → List KEntry
    | .struct _ ms => flatT ms
    | _ => []
end

mutual
  /-- `fill_struct_key_holder_data` (:76): the (member id, member type, value) triples in the order they are stored -/
  def flatV : KMs → List Val → Except KErr (List (KEntry × Val))
    | .nil, _ => .ok []
    | .cons _ _ _ _ _ _, [] => .error .invalidId
    | .cons id opt mu key t rest, f :: fs =>
      let head : Except KErr (List (KEntry × Val)) :=
        if key then
          match f with
          | .absent => .error .invalidId
          | f => .ok [(⟨id, opt, mu, t.erase⟩, f)]
        else if opt then .ok []
        else flatVTy t f
      match head, flatV rest fs with
      | .ok a, .ok b => .ok (a ++ b)
      | .error e, _ => .error e
      | _, .error e => .error e
  def flatVTy : KTy → Val → Except KErr (List (KEntry × Val))
    | .struct _ ms, .struct fs => flatV ms fs
    | .struct _ _, .absent => .error .invalidId
    | .struct _ _, _ => .error .invalidType
    | _, _ => .ok []
end

/-- `DynamicType::get_member(id)`: the first entry with that id -/
def firstEntry (id : Nat) : List (KEntry × Val) → Option KEntry
  | [] => none
  | (k, _) :: r => if k.id == id then some k else firstEntry id r

/-- the value stored under `id` in the BTreeMap: the last one set -/
def lastEntry (id : Nat) : List (KEntry × Val) → Option (KEntry × Val)
  | [] => none
  | (k, v) :: r =>
    match lastEntry id r with
    | some x => some x
    | none => if k.id == id then some (k, v) else none

/-- which `DataStorage` variant a value of the type is stored in (0 = ComplexValue, 100 = sequence of complex values) -/
def Ty.storage : Ty → Nat
  | .prim .bool => 1
  | .prim .byte => 2
  | .prim .u8 => 2
  | .prim .i8 => 3
  | .prim .c8 => 4
  | .prim .i16 => 5
  | .prim .u16 => 6
  | .prim .i32 => 7
  | .prim .u32 => 8
  | .prim .f32 => 9
  | .prim .i64 => 10
  | .prim .u64 => 11
  | .prim .f64 => 12
  | .str => 13
  | .enum _ _ _ => 0
  | .wstr => 13
  | .struct _ _ => 0
  | .union _ _ _ => 0
  | .seq el => 100 + (match el with | .prim p => (Ty.prim p).storage | .str => 13 | .wstr => 13 | _ => 0)
  | .arr el _ => 100 + (match el with | .prim p => (Ty.prim p).storage | .str => 13 | .wstr => 13 | _ => 0)

def Ty.isComplex : Ty → Bool
  | .enum _ _ _ => true
  | .struct _ _ => true
  | .union _ _ _ => true
  | _ => false

/-- the type a value stored by a member of type `last` is serialized with when the descriptor found is of type
    `first`: scalars and collections follow the descriptor, complex values (which carry their own `DynamicType`)
    follow the value -/
def combineTy (first last : Ty) : Ty :=
  match first, last with
  | .seq e1, .seq e2 => .seq (if e1.isComplex then e2 else e1)
  | .seq e1, .arr e2 _ => .seq (if e1.isComplex then e2 else e1)
  | .arr e1 n, .seq e2 => .arr (if e1.isComplex then e2 else e1) n
  | .arr e1 n, .arr e2 _ => .arr (if e1.isComplex then e2 else e1) n
  | f, l => if f.isComplex then l else f

/-- `serialize_value` under the descriptor of a member of type `first` accepts a value stored by a member of type
    `last`: same `DataStorage` variant, and an enumeration descriptor needs an enumeration value (`serialize_enum_type`
    asks the value's own type for its holder type; a structure has none -> `InvalidType`) -/
def descrFits (first last : Ty) : Bool :=
  first.storage == last.storage &&
  !(match first, last with
    | .enum _ _ _, .struct _ _ => true
    | _, _ => false)

/-- the effective (descriptor, value) pairs `serialize_fstruct_type` walks over -/
def effective (all : List (KEntry × Val)) : List (KEntry × Val) → Except KErr (List (KEntry × Val))
  | [] => .ok []
  | (k, _) :: r =>
    match firstEntry k.id all, lastEntry k.id all, effective all r with
    | some f, some (l, v), .ok rest =>
      if descrFits f.ty l.ty then .ok ((⟨k.id, f.opt, f.mu, combineTy f.ty l.ty⟩, v) :: rest)
      else .error .invalidType
    | _, _, .error e => .error e
    | _, _, _ => .error .invalidId

def entriesMs : List (KEntry × Val) → Ms
  | [] => .nil
  | (k, _) :: r => .cons k.id k.opt k.mu k.ty (entriesMs r)

def entriesVals : List (KEntry × Val) → List Val
  | [] => []
  | (_, v) :: r => v :: entriesVals r

/-- the key members and their values (what "the key of the sample" is): `KeyHolderData` before the BTreeMap merges ids -/
def keyProj (t : KTy) (v : Val) : Except KErr (List (KEntry × Val)) :=
  match t, v with
  | .struct _ ms, .struct fs => flatV ms fs
  | _, _ => .ok []

/-- the key-holder (member list, values) of a value of a keyed structure type -/
def keyHolder (t : KTy) (v : Val) : Except KErr (List (KEntry × Val)) :=
  match keyProj t v with
  | .ok kvs => effective kvs kvs
  | .error e => .error e

/-- `serialize_final_without_header(Vec::new(), key_holder_data)`: big-endian XCDR1, position 0 -/
def keyBytes (cfg : Cfg) (t : KTy) (v : Val) : Except KErr Bytes :=
  match keyHolder t v with
  | .ok kvs => .ok (serF cfg .v1 .be (entriesMs kvs) (entriesVals kvs) 0).1
  | .error e => .error e

def natLe4 (n : Nat) : Bytes :=
  [UInt8.ofNat (n % 256), UInt8.ofNat (n / 256 % 256), UInt8.ofNat (n / 65536 % 256), UInt8.ofNat (n / 16777216 % 256)]

/-- MD5 digest (Model/Md5.lean): the four state words in little-endian byte order -/
def md5 (bs : Bytes) : Bytes :=
  let s := Md5.digestState (bs.map fun b => b.toNat)
  natLe4 s.a ++ natLe4 s.b ++ natLe4 s.c ++ natLe4 s.d

def pad16 (bs : Bytes) : Bytes := bs ++ zeros (16 - bs.length)

/-- `get_instance_handle_from_key_holder_data` (:112-123): the ACTUAL length decides -/
def handleOfBytes (bs : Bytes) : Bytes := if bs.length ≤ 16 then pad16 bs else md5 bs

/-- `get_instance_handle_from_dynamic_data` -/
def handle (cfg : Cfg) (t : KTy) (v : Val) : Except KErr Bytes :=
  match keyBytes cfg t v with
  | .ok bs => .ok (handleOfBytes bs)
  | .error e => .error e

def entryIds (kvs : List (KEntry × Val)) : List Nat := kvs.map fun kv => kv.1.id

/-- hypotheses of the C11 / C12 theorems (decidable): every key member has a value, the flattened key member ids are
    distinct (D73), and the key members are inside the round-trip subset of C09 for big-endian XCDR1 -/
def wfKey (cfg : Cfg) (t : KTy) (v : Val) : Bool :=
  match keyProj t v with
  | .ok kvs => decide ((entryIds kvs).Nodup) && wfFs cfg .v1 (entriesMs kvs) (entriesVals kvs) &&
               decide (maxSizeMs (entriesMs kvs) (entriesVals kvs) < 2 ^ 32)
  | .error _ => false

inductive ChangeKind
  | alive | notAlive
  deriving DecidableEq, Repr

/-- some XCDR1 parameter id of an optional key member overflows `u16` (serializer panic, D64) -/
def keyPanics (t : KTy) (v : Val) : Bool :=
  match keyHolder t v with
  | .ok kvs => serPanics1Ms false (entriesMs kvs) (entriesVals kvs)
  | .error _ => false

/-- what happens first when `serialize_fstruct_type` walks over the merged key-holder members in order
    (only relevant outside `wfKey`): `some true` = panic, `some false` = `Err(InvalidType)`, `none` = serialized.
    A stored value whose storage kind does not fit the descriptor found under the id makes `serialize_value` fail;
    under an optional descriptor the XCDR1 serializer unwraps that error (serializer.rs:839) -/
def keySerFails (all : List (KEntry × Val)) : List (KEntry × Val) → Option Bool
  | [] => none
  | (k, _) :: r =>
    match firstEntry k.id all, lastEntry k.id all with
    | some f, some (l, v) =>
      if !descrFits f.ty l.ty then some f.opt
      else if serPanics1Ms false (.cons k.id f.opt f.mu (combineTy f.ty l.ty) .nil) [v] then some true
      else keySerFails all r
    | _, _ => none

/-- result of `get_instance_handle_from_dynamic_data`: `none` = panic -/
def handleOutcome (cfg : Cfg) (t : KTy) (v : Val) : Option (Except KErr Bytes) :=
  match keyProj t v with
  | .error e => some (.error e)
  | .ok kvs =>
    match keySerFails kvs kvs with
    | some true => none
    | some false => some (.error .invalidType)
    | none => some (handle cfg t v)

/-! ### the key-holder type (`KeyHolderType`), used for the key-only payload of dispose / unregister -/
mutual
  /-- a `Ty` as `KTy` without key flags below (a key member is taken as a whole) -/
  def tyK : Ty → KTy
    | .prim p => .prim p
    | .str => .str
    | .enum h ls x => .enum h ls x
    | .wstr => .wstr
    | .seq el => .seq (tyK el)
    | .arr el n => .arr (tyK el) n
    | .struct x ms => .struct x (msK ms)
    | .union a d bs => .union a d bs
  def msK : Ms → KMs
    | .nil => .nil
    | .cons id opt mu t r => .cons id opt mu false (tyK t) (msK r)
end

def entriesKMs : List KEntry → KMs
  | [] => .nil
  | k :: r => .cons k.id k.opt k.mu true (tyK k.ty) (entriesKMs r)

/-- `KeyHolderType::from_dynamic_type`: the descriptor (extensibility) of the top type with the flattened key members -/
def keyHolderTy (t : KTy) : KTy :=
  match t with
  | .struct x ms => .struct x (entriesKMs (flatT ms))
  | t => t

/-- `n` times `f` -/
def iterOpt (f : Nat → Option Nat) : Nat → Nat → Option Nat
  | 0, pos => some pos
  | n + 1, pos => match f pos with
    | some p => iterOpt f n p
    | none => none

mutual
  /-- end position of a value of the type serialized (XCDR1) from position `pos`, if that does not depend on the value;
      `none` for strings, sequences (unbounded in this universe), optional members, mutable structures.
      For a fixed-size key type the maximum serialized size DDS-XTypes 7.6.8 / RTPS 9.6.3.8 decide by is this size. -/
  def fixedSizeTy : Ty → Nat → Option Nat
    | .prim p, pos => some (pos + wPad .v1 p.size pos + p.size)
    | .enum h _ _, pos => some (pos + wPad .v1 h.size pos + h.size)
    | .arr el n, pos => iterOpt (fixedSizeTy el) n pos
    | .struct .final ms, pos => fixedSizeMs ms pos
    | .struct .appendable ms, pos => fixedSizeMs ms pos
    | _, _ => none
  def fixedSizeMs : Ms → Nat → Option Nat
    | .nil, pos => some pos
    | .cons _ opt _ t rest, pos =>
      if opt then none
      else match fixedSizeTy t pos with
        | some p => fixedSizeMs rest p
        | none => none
end

def entriesMsT : List KEntry → Ms
  | [] => .nil
  | k :: r => .cons k.id k.opt k.mu k.ty (entriesMsT r)

/-- the maximum serialized size of the key of a keyed structure type, when it is finite in this universe (then it
    is also the size of every key): what DDS-XTypes 7.6.8 / RTPS 9.6.3.8 compare with 16; `none` = unbounded -/
def keyMaxSize (t : KTy) : Option Nat := fixedSizeMs (entriesMsT (flatTy t)) 0

/-- the instance handle the reader files a received change under (communication_methods.rs:218-272):
    the inline `PID_KEY_HASH` if the DATA submessage carries one, else the handle of the decoded sample (alive changes)
    or of the key-only payload decoded with the key-holder type (dispose / unregister); `none` = the change is dropped -/
def readerHandle (cfg : Cfg) (t : KTy) (inline : Option Bytes) (kind : ChangeKind) (payload : Bytes) : Option Bytes :=
  match inline with
  | some h => some h
  | none =>
    let t' := match kind with
      | .alive => t
      | .notAlive => keyHolderTy t
    match deTop cfg t'.erase payload with
    | .ok v _ => match handle cfg t' v with
      | .ok h => some h
      | .error _ => none
    | _ => none

end DustVerif.Xcdr
