/-
Model of the parameter-list (PL_CDR) codec of the four discovery records of dust-dds:
  dds/src/dcps/data_representation_builtin_endpoints/
    rtps_data_representation.rs                (ParameterList, PidIterator, CdrDeserialize, CdrDeserializer)
    rtps_data_representation_serialization.rs  (ParameterListSerializer, CdrSerialize)
    spdp_discovered_participant_data.rs, discovered_writer_data.rs, discovered_reader_data.rs,
    discovered_topic_data.rs, parameter_id_values.rs
  and of the part of dds/src/xtypes/{serializer,deserializer}.rs that the `write_xcdr1_parameter` /
  `get_*_parameter_xdcr` calls reach for the QoS policy structs (final / appendable structs of primitive
  members, XCDR1), including `create_sample` of the derive macro (a missing member makes the sample `None`).

The codec is generic over a *schema*: `EncField` rows (what `into_bytes` writes, in its order) and `DecField`
rows (what `from_bytes` reads, in its order).  The four real schemas are data (end of this file).
The value of PID_TYPE_INFORMATION (XCDR2 `TypeInformation`) is an opaque byte string: its inner decoding belongs
to the XCDR engine and is assumed to accept what the encoder produced.
The decoder is the one of repository main + fixes/D-plist-1.patch (`Cfg.fixed`); earlier behaviours (D11, D13,
D-plist-1) are selected by `Cfg` and kept for regression witnesses and for checking an unpatched tree.
Import-free.  Bytes are `Nat`s (< 256 for everything an encoder produces or the driver parses).
-/
namespace DustVerif.Plist

abbrev Bytes := List Nat

/-- which repairs the modelled tree carries: D11 (zero-length string), D13 (`with_capacity`), both on main;
    `fixHdr` = fixes/D-plist-1.patch (the parameter iterator skips the encapsulation header) -/
structure Cfg where
  fixD11 : Bool
  fixD13 : Bool
  fixHdr : Bool
deriving DecidableEq, Repr

/-- the tree as it was before any repair -/
def Cfg.asIs : Cfg := { fixD11 := false, fixD13 := false, fixHdr := false }
/-- repository main (D11 and D13 repaired), without fixes/D-plist-1.patch: the iterator still starts at offset 0 -/
def Cfg.main : Cfg := { fixD11 := true, fixD13 := true, fixHdr := false }
/-- main + fixes/D-plist-1.patch: the delivered configuration -/
def Cfg.fixed : Cfg := { fixD11 := true, fixD13 := true, fixHdr := true }

/-- a single allocation request above this size is an ALLOC-LIMIT outcome (harness/src/bin/plist.rs) -/
def allocLimit : Nat := 268435456

inductive End | le | be
deriving DecidableEq, Repr

/-- result of a value-level read: `ned` = NotEnoughData, `inv` = InvalidData -/
inductive R (α : Type) where
  | ok (a : α)
  | ned
  | inv
  | panic
  | alloc
deriving Repr

def R.bind {α β : Type} (x : R α) (f : α → R β) : R β :=
  match x with
  | .ok a => f a
  | .ned => .ned
  | .inv => .inv
  | .panic => .panic
  | .alloc => .alloc

instance : Monad R where
  pure := R.ok
  bind := R.bind

/-! ### integers -/

def rd16 (e : End) (a b : Nat) : Nat :=
  match e with
  | .le => a + 256 * b
  | .be => 256 * a + b

def rd32 (e : End) (a b c d : Nat) : Nat :=
  match e with
  | .le => a + 256 * b + 65536 * c + 16777216 * d
  | .be => 16777216 * a + 65536 * b + 256 * c + d

def enc16 (e : End) (n : Nat) : Bytes :=
  match e with
  | .le => [n % 256, n / 256 % 256]
  | .be => [n / 256 % 256, n % 256]

def enc32 (e : End) (n : Nat) : Bytes :=
  match e with
  | .le => [n % 256, n / 256 % 256, n / 65536 % 256, n / 16777216 % 256]
  | .be => [n / 16777216 % 256, n / 65536 % 256, n / 256 % 256, n % 256]

def toI16 (n : Nat) : Int := if n ≥ 32768 then (n : Int) - 65536 else (n : Int)
def toI32 (n : Nat) : Int := if n ≥ 2147483648 then (n : Int) - 4294967296 else (n : Int)
def ofI16 (i : Int) : Nat := (i % 65536).toNat
def ofI32 (i : Int) : Nat := (i % 4294967296).toNat

/-! ### cursor (CdrDeserializer / xtypes Reader: a buffer and a position; alignment is relative to the
    start of the parameter value) -/

structure Cur where
  pos : Nat
  rest : Bytes
deriving DecidableEq, Repr

/-- bytes to skip to reach the next multiple of `a` (seek_padding, rtps_data_representation.rs:356) -/
def padTo (a pos : Nat) : Nat := (a - pos % a) % a

def skip (n : Nat) (c : Cur) : R Cur :=
  if n ≤ c.rest.length then .ok ⟨c.pos + n, c.rest.drop n⟩ else .ned

def alignTo (a : Nat) (c : Cur) : R Cur := skip (padTo a c.pos) c

/-- read_bytes (rtps_data_representation.rs:347, deserializer.rs:1296) -/
def takeN (n : Nat) (c : Cur) : R (Bytes × Cur) :=
  if n ≤ c.rest.length then .ok (c.rest.take n, ⟨c.pos + n, c.rest.drop n⟩) else .ned

def rdU8 (c : Cur) : R (Nat × Cur) :=
  match c.rest with
  | a :: r => .ok (a, ⟨c.pos + 1, r⟩)
  | [] => .ned

def rdU16 (e : End) (c : Cur) : R (Nat × Cur) :=
  match alignTo 2 c with
  | .ok c1 =>
    match c1.rest with
    | a :: b :: r => .ok (rd16 e a b, ⟨c1.pos + 2, r⟩)
    | _ => .ned
  | _ => .ned

def rdU32 (e : End) (c : Cur) : R (Nat × Cur) :=
  match alignTo 4 c with
  | .ok c1 =>
    match c1.rest with
    | a :: b :: cc :: d :: r => .ok (rd32 e a b cc d, ⟨c1.pos + 4, r⟩)
    | _ => .ned
  | _ => .ned

/-! ### UTF-8 well-formedness (`String::from_utf8`; Unicode table 3-7) -/

def isCont (b : Nat) : Bool := decide (128 ≤ b) && decide (b ≤ 191)
def inRange (lo hi b : Nat) : Bool := decide (lo ≤ b) && decide (b ≤ hi)

def utf8Valid : Bytes → Bool
  | [] => true
  | a :: r =>
    if a < 128 then utf8Valid r
    else if inRange 194 223 a then
      match r with
      | b :: r1 => isCont b && utf8Valid r1
      | _ => false
    else if inRange 224 239 a then
      match r with
      | b :: c :: r2 =>
        (if a == 224 then inRange 160 191 b else if a == 237 then inRange 128 159 b else isCont b)
          && isCont c && utf8Valid r2
      | _ => false
    else if inRange 240 244 a then
      match r with
      | b :: c :: d :: r3 =>
        (if a == 240 then inRange 144 191 b else if a == 244 then inRange 128 143 b else isCont b)
          && isCont c && isCont d && utf8Valid r3
      | _ => false
    else false

/-! ### member kinds of the values that occur, and their values -/

inductive Prim
  | u8
  | i16
  | i32
  | u32
  | enum16 (vals : List Int)   -- wire: i16; `create_sample` is `None` for a value outside `vals`
  | enum32 (vals : List Int)   -- wire: i32
  | boolC                      -- CdrDeserialize for bool: any non-zero octet is true
  | boolX                      -- xtypes bool: 0 / 1, anything else InvalidData
  | arr (n : Nat)              -- [u8; N]
  | strC                       -- CdrDeserialize for String (`length as usize - 1`)
  | strX                       -- xtypes string (`length.saturating_sub(1)`)
  | octets                     -- sequence<octet>
  | strs                       -- sequence<string>
  | u16s                       -- sequence<uint16>
deriving DecidableEq, Repr

inductive PVal
  | n (v : Nat)
  | i (v : Int)
  | b (v : Bool)
  | bs (v : Bytes)
  | ss (v : List Bytes)
  | ns (v : List Nat)
deriving DecidableEq, Repr

/-- a string: u32 length (incl. NUL), characters, one more octet (its value is not checked) -/
def rdStr (strict : Bool) (cfg : Cfg) (e : End) (c : Cur) : R (Bytes × Cur) :=
  match rdU32 e c with
  | .ok (len, c1) =>
    if len == 0 && strict then (if cfg.fixD11 then .inv else .panic)   -- `length as usize - 1` (:284)
    else
      match takeN (len - 1) c1 with
      | .ok (s, c2) =>
        match rdU8 c2 with
        | .ok (_, c3) => if utf8Valid s then .ok (s, c3) else .inv
        | _ => .ned
      | _ => .ned
  | _ => .ned

def rdStrs (cfg : Cfg) (e : End) : Nat → Cur → R (List Bytes × Cur)
  | 0, c => .ok ([], c)
  | k + 1, c =>
    match rdStr false cfg e c with
    | .ok (s, c1) =>
      match rdStrs cfg e k c1 with
      | .ok (l, c2) => .ok (s :: l, c2)
      | .ned => .ned
      | .inv => .inv
      | .panic => .panic
      | .alloc => .alloc
    | .ned => .ned
    | .inv => .inv
    | .panic => .panic
    | .alloc => .alloc

def rdU16s (e : End) : Nat → Cur → R (List Nat × Cur)
  | 0, c => .ok ([], c)
  | k + 1, c =>
    match rdU16 e c with
    | .ok (v, c1) =>
      match rdU16s e k c1 with
      | .ok (l, c2) => .ok (v :: l, c2)
      | .ned => .ned
      | .inv => .inv
      | .panic => .panic
      | .alloc => .alloc
    | .ned => .ned
    | .inv => .inv
    | .panic => .panic
    | .alloc => .alloc

/-- `Vec::with_capacity(length)` with the length taken from the wire (deserializer.rs:686, :759);
    the repair reserves `length.min(remaining)` -/
def reserve (cfg : Cfg) (count elemSize remaining : Nat) : Bool :=
  decide ((if cfg.fixD13 then min count remaining else count) * elemSize > allocLimit)

def decPrim (cfg : Cfg) (e : End) (p : Prim) (c : Cur) : R (PVal × Cur) :=
  match p with
  | .u8 => match rdU8 c with
    | .ok (v, c1) => .ok (.n v, c1)
    | _ => .ned
  | .i16 => match rdU16 e c with
    | .ok (v, c1) => .ok (.i (toI16 v), c1)
    | _ => .ned
  | .enum16 _ => match rdU16 e c with
    | .ok (v, c1) => .ok (.i (toI16 v), c1)
    | _ => .ned
  | .i32 => match rdU32 e c with
    | .ok (v, c1) => .ok (.i (toI32 v), c1)
    | _ => .ned
  | .enum32 _ => match rdU32 e c with
    | .ok (v, c1) => .ok (.i (toI32 v), c1)
    | _ => .ned
  | .u32 => match rdU32 e c with
    | .ok (v, c1) => .ok (.n v, c1)
    | _ => .ned
  | .boolC => match rdU8 c with
    | .ok (v, c1) => .ok (.b (v != 0), c1)
    | _ => .ned
  | .boolX => match rdU8 c with
    | .ok (v, c1) => if v == 0 then .ok (.b false, c1) else if v == 1 then .ok (.b true, c1) else .inv
    | _ => .ned
  | .arr n => match takeN n c with
    | .ok (v, c1) => .ok (.bs v, c1)
    | _ => .ned
  | .strC => match rdStr true cfg e c with
    | .ok (s, c1) => .ok (.bs s, c1)
    | .ned => .ned
    | .inv => .inv
    | .panic => .panic
    | .alloc => .alloc
  | .strX => match rdStr false cfg e c with
    | .ok (s, c1) => .ok (.bs s, c1)
    | .ned => .ned
    | .inv => .inv
    | .panic => .panic
    | .alloc => .alloc
  | .octets => match rdU32 e c with
    | .ok (len, c1) => match takeN len c1 with
      | .ok (v, c2) => .ok (.bs v, c2)
      | _ => .ned
    | _ => .ned
  | .strs => match rdU32 e c with
    | .ok (len, c1) =>
      if reserve cfg len 24 c1.rest.length then .alloc
      else match rdStrs cfg e len c1 with
        | .ok (l, c2) => .ok (.ss l, c2)
        | .ned => .ned
        | .inv => .inv
        | .panic => .panic
        | .alloc => .alloc
    | _ => .ned
  | .u16s => match rdU32 e c with
    | .ok (len, c1) =>
      if reserve cfg len 2 c1.rest.length then .alloc
      else match rdU16s e len c1 with
        | .ok (l, c2) => .ok (.ns l, c2)
        | .ned => .ned
        | .inv => .inv
        | .panic => .panic
        | .alloc => .alloc
    | _ => .ned

def decMembers (cfg : Cfg) (e : End) : List Prim → Cur → R (List PVal × Cur)
  | [], c => .ok ([], c)
  | p :: ps, c =>
    match decPrim cfg e p c with
    | .ok (v, c1) =>
      match decMembers cfg e ps c1 with
      | .ok (vs, c2) => .ok (v :: vs, c2)
      | .ned => .ned
      | .inv => .inv
      | .panic => .panic
      | .alloc => .alloc
    | .ned => .ned
    | .inv => .inv
    | .panic => .panic
    | .alloc => .alloc

/-! ### encoders (`pos` = offset inside the parameter value.  The real `CdrSerializer::pad` uses the offset in the
    whole buffer, which is congruent mod 4 because the header and every parameter are multiples of 4 long.)
    dust-dds itself always writes little-endian (`e = .le`); the big-endian encoder describes what another
    implementation may send (RTPS 9.4.2.11 lets every sender choose) and is used in the theorems only. -/

def zeros (n : Nat) : Bytes := List.replicate n 0

def encStr (e : End) (s : Bytes) (pos : Nat) : Bytes :=
  zeros (padTo 4 pos) ++ enc32 e ((s.length + 1) % 4294967296) ++ s ++ [0]

def encStrs (e : End) : List Bytes → Nat → Bytes
  | [], _ => []
  | s :: l, pos => encStr e s pos ++ encStrs e l (pos + (encStr e s pos).length)

def encU16s (e : End) : List Nat → Nat → Bytes
  | [], _ => []
  | v :: l, pos => zeros (padTo 2 pos) ++ enc16 e v ++ encU16s e l (pos + padTo 2 pos + 2)

def encPrim (e : End) (p : Prim) (v : PVal) (pos : Nat) : Bytes :=
  match p, v with
  | .u8, .n x => [x]
  | .i16, .i x => zeros (padTo 2 pos) ++ enc16 e (ofI16 x)
  | .enum16 _, .i x => zeros (padTo 2 pos) ++ enc16 e (ofI16 x)
  | .i32, .i x => zeros (padTo 4 pos) ++ enc32 e (ofI32 x)
  | .enum32 _, .i x => zeros (padTo 4 pos) ++ enc32 e (ofI32 x)
  | .u32, .n x => zeros (padTo 4 pos) ++ enc32 e x
  | .boolC, .b x => [if x then 1 else 0]
  | .boolX, .b x => [if x then 1 else 0]
  | .arr _, .bs x => x
  | .strC, .bs s => encStr e s pos
  | .strX, .bs s => encStr e s pos
  | .octets, .bs x => zeros (padTo 4 pos) ++ enc32 e (x.length % 4294967296) ++ x
  | .strs, .ss l =>
    zeros (padTo 4 pos) ++ enc32 e (l.length % 4294967296) ++ encStrs e l (pos + padTo 4 pos + 4)
  | .u16s, .ns l =>
    zeros (padTo 4 pos) ++ enc32 e (l.length % 4294967296) ++ encU16s e l (pos + padTo 4 pos + 4)
  | _, _ => []

def encMembers (e : End) : List Prim → List PVal → Nat → Bytes
  | p :: ps, v :: vs, pos => encPrim e p v pos ++ encMembers e ps vs (pos + (encPrim e p v pos).length)
  | _, _, _ => []

/-! ### codecs of whole parameter values -/

inductive Style
  | plain      -- CdrSerialize / CdrDeserialize
  | xFinal     -- xtypes XCDR1, final struct: every error propagates
  | xApp       -- xtypes XCDR1, appendable struct: NotEnoughData ends the struct (deserializer.rs:1103)
deriving DecidableEq, Repr

inductive Post
  | none
  | history    -- HistoryQosPolicy::create_sample / create_dynamic_sample (KEEP_ALL carries depth -1)
deriving DecidableEq, Repr

structure Codec where
  sty : Style
  members : List Prim
  post : Post
deriving DecidableEq, Repr

def enumOk : Prim → PVal → Bool
  | .enum16 vals, .i x => vals.contains x
  | .enum32 vals, .i x => vals.contains x
  | _, _ => true

def enumsOk : List Prim → List PVal → Bool
  | p :: ps, v :: vs => enumOk p v && enumsOk ps vs
  | _, _ => true

def normHistory : List PVal → List PVal
  | [.i k, .i d] => if k == 1 then [.i 1, .i (-1)] else [.i k, .i d]
  | vs => vs

def normPost : Post → List PVal → List PVal
  | .none, vs => vs
  | .history, vs => normHistory vs

/-- what the record holds after decoding (`create_sample`): `none` = no sample could be made -/
def sample (c : Codec) (vs : List PVal) : Option (List PVal) :=
  if enumsOk c.members vs then some (normPost c.post vs) else none

def encCodec (e : End) (c : Codec) (vs : List PVal) : Bytes := encMembers e c.members (normPost c.post vs) 0

/-- errors of the two deserializer families as the harness prints them -/
inductive Err
  | invalidData
  | pidNotFound (pid : Nat)
  | notEnoughData
  | unsupported (a b : Nat)
  | xNotEnoughData
  | xInvalidData
deriving DecidableEq, Repr

inductive Out (α : Type) where
  | ok (a : α)
  | err (e : Err)
  | panic
  | alloc
deriving DecidableEq, Repr

/-- decode one parameter value; `ok none` = the deserializer returned a partial value of which
    `create_sample` makes nothing -/
def decCodec (cfg : Cfg) (e : End) (c : Codec) (v : Bytes) : Out (Option (List PVal)) :=
  match decMembers cfg e c.members ⟨0, v⟩ with
  | .ok (vs, _) => .ok (sample c vs)
  | .ned =>
    match c.sty with
    | .plain => .err .notEnoughData
    | .xFinal => .err .xNotEnoughData
    | .xApp => .ok none
  | .inv =>
    match c.sty with
    | .plain => .err .invalidData
    | _ => .err .xInvalidData
  | .panic => .panic
  | .alloc => .alloc

/-! ### the parameter list -/

abbrev Param := Nat × Bytes

def pad4 (v : Bytes) : Bytes := v ++ zeros (padTo 4 v.length)

/-- write_cdr_parameter (rtps_data_representation_serialization.rs:34): pid, `length as u16`, padded value -/
def serParam (e : End) (p : Param) : Bytes := enc16 e p.1 ++ enc16 e ((pad4 p.2).length % 65536) ++ pad4 p.2

def serParams (e : End) : List Param → Bytes
  | [] => []
  | p :: ps => serParam e p ++ serParams e ps

/-- encapsulation header: PL_CDR_LE `00 03`, PL_CDR_BE `00 02`, options `00 00` -/
def plHeader (e : End) : Bytes :=
  match e with
  | .le => [0, 3, 0, 0]
  | .be => [0, 2, 0, 0]

def sentinel (e : End) : Bytes := enc16 e 1 ++ [0, 0]

/-- PidIterator (rtps_data_representation.rs:69) run to its end over the bytes that are left:
    the items it yields, and whether it ended with an `Err` item (fewer than 4 octets left) -/
def scan (e : End) : Nat → Bytes → List Param × Bool
  | 0, _ => ([], false)
  | _ + 1, [] => ([], false)
  | f + 1, a :: b :: c :: d :: r =>
    let pid := rd16 e a b
    let len := rd16 e c d
    if pid == 1 || len > r.length then ([], false)
    else
      let t := scan e f (r.drop len)
      ((pid, r.take len) :: t.1, t.2)
  | _ + 1, _ => ([], true)

def findPid (pid : Nat) : List Param → Option Bytes
  | [] => none
  | p :: ps => if p.1 == pid then some p.2 else findPid pid ps

def filterPid (pid : Nat) : List Param → List Bytes
  | [] => []
  | p :: ps => if p.1 == pid then p.2 :: filterPid pid ps else filterPid pid ps

/-- what `ParameterList` knows: header octets, endianness (`None` = `endianness()` fails), iterator result -/
structure Pl where
  h0 : Nat
  h1 : Nat
  e : Option End
  items : List Param
  tailErr : Bool
deriving Repr

def mkPl (cfg : Cfg) (data : Bytes) : Pl :=
  let h0 := data.headD 0
  let h1 := (data.drop 1).headD 0
  let e : Option End := if h1 == 2 then some .be else if h1 == 3 then some .le else none
  match e with
  | some en =>
    -- before fixes/D-plist-1.patch the iterator starts at offset 0: the encapsulation header is its first
    -- "parameter" (pid 0x0300 under LE, pid 0x0002 = PID_PARTICIPANT_LEASE_DURATION under BE);
    -- repaired: `PidIterator::new(&self.data[4..], ..)`
    let s := if cfg.fixHdr then scan en data.length (data.drop 4) else scan en data.length data
    { h0 := h0, h1 := h1, e := e, items := s.1, tailErr := s.2 }
  | none => { h0 := h0, h1 := h1, e := none, items := [], tailErr := false }

/-- seek_to_pid (:195): first occurrence; an `Err` item is reached only when the pid was not found before -/
def seek (pl : Pl) (pid : Nat) : Out (Option Bytes × End) :=
  match pl.e with
  | none => .err .invalidData
  | some en =>
    match findPid pid pl.items with
    | some v => .ok (some v, en)
    | none => if pl.tailErr then .err .notEnoughData else .ok (none, en)

/-- value of one record field -/
inductive FVal
  | one (vs : List PVal)
  | opt (v : Option (List PVal))
  | many (l : List (List PVal))
  | blob (v : Option Bytes)
deriving DecidableEq, Repr

inductive Access
  | required                        -- get_non_optional_parameter(_xdcr)
  | requiredOk                      -- get_non_optional_parameter(..).ok()
  | optional (dflt : List PVal)     -- get_optional_parameter(_xdcr)
  | list                            -- get_locator_list
  | typeInfo (swallow : Bool)       -- get_optional_parameter_xdcr2, `.unwrap_or_default()` or `?`
deriving DecidableEq, Repr

structure DecField where
  pid : Nat
  codec : Codec
  acc : Access
deriving DecidableEq, Repr

/-- decode the value found for a `required` / `optional` field -/
def decFound (cfg : Cfg) (pl : Pl) (en : End) (c : Codec) (v : Bytes) : Out (Option (List PVal)) :=
  match c.sty with
  | .plain => decCodec cfg en c v
  | _ =>
    -- deserialize_top_level_type_from_representation_identifier([data[0], data[1]], ..): data[1] is 2 or 3 here
    if pl.h0 == 0 then decCodec cfg en c v else .err .xInvalidData

def decList (cfg : Cfg) (en : End) (c : Codec) : List Bytes → Out (List (List PVal))
  | [] => .ok []
  | v :: vs =>
    match decCodec cfg en c v with
    | .ok (some x) =>
      match decList cfg en c vs with
      | .ok xs => .ok (x :: xs)
      | o => o
    | .ok none => .err .invalidData
    | .err er => .err er
    | .panic => .panic
    | .alloc => .alloc

def decField (cfg : Cfg) (pl : Pl) (f : DecField) : Out FVal :=
  match f.acc with
  | .required =>
    match seek pl f.pid with
    | .ok (some v, en) =>
      match decFound cfg pl en f.codec v with
      | .ok (some x) => .ok (.one x)
      | .ok none => .err .invalidData
      | .err er => .err er
      | .panic => .panic
      | .alloc => .alloc
    | .ok (none, _) => .err (.pidNotFound f.pid)
    | .err er => .err er
    | .panic => .panic
    | .alloc => .alloc
  | .requiredOk =>
    match seek pl f.pid with
    | .ok (some v, en) =>
      match decFound cfg pl en f.codec v with
      | .ok (some x) => .ok (.opt (some x))
      | .ok none => .ok (.opt none)
      | .err _ => .ok (.opt none)
      | .panic => .panic
      | .alloc => .alloc
    | .ok (none, _) => .ok (.opt none)
    | .err _ => .ok (.opt none)
    | .panic => .panic
    | .alloc => .alloc
  | .optional dflt =>
    match seek pl f.pid with
    | .ok (some v, en) =>
      match decFound cfg pl en f.codec v with
      | .ok (some x) => .ok (.one x)
      | .ok none => .ok (.one dflt)
      | .err er => .err er
      | .panic => .panic
      | .alloc => .alloc
    | .ok (none, _) => .ok (.one dflt)
    | .err er => .err er
    | .panic => .panic
    | .alloc => .alloc
  | .list =>
    -- get_locator_list (:180): every occurrence, in order; then the `Err` item, if any
    match pl.e with
    | none => .err .invalidData
    | some en =>
      match decList cfg en f.codec (filterPid f.pid pl.items) with
      | .ok l => if pl.tailErr then .err .notEnoughData else .ok (.many l)
      | .err er => .err er
      | .panic => .panic
      | .alloc => .alloc
  | .typeInfo swallow =>
    match seek pl f.pid with
    | .ok (some v, _) =>
      -- representation identifier must be one of the ten known ones; data[1] is 2 or 3 here
      if pl.h0 == 0 then .ok (.blob (some v))
      else if swallow then .ok (.blob none) else .err (.unsupported pl.h0 pl.h1)
    | .ok (none, _) => .ok (.blob none)
    | .err er => if swallow then .ok (.blob none) else .err er
    | .panic => .panic
    | .alloc => .alloc

def decFields (cfg : Cfg) (pl : Pl) : List DecField → Out (List (Nat × FVal))
  | [] => .ok []
  | f :: fs =>
    match decField cfg pl f with
    | .ok v =>
      match decFields cfg pl fs with
      | .ok vs => .ok ((f.pid, v) :: vs)
      | o => o
    | .err er => .err er
    | .panic => .panic
    | .alloc => .alloc

/-- `from_bytes` of a record whose fields are read in the order of `S` -/
def fromBytes (cfg : Cfg) (S : List DecField) (data : Bytes) : Out (List (Nat × FVal)) :=
  if data.length < 4 then .err .notEnoughData     -- ParameterList::new (:99)
  else decFields cfg (mkPl cfg data) S

/-! ### `into_bytes` -/

inductive Emit
  | always
  | omitIf (dflt : List PVal)   -- `if self.x != default { write }`
  | ifSome                      -- `if let Some(x) = self.x { write }`
  | each                        -- `for l in self.list { write }`
  | blobIfSome                  -- type information: the XCDR2 bytes, opaque
deriving DecidableEq, Repr

structure EncField where
  pid : Nat
  codec : Codec
  rule : Emit
deriving DecidableEq, Repr

def encEach (e : End) (pid : Nat) (c : Codec) : List (List PVal) → List Param
  | [] => []
  | v :: vs => (pid, encCodec e c v) :: encEach e pid c vs

def fieldParams (e : End) (f : EncField) (v : FVal) : List Param :=
  match f.rule, v with
  | .always, .one vs => [(f.pid, encCodec e f.codec vs)]
  | .omitIf dflt, .one vs => if vs == dflt then [] else [(f.pid, encCodec e f.codec vs)]
  | .ifSome, .opt (some vs) => [(f.pid, encCodec e f.codec vs)]
  | .each, .many l => encEach e f.pid f.codec l
  | .blobIfSome, .blob (some b) => [(f.pid, b)]
  | _, _ => []

def recordParams (e : End) (S : List EncField) (d : Nat → FVal) : List Param :=
  match S with
  | [] => []
  | f :: fs => fieldParams e f (d f.pid) ++ recordParams e fs d

/-- the announcement of a record (a function from pid to field value) whose fields are written in the order of `S`,
    in the byte order `e` -/
def intoBytesE (e : End) (S : List EncField) (d : Nat → FVal) : Bytes :=
  plHeader e ++ serParams e (recordParams e S d) ++ sentinel e

/-- `into_bytes` of dust-dds: always PL_CDR_LE -/
def intoBytes (S : List EncField) (d : Nat → FVal) : Bytes := intoBytesE .le S d

/-! ### the four schemas (transcribed from the `into_bytes` / `from_bytes` bodies and parameter_id_values.rs) -/

def cKey : Codec := ⟨.xFinal, [.arr 16], .none⟩            -- BuiltInTopicKey
def cName : Codec := ⟨.xFinal, [.strX], .none⟩             -- xtypes::type_support::_String
def cOctets : Codec := ⟨.xApp, [.octets], .none⟩           -- User/Topic/GroupDataQosPolicy
def cInt : Codec := ⟨.xApp, [.i32], .none⟩                 -- TransportPriority, OwnershipStrength
def cDurK : Codec := ⟨.xApp, [.i32, .u32], .none⟩          -- a policy holding one DurationKind
def cDurability : Codec := ⟨.xApp, [.enum32 [0, 1, 2, 3]], .none⟩
def cPresentation : Codec := ⟨.xApp, [.enum32 [0, 1], .boolX, .boolX], .none⟩
def cKind2 : Codec := ⟨.xApp, [.enum32 [0, 1]], .none⟩     -- Ownership, DestinationOrder
def cLiveliness : Codec := ⟨.xApp, [.enum32 [0, 1, 2], .i32, .u32], .none⟩
def cReliability : Codec := ⟨.xApp, [.enum32 [1, 2], .i32, .u32], .none⟩
def cPartition : Codec := ⟨.xApp, [.strs], .none⟩
def cHistory : Codec := ⟨.xApp, [.enum32 [0, 1], .i32], .history⟩
def cLimits : Codec := ⟨.xApp, [.i32, .i32, .i32], .none⟩
def cRepr : Codec := ⟨.xApp, [.u16s], .none⟩
def cTce : Codec := ⟨.xApp, [.enum16 [0, 1], .boolX, .boolX, .boolX, .boolX, .boolX], .none⟩
def pI32 : Codec := ⟨.plain, [.i32], .none⟩
def pU32 : Codec := ⟨.plain, [.u32], .none⟩
def pStr : Codec := ⟨.plain, [.strC], .none⟩
def pArr2 : Codec := ⟨.plain, [.arr 2], .none⟩
def pBool : Codec := ⟨.plain, [.boolC], .none⟩
def pLocator : Codec := ⟨.plain, [.i32, .u32, .arr 16], .none⟩
def pDuration : Codec := ⟨.plain, [.i32, .u32], .none⟩
def pEntityId : Codec := ⟨.plain, [.arr 3, .u8], .none⟩
def cBlob : Codec := ⟨.plain, [], .none⟩                   -- not used for type information (opaque)

def PID_USER_DATA := 0x2c
def PID_TOPIC_NAME := 0x05
def PID_TYPE_NAME := 0x07
def PID_GROUP_DATA := 0x2d
def PID_TOPIC_DATA := 0x2e
def PID_DURABILITY := 0x1d
def PID_DEADLINE := 0x23
def PID_LATENCY_BUDGET := 0x27
def PID_LIVELINESS := 0x1b
def PID_RELIABILITY := 0x1a
def PID_LIFESPAN := 0x2b
def PID_DESTINATION_ORDER := 0x25
def PID_HISTORY := 0x40
def PID_RESOURCE_LIMITS := 0x41
def PID_OWNERSHIP := 0x1f
def PID_OWNERSHIP_STRENGTH := 0x06
def PID_PRESENTATION := 0x21
def PID_PARTITION := 0x29
def PID_TIME_BASED_FILTER := 0x04
def PID_TRANSPORT_PRIORITY := 0x49
def PID_DOMAIN_ID := 0x0f
def PID_DOMAIN_TAG := 0x4014
def PID_PROTOCOL_VERSION := 0x15
def PID_VENDORID := 0x16
def PID_UNICAST_LOCATOR := 0x2f
def PID_MULTICAST_LOCATOR := 0x30
def PID_DEFAULT_UNICAST_LOCATOR := 0x31
def PID_DEFAULT_MULTICAST_LOCATOR := 0x48
def PID_METATRAFFIC_UNICAST_LOCATOR := 0x32
def PID_METATRAFFIC_MULTICAST_LOCATOR := 0x33
def PID_EXPECTS_INLINE_QOS := 0x43
def PID_PARTICIPANT_MANUAL_LIVELINESS_COUNT := 0x34
def PID_PARTICIPANT_LEASE_DURATION := 0x02
def PID_PARTICIPANT_GUID := 0x50
def PID_BUILTIN_ENDPOINT_SET := 0x58
def PID_BUILTIN_ENDPOINT_QOS := 0x77
def PID_ENDPOINT_GUID := 0x5a
def PID_TYPE_INFORMATION := 0x75
def PID_GROUP_ENTITYID := 0x53
def PID_DATA_REPRESENTATION := 0x73
def PID_TYPE_CONSISTENCY_ENFORCEMENT := 0x74

def infSec : Int := 2147483647
def infNs : Nat := 4294967295
def dInf : List PVal := [.i infSec, .n infNs]                 -- DurationKind::Infinite
def dZero : List PVal := [.i 0, .n 0]
def dKey0 : List PVal := [.bs (zeros 16)]
def dEmpty : List PVal := [.bs []]
def dLiv : List PVal := [.i 0, .i infSec, .n infNs]
def dRelWriter : List PVal := [.i 2, .i 0, .n 100000000]      -- DEFAULT_RELIABILITY_QOS_POLICY_DATA_WRITER
def dRelReader : List PVal := [.i 1, .i 0, .n 100000000]      -- .._DATA_READER_AND_TOPICS
def dPres : List PVal := [.i 0, .b false, .b false]
def dTce : List PVal := [.i 1, .b true, .b true, .b false, .b false, .b false]
def dHist : List PVal := [.i 0, .i 1]
def dLimits : List PVal := [.i 2147483647, .i 2147483647, .i 2147483647]
def dEntityUnknown : List PVal := [.bs [0, 0, 0], .n 0]
def dLease : List PVal := [.i 100, .n 0]                      -- DEFAULT_PARTICIPANT_LEASE_DURATION

/-- SpdpDiscoveredParticipantData::into_bytes (spdp_discovered_participant_data.rs:146) -/
def participantEnc : List EncField := [
  ⟨PID_USER_DATA, cOctets, .omitIf dEmpty⟩,
  ⟨PID_PARTICIPANT_GUID, cKey, .always⟩,
  ⟨PID_DOMAIN_ID, pI32, .ifSome⟩,
  ⟨PID_DOMAIN_TAG, pStr, .omitIf dEmpty⟩,
  ⟨PID_PROTOCOL_VERSION, pArr2, .always⟩,
  ⟨PID_VENDORID, pArr2, .always⟩,
  ⟨PID_EXPECTS_INLINE_QOS, pBool, .omitIf [.b false]⟩,
  ⟨PID_METATRAFFIC_UNICAST_LOCATOR, pLocator, .each⟩,
  ⟨PID_METATRAFFIC_MULTICAST_LOCATOR, pLocator, .each⟩,
  ⟨PID_DEFAULT_UNICAST_LOCATOR, pLocator, .each⟩,
  ⟨PID_DEFAULT_MULTICAST_LOCATOR, pLocator, .each⟩,
  ⟨PID_BUILTIN_ENDPOINT_SET, pU32, .always⟩,
  ⟨PID_PARTICIPANT_MANUAL_LIVELINESS_COUNT, pI32, .omitIf [.i 0]⟩,
  ⟨PID_BUILTIN_ENDPOINT_QOS, pU32, .omitIf [.n 0]⟩,
  ⟨PID_PARTICIPANT_LEASE_DURATION, pDuration, .always⟩]

/-- SpdpDiscoveredParticipantData::from_bytes (:212) -/
def participantDec : List DecField := [
  ⟨PID_PARTICIPANT_GUID, cKey, .required⟩,
  ⟨PID_USER_DATA, cOctets, .optional dEmpty⟩,
  ⟨PID_DOMAIN_ID, pI32, .requiredOk⟩,
  ⟨PID_DOMAIN_TAG, pStr, .optional dEmpty⟩,
  ⟨PID_PROTOCOL_VERSION, pArr2, .required⟩,
  ⟨PID_VENDORID, pArr2, .required⟩,
  ⟨PID_EXPECTS_INLINE_QOS, pBool, .optional [.b false]⟩,
  ⟨PID_METATRAFFIC_UNICAST_LOCATOR, pLocator, .list⟩,
  ⟨PID_METATRAFFIC_MULTICAST_LOCATOR, pLocator, .list⟩,
  ⟨PID_DEFAULT_UNICAST_LOCATOR, pLocator, .list⟩,
  ⟨PID_DEFAULT_MULTICAST_LOCATOR, pLocator, .list⟩,
  ⟨PID_BUILTIN_ENDPOINT_SET, pU32, .required⟩,
  ⟨PID_PARTICIPANT_MANUAL_LIVELINESS_COUNT, pI32, .optional [.i 0]⟩,
  ⟨PID_BUILTIN_ENDPOINT_QOS, pU32, .optional [.n 0]⟩,
  ⟨PID_PARTICIPANT_LEASE_DURATION, pDuration, .optional dLease⟩]

/-- DiscoveredWriterData::into_bytes (discovered_writer_data.rs:40) -/
def publicationEnc : List EncField := [
  ⟨PID_ENDPOINT_GUID, cKey, .always⟩,
  ⟨PID_PARTICIPANT_GUID, cKey, .always⟩,
  ⟨PID_TOPIC_NAME, cName, .always⟩,
  ⟨PID_TYPE_NAME, cName, .always⟩,
  ⟨PID_TYPE_INFORMATION, cBlob, .blobIfSome⟩,
  ⟨PID_DURABILITY, cDurability, .omitIf [.i 0]⟩,
  ⟨PID_DEADLINE, cDurK, .omitIf dInf⟩,
  ⟨PID_LATENCY_BUDGET, cDurK, .omitIf dZero⟩,
  ⟨PID_LIVELINESS, cLiveliness, .omitIf dLiv⟩,
  ⟨PID_RELIABILITY, cReliability, .omitIf dRelWriter⟩,
  ⟨PID_LIFESPAN, cDurK, .omitIf dInf⟩,
  ⟨PID_USER_DATA, cOctets, .omitIf dEmpty⟩,
  ⟨PID_OWNERSHIP, cKind2, .omitIf [.i 0]⟩,
  ⟨PID_OWNERSHIP_STRENGTH, cInt, .omitIf [.i 0]⟩,
  ⟨PID_DESTINATION_ORDER, cKind2, .omitIf [.i 0]⟩,
  ⟨PID_PRESENTATION, cPresentation, .omitIf dPres⟩,
  ⟨PID_PARTITION, cPartition, .omitIf [.ss []]⟩,
  ⟨PID_TOPIC_DATA, cOctets, .omitIf dEmpty⟩,
  ⟨PID_GROUP_DATA, cOctets, .omitIf dEmpty⟩,
  ⟨PID_DATA_REPRESENTATION, cRepr, .omitIf [.ns []]⟩,
  ⟨PID_GROUP_ENTITYID, pEntityId, .omitIf dEntityUnknown⟩,
  ⟨PID_UNICAST_LOCATOR, pLocator, .each⟩,
  ⟨PID_MULTICAST_LOCATOR, pLocator, .each⟩]

/-- DiscoveredWriterData::from_bytes (:122) -/
def publicationDec : List DecField := [
  ⟨PID_ENDPOINT_GUID, cKey, .optional dKey0⟩,
  ⟨PID_PARTICIPANT_GUID, cKey, .optional dKey0⟩,
  ⟨PID_TOPIC_NAME, cName, .optional dEmpty⟩,
  ⟨PID_TYPE_NAME, cName, .optional dEmpty⟩,
  ⟨PID_TYPE_INFORMATION, cBlob, .typeInfo true⟩,
  ⟨PID_DURABILITY, cDurability, .optional [.i 0]⟩,
  ⟨PID_DEADLINE, cDurK, .optional dInf⟩,
  ⟨PID_LATENCY_BUDGET, cDurK, .optional dZero⟩,
  ⟨PID_LIVELINESS, cLiveliness, .optional dLiv⟩,
  ⟨PID_RELIABILITY, cReliability, .optional dRelWriter⟩,
  ⟨PID_LIFESPAN, cDurK, .optional dInf⟩,
  ⟨PID_USER_DATA, cOctets, .optional dEmpty⟩,
  ⟨PID_OWNERSHIP, cKind2, .optional [.i 0]⟩,
  ⟨PID_OWNERSHIP_STRENGTH, cInt, .optional [.i 0]⟩,
  ⟨PID_DESTINATION_ORDER, cKind2, .optional [.i 0]⟩,
  ⟨PID_PRESENTATION, cPresentation, .optional dPres⟩,
  ⟨PID_PARTITION, cPartition, .optional [.ss []]⟩,
  ⟨PID_TOPIC_DATA, cOctets, .optional dEmpty⟩,
  ⟨PID_GROUP_DATA, cOctets, .optional dEmpty⟩,
  ⟨PID_DATA_REPRESENTATION, cRepr, .optional [.ns []]⟩,
  ⟨PID_GROUP_ENTITYID, pEntityId, .optional dEntityUnknown⟩,
  ⟨PID_UNICAST_LOCATOR, pLocator, .list⟩,
  ⟨PID_MULTICAST_LOCATOR, pLocator, .list⟩]

/-- DiscoveredReaderData::into_bytes (discovered_reader_data.rs:42) -/
def subscriptionEnc : List EncField := [
  ⟨PID_ENDPOINT_GUID, cKey, .always⟩,
  ⟨PID_PARTICIPANT_GUID, cKey, .always⟩,
  ⟨PID_TOPIC_NAME, cName, .always⟩,
  ⟨PID_TYPE_NAME, cName, .always⟩,
  ⟨PID_TYPE_INFORMATION, cBlob, .blobIfSome⟩,
  ⟨PID_DURABILITY, cDurability, .omitIf [.i 0]⟩,
  ⟨PID_DEADLINE, cDurK, .omitIf dInf⟩,
  ⟨PID_LATENCY_BUDGET, cDurK, .omitIf dZero⟩,
  ⟨PID_LIVELINESS, cLiveliness, .omitIf dLiv⟩,
  ⟨PID_RELIABILITY, cReliability, .omitIf dRelReader⟩,
  ⟨PID_OWNERSHIP, cKind2, .omitIf [.i 0]⟩,
  ⟨PID_DESTINATION_ORDER, cKind2, .omitIf [.i 0]⟩,
  ⟨PID_USER_DATA, cOctets, .omitIf dEmpty⟩,
  ⟨PID_TIME_BASED_FILTER, cDurK, .omitIf dZero⟩,
  ⟨PID_PRESENTATION, cPresentation, .omitIf dPres⟩,
  ⟨PID_PARTITION, cPartition, .omitIf [.ss []]⟩,
  ⟨PID_TOPIC_DATA, cOctets, .omitIf dEmpty⟩,
  ⟨PID_GROUP_DATA, cOctets, .omitIf dEmpty⟩,
  ⟨PID_DATA_REPRESENTATION, cRepr, .omitIf [.ns []]⟩,
  ⟨PID_TYPE_CONSISTENCY_ENFORCEMENT, cTce, .omitIf dTce⟩,
  ⟨PID_GROUP_ENTITYID, pEntityId, .omitIf dEntityUnknown⟩,
  ⟨PID_UNICAST_LOCATOR, pLocator, .each⟩,
  ⟨PID_MULTICAST_LOCATOR, pLocator, .each⟩,
  ⟨PID_EXPECTS_INLINE_QOS, pBool, .omitIf [.b false]⟩]

/-- DiscoveredReaderData::from_bytes (:140) -/
def subscriptionDec : List DecField := [
  ⟨PID_ENDPOINT_GUID, cKey, .optional dKey0⟩,
  ⟨PID_PARTICIPANT_GUID, cKey, .optional dKey0⟩,
  ⟨PID_TOPIC_NAME, cName, .optional dEmpty⟩,
  ⟨PID_TYPE_NAME, cName, .optional dEmpty⟩,
  ⟨PID_TYPE_INFORMATION, cBlob, .typeInfo true⟩,
  ⟨PID_DURABILITY, cDurability, .optional [.i 0]⟩,
  ⟨PID_DEADLINE, cDurK, .optional dInf⟩,
  ⟨PID_LATENCY_BUDGET, cDurK, .optional dZero⟩,
  ⟨PID_LIVELINESS, cLiveliness, .optional dLiv⟩,
  ⟨PID_RELIABILITY, cReliability, .optional dRelReader⟩,
  ⟨PID_OWNERSHIP, cKind2, .optional [.i 0]⟩,
  ⟨PID_DESTINATION_ORDER, cKind2, .optional [.i 0]⟩,
  ⟨PID_USER_DATA, cOctets, .optional dEmpty⟩,
  ⟨PID_TIME_BASED_FILTER, cDurK, .optional dZero⟩,
  ⟨PID_PRESENTATION, cPresentation, .optional dPres⟩,
  ⟨PID_PARTITION, cPartition, .optional [.ss []]⟩,
  ⟨PID_TOPIC_DATA, cOctets, .optional dEmpty⟩,
  ⟨PID_GROUP_DATA, cOctets, .optional dEmpty⟩,
  ⟨PID_DATA_REPRESENTATION, cRepr, .optional [.ns []]⟩,
  ⟨PID_TYPE_CONSISTENCY_ENFORCEMENT, cTce, .optional dTce⟩,
  ⟨PID_GROUP_ENTITYID, pEntityId, .optional dEntityUnknown⟩,
  ⟨PID_UNICAST_LOCATOR, pLocator, .list⟩,
  ⟨PID_MULTICAST_LOCATOR, pLocator, .list⟩,
  ⟨PID_EXPECTS_INLINE_QOS, pBool, .optional [.b false]⟩]

/-- DiscoveredTopicData::into_bytes (discovered_topic_data.rs:28) -/
def topicEnc : List EncField := [
  ⟨PID_ENDPOINT_GUID, cKey, .always⟩,
  ⟨PID_TOPIC_NAME, cName, .always⟩,
  ⟨PID_TYPE_NAME, cName, .always⟩,
  ⟨PID_TYPE_INFORMATION, cBlob, .blobIfSome⟩,
  ⟨PID_DURABILITY, cDurability, .omitIf [.i 0]⟩,
  ⟨PID_DEADLINE, cDurK, .omitIf dInf⟩,
  ⟨PID_LATENCY_BUDGET, cDurK, .omitIf dZero⟩,
  ⟨PID_LIVELINESS, cLiveliness, .omitIf dLiv⟩,
  ⟨PID_RELIABILITY, cReliability, .omitIf dRelReader⟩,
  ⟨PID_TRANSPORT_PRIORITY, cInt, .omitIf [.i 0]⟩,
  ⟨PID_LIFESPAN, cDurK, .omitIf dInf⟩,
  ⟨PID_DESTINATION_ORDER, cKind2, .omitIf [.i 0]⟩,
  ⟨PID_HISTORY, cHistory, .omitIf dHist⟩,
  ⟨PID_RESOURCE_LIMITS, cLimits, .omitIf dLimits⟩,
  ⟨PID_OWNERSHIP, cKind2, .omitIf [.i 0]⟩,
  ⟨PID_TOPIC_DATA, cOctets, .omitIf dEmpty⟩,
  ⟨PID_DATA_REPRESENTATION, cRepr, .omitIf [.ns []]⟩]

/-- DiscoveredTopicData::from_bytes (:99) -/
def topicDec : List DecField := [
  ⟨PID_ENDPOINT_GUID, cKey, .optional dKey0⟩,
  ⟨PID_TOPIC_NAME, cName, .optional dEmpty⟩,
  ⟨PID_TYPE_NAME, cName, .optional dEmpty⟩,
  ⟨PID_TYPE_INFORMATION, cBlob, .typeInfo false⟩,
  ⟨PID_DURABILITY, cDurability, .optional [.i 0]⟩,
  ⟨PID_DEADLINE, cDurK, .optional dInf⟩,
  ⟨PID_LATENCY_BUDGET, cDurK, .optional dZero⟩,
  ⟨PID_LIVELINESS, cLiveliness, .optional dLiv⟩,
  ⟨PID_RELIABILITY, cReliability, .optional dRelReader⟩,
  ⟨PID_TRANSPORT_PRIORITY, cInt, .optional [.i 0]⟩,
  ⟨PID_LIFESPAN, cDurK, .optional dInf⟩,
  ⟨PID_DESTINATION_ORDER, cKind2, .optional [.i 0]⟩,
  ⟨PID_HISTORY, cHistory, .optional dHist⟩,
  ⟨PID_RESOURCE_LIMITS, cLimits, .optional dLimits⟩,
  ⟨PID_OWNERSHIP, cKind2, .optional [.i 0]⟩,
  ⟨PID_TOPIC_DATA, cOctets, .optional dEmpty⟩,
  ⟨PID_DATA_REPRESENTATION, cRepr, .optional [.ns []]⟩]

end DustVerif.Plist
