/-! Model of the three worker channels of `dds/src/dcps/channels/{oneshot,mpsc,notification}.rs`.

Every channel keeps its state in `Arc<critical_section::Mutex<RefCell<Inner>>>`; every access is one
`critical_section::with(|cs| …)` block. A model step is exactly one such block (suffix `CS`), transcribed as
it is. A waker is an id (`Nat`); `wake()` is reported as an output of the step that calls it.

On top of the code state (`One`, `Mpsc`, `Notif`) the `…Sys` structures add
* the *typestate* that Rust ownership enforces (which handles are alive; a step that ownership forbids is
  `illegal` and changes nothing), and
* *ghost* history (what was sent / received, which receiver is still waiting un-woken) used only by theorems.

An execution of the threads that own the handles is an arbitrary interleaving of critical sections = an
arbitrary list of steps. The mpsc channel is modelled WITH fixes/D39.patch (sender counting); `MpscSys.stepOld` keeps
the code before the patch as a regression witness. Import-free. -/
namespace DustVerif.Chan

/-- result of a receiver poll: `ready v` = `Poll::Ready(Ok(v))` / `Ready(Some(v))`, `closed` =
    `Ready(Err(AlreadyDeleted))` / `Ready(None)`, `pending` = `Poll::Pending` -/
inductive Res where
  | ready (v : Nat)
  | closed
  | pending
  deriving DecidableEq, Repr

/-- output of one step -/
inductive Out where
  /-- a sender-side critical section ran; `woke` = waker on which `wake()` was called -/
  | sender (ok : Bool) (woke : Option Nat)
  | polled (r : Res)
  /-- ownership-only step (no critical section): handle dropped -/
  | unit
  /-- not expressible in Rust: the handle was already consumed/dropped -/
  | illegal
  /-- integer underflow in a debug build (`sender_count -= 1` at 0) -/
  | panic
  deriving DecidableEq, Repr

/-- clear the ghost `waiting` mark when its waker is woken -/
def clearWaiting (waiting : Option Nat) (woke : Option Nat) : Option Nat :=
  match woke with
  | none => waiting
  | some w => if waiting = some w then none else waiting

/-- the ghost `waiting` mark after a poll by waker `w` -/
def pollWaiting (r : Res) (w : Nat) : Option Nat :=
  match r with
  | .pending => some w
  | _ => none

/-! ## one-shot (oneshot.rs) -/

/-- `OneshotInner<T>` oneshot.rs:38-42 -/
structure One where
  data : Option Nat
  waker : Option Nat
  hasSender : Bool
  deriving DecidableEq, Repr

/-- oneshot.rs:24-36 -/
def One.init : One :=
  { data := none
    waker := none
    hasSender := true }

/-- `OneshotSender::send` critical section, oneshot.rs:50-56 (`data.replace(value)`, `waker.take()` + `wake()`) -/
def One.sendCS (c : One) (v : Nat) : One × Option Nat :=
  ({ c with data := some v, waker := none }, c.waker)

/-- `Drop for OneshotSender`, oneshot.rs:61-71. Runs also at the end of `send(self, …)` because `self` is dropped there. -/
def One.dropCS (c : One) : One × Option Nat :=
  ({ c with hasSender := false, waker := none }, c.waker)

/-- `Future for OneshotReceiver::poll`, oneshot.rs:81-93 -/
def One.pollCS (c : One) (w : Nat) : One × Res :=
  match c.data with
  | some v => ({ c with data := none }, .ready v)
  | none =>
    if c.hasSender then ({ c with waker := some w }, .pending)
    else (c, .closed)

/-- ownership state of the (unique, non-clonable) sender -/
inductive SenderSt where
  /-- sender handle exists, `send` not called -/
  | alive
  /-- inside `send(self, v)`: first critical section done, implicit drop of `self` still to come -/
  | sending
  | dropped
  deriving DecidableEq, Repr

structure OneSys where
  ch : One
  snd : SenderSt
  rcvAlive : Bool
  /-- ghost: the value passed to `send` -/
  sentVal : Option Nat
  /-- ghost: values returned as `Ready(Ok(v))` so far, oldest first -/
  got : List Nat
  /-- ghost: `some w` iff the last poll returned `Pending` with waker `w` and `w` has not been woken since -/
  waiting : Option Nat
  deriving DecidableEq, Repr

def OneSys.init : OneSys :=
  { ch := One.init
    snd := .alive
    rcvAlive := true
    sentVal := none
    got := []
    waiting := none }

inductive OneOp where
  /-- first critical section of `send(self, v)` -/
  | sendCS (v : Nat)
  /-- `Drop for OneshotSender` (explicit drop, or the implicit one that ends `send`) -/
  | dropSender
  | poll (w : Nat)
  | dropReceiver
  deriving DecidableEq, Repr

def gotAdd (got : List Nat) (r : Res) : List Nat :=
  match r with
  | .ready v => got ++ [v]
  | _ => got

def OneSys.step (s : OneSys) : OneOp → OneSys × Out
  | .sendCS v =>
    match s.snd with
    | .alive =>
      let (c, wk) := s.ch.sendCS v
      ({ s with ch := c, snd := .sending, sentVal := some v, waiting := clearWaiting s.waiting wk }, .sender true wk)
    | _ => (s, .illegal)
  | .dropSender =>
    match s.snd with
    | .dropped => (s, .illegal)
    | _ =>
      let (c, wk) := s.ch.dropCS
      ({ s with ch := c, snd := .dropped, waiting := clearWaiting s.waiting wk }, .sender true wk)
  | .poll w =>
    if s.rcvAlive then
      let (c, r) := s.ch.pollCS w
      ({ s with ch := c, got := gotAdd s.got r, waiting := pollWaiting r w }, .polled r)
    else (s, .illegal)
  | .dropReceiver =>
    -- no Drop impl for OneshotReceiver: only the Arc is released; a registered waker stays in the slot
    if s.rcvAlive then ({ s with rcvAlive := false, waiting := none }, .unit) else (s, .illegal)

def OneSys.run (s : OneSys) : List OneOp → OneSys
  | [] => s
  | op :: ops => OneSys.run (s.step op).1 ops

/-- outputs of a run, one per step -/
def OneSys.outs (s : OneSys) : List OneOp → List Out
  | [] => []
  | op :: ops => (s.step op).2 :: OneSys.outs (s.step op).1 ops

/-! ## multi-producer queue (mpsc.rs, WITH fixes/D39.patch: sender counting) -/

/-- `MpscInner<T>` (front of the `VecDeque` = head of the list); `senderCount` is added by fixes/D39.patch -/
structure Mpsc where
  data : List Nat
  waker : Option Nat
  isClosed : Bool
  senderCount : Nat
  deriving DecidableEq, Repr

/-- `mpsc_channel()` -/
def Mpsc.init : Mpsc :=
  { data := []
    waker := none
    isClosed := false
    senderCount := 1 }

/-- `MpscSender::send`; `ok = false` is `Err(MpscSenderError::Closed)` -/
def Mpsc.sendCS (c : Mpsc) (v : Nat) : Mpsc × Bool × Option Nat :=
  if c.isClosed then (c, false, none)
  else ({ c with data := c.data ++ [v], waker := none }, true, c.waker)

/-- `Future for MpscReceiverFuture::poll` -/
def Mpsc.pollCS (c : Mpsc) (w : Nat) : Mpsc × Res :=
  match c.data with
  | v :: rest => ({ c with data := rest }, .ready v)
  | [] =>
    if c.isClosed then (c, .closed)
    else ({ c with waker := some w }, .pending)

/-- `Clone for MpscSender` with fixes/D39.patch: one critical section that counts the new handle -/
def Mpsc.cloneCS (c : Mpsc) : Mpsc :=
  { c with senderCount := c.senderCount + 1 }

/-- `Drop for MpscSender` (added by fixes/D39.patch): the last handle closes the channel and wakes the receiver;
    `none` = `sender_count -= 1` underflows (debug panic) -/
def Mpsc.dropCS (c : Mpsc) : Option (Mpsc × Option Nat) :=
  if c.senderCount = 0 then none
  else if c.senderCount - 1 = 0 then some ({ c with senderCount := 0, isClosed := true, waker := none }, c.waker)
  else some ({ c with senderCount := c.senderCount - 1 }, none)

structure MpscSys where
  ch : Mpsc
  /-- typestate: ids of the sender handles that exist -/
  senders : List Nat
  rcvAlive : Bool
  /-- a step hit the modelled debug panic -/
  panicked : Bool
  /-- ghost: every value accepted by `send`, in order -/
  sent : List Nat
  /-- ghost: every value returned by `receive`, in order -/
  got : List Nat
  waiting : Option Nat
  deriving DecidableEq, Repr

def MpscSys.init : MpscSys :=
  { ch := Mpsc.init
    senders := [0]
    rcvAlive := true
    panicked := false
    sent := []
    got := []
    waiting := none }

inductive MpscOp where
  | send (sid : Nat) (v : Nat)
  | clone (sid : Nat) (new : Nat)
  | dropSender (sid : Nat)
  | poll (w : Nat)
  | dropReceiver
  deriving DecidableEq, Repr

def hasId (l : List Nat) (i : Nat) : Bool :=
  match l with
  | [] => false
  | x :: xs => if x = i then true else hasId xs i

def removeId (l : List Nat) (i : Nat) : List Nat :=
  match l with
  | [] => []
  | x :: xs => if x = i then xs else x :: removeId xs i

def MpscSys.step (s : MpscSys) : MpscOp → MpscSys × Out
  | .send sid v =>
    if hasId s.senders sid then
      match s.ch.sendCS v with
      | (c, true, wk) =>
        ({ s with ch := c, sent := s.sent ++ [v], waiting := clearWaiting s.waiting wk }, .sender true wk)
      | (c, false, wk) => ({ s with ch := c }, .sender false wk)
    else (s, .illegal)
  | .clone sid new =>
    if hasId s.senders sid && !hasId s.senders new then
      ({ s with ch := s.ch.cloneCS, senders := s.senders ++ [new] }, .unit)
    else (s, .illegal)
  | .dropSender sid =>
    if hasId s.senders sid then
      match s.ch.dropCS with
      | none => ({ s with panicked := true }, .panic)
      | some (c, wk) =>
        ({ s with ch := c, senders := removeId s.senders sid, waiting := clearWaiting s.waiting wk }, .sender true wk)
    else (s, .illegal)
  | .poll w =>
    if s.rcvAlive then
      let (c, r) := s.ch.pollCS w
      ({ s with ch := c, got := gotAdd s.got r, waiting := pollWaiting r w }, .polled r)
    else (s, .illegal)
  | .dropReceiver =>
    if s.rcvAlive then ({ s with rcvAlive := false, waiting := none }, .unit) else (s, .illegal)

def MpscSys.run (s : MpscSys) : List MpscOp → MpscSys
  | [] => s
  | op :: ops => MpscSys.run (s.step op).1 ops

/-- the code BEFORE fixes/D39.patch (kept as regression witness): `Clone` was an `Arc` clone, there was no
    `Drop for MpscSender`, so both were ownership-only steps and `is_closed` was never set -/
def MpscSys.stepOld (s : MpscSys) : MpscOp → MpscSys × Out
  | .clone sid new =>
    if hasId s.senders sid && !hasId s.senders new then ({ s with senders := s.senders ++ [new] }, .unit)
    else (s, .illegal)
  | .dropSender sid =>
    if hasId s.senders sid then ({ s with senders := removeId s.senders sid }, .unit)
    else (s, .illegal)
  | op => s.step op

def MpscSys.runOld (s : MpscSys) : List MpscOp → MpscSys
  | [] => s
  | op :: ops => MpscSys.runOld (s.stepOld op).1 ops

/-- what `receive` must answer according to the property: the oldest queued value; `closed` exactly when the queue
    is empty and no sender handle exists; otherwise wait -/
def mpscPollSpec (queue : List Nat) (senders : List Nat) : Res :=
  match queue with
  | v :: _ => .ready v
  | [] => if senders.isEmpty then .closed else .pending

/-! ## notification (notification.rs) -/

/-- `NotificationInner` notification.rs:27-31 -/
structure Notif where
  notified : Bool
  waker : Option Nat
  senderCount : Nat
  deriving DecidableEq, Repr

/-- notification.rs:13-25 -/
def Notif.init : Notif :=
  { notified := false
    waker := none
    senderCount := 1 }

/-- `Clone for NotificationSender`, notification.rs:37-46 -/
def Notif.cloneCS (c : Notif) : Notif :=
  { c with senderCount := c.senderCount + 1 }

/-- `NotificationSender::notify`, notification.rs:49-57 -/
def Notif.notifyCS (c : Notif) : Notif × Option Nat :=
  ({ c with notified := true, waker := none }, c.waker)

/-- `Drop for NotificationSender`, notification.rs:60-74; `none` = `sender_count -= 1` underflows (debug panic) -/
def Notif.dropCS (c : Notif) : Option (Notif × Option Nat) :=
  if c.senderCount = 0 then none
  else if c.senderCount - 1 = 0 then some ({ c with senderCount := 0, waker := none }, c.waker)
  else some ({ c with senderCount := c.senderCount - 1 }, none)

/-- `Future for NotificationReceiver::poll`, notification.rs:83-97 -/
def Notif.pollCS (c : Notif) (w : Nat) : Notif × Res :=
  if c.notified then ({ c with notified := false }, .ready 0)
  else if c.senderCount = 0 then (c, .closed)
  else ({ c with waker := some w }, .pending)

structure NotifSys where
  ch : Notif
  senders : List Nat
  rcvAlive : Bool
  /-- a step hit the modelled debug panic -/
  panicked : Bool
  /-- ghost: number of `notify` calls since the last poll that returned `Ready(Ok(()))` -/
  unseen : Nat
  waiting : Option Nat
  deriving DecidableEq, Repr

def NotifSys.init : NotifSys :=
  { ch := Notif.init
    senders := [0]
    rcvAlive := true
    panicked := false
    unseen := 0
    waiting := none }

inductive NotifOp where
  | notify (sid : Nat)
  | clone (sid : Nat) (new : Nat)
  | dropSender (sid : Nat)
  | poll (w : Nat)
  | dropReceiver
  deriving DecidableEq, Repr

def unseenAfter (n : Nat) (r : Res) : Nat :=
  match r with
  | .ready _ => 0
  | _ => n

def NotifSys.step (s : NotifSys) : NotifOp → NotifSys × Out
  | .notify sid =>
    if hasId s.senders sid then
      let (c, wk) := s.ch.notifyCS
      ({ s with ch := c, unseen := s.unseen + 1, waiting := clearWaiting s.waiting wk }, .sender true wk)
    else (s, .illegal)
  | .clone sid new =>
    if hasId s.senders sid && !hasId s.senders new then
      ({ s with ch := s.ch.cloneCS, senders := s.senders ++ [new] }, .unit)
    else (s, .illegal)
  | .dropSender sid =>
    if hasId s.senders sid then
      match s.ch.dropCS with
      | none => ({ s with panicked := true }, .panic)
      | some (c, wk) =>
        ({ s with ch := c, senders := removeId s.senders sid, waiting := clearWaiting s.waiting wk }, .sender true wk)
    else (s, .illegal)
  | .poll w =>
    if s.rcvAlive then
      let (c, r) := s.ch.pollCS w
      ({ s with ch := c, unseen := unseenAfter s.unseen r, waiting := pollWaiting r w }, .polled r)
    else (s, .illegal)
  | .dropReceiver =>
    if s.rcvAlive then ({ s with rcvAlive := false, waiting := none }, .unit) else (s, .illegal)

def NotifSys.run (s : NotifSys) : List NotifOp → NotifSys
  | [] => s
  | op :: ops => NotifSys.run (s.step op).1 ops

/-- what the receiver must answer according to the property -/
def notifPollSpec (unseen : Nat) (senders : List Nat) : Res :=
  if unseen > 0 then .ready 0
  else if senders.isEmpty then .closed
  else .pending

end DustVerif.Chan
