import DustVerif.Model.Time
import DustVerif.Model.Deadline
/-
Model of the DDS worker's sleep computation (property C31) and of the worker loop as far as its periodic duties go
(shared world of the engines `worker` and `deadline`), transcribed from

  * dds/src/dds_async/domain_participant_factory.rs:283-357  the worker loop: `next_task_time` = `poke_time.min(..)` over
    six `time_until_*` values, `timer.delay(next_task_time.into())`, then the periodic duties of every participant
  * dds/src/dcps/dcps_domain_participant/participant_entity.rs:113-207 the `time_until_*` functions
  * dds/src/dcps/infrastructure/time.rs:162 `From<Duration> for core::time::Duration` (`x.sec as u64`)
  * dds/src/dcps/dcps_domain_participant/discovery_methods.rs:228-243 remove_stale_participants, :465-480
    remove_stale_writer_samples; writer_methods.rs:695-708 check_pending_writer_sample_timeout, :360-395 blocked write

Durations are integers in nanoseconds (see Model/Deadline.lean); the conversion to a (sec, nanosec) pair and the cast
`sec as u64` are explicit (`toDur`, `toCoreNs`), because the property is about exactly this cast.
`nextTaskAsIs` is the pinned code (no clamp), `nextTask` the code with fixes/D36.patch (`.max(Duration::new(0, 0))`).
-/
namespace DustVerif.Worker
open DustVerif.Time DustVerif.Deadline

def NSI : Int := 1000000000
def POKE : Int := 50000000
def TWO64 : Nat := 18446744073709551616

/-- a (possibly negative) nanosecond count as the normalised `Duration { sec: i32, nanosec: u32 }` the code holds -/
def toDur (x : Int) : Dur := { sec := x / NSI, ns := (x % NSI).toNat }

/-- time.rs:162 `core::time::Duration::new(x.sec as u64, x.nanosec)` in nanoseconds, as the simulator records it
    (`as_nanos().min(u64::MAX)`) -/
def toCoreNs (d : Dur) : Nat :=
  let s : Nat := (d.sec % (TWO64 : Int)).toNat
  min (s * 1000000000 + d.ns) (TWO64 - 1)

def optMin (a : Int) : Option Int → Int
  | none => a
  | some b => min a b

/-- the six `time_until_*` values of one loop iteration (None = nothing to wait for) -/
structure Untils where
  readerDeadline : Option Int
  writerDeadline : Option Int
  staleParticipant : Option Int
  staleSample : Option Int
  pendingWrite : Option Int
  announcement : Option Int
deriving Repr, DecidableEq

/-- domain_participant_factory.rs:300-306 as pinned -/
def nextTaskAsIs (u : Untils) : Int :=
  optMin (optMin (optMin (optMin (optMin (optMin POKE u.readerDeadline) u.writerDeadline) u.staleParticipant)
    u.staleSample) u.pendingWrite) u.announcement

/-- with fixes/D36.patch: `.max(Duration::new(0, 0))` -/
def nextTask (u : Untils) : Int := max (nextTaskAsIs u) 0

/-- the delay handed to `Timer::delay`, in nanoseconds -/
def requestedAsIs (u : Untils) : Nat := toCoreNs (toDur (nextTaskAsIs u))
def requested (u : Untils) : Nat := toCoreNs (toDur (nextTask u))

/-! ### world of the scenario sub-language -/

def LEASE : Int := 100000000000     -- discovery_methods.rs:138 `lease_duration: Duration::new(100, 0)`

structure WriterW where
  name : String
  id : Nat
  part : String
  tname : String
  reliable : Bool
  strength : Int := 0
  exclusive : Bool := false
  keepLast : Option Nat := none
  lifespan : Option Int := none
  maxBlocking : Option Int := none
  dl : Deadline.Writer := { period := none }
  changes : List (Int × Int) := []          -- (key, source timestamp) of the changes in the history cache
  pending : Option Int := none               -- expiration time of the blocked write
  listens : Bool := false                    -- recording listener with mask OFFERED_DEADLINE_MISSED installed
deriving Repr

structure Sample where
  key : Int
  value : Int
  ts : Int
  writer : Nat
deriving Repr, DecidableEq

structure ReaderW where
  name : String
  part : String
  tname : String
  reliable : Bool
  exclusive : Bool := false
  minSep : Int := 0
  dl : Deadline.Reader := { period := none }
  pubs : List Deadline.Pub := []
  samples : List Sample := []
  listens : Bool := false                    -- recording listener with mask REQUESTED_DEADLINE_MISSED installed
deriving Repr

structure World where
  now : Int := 0
  parts : List String := []
  groups : List (String × String) := []       -- publisher / subscriber name -> participant
  topics : List (String × String × String) := []   -- topic entity -> (participant, DDS topic name)
  writers : List WriterW := []
  readers : List ReaderW := []
  peersAlive : Bool := false                  -- discovered-participant entries exist (all stamped at time 0)
  acksDropped : Bool := false
  wrote : Bool := false
  lastReq : Int × Nat := (0, 50000000)        -- (virtual time, requested ns) of the worker's current sleep
  sleeps : List (Int × Nat) := []             -- since the last `timers`: last request per instant
  log : List String := []
  timedOut : Bool := false
deriving Repr

def until_ (w : World) : Untils :=
  { readerDeadline := minList (w.readers.filterMap (fun r => untilReader r.dl w.now))
    writerDeadline := minList (w.writers.filterMap (fun x => untilWriter x.dl w.now))
    staleParticipant := if w.peersAlive then some (LEASE - (w.now - 0)) else none
    staleSample := minList (w.writers.filterMap (fun x => match x.lifespan with
      | none => none
      | some l => minList (x.changes.map (fun c => c.2 + l - w.now))))
    pendingWrite := minList (w.writers.filterMap (fun x => match x.pending with
      | none => none
      | some e => some (if e > w.now then e - w.now else 0)))
    -- participant_announcement_interval is set to 1000 s by every scenario (`config announce=`): never below the poke period
    announcement := none }

def pushSleep (l : List (Int × Nat)) (e : Int × Nat) : List (Int × Nat) :=
  match l.getLast? with
  | some x => if x.1 == e.1 then l.dropLast ++ [e] else l ++ [e]
  | none => [e]

def showKey (k : Int) : String := s!"h({k})"

/-- the periodic duties of one loop iteration at `w.now` (domain_participant_factory.rs:320-357, modelled part) -/
def duties (w : World) : World :=
  -- remove_stale_participants: `now - last_communication_timestamp > lease_duration`
  let w := if w.peersAlive && decide (w.now - 0 > LEASE) then { w with peersAlive := false } else w
  -- check_missed_reader_deadline
  let (rs, rlog) := w.readers.foldl (fun (acc : List ReaderW × List String) r =>
    let (d, missed) := checkReader r.dl w.now
    let base := r.dl.total
    let lines := (List.range missed.length).map (fun i =>
      s!"{r.name}.on_requested_deadline_missed t={w.now} total={base + i + 1} last={showKey (missed.getD i 0)}")
    (acc.1 ++ [{ r with dl := d }], acc.2 ++ (if r.listens then lines else []))) ([], [])
  -- check_missed_writer_deadline
  let (ws, wlog) := w.writers.foldl (fun (acc : List WriterW × List String) x =>
    let (d, missed) := checkWriter x.dl w.now
    let base := x.dl.total
    let lines := (List.range missed.length).map (fun i =>
      s!"{x.name}.on_offered_deadline_missed t={w.now} total={base + i + 1} last={showKey (missed.getD i 0)}")
    (acc.1 ++ [{ x with dl := d }], acc.2 ++ (if x.listens then lines else []))) ([], [])
  -- remove_stale_writer_samples: keep `source_timestamp + lifespan > now`
  let ws := ws.map (fun x => match x.lifespan with
    | none => x
    | some l => { x with changes := x.changes.filter (fun c => decide (c.2 + l > w.now)) })
  -- check_pending_writer_sample_timeout: `now >= expiration_time`
  let timed := ws.any (fun x => match x.pending with
    | some e => decide (w.now ≥ e)
    | none => false)
  let ws := ws.map (fun x => match x.pending with
    | some e => if w.now ≥ e then { x with pending := none } else x
    | none => x)
  { w with readers := rs, writers := ws, log := w.log ++ rlog ++ wlog, timedOut := w.timedOut || timed }

/-- loop top (:287-311): compute the next sleep from the state the duties left and hand it to the timer -/
def sleep (w : World) : World :=
  let d := requested (until_ w)
  { w with lastReq := (w.now, d), sleeps := pushSleep w.sleeps (w.now, d) }

/-- one loop iteration: duties, then the next sleep -/
def iterate (w : World) : World := sleep (duties w)

def wakeAt (w : World) : Int := w.lastReq.1 + (max w.lastReq.2 1 : Nat)

/-- `advance`: time moves from timer to timer until `target` -/
def runUntil : Nat → World → Int → World
  | 0, w, _ => w
  | fuel + 1, w, target =>
    if wakeAt w ≤ target then runUntil fuel (iterate { w with now := wakeAt w }) target
    else { w with now := target }

/-- a blocked write: time moves from timer to timer until the pending write is resolved -/
def runBlocked : Nat → World → World
  | 0, w => w
  | fuel + 1, w =>
    if w.writers.any (fun x => x.pending.isSome) then runBlocked fuel (iterate { w with now := wakeAt w })
    else w

/-- the late-timer directive: the clock jumps; if the worker's timer became due it fires once, late -/
def jump (w : World) (dt : Int) : World :=
  let w' := { w with now := w.now + dt }
  if wakeAt w ≤ w'.now then iterate w' else w'

def findWriter (w : World) (n : String) : Option WriterW := w.writers.find? (fun x => x.name == n)
def findReader (w : World) (n : String) : Option ReaderW := w.readers.find? (fun x => x.name == n)
def setWriter (w : World) (x : WriterW) : World :=
  { w with writers := w.writers.map (fun y => if y.name == x.name then x else y) }
def setReader (w : World) (r : ReaderW) : World :=
  { w with readers := w.readers.map (fun y => if y.name == r.name then r else y) }

def durLe (a b : Option Int) : Bool :=
  match a, b with
  | _, none => true
  | none, some _ => false
  | some x, some y => x ≤ y

/-- RxO restricted to the knobs of the sub-language -/
def compatible (x : WriterW) (r : ReaderW) : Bool :=
  x.tname == r.tname && (x.reliable || !r.reliable) && durLe x.dl.period r.dl.period && x.exclusive == r.exclusive

def matchedReaders (w : World) (x : WriterW) : List ReaderW :=
  if w.peersAlive || w.parts.length ≤ 1 then w.readers.filter (compatible x) else []

/-- time-based filter (data_reader_entity.rs:436-460): compared with the closest stored sample of the instance
    whose source timestamp is not later -/
def passesTbf (r : ReaderW) (k ts : Int) : Bool :=
  match minList ((r.samples.filter (fun s => s.key == k && decide (s.ts ≤ ts))).map (fun s => -s.ts)) with
  | none => true
  | some m => decide (ts - (-m) ≥ r.minSep)

def dropOldest (k : Int) : List (Int × Int) → List (Int × Int)
  | [] => []
  | c :: r => if c.1 == k then r else c :: dropOldest k r

def countKey (k : Int) (l : List (Int × Int)) : Nat := (l.filter (fun c => c.1 == k)).length

/-- does a write of instance `k` block (writer_methods.rs:360-395)? -/
def blocks (w : World) (x : WriterW) (k : Int) : Bool :=
  match x.keepLast with
  | some d => x.reliable && countKey k x.changes == d && w.acksDropped
      && (matchedReaders w x).any (fun r => r.reliable)
  | none => false

/-- a successful `write_w_timestamp` of (k, v) with source timestamp `ts` at `w.now`, delivered to the matched readers -/
def doWrite (w : World) (x : WriterW) (k v ts : Int) : World :=
  let x := { x with dl := { x.dl with insts := wWrite k ts x.dl.insts } }
  let expiredOnArrival := match x.lifespan with
    | some l => decide (ts - w.now + l ≤ 0)
    | none => false
  if expiredOnArrival then setWriter w x
  else
    let ch := match x.keepLast with
      | some d => if countKey k x.changes == d then dropOldest k x.changes else x.changes
      | none => x.changes
    let x := { x with changes := ch ++ [(k, ts)] }
    let w := setWriter w x
    (matchedReaders w x).foldl (fun w r =>
      let stored := passesTbf r k ts
      let (d, ok) := receive r.dl r.pubs r.exclusive k x.id w.now stored
      let r := { r with dl := d }
      setReader w (if ok then { r with samples := r.samples ++ [{ key := k, value := v, ts := ts, writer := x.id }] } else r)) w

end DustVerif.Worker
