/-! Model of `DcpsStatusCondition` (dds/src/dcps/status_condition.rs) and of the algorithm of
`WaitSetAsync::wait` (dds/src/dds_async/wait_set.rs:40-81).

All accesses to a status condition are executed by the single DCPS worker, one mail at a time
(`dcps_mail_handler.rs:1026-1051` dispatches to `status_condition_methods.rs`, which looks the entity up and calls
the method below). A `wait` call is a task that sends one mail per `.await` and finally awaits its private
notification channel. A model step is therefore either one status-condition method executed by the worker on
behalf of the application / the middleware (`add`, `remove`, `enable`), or the next suspension point of one `wait`
call (`wstep`): the worker processes the mail the call is blocked on and the task runs to its next `.await`.
Every interleaving of status changes, reads, `set_enabled_statuses` calls and concurrent `wait` calls is a step list.

`fx = true` is the code WITH `fixes/D37.patch` (set_enabled_statuses notifies); `fx = false` the code as it was.

Conditions and `wait` calls are identified by natural numbers; the state maps are total functions (unused indices
hold the initial value). Import-free. -/
namespace DustVerif.Cond

/-- `StatusKind` as the bit index of `StatusMask::status_kind_bit` (status_mask.rs:13-29): 0 = InconsistentTopic …
    8 = DataAvailable … 12 = SubscriptionMatched -/
abbrev Kind := Nat

/-- all 13 kinds enabled: `Default for DcpsStatusCondition` status_condition.rs:35-59 -/
def DEFAULT_MASK : Nat := 8191

/-- `DcpsStatusCondition` status_condition.rs:29-33. `waiters` = `registered_notifications`, each
    `NotificationSender` clone identified by the `wait` call that owns the receiver. -/
structure Cond where
  enabled : Nat
  changes : List Kind
  waiters : List Nat
  deriving DecidableEq, Repr

def Cond.init : Cond :=
  { enabled := DEFAULT_MASK
    changes := []
    waiters := [] }

/-- the loop of `get_trigger_value` status_condition.rs:84-91 (`is_enabled` = bit test, status_mask.rs:9-11) -/
def anyEnabled (mask : Nat) : List Kind → Bool
  | [] => false
  | k :: ks => if mask.testBit k then true else anyEnabled mask ks

def Cond.trigger (c : Cond) : Bool := anyEnabled c.enabled c.changes

/-- `add_communication_state` status_condition.rs:62-70; second component = senders on which `notify()` is called -/
def Cond.add (c : Cond) (k : Kind) : Cond × List Nat :=
  let c1 := { c with changes := c.changes ++ [k] }
  if c1.trigger then ({ c1 with waiters := [] }, c1.waiters) else (c1, [])

/-- `Vec::retain(|x| x != &state)` -/
def removeAll (k : Kind) : List Kind → List Kind
  | [] => []
  | x :: xs => if x = k then removeAll k xs else x :: removeAll k xs

/-- `remove_communication_state` status_condition.rs:72-74 (called when the application reads the status) -/
def Cond.remove (c : Cond) (k : Kind) : Cond :=
  { c with changes := removeAll k c.changes }

/-- `set_enabled_statuses` status_condition.rs:80-82 as it was: no notification (defect D37) -/
def Cond.setEnabledAsIs (c : Cond) (mask : Nat) : Cond × List Nat :=
  ({ c with enabled := mask }, [])

/-- `set_enabled_statuses` with fixes/D37.patch: notify and drain when the new mask makes the trigger true -/
def Cond.setEnabledFixed (c : Cond) (mask : Nat) : Cond × List Nat :=
  let c1 := { c with enabled := mask }
  if c1.trigger then ({ c1 with waiters := [] }, c1.waiters) else (c1, [])

def Cond.setEnabled (fx : Bool) (c : Cond) (mask : Nat) : Cond × List Nat :=
  if fx then c.setEnabledFixed mask else c.setEnabledAsIs mask

/-- `register_notification` status_condition.rs:93-99 -/
def Cond.register (c : Cond) (w : Nat) : Cond × List Nat :=
  if c.trigger then (c, [w]) else ({ c with waiters := c.waiters ++ [w] }, [])

/-- where one `WaitSetAsync::wait` call stands -/
inductive Phase where
  /-- no such call -/
  | idle
  /-- first loop wait_set.rs:49-53: blocked on `get_trigger_value` of the `i`-th attached condition; `acc` = triggered so far -/
  | check (i : Nat) (acc : List Nat)
  /-- loop wait_set.rs:62-70: blocked on `register_notification` for the `i`-th attached condition -/
  | register (i : Nat)
  /-- wait_set.rs:73 `notification_receiver.await` returned Pending (its waker is registered) -/
  | await
  /-- second loop wait_set.rs:74-78 -/
  | collect (i : Nat) (acc : List Nat)
  /-- returned `Ok(res)` -/
  | done (res : List Nat)
  /-- returned `Err(PreconditionNotMet)` (no attached conditions) wait_set.rs:41-45 -/
  | failed
  deriving DecidableEq, Repr

/-- one `wait` call with its private notification channel (`notified`, `wakerSet` = `NotificationInner.notified`,
    `.waker.is_some()` of notification.rs; the original sender lives until `wait` returns, so `sender_count > 0`) -/
structure Waiter where
  conds : List Nat
  phase : Phase
  notified : Bool
  wakerSet : Bool
  deriving DecidableEq, Repr

def Waiter.init : Waiter :=
  { conds := []
    phase := .idle
    notified := false
    wakerSet := false }

structure Sys where
  conds : Nat → Cond
  waiters : Nat → Waiter

def Sys.init : Sys :=
  { conds := fun _ => Cond.init
    waiters := fun _ => Waiter.init }

def upd {α : Type} (f : Nat → α) (i : Nat) (v : α) : Nat → α :=
  fun j => if j = i then v else f j

/-- `NotificationSender::notify` (notification.rs:49-57) on the channel of call `j`; second component: `[j]` iff a
    waker was registered, i.e. `wake()` is called -/
def notifyOne (ws : Nat → Waiter) (j : Nat) : (Nat → Waiter) × List Nat :=
  (upd ws j { ws j with notified := true, wakerSet := false }, if (ws j).wakerSet then [j] else [])

def notifyAll (ws : Nat → Waiter) : List Nat → (Nat → Waiter) × List Nat
  | [] => (ws, [])
  | j :: js =>
    let r1 := notifyOne ws j
    let r2 := notifyAll r1.1 js
    (r2.1, r1.2 ++ r2.2)

inductive Op where
  | add (c : Nat) (k : Kind)
  | remove (c : Nat) (k : Kind)
  | enable (c : Nat) (mask : Nat)
  /-- call `wait` on a wait set with the attached conditions `cs`; runs to the first `.await` -/
  | start (w : Nat) (cs : List Nat)
  /-- next suspension point of call `w` -/
  | wstep (w : Nat)
  deriving DecidableEq, Repr

/-- what the step reports: trigger value of the touched condition afterwards and the calls whose waker was woken -/
structure Out where
  legal : Bool
  trig : Bool
  woke : List Nat
  deriving DecidableEq, Repr

def nth (l : List Nat) (i : Nat) : Nat := l.getD i 0

/-- the poll of `notification_receiver` (notification.rs:83-97) by call `w` followed, when it is Ready, by the start of
    the second loop -/
def awaitPoll (x : Waiter) : Waiter :=
  if x.notified then { x with notified := false, phase := .collect 0 [] }
  else { x with wakerSet := true, phase := .await }

/-- phase after the `i`-th answer of a checking loop; `n` = number of attached conditions -/
def afterCheck (x : Waiter) (i : Nat) (acc : List Nat) : Waiter :=
  if i + 1 < x.conds.length then { x with phase := .check (i + 1) acc }
  else if acc.isEmpty then { x with phase := .register 0 }
  else { x with phase := .done acc }

/-- call after its `i`-th `register_notification` was answered: next registration, or the first poll of the receiver -/
def regNext (x : Waiter) (i : Nat) : Waiter :=
  if i + 1 < x.conds.length then { x with phase := .register (i + 1) } else awaitPoll x

def afterCollect (x : Waiter) (i : Nat) (acc : List Nat) : Waiter :=
  if i + 1 < x.conds.length then { x with phase := .collect (i + 1) acc }
  else { x with phase := .done acc }

def Sys.step (fx : Bool) (s : Sys) : Op → Sys × Out
  | .add c k =>
    let r := (s.conds c).add k
    let n := notifyAll s.waiters r.2
    ({ conds := upd s.conds c r.1, waiters := n.1 }, { legal := true, trig := r.1.trigger, woke := n.2 })
  | .remove c k =>
    let c1 := (s.conds c).remove k
    ({ s with conds := upd s.conds c c1 }, { legal := true, trig := c1.trigger, woke := [] })
  | .enable c m =>
    let r := (s.conds c).setEnabled fx m
    let n := notifyAll s.waiters r.2
    ({ conds := upd s.conds c r.1, waiters := n.1 }, { legal := true, trig := r.1.trigger, woke := n.2 })
  | .start w cs =>
    match (s.waiters w).phase with
    | .idle =>
      let x : Waiter := { Waiter.init with conds := cs, phase := if cs.isEmpty then .failed else .check 0 [] }
      ({ s with waiters := upd s.waiters w x }, { legal := true, trig := false, woke := [] })
    | _ => (s, { legal := false, trig := false, woke := [] })
  | .wstep w =>
    let x := s.waiters w
    match x.phase with
    | .check i acc =>
      let c := nth x.conds i
      let t := (s.conds c).trigger
      let acc' := if t then acc ++ [c] else acc
      ({ s with waiters := upd s.waiters w (afterCheck x i acc') }, { legal := true, trig := t, woke := [] })
    | .register i =>
      let c := nth x.conds i
      let r := (s.conds c).register w
      let n := notifyAll s.waiters r.2
      ({ conds := upd s.conds c r.1, waiters := upd n.1 w (regNext (n.1 w) i) },
        { legal := true, trig := r.1.trigger, woke := n.2 })
    | .await =>
      ({ s with waiters := upd s.waiters w (awaitPoll x) }, { legal := true, trig := false, woke := [] })
    | .collect i acc =>
      let c := nth x.conds i
      let t := (s.conds c).trigger
      let acc' := if t then acc ++ [c] else acc
      ({ s with waiters := upd s.waiters w (afterCollect x i acc') }, { legal := true, trig := t, woke := [] })
    | _ => (s, { legal := false, trig := false, woke := [] })

def Sys.run (fx : Bool) (s : Sys) : List Op → Sys
  | [] => s
  | op :: ops => Sys.run fx (s.step fx op).1 ops

end DustVerif.Cond
