/-
Model of dds/src/dcps/dcps_domain_participant/data_reader_entity.rs (InstanceState,
add_reader_change, create_sample_collection, next_instance) and the read/take and
read/take_next_instance wrappers of user_defined_data_reader.rs.
Handles are Nat (the harness maps them to 16-byte arrays whose byte order equals numeric order);
times are total nanoseconds. Import-free.
-/
namespace DustVerif.Hist

inductive Kind | alive | aliveFiltered | disposed | unregistered | disposedUnregistered
deriving DecidableEq, Repr

inductive IState | alive | disposed | noWriters
deriving DecidableEq, Repr

inductive Reject | samples | instances | spi
deriving DecidableEq, Repr

structure Sample where
  kind : Kind
  writer : Nat
  inst : Nat
  sts : Option Nat
  data : String
  read : Bool
  dgc : Int
  nwgc : Int
deriving DecidableEq, Repr

structure Inst where
  h : Nat
  viewNew : Bool
  st : IState
  dgc : Int
  nwgc : Int
  lastRecv : Nat
deriving DecidableEq, Repr

structure Own where
  inst : Nat
  owner : Nat
  lastRecv : Nat
deriving DecidableEq, Repr

structure Qos where
  depth : Option Nat        -- none = KEEP_ALL
  maxSamples : Option Nat   -- none = unlimited
  maxInst : Option Nat
  maxSpi : Option Nat
  bySource : Bool
  exclusive : Bool
  minSep : Option Nat       -- none = infinite
deriving Repr

structure RejStatus where
  total : Int
  change : Int
  reason : Option Reject
  inst : Nat
deriving Repr

structure St where
  samples : List Sample
  insts : List Inst
  owns : List Own
  pubs : List (Nat × Int)
  qos : Qos
  enabled : Bool
  rej : RejStatus
deriving Repr

inductive AddRes | added | notAdded | rejected (h : Nat) (why : Reject) | error
deriving DecidableEq, Repr

/-- TIME_INVALID normalised by Time::new(-1, 0xffffffff) = (3 s, 294967295 ns) -/
def TIME_INVALID_NS : Nat := 3294967295

def Kind.isAliveKind : Kind → Bool
  | .alive => true
  | .aliveFiltered => true
  | _ => false

def Inst.new (h : Nat) : Inst :=
  { h := h, viewNew := true, st := .alive, dgc := 0, nwgc := 0, lastRecv := TIME_INVALID_NS }

/-- InstanceState::update_state (data_reader_entity.rs:49) -/
def Inst.update (i : Inst) (k : Kind) (now : Option Nat) : Inst :=
  let i1 : Inst :=
    match i.st with
    | .alive =>
      if k = .disposed ∨ k = .disposedUnregistered then { i with st := .disposed }
      else if k = .unregistered then { i with st := .noWriters }
      else i
    | .disposed => if k = .alive then { i with st := .alive, dgc := i.dgc + 1, viewNew := true } else i
    | .noWriters => if k = .alive then { i with st := .alive, nwgc := i.nwgc + 1, viewNew := true } else i
  match now with
  | some t => { i1 with lastRecv := t }
  | none => i1

/-- `update_state` before the repair of D28 (view_state set NEW on dispose/unregister, never on rebirth);
    kept only as the regression witness -/
def Inst.updateOld (i : Inst) (k : Kind) (now : Option Nat) : Inst :=
  let i1 : Inst :=
    match i.st with
    | .alive =>
      if k = .disposed ∨ k = .disposedUnregistered then { i with st := .disposed }
      else if k = .unregistered then { i with st := .noWriters }
      else i
    | .disposed => if k = .alive then { i with st := .alive, dgc := i.dgc + 1 } else i
    | .noWriters => if k = .alive then { i with st := .alive, nwgc := i.nwgc + 1 } else i
  let i2 : Inst :=
    if i1.viewNew then i1
    else if k = .disposed ∨ k = .unregistered then { i1 with viewNew := true } else i1
  match now with
  | some t => { i2 with lastRecv := t }
  | none => i2

def findInst (h : Nat) : List Inst → Option Inst
  | [] => none
  | i :: is => if i.h = h then some i else findInst h is

/-- apply `f` to the first instance with handle `h` -/
def mapInst (h : Nat) (f : Inst → Inst) : List Inst → List Inst
  | [] => []
  | i :: is => if i.h = h then f i :: is else i :: mapInst h f is

/-- the alive/not-alive prologue of add_reader_change: update or create the instance -/
def touchInst (insts : List Inst) (h : Nat) (k : Kind) (now : Nat) : Option (List Inst) :=
  match findInst h insts with
  | some _ => some (mapInst h (fun i => i.update k (some now)) insts)
  | none => if k.isAliveKind then some (insts ++ [(Inst.new h).update k (some now)]) else none

def findOwn (h : Nat) : List Own → Option Own
  | [] => none
  | o :: os => if o.inst = h then some o else findOwn h os

def mapOwn (h : Nat) (f : Own → Own) : List Own → List Own
  | [] => []
  | o :: os => if o.inst = h then f o :: os else o :: mapOwn h f os

def eraseOwn (h : Nat) : List Own → List Own
  | [] => []
  | o :: os => if o.inst = h then os else o :: eraseOwn h os

def findPub (w : Nat) : List (Nat × Int) → Option Int
  | [] => none
  | p :: ps => if p.1 = w then some p.2 else findPub w ps

/-- sample belongs to instance `h` -/
def isInst (h : Nat) (s : Sample) : Bool := s.inst == h
/-- sample is an ALIVE sample (ChangeKind::Alive only) of instance `h` -/
def isAliveOf (h : Nat) (s : Sample) : Bool := s.inst == h && s.kind == Kind.alive
def isAlive (s : Sample) : Bool := s.kind == Kind.alive

def cnt (p : Sample → Bool) : List Sample → Nat
  | [] => 0
  | s :: ss => (if p s then 1 else 0) + cnt p ss

/-- remove the first sample satisfying `p` -/
def eraseFirst (p : Sample → Bool) : List Sample → List Sample
  | [] => []
  | s :: ss => if p s then ss else s :: eraseFirst p ss

/-- distinct instance handles in storage order -/
def distinctInsts : List Sample → List Nat → List Nat
  | [], acc => acc
  | s :: ss, acc => if acc.contains s.inst then distinctInsts ss acc else distinctInsts ss (acc ++ [s.inst])

/-- Option<Time> order: None < Some -/
def optLe : Option Nat → Option Nat → Bool
  | none, _ => true
  | some _, none => false
  | some a, some b => a ≤ b
def optLt : Option Nat → Option Nat → Bool
  | none, none => false
  | none, some _ => true
  | some _, none => false
  | some a, some b => a < b

/-- max of the Option<Time> stamps of instance-`h` samples that are ≤ `ts`; outer none = no such sample -/
def closestBefore (h : Nat) (ts : Option Nat) : List Sample → Option (Option Nat)
  | [] => none
  | s :: ss =>
    let rest := closestBefore h ts ss
    if s.inst == h && optLe s.sts ts then
      match rest with
      | none => some s.sts
      | some r => if optLt s.sts r then some r else some s.sts
    else rest

/-- is_sample_of_interest_based_on_time (data_reader_entity.rs:434) -/
def timeOk (q : Qos) (samples : List Sample) (h : Nat) (ts : Option Nat) : Bool :=
  match closestBefore h ts samples, ts with
  | some (some t), some st =>
    match q.minSep with
    | none => false                 -- Finite(sep) >= Infinite is false
    | some m => decide (m ≤ st - t)
  | _, _ => true

/-- insertion index for BY_SOURCE_TIMESTAMP: first stored stamp greater than the new one, else the end -/
def insertPos (ts : Option Nat) : List Sample → Nat
  | [] => 0
  | s :: ss => if optLt ts s.sts then 0 else 1 + insertPos ts ss

def insertAt (s : Sample) : Nat → List Sample → List Sample
  | 0, l => s :: l
  | _ + 1, [] => [s]
  | n + 1, x :: xs => x :: insertAt s n xs

def limitHit (lim : Option Nat) (n : Nat) : Bool :=
  match lim with
  | none => false
  | some l => l == n

/-- 1 when KEEP_LAST(depth) and the instance already holds `depth` ALIVE samples (the oldest is replaced) -/
def replacedCount (q : Qos) (samples : List Sample) (h : Nat) : Nat :=
  match q.depth with
  | some d => if d = cnt (isAliveOf h) samples then 1 else 0
  | none => 0

/-- KEEP_LAST replacement followed by the destination-order insertion -/
def storeSample (q : Qos) (samples : List Sample) (x : Sample) : List Sample :=
  let samples3 := if replacedCount q samples x.inst = 1 then eraseFirst (isAliveOf x.inst) samples else samples
  if q.bySource then insertAt x (insertPos x.sts samples3) samples3 else samples3 ++ [x]

/-- third part of add_reader_change: resource limits, KEEP_LAST replacement, second state update,
    insertion, ownership time stamp (data_reader_entity.rs:461-610) -/
def finishAdd (s2 : St) (x : Sample) (rts : Nat) : St × AddRes :=
  let h := x.inst
  let replaced := replacedCount s2.qos s2.samples h
  let totalAlive := cnt isAlive s2.samples
  let dl := distinctInsts s2.samples []
  let instHit := !dl.contains h && limitHit s2.qos.maxInst dl.length
  let nInst := cnt (isInst h) s2.samples
  let rej (why : Reject) : St × AddRes :=
    ({ s2 with rej := { total := s2.rej.total + 1, change := s2.rej.change + 1, reason := some why, inst := h } },
     .rejected h why)
  if limitHit s2.qos.maxSamples (totalAlive - replaced) then rej .samples
  else if instHit then rej .instances
  else if limitHit s2.qos.maxSpi (nInst - replaced) then rej .spi
  else
    let insts4 := match touchInst s2.insts h x.kind rts with
      | some l => l
      | none => s2.insts
    let owns4 :=
      if x.kind.isAliveKind then
        match findOwn h s2.owns with
        | some _ => mapOwn h (fun o => if o.lastRecv < rts then { o with lastRecv := rts } else o) s2.owns
        | none => s2.owns ++ [{ inst := h, owner := x.writer, lastRecv := rts }]
      else s2.owns
    ({ s2 with samples := storeSample s2.qos s2.samples x, insts := insts4, owns := owns4 }, .added)

/-- the EXCLUSIVE ownership filter (data_reader_entity.rs:372-418): `none` = sample dropped -/
def ownershipFilter (s1 : St) (w h rts : Nat) : Option (List Own) :=
  if s1.qos.exclusive then
    let blocked : Bool :=
      match findOwn h s1.owns with
      | some o =>
        match findPub o.owner s1.pubs, findPub w s1.pubs with
        | some so, some sw => o.owner != w && decide (sw ≤ so)
        | _, _ => true
      | none => false
    if blocked then none
    else
      match findOwn h s1.owns with
      | some _ => some (mapOwn h (fun o => { o with owner := w }) s1.owns)
      | none => some (s1.owns ++ [{ inst := h, owner := w, lastRecv := rts }])
  else some s1.owns

/-- second part: not-alive changes drop the ownership entry, then the time-based filter -/
def afterOwnership (s1 : St) (owns2 : List Own) (x : Sample) (rts : Nat) : St × AddRes :=
  let owns3 := if x.kind.isAliveKind then owns2 else eraseOwn x.inst owns2
  let s2 := { s1 with owns := owns3 }
  if !timeOk s2.qos s2.samples x.inst x.sts then (s2, .notAdded)
  else finishAdd s2 x rts

/-- generation counters copied into a new sample -/
def gensOf (h : Nat) (insts : List Inst) : Int × Int :=
  match findInst h insts with
  | some i => (i.dgc, i.nwgc)
  | none => (0, 0)

/-- the sample record built by `addChange` -/
def mkSample (w : Nat) (data : String) (k : Kind) (h : Nat) (sts : Option Nat) (dgc nwgc : Int) : Sample :=
  { kind := k, writer := w, inst := h, sts := sts, data := data, read := false, dgc := dgc, nwgc := nwgc }

/-- add_reader_change (data_reader_entity.rs:309) -/
def addChange (s : St) (w : Nat) (data : String) (k : Kind) (h : Nat) (sts : Option Nat) (rts : Nat) :
    St × AddRes :=
  match touchInst s.insts h k rts with
  | none => (s, .error)
  | some insts1 =>
    let s1 := { s with insts := insts1 }
    let x := mkSample w data k h sts (gensOf h insts1).1 (gensOf h insts1).2
    match ownershipFilter s1 w h rts with
    | none => (s1, .notAdded)
    | some owns2 => afterOwnership s1 owns2 x rts

/-! ### read / take -/

structure Masks where
  ss : Nat   -- bit0 = READ, bit1 = NOT_READ
  vs : Nat   -- bit0 = NEW, bit1 = NOT_NEW
  is : Nat   -- bit0 = ALIVE, bit1 = DISPOSED, bit2 = NO_WRITERS
deriving Repr

def bit (m i : Nat) : Bool := (m / 2 ^ i) % 2 == 1

def Masks.okSample (m : Masks) (s : Sample) : Bool := if s.read then bit m.ss 0 else bit m.ss 1
def Masks.okInst (m : Masks) (i : Inst) : Bool :=
  (if i.viewNew then bit m.vs 0 else bit m.vs 1) &&
  (match i.st with
   | .alive => bit m.is 0
   | .disposed => bit m.is 1
   | .noWriters => bit m.is 2)

structure Info where
  data : String
  read : Bool
  viewNew : Bool
  st : IState
  dgc : Int
  nwgc : Int
  srank : Int
  grank : Int
  agrank : Int
  sts : Option Nat
  inst : Nat
  pub : Nat
  valid : Bool
deriving DecidableEq, Repr

/-- does the sample enter the collection? (the retain_mut predicate, without the max_samples cut) -/
def selects (insts : List Inst) (m : Masks) (only : Option Nat) (s : Sample) : Bool :=
  (match only with
   | some h => s.inst == h
   | none => true) &&
  (match findInst s.inst insts with
   | some i => m.okSample s && m.okInst i
   | none => false)

/-- scratch per-collection instance counters (`instances_in_collection`) -/
def collGen (coll : List Inst) (h : Nat) : Int :=
  match findInst h coll with
  | some i => i.dgc + i.nwgc
  | none => 0

def collTouch (coll : List Inst) (h : Nat) (k : Kind) : List Inst :=
  match findInst h coll with
  | some _ => mapInst h (fun i => i.update k none) coll
  | none => coll ++ [(Inst.new h).update k none]

def consKept (s : Sample) (r : List Sample × List Info × List Inst) : List Sample × List Info × List Inst :=
  (s :: r.1, r.2)

/-- SampleInfo of a selected sample (ranks still 0); `coll1` = collection instances after this sample (only
    their handles matter since the repair of D26b: absolute_generation_rank comes from the stored counts) -/
def mkInfo (s : Sample) (i : Inst) (coll1 : List Inst) : Info :=
  { data := s.data
    read := s.read
    viewNew := i.viewNew
    st := i.st
    dgc := s.dgc
    nwgc := s.nwgc
    srank := 0
    grank := 0
    agrank := (i.dgc + i.nwgc) - (s.dgc + s.nwgc)
    sts := s.sts
    inst := s.inst
    pub := s.writer
    valid := s.kind.isAliveKind }

/-- the retain_mut pass: returns (kept samples, collected infos with ranks still 0, collection instances) -/
def collectLoop (insts : List Inst) (m : Masks) (only : Option Nat) (take : Bool) (max : Int) :
    List Sample → List Info → List Inst → List Sample × List Info × List Inst
  | [], acc, coll => ([], acc, coll)
  | s :: ss, acc, coll =>
    if (acc.length : Int) = max then consKept s (collectLoop insts m only take max ss acc coll)
    else if selects insts m only s then
      match findInst s.inst insts with
      | none => consKept s (collectLoop insts m only take max ss acc coll)
      | some i =>
        let coll1 := collTouch coll s.inst s.kind
        let r := collectLoop insts m only take max ss (acc ++ [mkInfo s i coll1]) coll1
        if take then r else consKept { s with read := true } r
    else consKept s (collectLoop insts m only take max ss acc coll)

def lastAgrankOf (h : Nat) : List Info → Option Int
  | [] => none
  | i :: is =>
    match lastAgrankOf h is with
    | some r => some r
    | none => if i.inst = h then some i.agrank else none

def cntInfo (h : Nat) : List Info → Nat
  | [] => 0
  | i :: is => (if i.inst = h then 1 else 0) + cntInfo h is

/-- fill sample_rank / generation_rank: processed per instance in the code; equivalent single pass -/
def fillRanks (all : List Info) : List Info → List Info
  | [] => []
  | i :: is =>
    let mr := match lastAgrankOf i.inst all with
      | some r => r
      | none => 0
    { i with grank := i.agrank - mr, srank := (cntInfo i.inst is : Int) } :: fillRanks all is

def markViewed (coll : List Inst) (insts : List Inst) : List Inst :=
  insts.map (fun i => match findInst i.h coll with
    | some _ => { i with viewNew := false }
    | none => i)

inductive Err | noData | badParameter | notEnabled
deriving DecidableEq, Repr

def unknownInst (insts : List Inst) : Option Nat → Bool
  | some h => (findInst h insts).isNone
  | none => false

/-- create_sample_collection (data_reader_entity.rs:152) -/
def collect (s : St) (max : Int) (m : Masks) (only : Option Nat) (take : Bool) : St × Except Err (List Info) :=
  if unknownInst s.insts only then (s, .error .badParameter)
  else
    let r := collectLoop s.insts m only take max s.samples [] []
    let infos2 := fillRanks r.2.1 r.2.1
    let s' := { s with samples := r.1, insts := markViewed r.2.2 s.insts }
    if infos2.isEmpty then (s', .error .noData) else (s', .ok infos2)

def readOrTake (s : St) (max : Int) (m : Masks) (only : Option Nat) (take : Bool) : St × Except Err (List Info) :=
  if !s.enabled then (s, .error .notEnabled) else collect s max m only take

/-- `h > previous_handle` (no previous handle: every instance qualifies) -/
def afterB (prev : Option Nat) (h : Nat) : Bool :=
  match prev with
  | some p => decide (p < h)
  | none => true

def niStep (prev : Option Nat) (best : Option Nat) (i : Inst) : Option Nat :=
  if afterB prev i.h then
    match best with
    | some b => if i.h < b then some i.h else some b
    | none => some i.h
  else best

/-- next_instance (data_reader_entity.rs:292): least handle greater than `prev` among known instances -/
def nextInst (insts : List Inst) (prev : Option Nat) : Option Nat :=
  insts.foldl (niStep prev) none

/-- read_next_instance / take_next_instance (user_defined_data_reader.rs:207,237): loop over instances
    without matching samples; fuel = number of instances -/
def nextInstanceLoop (s : St) (max : Int) (m : Masks) (take : Bool) : Nat → Option Nat → St × Except Err (List Info)
  | 0, _ => (s, .error .noData)
  | fuel + 1, prev =>
    match nextInst s.insts prev with
    | none => (s, .error .noData)
    | some h =>
      match readOrTake s max m (some h) take with
      | (_, .error .noData) => nextInstanceLoop s max m take fuel (some h)
      | r => r

def readTakeNextInstance (s : St) (max : Int) (prev : Option Nat) (m : Masks) (take : Bool) :
    St × Except Err (List Info) :=
  if !s.enabled then (s, .error .notEnabled)
  else nextInstanceLoop s max m take (s.insts.length + 1) prev

def St.init (q : Qos) (enabled : Bool) : St :=
  { samples := [], insts := [], owns := [], pubs := [], qos := q, enabled := enabled,
    rej := { total := 0, change := 0, reason := none, inst := 0 } }

/-- add_matched_publication / remove_matched_publication (list part only) -/
def addPub (s : St) (w : Nat) (strength : Int) : St :=
  let rec upd : List (Nat × Int) → List (Nat × Int)
    | [] => [(w, strength)]
    | p :: ps => if p.1 = w then (w, strength) :: ps else p :: upd ps
  { s with pubs := upd s.pubs }

/-- ownership entries not owned by writer `w` -/
def dropOwner (w : Nat) : List Own → List Own
  | [] => []
  | o :: os => if o.owner = w then dropOwner w os else o :: dropOwner w os

def removePub (s : St) (w : Nat) : St :=
  let rec er : List (Nat × Int) → List (Nat × Int)
    | [] => []
    | p :: ps => if p.1 = w then ps else p :: er ps
  match findPub w s.pubs with
  | some _ => { s with pubs := er s.pubs, owns := dropOwner w s.owns }
  | none => s

def getRejStatus (s : St) : St × RejStatus :=
  ({ s with rej := { s.rej with change := 0 } }, s.rej)

end DustVerif.Hist
