import DustVerif.Model.Rtps
/-
DCPS layer around the RTPS endpoints, as far as `wait_for_acknowledgments` and `wait_for_historical_data` go
(import-free apart from Model/Rtps.lean):

  writer side   dcps_domain_participant/writer_methods.rs:564   notify_acknowledgments (answer at once or park the waiter)
                communication_methods.rs:453-483                ACKNACK arm: an accepted ACKNACK drains the wait list when
                                                                is_change_acknowledged(last_change_sequence_number)
                discovery_methods.rs:1321 remove_discovered_reader   (D3 repair: delete the proxy, then drain when acknowledged)
                discovery_methods.rs:2659 remove_discovered_participant (deletes the proxies, does NOT look at the wait list)
                rtps/stateful_writer.rs:66 is_change_acknowledged over ALL reliable proxies, :74 add_matched_reader,
                :133 on_acknowledgement bookkeeping (count filter, highest_acked)
  reader side   reader_methods.rs:522 notify_historical_data, communication_methods.rs:628 (heartbeat arm drains when
                is_historical_data_received), writer_proxy.rs:340 / stateful_reader.rs:157 is_historical_data_received

The writer automaton keeps, per matched reader, only what these functions read: reliability, highest_acked_seq_num and
last_received_acknack_count. Several readers are allowed. The reader automaton is the RTPS reader of Model/Rtps.lean
plus the wait list.
-/
namespace DustVerif.AckWait

structure Proxy where
  rid : Nat
  reliable : Bool
  highestAcked : Nat
  lastAcknack : Nat
deriving DecidableEq, Repr

structure St where
  lastSn : Nat               -- last_change_sequence_number of the DataWriter
  proxies : List Proxy       -- RtpsStatefulWriter::matched_readers
  waiters : List Nat         -- wait_for_acknowledgments_notification (ids of the parked calls, in arrival order)
deriving DecidableEq, Repr

def St.init : St := { lastSn := 0, proxies := [], waiters := [] }

inductive Ev where
  | write                                              -- an accepted write: one more sequence number
  | matchReader (rid : Nat) (reliable : Bool)          -- add_matched_reader (an already matched reader keeps its proxy, D43 repair)
  | acknack (rid : Nat) (base : Nat) (count : Nat)     -- ACKNACK submessage from reader rid
  | unmatch (rid : Nat)                                -- remove_discovered_reader (reader deleted / became incompatible)
  | pgone (rids : List Nat)                            -- remove_discovered_participant: these readers' proxies are deleted
  | waitAck (id : Nat)                                 -- notify_acknowledgments
deriving Repr

def unacked (lastSn : Nat) (p : Proxy) : Bool := p.reliable && lastSn > p.highestAcked

/-- is_change_acknowledged(last_change_sequence_number): no reliable proxy has unacknowledged changes -/
def St.isAck (s : St) : Bool := !(s.proxies.any (unacked s.lastSn))

def hasRid (rid : Nat) (p : Proxy) : Bool := p.rid == rid
def notRid (rid : Nat) (p : Proxy) : Bool := p.rid != rid
def notIn (rids : List Nat) (p : Proxy) : Bool := !(rids.contains p.rid)

/-- the proxy bookkeeping of on_acknack_submessage_received; `none` = the submessage is ignored (`is_some()` false) -/
def ackProxy (p : Proxy) (base count : Nat) : Option Proxy :=
  if p.reliable ∧ count > p.lastAcknack then
    some { p with highestAcked := (if base - 1 > p.highestAcked then base - 1 else p.highestAcked), lastAcknack := count }
  else none

def replaceRid (rid : Nat) (q : Proxy) : List Proxy → List Proxy
  | [] => []
  | p :: ps => if p.rid = rid then q :: ps else p :: replaceRid rid q ps

/-- answer every parked waiter when everything is acknowledged -/
def St.drain (s : St) : St × List Nat :=
  if s.isAck then ({ s with waiters := [] }, s.waiters) else (s, [])

/-- `drainOnGone` = a tree in which remove_discovered_participant drains the wait list too (not the case today) -/
def step (drainOnGone : Bool) (s : St) : Ev → St × List Nat
  | .write => ({ s with lastSn := s.lastSn + 1 }, [])
  | .matchReader rid rel =>
    if s.proxies.any (hasRid rid) then (s, [])
    else ({ s with proxies := s.proxies ++ [{ rid := rid, reliable := rel, highestAcked := 0, lastAcknack := 0 }] }, [])
  | .acknack rid base count =>
    match s.proxies.find? (hasRid rid) with
    | none => (s, [])
    | some p =>
      match ackProxy p base count with
      | none => (s, [])
      | some q => St.drain { s with proxies := replaceRid rid q s.proxies }
  | .unmatch rid =>
    if s.proxies.any (hasRid rid) then St.drain { s with proxies := s.proxies.filter (notRid rid) } else (s, [])
  | .pgone rids =>
    let s' := { s with proxies := s.proxies.filter (notIn rids) }
    if drainOnGone then St.drain s' else (s', [])
  | .waitAck id => if s.isAck then (s, [id]) else ({ s with waiters := s.waiters ++ [id] }, [])

def run (drainOnGone : Bool) (s : St) : List Ev → St
  | [] => s
  | e :: es => run drainOnGone (step drainOnGone s e).1 es

/-! ### reader side: wait_for_historical_data -/

open DustVerif.Rtps

/-- RtpsWriterProxy::is_historical_data_received (writer_proxy.rs:340) -/
def proxyHistReceived (p : WProxy) : Bool := p.lastHbCount > 0 && p.missing.isEmpty

/-- RtpsStatefulReader::is_historical_data_received (stateful_reader.rs:157): every matched writer (none = true) -/
def histReceived (r : Reader) : Bool :=
  match r.proxy with
  | none => true
  | some p => proxyHistReceived p

structure RSt where
  r : Reader
  volatile : Bool
  waiters : List Nat
deriving Repr

inductive REv where
  | sub (s : Sub)            -- one submessage of a datagram addressed to the reader (handle_data)
  | matchWriter              -- add_matched_writer
  | waitHist (id : Nat)      -- notify_historical_data

inductive RAns where
  | none
  | ok (ids : List Nat)
  | illegal (id : Nat)       -- VOLATILE reader: IllegalOperation
deriving DecidableEq, Repr

def isHb : Sub → Bool
  | .hb _ _ _ _ _ => true
  | _ => false

def rstep (cfg : Cfg) (s : RSt) : REv → Out (RSt × RAns × List Dgram)
  | .sub m =>
    match s.r.onSub cfg m with
    | .panic => .panic
    | .ok (r', out) =>
      -- the heartbeat arm looks at the wait list after the proxy was updated (communication_methods.rs:628)
      if isHb m ∧ histReceived r' then .ok ({ s with r := r', waiters := [] }, .ok s.waiters, out)
      else .ok ({ s with r := r' }, .none, out)
  | .matchWriter => .ok ({ s with r := s.r.addMatchedWriter cfg }, .none, [])
  | .waitHist id =>
    if s.volatile then .ok (s, .illegal id, [])
    else if histReceived s.r then .ok (s, .ok [id], [])
    else .ok ({ s with waiters := s.waiters ++ [id] }, .none, [])

/-! ### several matched writers: RtpsStatefulReader::is_historical_data_received is about ALL of them -/

def proxyHistMissing (p : WProxy) : Bool := !proxyHistReceived p

/-- stateful_reader.rs:157 `!self.matched_writers.iter().any(|p| !p.is_historical_data_received())` -/
def histReceivedAll (ps : List WProxy) : Bool := !(ps.any proxyHistMissing)

/-- one RTPS reader state per matched writer (the proxies are independent; the cache is kept per writer here) -/
structure MSt where
  ws : List (Nat × Reader)      -- (writer id, proxy + what was accepted from that writer)
  reliable : Bool
  volatile : Bool
  waiters : List Nat
deriving Repr

def MSt.proxies (s : MSt) : List WProxy := s.ws.filterMap (fun x => x.2.proxy)

inductive MEv where
  | matchWriter (wid : Nat)
  | sub (wid : Nat) (m : Sub)
  | waitHist (id : Nat)

def hasWid (wid : Nat) (x : Nat × Reader) : Bool := x.1 == wid

def replaceWid (wid : Nat) (r : Reader) : List (Nat × Reader) → List (Nat × Reader)
  | [] => []
  | x :: xs => if x.1 = wid then (wid, r) :: xs else x :: replaceWid wid r xs

def mstep (cfg : Cfg) (s : MSt) : MEv → Out (MSt × RAns × List Dgram)
  | .matchWriter wid =>
    if s.ws.any (hasWid wid) then .ok (s, .none, [])
    else .ok ({ s with ws := s.ws ++ [(wid, ({ reliable := s.reliable, proxy := none, cache := [] } : Reader).addMatchedWriter cfg)] }, .none, [])
  | .sub wid m =>
    match s.ws.find? (hasWid wid) with
    | none => .ok (s, .none, [])                      -- no matched writer with that GUID: ignored (but see the heartbeat arm)
    | some x =>
      match x.2.onSub cfg m with
      | .panic => .panic
      | .ok (r', out) =>
        let s' := { s with ws := replaceWid wid r' s.ws }
        if isHb m ∧ histReceivedAll s'.proxies then .ok ({ s' with waiters := [] }, .ok s.waiters, out)
        else .ok (s', .none, out)
  | .waitHist id =>
    if s.volatile then .ok (s, .illegal id, [])
    else if histReceivedAll s.proxies then .ok (s, .ok [id], [])
    else .ok ({ s with waiters := s.waiters ++ [id] }, .none, [])

end DustVerif.AckWait
