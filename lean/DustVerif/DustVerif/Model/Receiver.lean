/-
Model of what a running participant does with one received datagram whose RTPS decoding succeeded:

  * rtps/message_receiver.rs:25-62      the MessageReceiver iterator (INFO_DST / INFO_SRC / INFO_TS / INFO_REPLY / PAD are
                                        consumed, every entity submessage is handed to the dispatch)
  * dcps/dcps_domain_participant/communication_methods.rs:405-527   `handle_data`: the dispatch of each submessage kind
  * :563-593   GAP            -> RtpsWriterProxy::irrelevant_change_set for the range and the set
  * :595-661   HEARTBEAT      -> writer proxy update, `write_message` (ACKNACK / NACK_FRAG reply), `is_historical_data_received`
  * rtps/stateful_reader.rs:64-150      DATA / DATA_FRAG on a RELIABLE reader (sequence-number window, fragment buffer,
                                        `reconstruct_data_from_frag`)
  * rtps/writer_proxy.rs:20-30,155-344  total_fragments_expected, available_changes_max, missing_changes, write_message
  * rtps/stateful_writer.rs:133-288     ACKNACK / NACK_FRAG on a reliable reader proxy, and the "requested changes" part of
                                        `write_message_reliable` (:571-668)
  * rtps_messages/submessage_elements.rs:46-72,132-160   SequenceNumberSet::set, FragmentNumberSet::try_read_from_bytes / new

Every attacker-controlled subtraction, addition, division, index, `expect`, `todo!()` is an explicit `none` (= panic of the
single worker task, debug build with overflow checks). A step counter counts the iterations of every loop whose bound comes
from the datagram. The code is modelled in all its historical forms in one text: `Guards` says which of the repairs are in;
`Guards.none` is the tree as first found (regression witnesses), `Guards.main` the repository's main branch (every repair
committed there, by whatever builder), `Guards.all` = main + fixes/D64.patch + fixes/D65.patch = the delivered tree.

The victim is the participant P2 of the `fuzzdg` scenarios: a reliable reader `ra` with one matched writer (proxy `wp`), a
reliable writer `wb` with one matched reader (proxy `rp`) whose history holds the alive 12-byte samples 1..wbLast, and a
second writer `wq` (no samples yet). Import-free.
-/
namespace DustVerif.Receiver

def I64_MAX : Int := 9223372036854775807
def I64_MIN : Int := -9223372036854775808
def U32_MAX : Nat := 4294967295
def inI64 (v : Int) : Bool := decide (I64_MIN ≤ v ∧ v ≤ I64_MAX)

/-- which repairs are applied -/
structure Guards where
  d5 : Bool     -- FragmentNumberSet decode rejects numBits > 256                      (submessage_elements.rs:141)
  d62 : Bool    -- FragmentNumberSet decode rejects base + offset > u32::MAX           (submessage_elements.rs:152)
  d6 : Bool     -- DATA_FRAG with fragment_size = 0 is ignored                         (stateful_reader.rs:120)
  d7 : Bool     -- INFO_REPLY is skipped instead of `todo!()`                          (message_receiver.rs:41)
  d8 : Bool     -- GAP range handled in O(1)                                           (communication_methods.rs:584)
  d9 : Bool     -- `base - 1` / `first_sn - 1` saturate                                (stateful_writer.rs:151, writer_proxy.rs:164)
  d63 : Bool    -- `+ 1` on sequence numbers saturates, set iteration skips overflow    (writer_proxy.rs:201,284; stateful_reader.rs:81,98,130,136; submessage_elements.rs:63; stateful_writer.rs:263,658)
  d64 : Bool    -- no NACK_FRAG when no fragment is missing by number (was `expect`)    (writer_proxy.rs:309-311)
  d44 : Bool    -- NACK_FRAG set limited to base .. base+255                            (writer_proxy.rs:312)
  d1 : Bool     -- nack_frag_count is incremented; NACK_FRAG fragment numbers are 1-based on the writer side (D1)
  dr1 : Bool    -- write_message purges fragments of changes at or below available_changes_max (D-rtps-1)
  dw3 : Bool    -- octetsToNextHeader = 0 on a kind other than PAD / INFO_TS extends to the end of the message (D-wire-3; used by the driver's decoder)
  dw4 : Bool    -- SequenceNumberSet decode rejects base + numBits - 1 > i64::MAX (D-wire-4)
  d65 : Bool    -- reassembly walks the buffered fragments (sorted) instead of every fragment number (fixes/D65.patch)
deriving Repr, DecidableEq

/-- `d8` now stands for the form on main (D2 + D8): the range is handled in O(1) AND a range / set element is honoured only
    when contiguous with what was received -/
def Guards.none : Guards := ⟨false, false, false, false, false, false, false, false, false, false, false, false, false, false⟩
def Guards.main : Guards := ⟨true, true, true, true, true, true, true, false, true, true, true, true, true, false⟩
def Guards.all : Guards := ⟨true, true, true, true, true, true, true, true, true, true, true, true, true, true⟩

/-- `a + b` on i64 in a debug build (`none` = overflow panic), or saturating when the repair is in -/
def addG (sat : Bool) (a b : Int) : Option Int :=
  if inI64 (a + b) then some (a + b)
  else if sat then some (if a + b > I64_MAX then I64_MAX else I64_MIN)
  else none

/-! ### decoded submessages (field values are arbitrary inside their wire types) -/

abbrev Prefix := List Nat        -- 12 octets
abbrev EntityId := Nat           -- the 4 octets read as a big-endian number

structure SnSet where
  base : Int
  numBits : Nat                  -- ≤ 256 (the decoder of SequenceNumberSet checks it)
  bits : List Nat                -- offsets of the set bits, ascending, each < numBits
deriving Repr, DecidableEq

structure FnSetRaw where
  base : Nat                     -- u32
  numBits : Nat                  -- u32, NOT checked by the decoder as found
  bits : List Nat                -- offsets of set bits among the words present, ascending
deriving Repr, DecidableEq

inductive Sub
  | pad
  | infoTs (invalidate : Bool) (sec frac : Nat)
  | infoDst (p : Prefix)
  | infoSrc (p : Prefix)
  | infoReply
  | data (reader writer : EntityId) (sn : Int) (payload : List Nat)
  | dataFrag (reader writer : EntityId) (sn : Int) (start inSub fsize dsize : Nat) (payload : List Nat)
  | gap (reader writer : EntityId) (start : Int) (set : SnSet)
  | heartbeat (reader writer : EntityId) (first last count : Int) (final live : Bool)
  | hbFrag (reader writer : EntityId) (sn : Int) (lastFrag : Nat) (count : Int)
  | ackNack (reader writer : EntityId) (set : SnSet) (count : Int)
  | nackFrag (reader writer : EntityId) (sn : Int) (set : FnSetRaw) (count : Int)
deriving Repr, DecidableEq

/-! ### state -/

structure Frag where
  sn : Int
  start : Nat
  inSub : Nat
  fsize : Nat
  dsize : Nat
  payload : List Nat
deriving Repr, DecidableEq

/-- RtpsWriterProxy (the fields the receive path touches) -/
structure WProxy where
  first : Int
  last : Int
  highest : Int
  hbCount : Int
  hbFragCount : Int
  mustAck : Bool
  ackCount : Int
  nfCount : Int
  frags : List Frag
deriving Repr, DecidableEq

/-- RtpsReaderProxy of a reliable reader + its HeartbeatMachine counter -/
structure RProxy where
  lastAck : Int
  lastNackFrag : Int
  highestAcked : Int
  requested : List Int
  hbCount : Int
deriving Repr, DecidableEq

/-- a datagram the victim sends in direct reply -/
inductive Reply
  | ackNack (base : Int) (set : List Int) (count : Int) (nf : Option (Int × Nat × List Nat × Int))
  | dataHb (w : EntityId) (sn : Int) (first last hb : Int)
  | dataFrag0 (w : EntityId) (sn : Int)
  | gap (w : EntityId) (start base : Int)
deriving Repr, DecidableEq

structure Victim where
  wp : WProxy            -- proxy of the matched remote writer inside reader `ra`
  rp : RProxy            -- proxy of the matched remote reader inside writer `wb`
  wbLast : Int           -- `wb` holds the alive samples 1..wbLast
  rq : RProxy            -- proxy of the matched remote reader inside writer `wq` (empty history)
  delivered : List Int   -- sequence numbers handed to the DDS reader (`changes.push`)
  replies : List Reply
  steps : Nat
deriving Repr, DecidableEq

/-- identity of the endpoints inside the scenario -/
structure Ids where
  peer : Prefix          -- GUID prefix of the discovered participant P1
  wa : EntityId          -- remote writer matched with `ra`
  rb : EntityId          -- remote reader matched with `wb`
  wb : EntityId          -- own writer
  rqId : EntityId        -- remote reader matched with `wq`
  wq : EntityId          -- own second writer
deriving Repr, DecidableEq

/-- MessageReceiver -/
structure Recv where
  src : Prefix
  haveTs : Bool
  ts : Nat × Nat
deriving Repr, DecidableEq

def wrapI32 (v : Int) : Int :=
  let m := (v + 2147483648) % 4294967296
  m - 2147483648

def tick (v : Victim) (n : Nat) : Victim := { v with steps := v.steps + n }
def say (v : Victim) (r : Reply) : Victim := { v with replies := v.replies ++ [r] }

/-! ### writer proxy (reader side) -/

/-- available_changes_max (writer_proxy.rs:159): `max(first - 1, highest)` -/
def acm (g : Guards) (p : WProxy) : Option Int :=
  match addG g.d9 p.first (-1) with
  | some f1 => some (if f1 ≥ p.highest then f1 else p.highest)
  | none => none

/-- `available_changes_max() + 1` (stateful_reader.rs:81 …, writer_proxy.rs:284) -/
def expected (g : Guards) (p : WProxy) : Option Int :=
  match acm g p with
  | some a => addG g.d63 a 1
  | none => none

/-- missing_changes (writer_proxy.rs:190-204): the inclusive range (lo, hi); empty when lo > hi -/
def missingRange (g : Guards) (p : WProxy) : Option (Int × Int) :=
  match addG g.d63 p.highest 1 with
  | some h1 => some (if p.first ≥ h1 then p.first else h1, if p.last ≥ p.highest then p.last else p.highest)
  | none => none

def rangeCount (r : Int × Int) : Nat := if r.1 ≤ r.2 then (r.2 - r.1 + 1).toNat else 0

/-- the first `n` numbers of the range -/
def rangeFrom (lo : Int) : Nat → List Int
  | 0 => []
  | n + 1 => lo :: rangeFrom (lo + 1) n
def rangeTake (r : Int × Int) (n : Nat) : List Int := rangeFrom r.1 (min n (rangeCount r))

def minFragSn : List Frag → Int
  | [] => I64_MAX
  | f :: fs => if f.sn ≤ minFragSn fs then f.sn else minFragSn fs

def hasFragOf (fs : List Frag) (s : Int) : Bool := fs.any (fun f => f.sn == s)
def findFragOf (fs : List Frag) (s : Int) : Option Frag := fs.find? (fun f => f.sn == s)
def hasStart (fs : List Frag) (s : Int) (n : Nat) : Bool := fs.any (fun f => f.sn == s && f.start == n)

/-- fragment numbers 1..=total not present as `fragment_starting_num`, scanning at most `fuel` numbers;
    returns the numbers found and how many were scanned -/
def missingFrags (fs : List Frag) (s : Int) (total : Nat) : Nat → Nat → List Nat × Nat
  | 0, _ => ([], 0)
  | fuel + 1, k =>
    if k > total then ([], 0)
    else
      let r := missingFrags fs s total fuel (k + 1)
      if hasStart fs s k then (r.1, r.2 + 1) else (k :: r.1, r.2 + 1)

/-- `FragmentNumberSet::new(base, missing fragments)` of write_message (writer_proxy.rs:309-320): `none` = panic,
    `some none` = no NACK_FRAG -/
def nackFragSet (g : Guards) (s : Int) : List Nat → Option (Option (Int × Nat × List Nat))
  | [] => if g.d64 then some none else none                          -- `.expect("At least a fragment must be missing")`
  | b :: rest =>
    let inWin := (b :: rest).takeWhile (fun n => n - b < 256)
    if g.d44 then some (some (s, b, inWin))
    else if inWin.length = (b :: rest).length then some (some (s, b, b :: rest))
    else none                                                         -- bitmap[8]: index out of bounds (D44)

/-- the NACK_FRAG part of write_message (writer_proxy.rs:291-327). `none` = panic. Result: ((sn, base, set) or no
    NACK_FRAG, fragment numbers scanned) -/
def nackFragOf (g : Guards) (p : WProxy) (r : Int × Int) : Option (Option (Int × Nat × List Nat) × Nat) :=
  match (rangeTake r 256).find? (hasFragOf p.frags) with
  | none => some (none, 0)
  | some s =>
    match findFragOf p.frags s with
    | none => some (none, 0)
    | some f =>
      if f.fsize = 0 then none                                       -- div_ceil by zero (unreachable: such a fragment never enters the buffer)
      else
        -- the iterator is consumed lazily: first missing number, then `FragmentNumberSet::new` walks on
        match nackFragSet g s (missingFrags p.frags s ((f.dsize + f.fsize - 1) / f.fsize) (p.frags.length + 258) 1).1 with
        | none => none
        | some x => some (x, (missingFrags p.frags s ((f.dsize + f.fsize - 1) / f.fsize) (p.frags.length + 258) 1).2)

/-- main (D-rtps-1): fragments of changes that are no longer expected are purged before the reply is built
    (`retain(sn > available_changes_max)`, i.e. `sn ≥ base`) -/
def purge (g : Guards) (p : WProxy) (base : Int) : WProxy :=
  if g.dr1 then { p with frags := p.frags.filter (fun f => f.sn ≥ base) } else p

/-- main (D1): nack_frag_count is incremented as soon as a missing change with buffered fragments is found
    (as found: never) -/
def bumpNf (g : Guards) (p : WProxy) (r : Int × Int) : WProxy :=
  if g.d1 ∧ ((rangeTake r 256).find? (hasFragOf p.frags)).isSome then { p with nfCount := wrapI32 (p.nfCount + 1) } else p

/-- RtpsWriterProxy::write_message (writer_proxy.rs:262-340) -/
def proxyWrite (g : Guards) (v : Victim) : Option Victim :=
  let p := v.wp
  match missingRange g p with
  | none => none
  | some r =>
    -- `must_send_acknacks() || !missing_changes().count() == 0` : the second operand is `count == usize::MAX`, never true
    if !p.mustAck then some v
    else
      let p0 := { p with mustAck := false, ackCount := wrapI32 (p.ackCount + 1) }
      match expected g p0 with
      | none => none
      | some base =>
        let p1 := purge g p0 base
        let lim := minFragSn p1.frags
        let set := (rangeTake r 256).takeWhile (fun x => x < lim)
        let p2 := bumpNf g p1 r
        match nackFragOf g p2 r with
        | none => none
        | some (nf, st) =>
          let nf' := nf.map (fun t => (t.1, t.2.1, t.2.2, p2.nfCount))
          some (say (tick { v with wp := p2 } (256 + p0.frags.length + st)) (.ackNack base set p2.ackCount nf'))

/-- is_historical_data_received (writer_proxy.rs:341): evaluated for every user reader on EVERY heartbeat -/
def histReceived (g : Guards) (p : WProxy) : Option Bool :=
  match missingRange g p with
  | some r => some (p.hbCount > 0 && rangeCount r == 0)
  | none => none

/-- handle_heartbeat_submessage for reader `ra` (communication_methods.rs:600-633) -/
def onHeartbeat (g : Guards) (ids : Ids) (rc : Recv) (v : Victim) (writer : EntityId) (first last count : Int)
    (final live : Bool) : Option Victim :=
  let v1 : Option Victim :=
    if rc.src = ids.peer ∧ writer = ids.wa ∧ v.wp.hbCount < count then
      let p := { v.wp with hbCount := count, last := last, first := first }
      match missingRange g p with
      | none => none
      | some r =>
        let must := !final || (!live && rangeCount r > 0)
        proxyWrite g { v with wp := { p with mustAck := must } }
    else some v
  match v1 with
  | none => none
  | some v2 => match histReceived g v2.wp with
    | some _ => some (tick v2 1)
    | none => none

/-- SequenceNumberSet::set (submessage_elements.rs:46-72): `base + delta` for every set bit -/
def snElems (g : Guards) (base : Int) : List Nat → Option (List Int)
  | [] => some []
  | b :: bs =>
    if inI64 (base + (b : Int)) then
      match snElems g base bs with
      | some l => some ((base + (b : Int)) :: l)
      | none => none
    else if g.d63 then snElems g base bs
    else none
def snSetElems (g : Guards) (s : SnSet) : Option (List Int) := snElems g s.base s.bits

def raise (p : WProxy) (s : Int) : WProxy := if s > p.highest then { p with highest := s } else p

/-- irrelevant_change_range_set on main (writer_proxy.rs:172-183): only a range contiguous with what was received counts;
    as found: irrelevant_change_set raises `highest` unconditionally -/
def irrelevant (g : Guards) (p : WProxy) (first last : Int) : Option WProxy :=
  if g.d8 then
    match acm g p with
    | none => none
    | some a =>
      let e := if a + 1 > I64_MAX then I64_MAX else a + 1            -- `.saturating_add(1)`
      some (if first ≤ e ∧ last > p.highest then { p with highest := last } else p)
  else some (raise p last)

def irrelevantEach (g : Guards) : WProxy → List Int → Option WProxy
  | p, [] => some p
  | p, s :: rest => match irrelevant g p s s with
    | none => none
    | some p' => irrelevantEach g p' rest

/-- handle_gap_submessage for reader `ra` (communication_methods.rs:563-593) -/
def onGap (g : Guards) (ids : Ids) (rc : Recv) (v : Victim) (writer : EntityId) (start : Int) (set : SnSet) : Option Victim :=
  if rc.src = ids.peer ∧ writer = ids.wa then
    -- as found: `for seq_num in gap_start..base { irrelevant_change_set(seq_num) }`; main: one irrelevant_change_range_set
    let n : Nat := if start < set.base then (set.base - start).toNat else 0
    match (if start < set.base then irrelevant g v.wp start (set.base - 1) else some v.wp) with
    | none => none
    | some p1 =>
      let v1 := tick { v with wp := p1 } (if g.d8 then 1 else n)
      match snSetElems g set with
      | none => none
      | some l => match irrelevantEach g v1.wp l with
        | none => none
        | some p2 => some (tick { v1 with wp := p2 } set.numBits)
  else some v

/-- received_change_set (writer_proxy.rs:217) -/
def received (p : WProxy) (s : Int) : WProxy :=
  { (raise p s) with frags := p.frags.filter (fun f => f.sn > s) }

/-- on_data_submessage of a RELIABLE reader (stateful_reader.rs:64-112) -/
def onData (g : Guards) (ids : Ids) (rc : Recv) (v : Victim) (writer : EntityId) (s : Int) : Option Victim :=
  if rc.src = ids.peer ∧ writer = ids.wa then
    match expected g v.wp with
    | none => none
    | some e => if s = e then some { v with wp := received v.wp s, delivered := v.delivered ++ [s] } else some v
  else some v

/-- total_fragments_expected (writer_proxy.rs:20): `data_size / fragment_size` (+1) -/
def totalExpected (f : Frag) : Option Nat :=
  if f.fsize = 0 then none
  else some (f.dsize / f.fsize + (if f.dsize % f.fsize = 0 then 0 else 1))

/-- comparisons of a merge sort of `n` elements -/
def sortCost (n : Nat) : Nat := n * (Nat.log2 n + 1)

def sumInSub (fs : List Frag) (s : Int) : Nat :=
  fs.foldl (fun a f => if f.sn == s then (a + f.inSub) % 4294967296 else a) 0

/-- on_data_frag_submessage (stateful_reader.rs:114-150) + reconstruct_data_from_frag (writer_proxy.rs:88-147) -/
def onDataFrag (g : Guards) (ids : Ids) (rc : Recv) (v : Victim) (writer : EntityId) (f : Frag) : Option Victim :=
  if g.d6 ∧ f.fsize = 0 then some v
  else if rc.src = ids.peer ∧ writer = ids.wa then
    match expected g v.wp with
    | none => none
    | some e =>
      let p1 := if f.sn = e ∧ ¬ v.wp.frags.contains f then { v.wp with frags := v.wp.frags ++ [f] } else v.wp
      -- reconstruct_data_from_frag(sequence_number)
      match findFragOf p1.frags f.sn with
      | none => some (tick { v with wp := p1 } p1.frags.length)
      | some f0 =>
        match totalExpected f0 with
        | none => none                                               -- division by zero (D6)
        | some te =>
          let tot := sumInSub p1.frags f.sn
          if tot = te then
            -- `for frag_number in 0..=total_fragments` then the fragment with starting number 1 must exist
            -- main: `for n in 0..=total { find(..) }`; fixes/D65.patch: filter + stable sort + dedup of the buffered fragments
            let v1 := tick { v with wp := p1 } (if g.d65 then 3 * (p1.frags.length + 1) + sortCost p1.frags.length
                                                 else (tot + 1) * (p1.frags.length + 1))
            if hasStart p1.frags f.sn 1 then
              let p2 := { p1 with frags := p1.frags.filter (fun x => x.sn != f.sn) }
              onData g ids rc { v1 with wp := p2 } writer f.sn
            else some v1
          else some (tick { v with wp := p1 } (p1.frags.length + 1))
  else some v

/-! ### reader proxy (writer side) -/

def insertReq (l : List Int) (s : Int) : List Int := if l.contains s then l else l ++ [s]

def minOf : List Int → Option Int
  | [] => none
  | x :: xs => match minOf xs with
    | some m => some (if x ≤ m then x else m)
    | none => some x

/-- the "requested changes" loop of write_message_reliable (stateful_writer.rs:571-668); fuel = number of requests -/
def serveRequested (g : Guards) (w : EntityId) (lastSn : Int) : Nat → RProxy → List Reply → Option (RProxy × List Reply)
  | 0, p, out => some (p, out)
  | fuel + 1, p, out =>
    match minOf p.requested with
    | none => some (p, out)
    | some s =>
      let p1 := { p with requested := p.requested.filter (fun x => x != s) }
      if 1 ≤ s ∧ s ≤ lastSn then
        let p2 := { p1 with hbCount := wrapI32 (p1.hbCount + 1) }
        serveRequested g w lastSn fuel p2 (out ++ [.dataHb w s 1 lastSn p2.hbCount])
      else
        match addG g.d63 s 1 with
        | none => none                                               -- `SequenceNumberSet::new(sn + 1, [])`
        | some b => serveRequested g w lastSn fuel p1 (out ++ [.gap w s b])

/-- on_acknack_submessage_received (stateful_writer.rs:133-170) for one writer -/
def onAckNackAt (g : Guards) (w : EntityId) (lastSn : Int) (p : RProxy) (set : SnSet) (count : Int) :
    Option (RProxy × List Reply × Nat) :=
  if count > p.lastAck then
    match addG g.d9 set.base (-1) with
    | none => none                                                   -- `base() - 1`
    | some acked =>
      match snSetElems g set with
      | none => none
      | some l =>
        let p1 := { p with highestAcked := if acked > p.highestAcked then acked else p.highestAcked,
                           requested := l.foldl insertReq p.requested, lastAck := count }
        match serveRequested g w lastSn (p1.requested.length + 1) p1 [] with
        | none => none
        | some (p2, out) => some (p2, out, set.numBits + p1.requested.length)
  else some (p, [], 0)

def onAckNack (g : Guards) (ids : Ids) (rc : Recv) (v : Victim) (reader writer : EntityId) (set : SnSet) (count : Int) :
    Option Victim :=
  if rc.src = ids.peer ∧ writer = ids.wb ∧ reader = ids.rb then
    match onAckNackAt g ids.wb v.wbLast v.rp set count with
    | none => none
    | some (p, out, st) => some (tick { v with rp := p, replies := v.replies ++ out } st)
  else if rc.src = ids.peer ∧ writer = ids.wq ∧ reader = ids.rqId then
    match onAckNackAt g ids.wq 0 v.rq set count with
    | none => none
    | some (p, out, st) => some (tick { v with rq := p, replies := v.replies ++ out } st)
  else some v

/-- FragmentNumberSet::try_read_from_bytes (submessage_elements.rs:132-160): `Some(elements)`, a decode error, or a panic.
    This runs while the datagram is DECODED, whoever sent it. -/
inductive Dec
  | ok (base : Nat) (elems : List Nat)
  | err
  | panic
deriving Repr, DecidableEq

def decodeFnSet (g : Guards) (s : FnSetRaw) : Dec :=
  if s.numBits > 256 then (if g.d5 then .err else .panic)            -- `bitmap[delta_n / 32]` with delta_n ≥ 256
  else
    let elems := (s.bits.filter (· < s.numBits)).map (fun b => s.base + b)
    if elems.any (· > U32_MAX) then (if g.d62 then .err else .panic)  -- `base + delta_n as u32`
    else .ok s.base elems

/-- on_nack_frag_submessage_received (stateful_writer.rs:172-283) for one writer; the writer id of the submessage is
    not looked at -/
def onNackFragAt (g : Guards) (w : EntityId) (lastSn : Int) (p : RProxy) (s : Int) (base : Nat) (elems : List Nat)
    (count : Int) : Option (RProxy × List Reply) :=
  if count > p.lastNackFrag then
    let p1 := { p with lastNackFrag := count }
    if 1 ≤ s ∧ s ≤ lastSn then
      -- one fragment per sample (12 bytes, fragment size 1344): main answers the request for fragment NUMBER 1
      -- (`(1..=1).contains`), the tree as found the request for "fragment 0" (`< number_of_fragments`, D1)
      some (p1, ((base :: elems).filter (· == (if g.d1 then 1 else 0))).map (fun _ => Reply.dataFrag0 w s))
    else
      match addG g.d63 s 1 with
      | none => none
      | some b => some (p1, [.gap w s b])
  else some (p, [])

def onNackFrag (g : Guards) (ids : Ids) (rc : Recv) (v : Victim) (reader : EntityId) (s : Int) (base : Nat)
    (elems : List Nat) (count : Int) : Option Victim :=
  if rc.src = ids.peer ∧ reader = ids.rb then
    match onNackFragAt g ids.wb v.wbLast v.rp s base elems count with
    | none => none
    | some (p, out) => some (tick { v with rp := p, replies := v.replies ++ out } (elems.length + 1))
  else if rc.src = ids.peer ∧ reader = ids.rqId then
    match onNackFragAt g ids.wq 0 v.rq s base elems count with
    | none => none
    | some (p, out) => some (tick { v with rq := p, replies := v.replies ++ out } (elems.length + 1))
  else some v

/-! ### the receiver -/

/-- one submessage: MessageReceiver::next + the `match` of handle_data -/
def stepSub (g : Guards) (ids : Ids) (rc : Recv) (v : Victim) : Sub → Option (Recv × Victim)
  | .pad => some (rc, tick v 1)
  | .infoTs inv sec frac => some (if inv then { rc with haveTs := false, ts := (0, 0) } else { rc with haveTs := true, ts := (sec, frac) }, tick v 1)
  | .infoDst _ => some (rc, tick v 1)
  | .infoSrc p => some ({ rc with src := p }, tick v 1)
  | .infoReply => if g.d7 then some (rc, tick v 1) else none           -- `todo!()`
  | .data _ w s _ => (onData g ids rc (tick v 1) w s).map (fun v' => (rc, v'))
  | .dataFrag _ w s st n fs ds pl => (onDataFrag g ids rc (tick v 1) w ⟨s, st, n, fs, ds, pl⟩).map (fun v' => (rc, v'))
  | .gap _ w st set => (onGap g ids rc (tick v 1) w st set).map (fun v' => (rc, v'))
  | .heartbeat _ w f l c fin live => (onHeartbeat g ids rc (tick v 1) w f l c fin live).map (fun v' => (rc, v'))
  | .hbFrag _ w _ _ c =>
    if rc.src = ids.peer ∧ w = ids.wa ∧ v.wp.hbCount < c then some (rc, tick { v with wp := { v.wp with hbFragCount := c } } 1)
    else some (rc, tick v 1)
  | .ackNack r w set c => (onAckNack g ids rc (tick v 1) r w set c).map (fun v' => (rc, v'))
  | .nackFrag r _ s set c =>
    match decodeFnSet g set with
    | .ok b el => (onNackFrag g ids rc (tick v 1) r s b el c).map (fun v' => (rc, v'))
    | .err => some (rc, tick v 1)          -- unreachable here: `decodeAll` has dropped the submessage
    | .panic => none

/-- SequenceNumberSet::try_read_from_bytes on main rejects sets that could denote a number above i64::MAX -/
def snSetRejected (g : Guards) (s : SnSet) : Bool :=
  g.dw4 && decide (s.numBits > 0 ∧ s.base + (s.numBits : Int) - 1 > I64_MAX)

/-- the decoder runs over the whole datagram before anything is dispatched: a panic there kills the worker before
    the first submessage is handled; a decode error drops that submessage only -/
def decodeAll (g : Guards) : List Sub → Option (List Sub)
  | [] => some []
  | .gap r w st set :: rest =>
    if snSetRejected g set then decodeAll g rest else (decodeAll g rest).map (fun l => .gap r w st set :: l)
  | .ackNack r w set c :: rest =>
    if snSetRejected g set then decodeAll g rest else (decodeAll g rest).map (fun l => .ackNack r w set c :: l)
  | .nackFrag r w s set c :: rest =>
    match decodeFnSet g set with
    | .panic => none
    | .err => decodeAll g rest
    | .ok _ _ => (decodeAll g rest).map (fun l => .nackFrag r w s set c :: l)
  | x :: rest => (decodeAll g rest).map (fun l => x :: l)

def runSubs (g : Guards) (ids : Ids) : Recv → Victim → List Sub → Option Victim
  | _, v, [] => some v
  | rc, v, s :: rest =>
    match stepSub g ids rc v s with
    | none => none
    | some (rc', v') => runSubs g ids rc' v' rest

/-- handle_data (communication_methods.rs:405): a decoded datagram with header prefix `hdr` -/
def handleDatagram (g : Guards) (ids : Ids) (v : Victim) (hdr : Prefix) (subs : List Sub) : Option Victim :=
  match decodeAll g subs with
  | none => none
  | some l => runSubs g ids { src := hdr, haveTs := false, ts := (0, 0) } v l

/-- size of a submessage for the step bound: what an attacker pays in octets for the loops he drives -/
def Sub.weight : Sub → Nat
  | .gap _ _ _ set => 1 + set.numBits
  | .ackNack _ _ set _ => 1 + set.numBits
  | .nackFrag _ _ _ set _ => 1 + set.bits.length
  | .dataFrag _ _ _ _ n _ _ _ => 1 + n
  | _ => 1

end DustVerif.Receiver
