import DustVerif.Model.Spdp
/-
World around Model/Spdp.lean for the `spdp` driver: several participants of one process, the SPDP announcements they send
(on creation, in answer to every newly discovered participant — discovery_methods.rs:2604 —, and every
participant_announcement_interval — discovery_methods.rs:90, participant_entity.rs:306), the multicast delivery of the
simulator (every live participant of the same domain id hears it, the sender included; zero latency), the fault rules
`drop-if from=` (mute), `drop-next n DATA from=`, `hold DATA from= times=1`, forged announcements, deletion (SPDP dispose),
ignore_participant, and virtual time: the worker's timers fire exactly at `lastAnnounce + interval` and (the simulator turns
a zero delay into 1 ns) at `lastSeen + lease + 1`.
Participant states change ONLY through `Spdp.step`-level functions (`spdp`, `tick`, `remove`, `ignore`).
Import-free (core + Model/Spdp).
-/
namespace DustVerif.SpdpWorld
open DustVerif.Spdp

def LEASE : Nat := 100000000000

structure Part where
  domain : Nat
  tag : String
  interval : Nat
  alive : Bool
  mute : Bool
  dropNext : Nat
  lastAnnounce : Nat
  st : St
deriving Repr

structure World where
  now : Nat
  /-- configuration for participants created later -/
  cfgInterval : Nat
  cfgTag : String
  parts : List Part
  /-- `hold DATA from=<index> times=<n>` rules (index, remaining) -/
  holds : List (Nat × Nat)
  /-- participants of which an announcement is held (source of forged announcements) -/
  held : List Nat
deriving Repr

def World.init : World :=
  { now := 0
    cfgInterval := 5000000000
    cfgTag := ""
    parts := []
    holds := []
    held := [] }

def getPart (w : World) (i : Nat) : Option Part := w.parts[i]?
def setPart (w : World) (i : Nat) (p : Part) : World := { w with parts := w.parts.set i p }

def dataOf (i : Nat) (p : Part) : Data := ⟨i, some p.domain, p.tag, LEASE⟩

/-- deliver announcement `d` to participant `j`; returns the new part and whether it answers with an announcement -/
def receive (now : Nat) (d : Data) (p : Part) : Part × Bool :=
  let r := spdp p.st d now
  ({ p with st := r.1 }, r.2)

/-- multicast delivery on `domain`: every live participant of that domain; collects who must answer -/
def deliverAll (now domain : Nat) (d : Data) : List Part → Nat → List Part × List Nat
  | [], _ => ([], [])
  | p :: ps, j =>
    let (ps', ans) := deliverAll now domain d ps (j + 1)
    if p.alive && p.domain == domain then
      let (p', a) := receive now d p
      (p' :: ps', if a then j :: ans else ans)
    else (p :: ps', ans)

def holdFor (w : World) (i : Nat) : Bool := w.holds.any (fun h => h.1 == i && decide (h.2 > 0))

def useHold (w : World) (i : Nat) : World :=
  { w with holds := w.holds.map (fun h => if h.1 == i && decide (h.2 > 0) then (h.1, h.2 - 1) else h)
           held := if w.held.contains i then w.held else w.held ++ [i] }

/-- the datagram of participant `i` (its entry `p`, stamp already updated in `w1`) meets the fault rules, then the network -/
def sendFrom (w1 : World) (i : Nat) (p : Part) : World × List Nat :=
  if p.mute then (w1, [])
  else if holdFor w1 i then (useHold w1 i, [])
  else if p.dropNext > 0 then (setPart w1 i { p with lastAnnounce := w1.now, dropNext := p.dropNext - 1 }, [])
  else
    ({ w1 with parts := (deliverAll w1.now p.domain (dataOf i p) w1.parts 0).1 },
     (deliverAll w1.now p.domain (dataOf i p) w1.parts 0).2)

/-- participant `i` sends one SPDP announcement; returns the participants that answer -/
def announceFrom (w : World) (i : Nat) : World × List Nat :=
  match getPart w i with
  | none => (w, [])
  | some p => if !p.alive then (w, []) else sendFrom (setPart w i { p with lastAnnounce := w.now }) i p

/-- the cascade of answers (fuel bounds the number of datagrams) -/
def cascade : Nat → World → List Nat → World
  | 0, w, _ => w
  | _, w, [] => w
  | fuel + 1, w, i :: rest =>
    let (w', ans) := announceFrom w i
    cascade fuel w' (rest ++ ans)

def CASCADE_FUEL : Nat := 400

def createPart (w : World) (domain : Nat) : World × Nat :=
  let n := w.parts.length
  let p : Part := { domain := domain, tag := w.cfgTag, interval := w.cfgInterval, alive := true, mute := false, dropNext := 0,
                    lastAnnounce := w.now, st := St.init domain w.cfgTag }
  (cascade CASCADE_FUEL { w with parts := w.parts ++ [p] } [n], n)

/-- forged announcement delivered to participant `to` only -/
def forge (w : World) (to : Nat) (d : Data) : World :=
  match getPart w to with
  | none => w
  | some p =>
    if !p.alive then w
    else
      let (p', a) := receive w.now d p
      cascade CASCADE_FUEL (setPart w to p') (if a then [to] else [])

def disposeAll (domain k : Nat) : List Part → List Part
  | [] => []
  | p :: ps => (if p.alive && p.domain == domain then { p with st := remove p.st k } else p) :: disposeAll domain k ps

/-- delete_participant: the SPDP dispose is one more DATA datagram of the participant -/
def deletePart (w : World) (i : Nat) : World :=
  match getPart w i with
  | none => w
  | some p =>
    let w1 := setPart w i { p with alive := false }
    if p.mute then w1
    else if p.dropNext > 0 then setPart w i { p with alive := false, dropNext := p.dropNext - 1 }
    else { w1 with parts := disposeAll p.domain i w1.parts }

def minOpt : Option Nat → Nat → Option Nat
  | none, b => some b
  | some a, b => some (if a ≤ b then a else b)

def nextAnnounce (w : World) : Option Nat :=
  w.parts.foldl (fun acc p => if p.alive then minOpt acc (p.lastAnnounce + p.interval) else acc) none

def nextStale (w : World) : Option Nat :=
  w.parts.foldl (fun acc p => if p.alive then p.st.list.foldl (fun a e => minOpt a (e.lastSeen + e.lease + 1)) acc else acc) none

def nextEvent (w : World) : Option Nat :=
  match nextAnnounce w, nextStale w with
  | none, x => x
  | x, none => x
  | some a, some b => some (if a ≤ b then a else b)

def tickAll (w : World) : World :=
  { w with parts := w.parts.map (fun p => if p.alive then { p with st := tick p.st w.now } else p) }

def dueIdx (w : World) : List Nat :=
  (List.range w.parts.length).filter (fun i => match getPart w i with
    | some p => p.alive && decide (p.lastAnnounce + p.interval ≤ w.now)
    | none => false)

/-- `advance`: process timer events in time order up to `target`: at each instant first the lease checks of all participants
    (remove_stale_participants runs before announce_participant_if_needed in the worker iteration, and deliveries come after
    the iteration), then the periodic announcements that are due, with their cascades. `none` = event budget exhausted. -/
def advanceTo : Nat → World → Nat → Option World
  | 0, _, _ => none
  | fuel + 1, w, target =>
    match nextEvent w with
    | none => some { w with now := target }
    | some t =>
      if t > target then some { w with now := target }
      else
        let w1 := tickAll { w with now := (if t < w.now then w.now else t) }
        let w2 := cascade CASCADE_FUEL w1 (dueIdx w1)
        advanceTo fuel w2 target

def ADVANCE_FUEL : Nat := 3000

def muteP (w : World) (i : Nat) : World :=
  match getPart w i with
  | none => w
  | some p => setPart w i { p with mute := true }

def addDrop (w : World) (i n : Nat) : World :=
  match getPart w i with
  | none => w
  | some p => setPart w i { p with dropNext := p.dropNext + n }

def ignoreP (w : World) (i h : Nat) : Option World :=
  match getPart w i with
  | none => none
  | some p => match ignore p.st h with
    | none => none
    | some s => some (setPart w i { p with st := s })

/-- everything the `spdp` driver does to a world -/
inductive WOp
  | config (interval : Nat) (tag : String)
  | hold (i n : Nat)
  | createPart (domain : Nat)
  | forge (to : Nat) (d : Data)
  | deletePart (i : Nat)
  | mute (i : Nat)
  | drop (i n : Nat)
  | ignore (i h : Nat)
  | advance (d : Nat)

def applyOp (w : World) : WOp → World
  | .config i t => { w with cfgInterval := i, cfgTag := t }
  | .hold i n => { w with holds := w.holds ++ [(i, n)] }
  | .createPart d => (createPart w d).1
  | .forge to d => forge w to d
  | .deletePart i => deletePart w i
  | .mute i => muteP w i
  | .drop i n => addDrop w i n
  | .ignore i h => (ignoreP w i h).getD w
  | .advance d => (advanceTo ADVANCE_FUEL w (w.now + d)).getD w

def runOps (w : World) : List WOp → World
  | [] => w
  | x :: xs => runOps (applyOp w x) xs

end DustVerif.SpdpWorld
