/-! C11 end to end: the handle the READER derives for a received change versus the handle the WRITER assigned.
    Transcribes the reader glue `dds/src/dcps/dcps_domain_participant/communication_methods.rs:218-276`
    (`process_user_defined_received_cache_changes`): when the change carries a key hash (inline QoS PID_KEY_HASH, present
    in DATA, absent in DATA_FRAG) that hash IS the handle; otherwise the payload is decoded — with the FULL topic type
    for ALIVE / ALIVE_FILTERED changes (the payload is a whole sample), with the flattened KEY-HOLDER type for
    NOT_ALIVE_* changes (the payload is the serialised key) — and the handle is computed from the decoded key members.

    Part 1 is abstract in the data model (`Codec`: sample / key types, the key projection, the two wire encodings
    with their round-trip laws — C09's subject — and the key hash, C12's subject).  Part 2 is a small executable
    instance for the simulator's test types, used by the `handle` driver and the counter-example of the seeded defect
    "always decode with the key-holder type". -/
namespace DustVerif.HandleE2E

inductive Kind where
  | alive | aliveFiltered | disposed | unregistered | disposedUnregistered
  deriving DecidableEq, Repr

def Kind.isAlive : Kind → Bool
  | .alive => true
  | .aliveFiltered => true
  | _ => false

/-- what the data model provides (parameters of the property) -/
structure Codec (Sample Key Bytes Handle : Type) where
  keyOf : Sample → Key
  /-- the instance handle of a key (key hash, XTypes 7.6.8) -/
  hashKey : Key → Handle
  serFull : Sample → Bytes
  deFull : Bytes → Option Sample
  serKey : Key → Bytes
  deKey : Bytes → Option Key

/-- what the reader's history cache receives for one change -/
structure Change (Bytes Handle : Type) where
  kind : Kind
  keyHash : Option Handle
  payload : Bytes

variable {Sample Key Bytes Handle : Type}

/-- the handle the writer assigns to a sample (`get_instance_handle_from_dynamic_data`, writer_methods.rs) -/
def writerHandle (c : Codec Sample Key Bytes Handle) (s : Sample) : Handle := c.hashKey (c.keyOf s)

/-- the change the writer emits: the whole sample for ALIVE kinds, the serialised key otherwise
    (data_writer_entity.rs write / dispose / unregister); the transport puts the key hash into the inline QoS of a
    DATA submessage, a fragmented change (DATA_FRAG) arrives without it (`withHash = false`) -/
def writerChange (c : Codec Sample Key Bytes Handle) (s : Sample) (k : Kind) (withHash : Bool) : Change Bytes Handle :=
  { kind := k
    keyHash := if withHash then some (writerHandle c s) else none
    payload := if k.isAlive then c.serFull s else c.serKey (c.keyOf s) }

/-- the reader's choice, as coded (communication_methods.rs:218-276); `none` = the change is skipped with a warning -/
def readerHandle (c : Codec Sample Key Bytes Handle) (ch : Change Bytes Handle) : Option Handle :=
  match ch.keyHash with
  | some h => some h                                                     -- :218 `if let Some(i) = cache_change.instance_handle`
  | none =>
    if ch.kind.isAlive then (c.deFull ch.payload).map (writerHandle c)   -- :222 full type, then the key members
    else (c.deKey ch.payload).map c.hashKey                              -- :241 key-holder type

/-- the seeded variant (m_C11/C11_b): without a key hash ALWAYS decode with the key-holder type -/
def readerHandleKeyHolderOnly (c : Codec Sample Key Bytes Handle) (ch : Change Bytes Handle) : Option Handle :=
  match ch.keyHash with
  | some h => some h
  | none => (c.deKey ch.payload).map c.hashKey

/-! ### an executable instance: the simulator's test types with a little-endian CDR-like layout -/

inductive MKind where
  | i32 | i16 | bytes
  deriving DecidableEq, Repr

structure Member where
  name : String
  kind : MKind
  isKey : Bool
  deriving DecidableEq, Repr

inductive Val where
  | int (v : Int)
  | bytes (b : List Nat)
  deriving DecidableEq, Repr

/-- the test types of harness/src/bin/dsim.rs -/
def typeOf : String → Option (List Member)
  | "ki" => some [⟨"id", .i32, true⟩, ⟨"value", .i32, false⟩]
  | "kb" => some [⟨"id", .i32, true⟩, ⟨"value", .bytes, false⟩]
  | "ni" => some [⟨"value", .i32, false⟩]
  | "nb" => some [⟨"value", .bytes, false⟩]
  | "bk" => some [⟨"value", .bytes, false⟩, ⟨"id", .i32, true⟩]
  | "kk" => some [⟨"a", .i32, true⟩, ⟨"value", .bytes, false⟩, ⟨"b", .i16, true⟩]
  | _ => none

def isKeyM (m : Member) : Bool := m.isKey
/-- the flattened key-holder type: the key members in declaration order -/
def keyHolder (t : List Member) : List Member := t.filter isKeyM

/-- second key of `kk` for scenario id `k` (harness: `kk_b`) -/
def kkB (k : Int) : Int := (k * 3) % 1000 + 1

/-- the sample the scenario language writes for `<id>` with a payload of `len` bytes -/
def sampleOf (t : List Member) (id : Int) (len : Nat) : List Val :=
  t.map (fun m => match m.kind with
    | .bytes => Val.bytes (List.replicate len 7)
    | .i16 => Val.int (kkB id)
    | .i32 => Val.int (if m.isKey then id else 0))

def toU (bits : Nat) (v : Int) : Nat := (v % (2 ^ bits)).toNat
def leBytes (n : Nat) (v : Nat) : List Nat := (List.range n).map (fun i => (v / 256 ^ i) % 256)
def beBytes (n : Nat) (v : Nat) : List Nat := (leBytes n v).reverse
def pad (pos align : Nat) : Nat := (align - pos % align) % align

/-- little-endian CDR body (alignment relative to the start of the body) -/
def serMembers : List Member → List Val → Nat → List Nat
  | m :: ms, v :: vs, pos =>
    let (a, bs) : Nat × List Nat := match m.kind, v with
      | .i32, .int x => (4, leBytes 4 (toU 32 x))
      | .i16, .int x => (2, leBytes 2 (toU 16 x))
      | .bytes, .bytes b => (4, leBytes 4 b.length ++ b)
      | _, _ => (1, [])
    let p := pad pos a
    List.replicate p 0 ++ bs ++ serMembers ms vs (pos + p + bs.length)
  | _, _, _ => []

def leVal (bs : List Nat) : Nat := (bs.zipIdx.map (fun p => p.1 * 256 ^ p.2)).sum
def toS (bits : Nat) (u : Nat) : Int := if u < 2 ^ (bits - 1) then (u : Int) else (u : Int) - 2 ^ bits

/-- decode a body with the member list `t` (total: a short buffer gives `none`) -/
def deMembers : List Member → List Nat → Nat → Option (List Val)
  | [], _, _ => some []
  | m :: ms, buf, pos =>
    let a := match m.kind with
      | .i32 => 4
      | .i16 => 2
      | .bytes => 4
    let start := pos + pad pos a
    match m.kind with
    | .i32 =>
      if start + 4 ≤ buf.length then
        (deMembers ms buf (start + 4)).map (fun r => Val.int (toS 32 (leVal ((buf.drop start).take 4))) :: r)
      else none
    | .i16 =>
      if start + 2 ≤ buf.length then
        (deMembers ms buf (start + 2)).map (fun r => Val.int (toS 16 (leVal ((buf.drop start).take 2))) :: r)
      else none
    | .bytes =>
      if start + 4 ≤ buf.length then
        let n := leVal ((buf.drop start).take 4)
        if start + 4 + n ≤ buf.length then
          (deMembers ms buf (start + 4 + n)).map (fun r => Val.bytes ((buf.drop (start + 4)).take n) :: r)
        else none
      else none

/-- values of the key members, in declaration order -/
def keyVals : List Member → List Val → List Val
  | m :: ms, v :: vs => if m.isKey then v :: keyVals ms vs else keyVals ms vs
  | _, _ => []

/-- key hash for keys of at most 16 bytes: big-endian key members at their alignment, zero padded to 16 -/
def hashKeyVals (kh : List Member) (vs : List Val) : List Nat :=
  let rec go : List Member → List Val → Nat → List Nat
    | m :: ms, v :: vs, pos =>
      let (a, bs) : Nat × List Nat := match m.kind, v with
        | .i32, .int x => (4, beBytes 4 (toU 32 x))
        | .i16, .int x => (2, beBytes 2 (toU 16 x))
        | _, _ => (1, [])
      let p := pad pos a
      List.replicate p 0 ++ bs ++ go ms vs (pos + p + bs.length)
    | _, _, _ => []
  let raw := go kh vs 0
  (raw ++ List.replicate (16 - raw.length) 0).take 16

/-- the codec of a test type -/
def codecOf (t : List Member) : Codec (List Val) (List Val) (List Nat) (List Nat) :=
  { keyOf := keyVals t
    hashKey := hashKeyVals (keyHolder t)
    serFull := fun s => serMembers t s 0
    deFull := fun b => deMembers t b 0
    serKey := fun k => serMembers (keyHolder t) k 0
    deKey := fun b => deMembers (keyHolder t) b 0 }

def kindOf : String → Option Kind
  | "alive" => some .alive
  | "filtered" => some .aliveFiltered
  | "disposed" => some .disposed
  | "unregistered" => some .unregistered
  | "disposed-unregistered" => some .disposedUnregistered
  | _ => none

/-! ### handles of pending (blocked) samples: `process_pending_write_samples` (writer_methods.rs)

    One pass over all writers of the participant; for every writer with a pending sample the key members of the sample's
    type are collected into a scratch list (`KeyHolderData::from_dynamic_data(&pending.dynamic_data, &mut member_list)`
    PUSHES them), the key holder is built over that list and hashed.  As coded the scratch list is created per writer;
    the seeded variant (seed_C11_c) shares one list across the pass, so later writers see the members of earlier ones. -/

/-- `km s` = the key members `from_dynamic_data` pushes for the sample's type; `hashOver l s` = the handle computed from a
    key holder built over the member list `l` and filled from `s` -/
structure PendingModel (Sample M Handle : Type) where
  km : Sample → List M
  hashOver : List M → Sample → Handle

variable {M : Type}

/-- the handle the writer assigns on a direct (non-blocked) write: a fresh list -/
def directHandle (p : PendingModel Sample M Handle) (s : Sample) : Handle := p.hashOver (p.km s) s

/-- as coded: a fresh scratch list for every writer with a pending sample (`none` = nothing pending) -/
def pendingHandles (p : PendingModel Sample M Handle) : List (Option Sample) → List (Option Handle)
  | [] => []
  | none :: ws => none :: pendingHandles p ws
  | some s :: ws => some (p.hashOver ([] ++ p.km s) s) :: pendingHandles p ws

/-- the seeded variant: ONE scratch list for the whole pass, never cleared -/
def pendingHandlesShared (p : PendingModel Sample M Handle) : List (Option Sample) → List M → List (Option Handle)
  | [], _ => []
  | none :: ws, acc => none :: pendingHandlesShared p ws acc
  | some s :: ws, acc => some (p.hashOver (acc ++ p.km s) s) :: pendingHandlesShared p ws (acc ++ p.km s)

/-- executable instance: the key holder over a member list is filled BY MEMBER NAME from the sample of type `t` -/
def valByName (t : List Member) (s : List Val) (n : String) : Val :=
  match (t.zip s).find? (fun p => p.1.name == n) with
  | some p => p.2
  | none => .int 0

def pendingModelOf : PendingModel (List Member × List Val) Member (List Nat) :=
  { km := fun ts => keyHolder ts.1
    hashOver := fun l ts => hashKeyVals l (l.map (fun m => valByName ts.1 ts.2 m.name)) }

end DustVerif.HandleE2E
