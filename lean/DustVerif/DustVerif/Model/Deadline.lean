/-
Model of the deadline checks of dust-dds (properties C30, C24 deadline clause), transcribed from

  * dds/src/dcps/dcps_domain_participant/discovery_methods.rs
      :245-370  check_missed_reader_deadline   (per reader, per instance: `now - last_received_time_stamp > deadline`;
                                                 releases the instance ownership; counts; notifies)
      :372-463  check_missed_writer_deadline   (per writer, per registered instance: `now - last_write_time > deadline`
                                                 => `last_write_time += deadline`; counts; notifies)
  * dds/src/dcps/dcps_domain_participant/participant_entity.rs
      :126-143  time_until_missed_reader_deadline
      :145-163  time_until_missed_writer_deadline
  * dds/src/dcps/dcps_domain_participant/data_reader_entity.rs
      :311-606  add_reader_change: which stamps a received sample refreshes (instance stamp: always, before any
                filter; ownership stamp: only when the sample is stored) and the exclusive-ownership filter
  * dds/src/dcps/dcps_domain_participant/data_writer_entity.rs:145-153  last_write_time = max(old, sample timestamp)

Times and durations are integers in NANOSECONDS (`Time`/`Duration` arithmetic is exact inside the i32-second range:
C14 `sub_nosat`, `add_nosat`; the derived lexicographic order on normalised (sec, nanosec) pairs is the integer order).

Two versions of the reader side are kept:
  `checkReaderAsIs` / `untilReaderAsIs`  the pinned code: never re-arms (D35); the timer reads the OWNERSHIP stamps (D36)
  `checkReader`     / `untilReader`      with fixes/D35.patch (re-arm by one period) and fixes/D36.patch (the timer
                                         reads the instance stamps the check reads)
The delivered driver uses the fixed versions. Import-free.
-/
namespace DustVerif.Deadline

/-- one instance known to a reader: `InstanceState.last_received_time_stamp` -/
structure RInst where
  key : Int
  stamp : Int
deriving Repr, DecidableEq

/-- `InstanceOwnership` -/
structure Own where
  key : Int
  owner : Nat
  stamp : Int          -- last_received_time
deriving Repr, DecidableEq

structure Reader where
  period : Option Int            -- `DurationKind`: none = infinite
  insts : List RInst := []
  owns : List Own := []
  total : Nat := 0               -- requested_deadline_missed_status.total_count
  last : Option Int := none      -- last_instance_handle (key)
deriving Repr, DecidableEq

def expired (now period : Int) (i : RInst) : Bool := decide (now - i.stamp > period)

def ownKeyIn (ks : List Int) (o : Own) : Bool := ks.contains o.key
def ownKept (ks : List Int) (o : Own) : Bool := !(ownKeyIn ks o)

def rearm (now period : Int) (i : RInst) : RInst :=
  if expired now period i then { i with stamp := i.stamp + period } else i

def lastOf (ks : List Int) (old : Option Int) : Option Int :=
  match ks.getLast? with
  | some k => some k
  | none => old

/-- discovery_methods.rs:245-370 with fixes/D35.patch: every expired instance is re-armed by one period, its ownership
    entry is removed, the count grows by one per expired instance; returns the new reader and the keys notified
    (one listener / status notification each, in instance order) -/
def checkReader (r : Reader) (now : Int) : Reader × List Int :=
  match r.period with
  | none => (r, [])
  | some p =>
    let missed := (r.insts.filter (expired now p)).map (·.key)
    ({ r with insts := r.insts.map (rearm now p)
              owns := r.owns.filter (ownKept missed)
              total := r.total + missed.length
              last := lastOf missed r.last }, missed)

/-- the pinned code: the same without the re-arm (D35) -/
def checkReaderAsIs (r : Reader) (now : Int) : Reader × List Int :=
  match r.period with
  | none => (r, [])
  | some p =>
    let missed := (r.insts.filter (expired now p)).map (·.key)
    ({ r with owns := r.owns.filter (ownKept missed)
              total := r.total + missed.length
              last := lastOf missed r.last }, missed)

def minList : List Int → Option Int
  | [] => none
  | x :: r => some (r.foldl min x)

/-- participant_entity.rs:126-143 with fixes/D36.patch: `deadline - (now - last_received_time_stamp)` over the instances -/
def untilReader (r : Reader) (now : Int) : Option Int :=
  match r.period with
  | none => none
  | some p => minList (r.insts.map (fun i => p - (now - i.stamp)))

/-- the pinned code: over the ownership entries -/
def untilReaderAsIs (r : Reader) (now : Int) : Option Int :=
  match r.period with
  | none => none
  | some p => minList (r.owns.map (fun o => p - (now - o.stamp)))

/-! ### reception (data_reader_entity.rs add_reader_change), as far as stamps and ownership are concerned -/

structure Pub where
  id : Nat
  strength : Int
deriving Repr, DecidableEq

def strengthOf (pubs : List Pub) (w : Nat) : Option Int := (pubs.find? (fun p => p.id == w)).map (·.strength)

def setStamp (k now : Int) : List RInst → List RInst
  | [] => [{ key := k, stamp := now }]
  | i :: r => if i.key == k then { i with stamp := now } :: r else i :: setStamp k now r

/-- exclusive-ownership filter (:375-403): `false` = the sample is dropped (NotAdded) -/
def ownershipAccepts (owns : List Own) (pubs : List Pub) (k : Int) (w : Nat) : Bool :=
  match owns.find? (fun o => o.key == k) with
  | none => true
  | some o =>
    match strengthOf pubs o.owner, strengthOf pubs w with
    | some so, some sw => !(o.owner != w && decide (sw ≤ so))
    | _, _ => false

def setOwner (k : Int) (w : Nat) (now : Int) : List Own → List Own
  | [] => [{ key := k, owner := w, stamp := now }]
  | o :: r => if o.key == k then { o with owner := w } :: r else o :: setOwner k w now r

def touchOwn (k : Int) (w : Nat) (now : Int) : List Own → List Own
  | [] => [{ key := k, owner := w, stamp := now }]
  | o :: r => if o.key == k then (if o.stamp < now then { o with stamp := now } else o) :: r else o :: touchOwn k w now r

/-- an ALIVE sample of writer `w` for instance `k` received at `now`; `exclusive` = OWNERSHIP kind of the reader;
    `stored` = it passes the later filters (time-based filter, resource limits). Returns (reader, accepted?) -/
def receive (r : Reader) (pubs : List Pub) (exclusive : Bool) (k : Int) (w : Nat) (now : Int) (stored : Bool) :
    Reader × Bool :=
  -- :323-356 the instance stamp is refreshed first, whatever happens to the sample afterwards
  let r := { r with insts := setStamp k now r.insts }
  if exclusive && !(ownershipAccepts r.owns pubs k w) then (r, false)
  else
    let r := if exclusive then { r with owns := setOwner k w now r.owns } else r
    if !stored then (r, false)
    else ({ r with owns := touchOwn k w now r.owns }, true)

/-! ### writer side -/

structure WInst where
  key : Int
  lastWrite : Option Int
deriving Repr, DecidableEq

structure Writer where
  period : Option Int
  insts : List WInst := []
  total : Nat := 0
  last : Option Int := none
deriving Repr, DecidableEq

def wExpired (now period : Int) (i : WInst) : Bool :=
  match i.lastWrite with
  | some t => decide (now - t > period)
  | none => false

def wRearm (now period : Int) (i : WInst) : WInst :=
  match i.lastWrite with
  | some t => if now - t > period then { i with lastWrite := some (t + period) } else i
  | none => i

/-- discovery_methods.rs:372-463 -/
def checkWriter (w : Writer) (now : Int) : Writer × List Int :=
  match w.period with
  | none => (w, [])
  | some p =>
    let missed := (w.insts.filter (wExpired now p)).map (·.key)
    ({ w with insts := w.insts.map (wRearm now p)
              total := w.total + missed.length
              last := lastOf missed w.last }, missed)

/-- participant_entity.rs:145-163 -/
def untilWriter (w : Writer) (now : Int) : Option Int :=
  match w.period with
  | none => none
  | some p => minList ((w.insts.filterMap (·.lastWrite)).map (fun t => p - (now - t)))

/-- data_writer_entity.rs:79-153: register the instance if needed, `last_write_time = max(old, timestamp)` -/
def wWrite (k ts : Int) : List WInst → List WInst
  | [] => [{ key := k, lastWrite := some ts }]
  | i :: r =>
    if i.key == k then
      (match i.lastWrite with
       | some t => if t < ts then { i with lastWrite := some ts } else i
       | none => { i with lastWrite := some ts }) :: r
    else i :: wWrite k ts r

/-! ### the single-instance automaton of the property theorems (C30): one period, one stamp, one counter -/

structure Cell where
  stamp : Int
  count : Nat
deriving Repr, DecidableEq

/-- one check of one instance, fixed code (reader with D35.patch; the writer side is coded this way already) -/
def tick (p : Int) (c : Cell) (now : Int) : Cell :=
  if now - c.stamp > p then { stamp := c.stamp + p, count := c.count + 1 } else c

/-- the pinned reader: counts, never re-arms -/
def tickAsIs (p : Int) (c : Cell) (now : Int) : Cell :=
  if now - c.stamp > p then { c with count := c.count + 1 } else c

def ticks (p : Int) (c : Cell) (ts : List Int) : Cell := ts.foldl (tick p) c
def ticksAsIs (p : Int) (c : Cell) (ts : List Int) : Cell := ts.foldl (tickAsIs p) c

/-- samples and checks interleaved -/
inductive Op
  | sample (t : Int)
  | check (t : Int)
deriving Repr, DecidableEq

def Op.time : Op → Int
  | .sample t => t
  | .check t => t

def stepOp (p : Int) (c : Cell) : Op → Cell
  | .sample t => { c with stamp := t }
  | .check t => tick p c t

def runOps (p : Int) (c : Cell) (ops : List Op) : Cell := ops.foldl (stepOp p) c

end DustVerif.Deadline
