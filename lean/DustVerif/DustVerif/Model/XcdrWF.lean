import DustVerif.Model.Xcdr
/-! Well-formedness predicates for the XCDR theorems (decidable, position-independent).
    They carry the real limits of the code: value ranges, u16 / u32 size fields, member-id ranges,
    and the constructs each configuration (`Cfg`) is able to round-trip. -/
namespace DustVerif.Xcdr

/-- value range a primitive round-trips on: fits the width, BOOLEAN is 0/1, CHAR8 is ISO 8859-1 (0..255; D63 repaired:
    it was ASCII only) -/
def primOk (p : Prim) (n : Nat) : Bool :=
  n < 256 ^ p.size && (p != .bool || n ≤ 1) && (p != .c8 || n < 256)

/-- a UTF-16 code unit -/
def unitOk (v : Val) : Bool :=
  match v with
  | .num n => primOk .u16 n
  | _ => false

/-- `deserialize_enum_type` accepts INT8/INT16/INT32 holders only (deserializer.rs:996) -/
def holderOk (h : Prim) : Bool := h == .i8 || h == .i16 || h == .i32

/-- element types of sequences and arrays: no collection of collections (`todo!()`) -/
def Ty.elemOk : Ty → Bool
  | .seq _ => false
  | .arr _ _ => false
  | _ => true

mutual
  /-- every value of the type occupies at least one byte (syntactic, sufficient) -/
  def sizePos (ver : Ver) : Ty → Bool
    | .prim _ => true
    | .str => true
    | .enum _ _ _ => true
    | .wstr => true
    | .seq _ => true
    | .arr el n => decide (0 < n) && sizePos ver el
    | .struct .mutable _ => true
    | .struct .appendable ms => ver == .v2 || firstPos ver ms
    | .struct .final ms => firstPos ver ms
    | .union _ _ _ => true
  def firstPos (ver : Ver) : Ms → Bool
    | .nil => false
    | .cons _ opt _ t _ => opt || sizePos ver t
end

def sumNat : List Nat → Nat
  | [] => 0
  | x :: xs => x + sumNat xs

mutual
  /-- an upper bound of the serialized size, whatever the position (padding counted at its maximum) -/
  def maxSize : Ty → Val → Nat
    | .prim _, _ => 16
    | .str, .str bs => 16 + bs.length
    | .enum _ _ _, _ => 16
    | .wstr, .list us => 40 + 15 * us.length
    | .seq el, .list vs => 24 + sumNat (vs.map (maxSize el))
    | .arr el _, .list vs => 8 + sumNat (vs.map (maxSize el))
    | .struct _ ms, .struct fs => 24 + maxSizeMs ms fs
    | .union _ _ bs, .struct fs =>
      match fs with
      | [.num _, .num id, v] => 24 + maxSizeB bs id v
      | _ => 24
    | _, _ => 0
  def maxSizeB : Bs → Nat → Val → Nat
    | .cons id' _ _ t r, id, v => if id' == id then maxSize t v else maxSizeB r id v
    | .nil, _, _ => 0
  def maxSizeMs : Ms → List Val → Nat
    | .cons _ _ _ t rest, f :: fs => 16 + maxSize t f + maxSizeMs rest fs
    | _, _ => 0
end

/-- XCDR2: LC = 5 is correct for this member type (D62: a sequence of primitive elements wider than a byte is not) -/
def lc5Ok : Ty → Bool
  | .seq (.prim p) => p.size == 1
  | _ => true

/-- member ids of a structure modulo 2^16 (what `seek_to_pid` compares) -/
def Ms.lowIds : Ms → List Nat
  | .nil => []
  | .cons id _ _ _ r => id % 2 ^ 16 :: r.lowIds

mutual
  /-- values the configuration `cfg` round-trips in encoding version `ver` -/
  def wfVal (cfg : Cfg) (ver : Ver) : Ty → Val → Bool
    | .prim p, .num n => primOk p n
    | .str, .str bs => utf8Valid bs
    | .wstr, .list us =>
      us.all unitOk && utf16Valid (us.map Val.unit)
    | .enum h ls _, .num n =>
      holderOk h && decide (n < 256 ^ h.size) && (ls.isEmpty || ls.contains (signed (8 * h.size) n))
    | .seq el, .list vs =>
      el.elemOk && sizePos ver el && decide (vs.length * 48 ≤ ALLOC_LIMIT) && vs.all (wfVal cfg ver el)
    | .arr el n, .list vs =>
      el.elemOk && sizePos ver el && vs.length == n && decide (n * 48 ≤ ALLOC_LIMIT) && vs.all (wfVal cfg ver el)
    | .struct .final ms, .struct fs => wfFs cfg ver ms fs
    | .struct .appendable ms, .struct fs => wfFs cfg ver ms fs
    | .struct .mutable ms, .struct fs =>
      -- XCDR1 needs D45 (value read from its own slice) and D61 (origin popped by the serializer) and at least one
      -- member; XCDR2 needs D47 (continue at the DHEADER end); member ids distinct modulo 2^16 (D15)
      (match ver with
       | .v1 => cfg.d45 && cfg.d61 && decide (0 < ms.length)
       | .v2 => cfg.d47) &&
      decide (ms.lowIds.Nodup) && wfM cfg ver ms fs
    -- unions: a discriminator of a kind the decoder accepts, the branch the writer set is the one the discriminator
    -- selects
    | .union _ disc bs, .struct fs =>
      match fs with
      | [.num d, .num id, v] =>
        primOk disc d && discOk disc && (bs.firstIdx id).isSome && bs.selIdx (discI32 disc d) == bs.firstIdx id &&
        wfB cfg ver bs id v
      -- no active member: the discriminator selects no branch (D80 repaired)
      | [.num d] => primOk disc d && discOk disc && (bs.selIdx (discI32 disc d)).isNone
      | _ => false
    | _, _ => false
  def wfB (cfg : Cfg) (ver : Ver) : Bs → Nat → Val → Bool
    | .cons id' _ _ t r, id, v => if id' == id then wfVal cfg ver t v else wfB cfg ver r id v
    | .nil, _, _ => false
  /-- members of a mutable structure.
      XCDR1: any member may be absent; a present member has an id below 2^14 (D68) other than 1 (D67) and a
      non-empty encoding (D69) of less than 2^16 bytes (D68).
      XCDR2: every member is present (the search for an absent member is not bounded by the DHEADER, D65) and a
      sequence of primitive elements has 1-byte elements (LC = 5 with NEXTINT = element count, D62). -/
  def wfM (cfg : Cfg) (ver : Ver) : Ms → List Val → Bool
    | .nil, [] => true
    | .cons id _ _ t rest, f :: fs =>
      (match f with
       | .absent => ver == .v1
       | f => wfVal cfg ver t f &&
              (match ver with
               | .v1 => decide (id % 2 ^ 16 < 2 ^ 14) && decide (id % 2 ^ 16 ≠ 1) && sizePos ver t &&
                        decide (maxSize t f < 2 ^ 16)
               | .v2 => lc5Ok t))
      && wfM cfg ver rest fs
    | _, _ => false
  def wfFs (cfg : Cfg) (ver : Ver) : Ms → List Val → Bool
    | .nil, [] => true
    | .cons id opt mu t rest, f :: fs =>
      (match f with
       | .absent => opt && (ver == .v2 || (cfg.d46 && cfg.d61 && !pidOverflow id mu))
       | f => wfVal cfg ver t f &&
              (!opt || ver == .v2 ||
               (cfg.d46 && cfg.d61 && !pidOverflow id mu && sizePos ver t && decide (maxSize t f < 2 ^ 16))))
      && wfFs cfg ver rest fs
    | _, _ => false
end

mutual
  /-- the type contains no mutable structure -/
  def noMutable : Ty → Bool
    | .seq el => noMutable el
    | .arr el _ => noMutable el
    | .struct .mutable _ => false
    | .struct _ ms => noMutableMs ms
    | .union _ _ bs => noMutableB bs
    | _ => true
  def noMutableB : Bs → Bool
    | .nil => true
    | .cons _ _ _ t r => noMutable t && noMutableB r
  def noMutableMs : Ms → Bool
    | .nil => true
    | .cons _ _ _ t r => noMutable t && noMutableMs r
end

mutual
  /-- every XCDR1 parameter id of the type fits the short form of rule (24): id <= 0x3F00
      (above that the standard prescribes the extended header of rule (25), which dust-dds does not implement) -/
  def shortIds (ver : Ver) : Ty → Bool
    | .seq el => shortIds ver el
    | .arr el _ => shortIds ver el
    | .struct x ms => shortIdsMs ver (x == .mutable) ms
    | .union _ _ bs => shortIdsB ver bs
    | _ => true
  def shortIdsB (ver : Ver) : Bs → Bool
    | .nil => true
    | .cons _ _ _ t r => shortIds ver t && shortIdsB ver r
  def shortIdsMs (ver : Ver) (mt : Bool) : Ms → Bool
    | .nil => true
    | .cons id opt _ t r =>
      (ver == .v2 || !(opt || mt) || decide (id ≤ 0x3F00)) && shortIds ver t && shortIdsMs ver mt r
end

end DustVerif.Xcdr
