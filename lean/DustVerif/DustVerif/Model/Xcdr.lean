/-!
# Model of the XCDR1 / XCDR2 serializer and deserializer of dust-dds (import-free)

Transcription of `dds/src/xtypes/serializer.rs` and `dds/src/xtypes/deserializer.rs` **as they are**; the
serializer and the deserializer are separate transcriptions (they are not inverse as coded).  Every repair
that was drafted for a defect is a Boolean of `Cfg`; `Cfg.asIs` is the unchanged tree, `Cfg.fixed` is the
tree with `fixes/D12.patch D13.patch D45.patch D46.patch D47.patch D61.patch D66.patch` applied.

Modelled subset (everything else: `bad-op` in the driver):
* primitives BOOLEAN, BYTE, UINT8, INT8, CHAR8, INT16, UINT16, INT32, UINT32, FLOAT32, INT64, UINT64, FLOAT64
  (values are bit patterns `Nat`), STRING8 (`List UInt8` + the UTF-8 check of `String::from_utf8`),
  ENUM (holder INT8/16/32 + literal list), SEQUENCE and one-dimensional ARRAY of primitive / string / enum /
  structure elements, STRUCTURE with extensibility final / appendable / mutable and members
  (id, optional, must-understand; the key flag has no influence on the wire), nested arbitrarily.
* not modelled: unions, wstring, FLOAT128, CHAR16, bitmask, map, external members, `try_construct = UseDefault`,
  type inheritance (`base_type`).

Positions: the serializer's `CdrWriter.position` (alignment counter, reset by `push_origin_0`) is the `Nat`
threaded through `ser`; the deserializer's `Reader { buffer, pos }` is `St` = remaining bytes + `pos`.
Rust panics are `Res.panic`; an error carries the reader state it leaves behind, because an appendable
structure swallows `NotEnoughData` of a member and decoding continues from that state
(`deserializer.rs:1103`).
-/
namespace DustVerif.Xcdr

abbrev Bytes := List UInt8

inductive Endian
  | le | be
  deriving DecidableEq, Repr

inductive Ver
  | v1 | v2
  deriving DecidableEq, Repr

/-- `EncodingVersion{1,2}::align` of the serializer: `min(v, 8)` / `min(v, 4)` (serializer.rs:714, 885) -/
def Ver.maxAlign : Ver → Nat
  | .v1 => 8
  | .v2 => 4

inductive Prim
  | bool | byte | u8 | i8 | c8 | i16 | u16 | i32 | u32 | f32 | i64 | u64 | f64
  deriving DecidableEq, Repr

/-- `Ossize::SSIZE` / `Align::SSIZE` (serializer.rs:1060, deserializer.rs:1163) -/
def Prim.size : Prim → Nat
  | .bool | .byte | .u8 | .i8 | .c8 => 1
  | .i16 | .u16 => 2
  | .i32 | .u32 | .f32 => 4
  | .i64 | .u64 | .f64 => 8

/-- `size_of` of the Rust element type a `Vec::with_capacity` is created for (deserializer.rs:686) -/
def Prim.memSize : Prim → Nat
  | .c8 => 4
  | p => p.size

inductive Ext
  | final | appendable | mutable
  deriving DecidableEq, Repr

mutual
  inductive Ty
    | prim (p : Prim)
    | str
    /-- enumeration: holder type, literals, extensibility of the type (no DHEADER, no influence on the encoding) -/
    | enum (holder : Prim) (labels : List Int) (ext : Ext)
    /-- wide string (STRING16); a value is the list of its UTF-16 code units -/
    | wstr
    | seq (elem : Ty)
    | arr (elem : Ty) (n : Nat)
    | struct (ext : Ext) (ms : Ms)
    /-- FINAL (`app = false`) or APPENDABLE (`app = true`) union: discriminator kind, branches. A value is
        `.struct [.num disc, .num branchId, value]`, or `.struct [.num disc]` when the discriminator selects no branch.
        (Mutable unions are not modelled: the driver answers `unmodelled`, see notes/xcdr.md Follow-up 2 / 4.) -/
    | union (app : Bool) (disc : Prim) (bs : Bs)
  /-- member list: id, optional, must-understand, type -/
  inductive Ms
    | nil
    | cons (id : Nat) (opt : Bool) (mu : Bool) (t : Ty) (rest : Ms)
  /-- branches of a union: member id, case labels, default branch?, type -/
  inductive Bs
    | nil
    | cons (id : Nat) (labels : List Int) (dflt : Bool) (t : Ty) (rest : Bs)
end

/-- values; `list` = sequence or array, `struct` = members in declaration order, `absent` = member without value -/
inductive Val
  | num (n : Nat)
  | str (bs : Bytes)
  | list (vs : List Val)
  | struct (fs : List Val)
  | absent

instance : Inhabited Val := ⟨.absent⟩

/-! ### which branch of a union -/
/-- index of the first branch with this member id (`DynamicData::get_descriptor(member_id)`) -/
def Bs.firstIdx (id : Nat) : Bs → Option Nat
  | .nil => none
  | .cons id' _ _ _ r => if id' == id then some 0 else (Bs.firstIdx id r).map (· + 1)

/-- index of the first branch with the label `x` -/
def Bs.explicitIdx (x : Int) : Bs → Option Nat
  | .nil => none
  | .cons _ ls _ _ r => if ls.contains x then some 0 else (Bs.explicitIdx x r).map (· + 1)

/-- index of the LAST branch marked default (`default_member = Some(member)` is overwritten in the loop) -/
def Bs.lastDefault : Bs → Option Nat
  | .nil => none
  | .cons _ _ dflt _ r =>
    match Bs.lastDefault r with
    | some j => some (j + 1)
    | none => if dflt then some 0 else none

/-- `deserialize_funion_type` (deserializer.rs:1197): the first branch whose labels contain the discriminator, else
    the default branch, else none (`Err(InvalidData)`) -/
def Bs.selIdx (x : Int) (bs : Bs) : Option Nat :=
  match bs.explicitIdx x with
  | some i => some i
  | none => bs.lastDefault

def Bs.idAt : Bs → Nat → Option Nat
  | .nil, _ => none
  | .cons id _ _ _ _, 0 => some id
  | .cons _ _ _ _ r, n + 1 => r.idAt n

/-- `get_discriminator_id_as_i32` (deserializer.rs:175): the six integer kinds it accepts -/
def discOk (p : Prim) : Bool := p == .u8 || p == .i8 || p == .u16 || p == .i16 || p == .i32 || p == .u32

/-- the discriminator value as `i32` (`*x as i32`: sign extension for the signed kinds, wrap for u32) -/
def discI32 (p : Prim) (n : Nat) : Int :=
  match p with
  | .i8 => if n < 2 ^ 7 then (n : Int) else (n : Int) - 2 ^ 8
  | .i16 => if n < 2 ^ 15 then (n : Int) else (n : Int) - 2 ^ 16
  | .i32 | .u32 => if n < 2 ^ 31 then (n : Int) else (n : Int) - 2 ^ 32
  | _ => (n : Int)

def Ms.length : Ms → Nat
  | .nil => 0
  | .cons _ _ _ _ r => r.length + 1

/-- `is_element_type_kind_primitive` (serializer.rs:628, deserializer.rs:624) -/
def Ty.isPrim : Ty → Bool
  | .prim _ => true
  | _ => false

/-- `is_next_member_having_dheader` of `EMheader1::write_header` (serializer.rs:590): appendable or mutable
    structure, or *any* sequence (also a primitive one, which has no DHEADER) -/
def Ty.lc5 : Ty → Bool
  | .union true _ _ => true
  | .struct .appendable _ => true
  | .struct .mutable _ => true
  | .seq _ => true
  | _ => false

/-! ## Repairs (one Boolean per drafted fix) -/
structure Cfg where
  /-- D12: `checked_mul` for LC 6 / 7 in `seek_to_pid` (deserializer.rs:397) -/
  d12 : Bool
  /-- D13: `Vec::with_capacity(length.min(remaining))` (deserializer.rs:686, 759, 796) -/
  d13 : Bool
  /-- D45: XCDR1 mutable member value is read from its own slice (origin reset) (deserializer.rs:304) -/
  d45 : Bool
  /-- D46: XCDR1 optional member of a final/appendable structure is read in place and consumed (deserializer.rs:265) -/
  d46 : Bool
  /-- D47: XCDR2 `deserialize_delimited`: continue at the DHEADER end (deserializer.rs:480, 564) -/
  d47 : Bool
  /-- D61: the serializer restores the alignment origin after an XCDR1 parameter value (serializer.rs:835) -/
  d61 : Bool
  /-- D66: a sequence length above the number of remaining bytes is rejected (deserializer.rs:250, 449, 1080) -/
  d66 : Bool
  deriving DecidableEq, Repr

def Cfg.asIs : Cfg := ⟨false, false, false, false, false, false, false⟩
def Cfg.fixed : Cfg := ⟨true, true, true, true, true, true, true⟩

/-! ## Bytes of integers -/
def leBytes : Nat → Nat → Bytes
  | 0, _ => []
  | k + 1, n => UInt8.ofNat (n % 256) :: leBytes k (n / 256)

def leVal : Bytes → Nat
  | [] => 0
  | b :: bs => b.toNat + 256 * leVal bs

/-- `E::to_bytes_*` -/
def encNat (e : Endian) (k n : Nat) : Bytes :=
  match e with
  | .le => leBytes k n
  | .be => (leBytes k n).reverse

/-- `E::read_*` -/
def decNat (e : Endian) (bs : Bytes) : Nat :=
  match e with
  | .le => leVal bs
  | .be => leVal bs.reverse

def zeros (n : Nat) : Bytes := List.replicate n 0

/-- number of padding bytes up to the next multiple of `a`: `CdrWriter::pad` (serializer.rs:1275,
    `div_ceil`) and `Reader::seek_padding` (deserializer.rs:1314, mask form; equal for powers of two) -/
def padTo (a pos : Nat) : Nat := (pos + (a - 1)) / a * a - pos

/-- before the repair of D63: `impl AsBytes for char` wrote `to_string().as_bytes()`, the UTF-8 form of U+0000..U+00FF
    (two bytes from 128 on); kept as regression witness (`C09_char8_old_counterexample`) -/
def c8BytesOld (n : Nat) : Bytes :=
  if n < 128 then [UInt8.ofNat n] else [UInt8.ofNat (192 + n / 64 % 4), UInt8.ofNat (128 + n % 64)]

/-- `serialize_char8_type` (D63 repaired): CHAR8 is the single byte with the ISO 8859-1 code of the character
    (a `char` above U+00FF is `Err(InvalidData)`; such a value cannot be stored through the harness) -/
def c8Bytes (n : Nat) : Bytes := [UInt8.ofNat n]

/-! ## Serializer (serializer.rs) -/
abbrev W := Bytes × Nat

/-- `V::align` of the serializer -/
def wPad (ver : Ver) (a pos : Nat) : Nat := padTo (min a ver.maxAlign) pos

def primBytes (e : Endian) (p : Prim) (n : Nat) : Bytes :=
  match p with
  | .c8 => c8Bytes n
  | p => encNat e p.size n

/-- rule (2) `serialize_primitive_type` (serializer.rs:389) -/
def wPrim (ver : Ver) (e : Endian) (p : Prim) (n : Nat) (pos : Nat) : W :=
  let k := wPad ver p.size pos
  let b := primBytes e p n
  (zeros k ++ b, pos + k + b.length)

/-- rule (3) `serialize_string_type` (serializer.rs:400) -/
def wStr (ver : Ver) (e : Endian) (bs : Bytes) (pos : Nat) : W :=
  let h := wPrim ver e .u32 ((bs.length + 1) % 2 ^ 32) pos
  (h.1 ++ bs ++ [0], h.2 + bs.length + 1)

/-- the code unit of a wide-string element -/
def Val.unit : Val → Nat
  | .num n => n
  | _ => 0

/-- `{ O[i] : O.element_type }*` (serializer.rs:245) -/
def wList (f : Val → Nat → W) : List Val → Nat → W
  | [], pos => ([], pos)
  | v :: vs, pos =>
    let a := f v pos
    let b := wList f vs a.2
    (a.1 ++ b.1, b.2)

/-- `serialize_wstring_type` (serializer.rs:406): u32 count of UTF-16 units + 1, the units as u16, a zero unit -/
def wWStr (ver : Ver) (e : Endian) (us : List Val) (pos : Nat) : W :=
  let h := wPrim ver e .u32 ((us.length + 1) % 2 ^ 32) pos
  let b := wList (fun v p => wPrim ver e .u16 v.unit p) us h.2
  let t := wPrim ver e .u16 0 b.2
  (h.1 ++ b.1 ++ t.1, t.2)

/-- rule (26) `serialize_funion_type` (serializer.rs:509): discriminator, then the member at index 1 of the data;
    `g id v` serializes the value `v` of the member `id` -/
def wUnion (ver : Ver) (e : Endian) (disc : Prim) (g : Nat → Val → Nat → W) (fs : List Val) (pos : Nat) : W :=
  match fs with
  | [.num d, .num id, v] =>
    let a := wPrim ver e disc d pos
    let b := g id v a.2
    (a.1 ++ b.1, b.2)
  | [.num d] => wPrim ver e disc d pos
  | _ => ([], pos)

/-- `{ O.length : UInt32 } { O[i] : O.element_type }*` (serializer.rs:463, 767, 949); `f` serializes one element -/
def wSeqBody (ver : Ver) (e : Endian) (f : Val → Nat → W) (vs : List Val) (pos : Nat) : W :=
  let h := wPrim ver e .u32 (vs.length % 2 ^ 32) pos
  let b := wList f vs h.2
  (h.1 ++ b.1, b.2)

/-- `Dheader::new … write_header` (serializer.rs:546): placeholder u32, body, back-patched byte count -/
def wDh (ver : Ver) (e : Endian) (body : Nat → W) (pos : Nat) : W :=
  let k := wPad ver 4 pos
  let b := body (pos + k + 4)
  (zeros k ++ encNat e 4 (b.1.length % 2 ^ 32) ++ b.1, b.2)

/-- XCDR1 `serialize_mmember` (serializer.rs:824): ALIGN(4), pid, u16 size, PUSH(ORIGIN=0), value.
    `pid = member_id as u16 + (m_flag << 14)` (overflow = panic, see `pidOverflow`).
    As is, the origin is never popped: the position after the member is the position *inside* the value. -/
def wMem1 (cfg : Cfg) (e : Endian) (id : Nat) (mu : Bool) (value : Option (Nat → W)) (pos : Nat) : W :=
  let k := wPad .v1 4 pos
  let pid := (id % 2 ^ 16 + (if mu then 2 ^ 14 else 0)) % 2 ^ 16
  let b : W := match value with
    | some f => f 0
    | none => ([], 0)
  (zeros k ++ encNat e 2 pid ++ encNat e 2 (b.1.length % 2 ^ 16) ++ b.1,
   if cfg.d61 then pos + k + 4 + b.1.length else b.2)

/-- the serializer of a member value if the member has one (`v.get_value(member_id).is_ok()`) -/
def optEnc (f : Val) (g : Val → Nat → W) : Option (Nat → W) :=
  match f with
  | .absent => none
  | f => some (g f)

/-- XCDR2 `serialize_opt_fmember` (serializer.rs:963): `<is_present>` flag, then the value if present -/
def wOpt2 (ver : Ver) (e : Endian) (value : Option (Nat → W)) (pos : Nat) : W :=
  match value with
  | none => wPrim ver e .bool 0 pos
  | some g =>
    let h := wPrim ver e .bool 1 pos
    let b := g h.2
    (h.1 ++ b.1, b.2)

/-- `serialize_fmember` (serializer.rs:344): rules (18) (19) (20); `g` serializes the member value -/
def wFMember (cfg : Cfg) (ver : Ver) (e : Endian) (id : Nat) (opt mu : Bool) (f : Val) (g : Val → Nat → W)
    (pos : Nat) : W :=
  if opt then
    match ver with
    | .v1 => wMem1 cfg e id mu (optEnc f g) pos
    | .v2 => wOpt2 ver e (optEnc f g) pos
  else g f pos

/-- one present member of a mutable structure, before ordering -/
structure Chunk where
  id : Nat
  mu : Bool
  lc5 : Bool
  enc : Nat → W

/-- the length code `EMheader1::write_header` chooses (serializer.rs:598-608) -/
def lcOf (lc5 : Bool) (ssize : Nat) : Nat :=
  if lc5 then 5 else if ssize = 1 then 0 else if ssize = 2 then 1 else if ssize = 4 then 2
  else if ssize = 8 then 3 else 4

/-- XCDR2 `serialize_mmember` + `EMheader1` (serializer.rs:1009, 570): EMHEADER placeholder, value, LC chosen from
    the value size, NEXTINT spliced in for LC = 4 (`position += 4`) -/
def wMem2 (e : Endian) (c : Chunk) (pos : Nat) : W :=
  let k := wPad .v2 4 pos
  let b := c.enc (pos + k + 4)
  let ssize := b.1.length % 2 ^ 32
  let lc := lcOf c.lc5 ssize
  let em := (if c.mu then 2 ^ 31 else 0) + lc * 2 ^ 28 + c.id % 2 ^ 28
  (zeros k ++ encNat e 4 em ++ (if lc = 4 then encNat e 4 ssize else []) ++ b.1,
   if lc = 4 then b.2 + 4 else b.2)

/-- iteration order of a mutable structure = key order of `DynamicData.abstract_data : BTreeMap<MemberId, _>`
    (`get_member_id_at_index`, dynamic_type.rs:950): ascending member id -/
def insertChunk (c : Chunk) : List Chunk → List Chunk
  | [] => [c]
  | d :: ds => if c.id ≤ d.id then c :: d :: ds else d :: insertChunk c ds

def sortChunks : List Chunk → List Chunk
  | [] => []
  | c :: cs => insertChunk c (sortChunks cs)

/-- XCDR1 `serialize_mstruct_type` (serializer.rs:796): members, ALIGN(4) (not in the standard), sentinel -/
def emit1 (cfg : Cfg) (e : Endian) : List Chunk → Nat → W
  | [], pos =>
    let k := wPad .v1 4 pos
    (zeros k ++ encNat e 2 1 ++ encNat e 2 0, pos + k + 4)
  | c :: cs, pos =>
    let a := wMem1 cfg e c.id c.mu (some c.enc) pos
    let b := emit1 cfg e cs a.2
    (a.1 ++ b.1, b.2)

/-- XCDR2 `serialize_mstruct_type` body (serializer.rs:985) -/
def emit2 (e : Endian) : List Chunk → Nat → W
  | [], pos => ([], pos)
  | c :: cs, pos =>
    let a := wMem2 e c pos
    let b := emit2 e cs a.2
    (a.1 ++ b.1, b.2)

mutual
  /-- `serialize_value` / `serialize_t_as_nested` (serializer.rs:192, 167) by member type -/
  def ser (cfg : Cfg) (ver : Ver) (e : Endian) : Ty → Val → Nat → W
    | .prim p, .num n, pos => wPrim ver e p n pos
    | .str, .str bs, pos => wStr ver e bs pos
    | .enum h _ _, .num n, pos => wPrim ver e h n pos
    | .wstr, .list us, pos => wWStr ver e us pos
    | .seq el, .list vs, pos =>
      -- rules (11) (12) (13): serializer.rs:462, 943, 762
      if el.isPrim || ver == .v1 then wSeqBody ver e (ser cfg ver e el) vs pos
      else wDh ver e (wSeqBody ver e (ser cfg ver e el) vs) pos
    | .arr el _, .list vs, pos =>
      -- rules (8) (9) (10): serializer.rs:450, 922, 746
      if el.isPrim || ver == .v1 then wList (ser cfg ver e el) vs pos
      else wDh ver e (wList (ser cfg ver e el) vs) pos
    | .struct .final ms, .struct fs, pos => serF cfg ver e ms fs pos
    | .struct .appendable ms, .struct fs, pos =>
      -- rules (29) (30): serializer.rs:874, 1049
      if ver == .v1 then serF cfg ver e ms fs pos else wDh ver e (serF cfg ver e ms fs) pos
    | .struct .mutable ms, .struct fs, pos =>
      -- rules (23) (21): serializer.rs:796, 985
      let cs := sortChunks (chunks cfg ver e ms fs)
      if ver == .v1 then emit1 cfg e cs pos else wDh ver e (emit2 e cs) pos
    -- rule (26) `serialize_funion_type` (serializer.rs:509): discriminator, then the member at index 1 of the data
    -- rule (26) final union; appendable union = rules (29) / (30) over it (`serialize_t_as_nested`, also for the
    -- elements of a collection since D78 is repaired)
    | .union app disc bs, .struct fs, pos =>
      if app && ver == .v2 then wDh ver e (wUnion ver e disc (serB cfg ver e bs) fs) pos
      else wUnion ver e disc (serB cfg ver e bs) fs pos
    | _, _, pos => ([], pos)
  /-- the selected member of a union value: serialized with the type of the first branch that has its member id -/
  def serB (cfg : Cfg) (ver : Ver) (e : Endian) : Bs → Nat → Val → Nat → W
    | .cons id' _ _ t r, id, v, pos => if id' == id then ser cfg ver e t v pos else serB cfg ver e r id v pos
    | .nil, _, _, pos => ([], pos)
  /-- rule (17) `serialize_fstruct_type` (serializer.rs:475) with (18) (19) (20) -/
  def serF (cfg : Cfg) (ver : Ver) (e : Endian) : Ms → List Val → Nat → W
    | .cons id opt mu t rest, f :: fs, pos =>
      let a := wFMember cfg ver e id opt mu f (ser cfg ver e t) pos
      let b := serF cfg ver e rest fs a.2
      (a.1 ++ b.1, b.2)
    | _, _, pos => ([], pos)
  /-- the present members of a mutable structure (keys of the BTreeMap) -/
  def chunks (cfg : Cfg) (ver : Ver) (e : Endian) : Ms → List Val → List Chunk
    | .cons id _ mu t rest, f :: fs =>
      match f with
      | .absent => chunks cfg ver e rest fs
      | f => ⟨id, mu, t.lc5, ser cfg ver e t f⟩ :: chunks cfg ver e rest fs
    | _, _ => []
end

/-- second byte of the representation identifier (`serialize_enc_header`, serializer.rs:719, 890) -/
def repId (ver : Ver) (e : Endian) (x : Ext) : Nat :=
  let base := match ver, x with
    | .v1, .final => 0
    | .v1, .appendable => 0
    | .v1, .mutable => 2
    | .v2, .final => 6
    | .v2, .appendable => 8
    | .v2, .mutable => 10
  base + (match e with | .be => 0 | .le => 1)

def Ty.ext : Ty → Ext
  | .struct x _ => x
  | _ => .final

/-- `pad_entire_serialization` (serializer.rs:109): pad count for a buffer of `len` bytes -/
def padCount (len : Nat) : Nat := (4 - len % 4) % 4

/-- `serialize_cdr{1,2}_{le,be}` = rule (1) + `pad_entire_serialization`:
    `[0, id, 0, pad] ++ body ++ zeros pad` -/
def serTop (cfg : Cfg) (ver : Ver) (e : Endian) (t : Ty) (v : Val) : Bytes :=
  let b := (ser cfg ver e t v 0).1
  let pad := padCount (4 + b.length)
  [0, UInt8.ofNat (repId ver e t.ext), 0, UInt8.ofNat pad] ++ b ++ zeros pad

/-- `member_id as u16 + (m_flag << 14)` overflows `u16` (panic in a debug build) -/
def pidOverflow (id : Nat) (mu : Bool) : Bool := id % 2 ^ 16 + (if mu then 2 ^ 14 else 0) ≥ 2 ^ 16

mutual
  /-- the value has the shape of the type and every member that `serialize_value` reads is present;
      otherwise the real serializer returns `Err` or panics on an `unwrap` (driver: `bad-op`) -/
  def shapeOk : Ty → Val → Bool
    | .prim p, .num n => n < 2 ^ (8 * p.size) && (p != .bool || n ≤ 1)
    | .str, .str _ => true
    | .enum h _ _, .num n => n < 2 ^ (8 * h.size)
    | .wstr, .list us => us.all fun v => match v with | .num n => n < 2 ^ 16 | _ => false
    | .seq el, .list vs => vs.all (shapeOk el)
    | .arr el n, .list vs => vs.length == n && vs.all (shapeOk el)
    | .struct x ms, .struct fs => shapeOkMs (x == .mutable) ms fs
    | .union _ disc bs, .struct fs =>
      match fs with
      | [.num d, .num id, v] => d < 2 ^ (8 * disc.size) && (disc != .bool || d ≤ 1) && shapeOkB bs id v
      | [.num d] => d < 2 ^ (8 * disc.size) && (disc != .bool || d ≤ 1)
      | _ => false
    | _, _ => false
  def shapeOkB : Bs → Nat → Val → Bool
    | .cons id' _ _ t r, id, v => if id' == id then (id != 0 && shapeOk t v) else shapeOkB r id v
    | .nil, _, _ => false
  def shapeOkMs (mt : Bool) : Ms → List Val → Bool
    | .nil, [] => true
    | .cons _ opt _ t rest, f :: fs =>
      (match f with
       | .absent => opt || mt
       | f => shapeOk t f) && shapeOkMs mt rest fs
    | _, _ => false
end

mutual
  /-- XCDR1 only: some parameter id of a present mutable / optional member overflows `u16` -/
  def serPanics1 : Ty → Val → Bool
    | .seq el, .list vs => vs.any (serPanics1 el)
    | .arr el _, .list vs => vs.any (serPanics1 el)
    | .struct x ms, .struct fs => serPanics1Ms (x == .mutable) ms fs
    | .union _ _ bs, .struct fs =>
      match fs with
      | [.num _, .num id, v] => serPanics1B bs id v
      | _ => false
    | _, _ => false
  def serPanics1B : Bs → Nat → Val → Bool
    | .cons id' _ _ t r, id, v => if id' == id then serPanics1 t v else serPanics1B r id v
    | .nil, _, _ => false
  def serPanics1Ms (mt : Bool) : Ms → List Val → Bool
    | .cons id opt mu t rest, f :: fs =>
      (match f with
       | .absent => !mt && opt && pidOverflow id mu
       | f => ((mt || opt) && pidOverflow id mu) || serPanics1 t f) || serPanics1Ms mt rest fs
    | _, _ => false
end

/-! ## Deserializer (deserializer.rs) -/
structure St where
  rem : Bytes
  pos : Nat
  deriving DecidableEq, Repr

inductive Err
  | notEnoughData | invalidData | invalidType | pidNotFound
  deriving DecidableEq, Repr

inductive Pk
  /-- `4 * u32` / `8 * u32` overflow in `seek_to_pid` (deserializer.rs:397) -/
  | mulOverflow
  /-- `Vec::with_capacity(length)` above the allocation limit (deserializer.rs:686) -/
  | alloc
  /-- `todo!()` / `panic!("Invalid discriminator")` for an unsupported type -/
  | unsupported
  deriving DecidableEq, Repr

inductive Res (α : Type)
  | ok (a : α) (s : St)
  | err (e : Err) (s : St)
  | panic (k : Pk)

/-- the decoded value, if decoding succeeded -/
def Res.val? {α : Type} : Res α → Option α
  | .ok a _ => some a
  | _ => none

def Res.bind {α β : Type} (r : Res α) (f : α → St → Res β) : Res β :=
  match r with
  | .ok a s => f a s
  | .err e s => .err e s
  | .panic k => .panic k

def Res.map {α β : Type} (r : Res α) (f : α → β) : Res β :=
  match r with
  | .ok a s => .ok (f a) s
  | .err e s => .err e s
  | .panic k => .panic k

/-- `Reader::seek` (deserializer.rs:1305) -/
def rSeek (n : Nat) (s : St) : Res Unit :=
  if n ≤ s.rem.length then .ok () ⟨s.rem.drop n, s.pos + n⟩ else .err .notEnoughData s

/-- `Reader::read_bytes` (deserializer.rs:1296) -/
def rBytes (n : Nat) (s : St) : Res Bytes :=
  if n ≤ s.rem.length then .ok (s.rem.take n) ⟨s.rem.drop n, s.pos + n⟩ else .err .notEnoughData s

/-- `V::align` of the deserializer (deserializer.rs:189, 373): XCDR1 `seek_padding(alignment)`,
    XCDR2 `seek_padding(min(alignment, 4))` -/
def Ver.readAlign (ver : Ver) (a : Nat) : Nat :=
  match ver with
  | .v1 => a
  | .v2 => min a 4

def rAlign (ver : Ver) (a : Nat) (s : St) : Res Unit :=
  rSeek (padTo (ver.readAlign a) s.pos) s

/-- rule (2) `deserialize_primitive_type` (deserializer.rs:950) + `AsBytes` (bool: 0/1 only) -/
def dPrim (ver : Ver) (e : Endian) (p : Prim) (s : St) : Res Nat :=
  (rAlign ver p.size s).bind fun _ s1 =>
  (rBytes p.size s1).bind fun bs s2 =>
    let n := decNat e bs
    if p == .bool && n > 1 then .err .invalidData s2 else .ok n s2

def isCont (b : UInt8) : Bool := 128 ≤ b.toNat && b.toNat ≤ 191

/-- `String::from_utf8` accepts exactly well-formed UTF-8 (Unicode table 3-7) -/
def utf8Valid : Bytes → Bool
  | [] => true
  | [a] => a.toNat < 128
  | [a, b] =>
    if a.toNat < 128 then utf8Valid [b]
    else 194 ≤ a.toNat && a.toNat ≤ 223 && isCont b
  | [a, b, c] =>
    if a.toNat < 128 then utf8Valid [b, c]
    else if 194 ≤ a.toNat && a.toNat ≤ 223 then isCont b && utf8Valid [c]
    else if a.toNat == 224 then 160 ≤ b.toNat && b.toNat ≤ 191 && isCont c
    else if a.toNat == 237 then 128 ≤ b.toNat && b.toNat ≤ 159 && isCont c
    else if 225 ≤ a.toNat && a.toNat ≤ 239 then isCont b && isCont c
    else false
  | a :: b :: c :: d :: r =>
    if a.toNat < 128 then utf8Valid (b :: c :: d :: r)
    else if 194 ≤ a.toNat && a.toNat ≤ 223 then isCont b && utf8Valid (c :: d :: r)
    else if a.toNat == 224 then 160 ≤ b.toNat && b.toNat ≤ 191 && isCont c && utf8Valid (d :: r)
    else if a.toNat == 237 then 128 ≤ b.toNat && b.toNat ≤ 159 && isCont c && utf8Valid (d :: r)
    else if 225 ≤ a.toNat && a.toNat ≤ 239 then isCont b && isCont c && utf8Valid (d :: r)
    else if a.toNat == 240 then 144 ≤ b.toNat && b.toNat ≤ 191 && isCont c && isCont d && utf8Valid r
    else if a.toNat == 244 then 128 ≤ b.toNat && b.toNat ≤ 143 && isCont c && isCont d && utf8Valid r
    else if 241 ≤ a.toNat && a.toNat ≤ 243 then isCont b && isCont c && isCont d && utf8Valid r
    else false

/-- rule (3) `deserialize_string_type` (deserializer.rs:959): `length.saturating_sub(1)` bytes, the NUL, UTF-8 check -/
def dStr (ver : Ver) (e : Endian) (s : St) : Res Val :=
  (dPrim ver e .u32 s).bind fun len s1 =>
  (rBytes (len - 1) s1).bind fun bs s2 =>
  (rBytes 1 s2).bind fun _ s3 =>
    if utf8Valid bs then .ok (.str bs) s3 else .err .invalidData s3

/-- `String::from_utf16` accepts exactly the sequences without unpaired surrogates -/
def utf16Valid : List Nat → Bool
  | [] => true
  | u :: rest =>
    if 0xD800 ≤ u && u ≤ 0xDBFF then
      (match rest with
       | l :: r => 0xDC00 ≤ l && l ≤ 0xDFFF && utf16Valid r
       | [] => false)
    else if 0xDC00 ≤ u && u ≤ 0xDFFF then false
    else utf16Valid rest

/-- `for _ in 0..num_units { units.push(deserialize::<u16>()?) }` -/
def dUnits (ver : Ver) (e : Endian) : Nat → St → Res (List Val)
  | 0, s => .ok [] s
  | n + 1, s =>
    (dPrim ver e .u16 s).bind fun u s1 =>
    (dUnits ver e n s1).bind fun us s2 => .ok (.num u :: us) s2

/-- `deserialize_wstring_type` (deserializer.rs:1030): a length of 0 is the empty string (nothing else is read);
    otherwise `length - 1` units, the terminator (must be 0), `String::from_utf16`.
    `Vec::with_capacity(num_units.min(remaining))` never exceeds the input length. -/
def dWStr (ver : Ver) (e : Endian) (s : St) : Res Val :=
  (dPrim ver e .u32 s).bind fun len s1 =>
    if len == 0 then .ok (.list []) s1
    else
      (dUnits ver e (len - 1) s1).bind fun us s2 =>
      (dPrim ver e .u16 s2).bind fun nul s3 =>
        if nul != 0 then .err .invalidData s3
        else if utf16Valid (us.map Val.unit) then .ok (.list us) s3 else .err .invalidData s3

/-- a single allocation request above this many bytes counts as unbounded (harness: `ALLOC-LIMIT`) -/
def ALLOC_LIMIT : Nat := 2 ^ 24

/-- `RawVec::grow_amortized`: capacity after a `push` onto a vector with `len` elements and capacity `cap`
    (`max(2·cap, len + 1, MIN_NON_ZERO_CAP)`, `MIN_NON_ZERO_CAP` = 8 for 1-byte elements, else 4) -/
def growCap (sz len cap : Nat) : Nat :=
  if len == cap then max (max (2 * cap) (cap + 1)) (if sz == 1 then 8 else 4) else cap

/-- `let mut v = Vec::with_capacity(cap); for _ in 0..n { v.push(f()?) }` with elements of `sz` bytes:
    `len` elements pushed so far; a reallocation above `ALLOC_LIMIT` is the outcome `panic alloc` -/
def dList (sz : Nat) (f : St → Res Val) : Nat → Nat → Nat → St → Res (List Val)
  | 0, _, _, s => .ok [] s
  | n + 1, len, cap, s =>
    (f s).bind fun v s1 =>
      if growCap sz len cap * sz ≤ ALLOC_LIMIT then
        (dList sz f n (len + 1) (growCap sz len cap) s1).bind fun vs s2 => .ok (v :: vs) s2
      else .panic .alloc

/-- `Vec::with_capacity(length)`; with D13 `length.min(remaining)` -/
def initCap (cfg : Cfg) (len : Nat) (s : St) : Nat := if cfg.d13 then min len s.rem.length else len

/-- the vector of `len` decoded elements of `sz` bytes each -/
def dVec (cfg : Cfg) (sz : Nat) (f : St → Res Val) (len : Nat) (s : St) : Res Val :=
  if initCap cfg len s * sz ≤ ALLOC_LIMIT then (dList sz f len 0 (initCap cfg len s) s).map .list
  else .panic .alloc

def signed (bits n : Nat) : Int := if n < 2 ^ (bits - 1) then (n : Int) else (n : Int) - (2 ^ bits : Nat)

/-- rule (5) `deserialize_enum_type` (deserializer.rs:990) -/
def dEnum (ver : Ver) (e : Endian) (h : Prim) (labels : List Int) (s : St) : Res Val :=
  if h == .i8 || h == .i16 || h == .i32 then
    (dPrim ver e h s).bind fun n s1 =>
      if labels.isEmpty || labels.contains (signed (8 * h.size) n) then .ok (.num n) s1 else .err .invalidData s1
  else .panic .unsupported

/-- `deserialize_sequence_elements` (deserializer.rs:671); `f` decodes one element (`de el`) -/
def dElems (cfg : Cfg) (ver : Ver) (e : Endian) (el : Ty) (f : St → Res Val) (len : Nat) (s : St) : Res Val :=
  match el with
  | .prim .byte => (rBytes len s).map fun bs => .list (bs.map fun b => .num b.toNat)
  | .prim .u8 => (rBytes len s).map fun bs => .list (bs.map fun b => .num b.toNat)
  | .prim p => dVec cfg p.memSize f len s
  | .str => dVec cfg 24 f len s
  | .enum _ _ _ => dVec cfg 48 f len s
  | .wstr => dVec cfg 24 f len s
  | .struct _ _ => dVec cfg 48 f len s
  | .union _ _ _ => dVec cfg 48 f len s
  | .seq _ => .panic .unsupported
  | .arr _ _ => .panic .unsupported

/-- XCDR1 `seek_to_pid` (deserializer.rs:196); `fuel` bounds the loop (every iteration consumes ≥ 4 bytes) -/
def seekPid1 (e : Endian) : Nat → Nat → St → Res Nat
  | 0, _, s => .err .notEnoughData s
  | fuel + 1, pid, s =>
    (dPrim .v1 e .u16 s).bind fun cur s1 =>
    (dPrim .v1 e .u16 s1).bind fun len s2 =>
      if cur % 2 ^ 14 == 1 && len == 0 then
        (if pid == 1 then .ok 0 s2 else .err .pidNotFound s2)
      else if cur % 2 ^ 14 == pid then .ok len s2
      else
        (rSeek len s2).bind fun _ s3 =>
        (rAlign .v1 4 s3).bind fun _ s4 => seekPid1 e fuel pid s4

/-- the `length` of `seek_to_pid` for XCDR2 (deserializer.rs:390) -/
def lcLen (cfg : Cfg) (e : Endian) (lc : Nat) (s : St) : Res Nat :=
  if lc == 0 then .ok 1 s
  else if lc == 1 then .ok 2 s
  else if lc == 2 then .ok 4 s
  else if lc == 3 then .ok 8 s
  else if lc == 4 || lc == 5 then dPrim .v2 e .u32 s
  else
    (dPrim .v2 e .u32 s).bind fun n s1 =>
      let k := if lc == 6 then 4 else 8
      if k * n < 2 ^ 32 then .ok (k * n) s1
      else if cfg.d12 then .err .invalidData s1 else .panic .mulOverflow

/-- XCDR2 `seek_to_pid` (deserializer.rs:382); for LC = 5 the position goes back to the NEXTINT -/
def seekPid2 (cfg : Cfg) (e : Endian) : Nat → Nat → St → Res Nat
  | 0, _, s => .err .notEnoughData s
  | fuel + 1, pid, s =>
    (dPrim .v2 e .u32 s).bind fun em s1 =>
      let cur := em % 2 ^ 28 % 2 ^ 16
      let lc := em / 2 ^ 28 % 8
      (lcLen cfg e lc s1).bind fun len s2 =>
        if cur == pid then .ok (len % 2 ^ 16) (if lc == 5 then s1 else s2)
        else
          (rSeek len s2).bind fun _ s3 =>
          (rAlign .v2 4 s3).bind fun _ s4 => seekPid2 cfg e fuel pid s4

/-- the result with the reader put back to `s0` (`deserializer.reader.pos = orig_pos; result`) -/
def Res.restore {α : Type} (r : Res α) (s0 : St) : Res α :=
  match r with
  | .ok a _ => .ok a s0
  | .err e _ => .err e s0
  | .panic k => .panic k

/-- XCDR1 `deserialize_mmember` (deserializer.rs:294); `f` decodes the member value -/
def dMem1 (cfg : Cfg) (e : Endian) (f : St → Res Val) (id : Nat) (s : St) : Res Val :=
  (rAlign .v1 4 s).bind fun _ s0 =>
    match seekPid1 e (s0.rem.length + 1) (id % 2 ^ 16) s0 with
    | .ok len s1 =>
      if len > 0 then
        if cfg.d45 then
          (if len ≤ s1.rem.length then (f ⟨s1.rem.take len, 0⟩).restore s0 else .err .notEnoughData s0)
        else (f s1).restore s0
      else .ok .absent s0
    | .err _ _ => .ok .absent s0
    | .panic k => .panic k

/-- XCDR2 `deserialize_mmember` (deserializer.rs:493) -/
def dMem2 (cfg : Cfg) (e : Endian) (f : St → Res Val) (id : Nat) (s : St) : Res Val :=
  (rAlign .v2 4 s).bind fun _ s0 =>
    match seekPid2 cfg e (s0.rem.length + 1) (id % 2 ^ 16) s0 with
    | .ok _ s1 => (f s1).restore s0
    | .err _ _ => .ok .absent s0
    | .panic k => .panic k

/-- XCDR1 optional member of a final/appendable structure with D46: read in place and consumed -/
def dOpt1Fixed (e : Endian) (f : St → Res Val) (s : St) : Res Val :=
  (rAlign .v1 4 s).bind fun _ s0 =>
  (dPrim .v1 e .u16 s0).bind fun _ s1 =>
  (dPrim .v1 e .u16 s1).bind fun len s2 =>
    if len ≤ s2.rem.length then
      let send : St := ⟨s2.rem.drop len, s2.pos + len⟩
      if len > 0 then (f ⟨s2.rem.take len, 0⟩).restore send else .ok .absent send
    else .err .notEnoughData s2

/-- the element count of a sequence; with D66 a count above the remaining bytes is `NotEnoughData` -/
def dSeqLen (cfg : Cfg) (ver : Ver) (e : Endian) (s : St) : Res Nat :=
  (dPrim ver e .u32 s).bind fun len s1 =>
    if cfg.d66 && len > s1.rem.length then .err .notEnoughData s1 else .ok len s1

/-- `{ O.length : UInt32 } { O[i] : O.element_type }*` on the reading side -/
def dSeqBody (cfg : Cfg) (ver : Ver) (e : Endian) (el : Ty) (f : St → Res Val) (s : St) : Res Val :=
  (dSeqLen cfg ver e s).bind fun len s1 => dElems cfg ver e el f len s1

/-- D47 `deserialize_delimited`: DHEADER, `f`, continue at the DHEADER end if it is inside the buffer -/
def dDelimited {α : Type} (ver : Ver) (e : Endian) (f : St → Res α) (s : St) : Res α :=
  (dPrim ver e .u32 s).bind fun dh s0 =>
    if dh ≤ s0.rem.length then (f s0).restore ⟨s0.rem.drop dh, s0.pos + dh⟩ else f s0

/-- `deserialize_fmember` (deserializer.rs:935): rules (18) (19) (20); `g` decodes the member value -/
def dFMember (cfg : Cfg) (ver : Ver) (e : Endian) (id : Nat) (opt : Bool) (g : St → Res Val) (s : St) : Res Val :=
  if opt then
    match ver with
    | .v1 => if cfg.d46 then dOpt1Fixed e g s else dMem1 cfg e g id s
    | .v2 =>
      (dPrim ver e .bool s).bind fun flag s1 =>
        if flag == 1 then g s1 else .ok .absent s1
  else g s

/-- `deserialize_funion_type` (deserializer.rs:1197): the discriminator (one of the six kinds of
    `get_discriminator_id_as_i32`, else `InvalidType`), then the branch it selects (`g d i` decodes branch `i`);
    D80 repaired: when it selects none, no member is active (was `Err(InvalidData)`) -/
def dUnion (ver : Ver) (e : Endian) (disc : Prim) (bs : Bs) (g : Nat → Nat → St → Res Val) (s : St) : Res Val :=
  (dPrim ver e disc s).bind fun d s1 =>
    if !discOk disc then .err .invalidType s1
    else
      match bs.selIdx (discI32 disc d) with
      | some i => g d i s1
      | none => .ok (.struct [.num d]) s1

def absents (n : Nat) : List Val := List.replicate n .absent

mutual
  /-- `deserialize_value` / `deserialize_as_nested` (deserializer.rs:844, 810) by member type -/
  def de (cfg : Cfg) (ver : Ver) (e : Endian) : Ty → St → Res Val
    | .prim p, s => (dPrim ver e p s).map .num
    | .str, s => dStr ver e s
    | .enum h ls _, s => dEnum ver e h ls s
    | .wstr, s => dWStr ver e s
    | .seq el, s =>
      -- rules (11) (13) (12): deserializer.rs:1075, 245, 443
      if el.isPrim || ver == .v1 then dSeqBody cfg ver e el (de cfg ver e el) s
      else (dPrim ver e .u32 s).bind fun _ s0 => dSeqBody cfg ver e el (de cfg ver e el) s0
    | .arr el n, s =>
      -- rules (8) (10) (9): deserializer.rs:1054, 224, 420
      if el.isPrim || ver == .v1 then dElems cfg ver e el (de cfg ver e el) n s
      else (dPrim ver e .u32 s).bind fun _ s0 => dElems cfg ver e el (de cfg ver e el) n s0
    -- rule (26) `deserialize_funion_type`; an appendable union goes through `deserialize_appendable_type` of the
    -- version (D77 repaired: XCDR1 as final, XCDR2 `deserialize_delimited`)
    | .union app disc bs, s =>
      if app && ver == .v2 then dDelimited ver e (dUnion ver e disc bs (fun d i s1 => deAt cfg ver e d bs i s1)) s
      else dUnion ver e disc bs (fun d i s1 => deAt cfg ver e d bs i s1) s
    | .struct .final ms, s => (deF cfg ver e false ms s).map .struct
    | .struct .appendable ms, s =>
      -- rules (29) (30): deserializer.rs:363, 560
      match ver with
      | .v1 => (deF cfg ver e true ms s).map .struct
      | .v2 =>
        if cfg.d47 then (dDelimited ver e (deF cfg ver e true ms) s).map .struct
        else
          -- `let _dheader = deserializer.deserialize_primitive_type::<u32>();` : an error is dropped
          match dPrim ver e .u32 s with
          | .ok _ s0 => (deF cfg ver e true ms s0).map .struct
          | .err _ s0 => (deF cfg ver e true ms s0).map .struct
          | .panic k => .panic k
    | .struct .mutable ms, s =>
      -- rules (23) (21): deserializer.rs:275, 476
      match ver with
      | .v1 =>
        (deM cfg ver e ms s).bind fun fs s1 =>
        (seekPid1 e (s1.rem.length + 1) 1 s1).bind fun _ s2 => .ok (.struct fs) s2
      | .v2 =>
        if cfg.d47 then (dDelimited ver e (deM cfg ver e ms) s).map .struct
        else (dPrim ver e .u32 s).bind fun _ s0 => (deM cfg ver e ms s0).map .struct
  /-- the selected branch (index `i`) of a union: `deserialize_fmember(member)`, stored under the member's id -/
  def deAt (cfg : Cfg) (ver : Ver) (e : Endian) (d : Nat) : Bs → Nat → St → Res Val
    | .nil, _, s => .err .invalidData s
    | .cons id _ _ t _, 0, s => (de cfg ver e t s).map fun v => .struct [.num d, .num id, v]
    | .cons _ _ _ _ r, n + 1, s => deAt cfg ver e d r n s
  /-- rule (17) `deserialize_fstruct_type` (deserializer.rs:1095): an appendable structure stops silently at the
      first member that reports `NotEnoughData` -/
  def deF (cfg : Cfg) (ver : Ver) (e : Endian) (app : Bool) : Ms → St → Res (List Val)
    | .nil, s => .ok [] s
    | .cons id opt _ t rest, s =>
      match dFMember cfg ver e id opt (de cfg ver e t) s with
      | .ok v s1 => (deF cfg ver e app rest s1).bind fun vs s2 => .ok (v :: vs) s2
      | .err er s1 =>
        if app && er == .notEnoughData then .ok (absents (rest.length + 1)) s1 else .err er s1
      | .panic k => .panic k
  /-- `deserialize_members` (deserializer.rs:661) -/
  def deM (cfg : Cfg) (ver : Ver) (e : Endian) : Ms → St → Res (List Val)
    | .nil, s => .ok [] s
    | .cons id _ _ t rest, s =>
      let r : Res Val := match ver with
        | .v1 => dMem1 cfg e (de cfg ver e t) id s
        | .v2 => dMem2 cfg e (de cfg ver e t) id s
      r.bind fun v s1 =>
      (deM cfg ver e rest s1).bind fun vs s2 => .ok (v :: vs) s2
end

/-- `deserialize_top_level_type` (deserializer.rs:580): version and byte order from the representation
    identifier, the options bytes are skipped, whatever follows the value is ignored -/
def deTopGo (cfg : Cfg) (t : Ty) (ver : Ver) (e : Endian) (s0 : St) : Res Val :=
  match t with
  | .struct _ _ => de cfg ver e t s0
  | _ => .err .invalidType s0

def deTop (cfg : Cfg) (t : Ty) (bytes : Bytes) : Res Val :=
  match bytes with
  | a :: b :: _ :: _ :: body =>
    if a.toNat != 0 then .err .invalidData ⟨body, 0⟩
    else if b.toNat == 0 || b.toNat == 2 then deTopGo cfg t .v1 .be ⟨body, 0⟩
    else if b.toNat == 1 || b.toNat == 3 then deTopGo cfg t .v1 .le ⟨body, 0⟩
    else if b.toNat == 6 || b.toNat == 8 || b.toNat == 10 then deTopGo cfg t .v2 .be ⟨body, 0⟩
    else if b.toNat == 7 || b.toNat == 9 || b.toNat == 11 then deTopGo cfg t .v2 .le ⟨body, 0⟩
    else .err .invalidData ⟨body, 0⟩
  | _ => .err .notEnoughData ⟨bytes, 0⟩

end DustVerif.Xcdr
