/-
Model of the discovered-participant bookkeeping of ONE domain participant of dust-dds:
  dds/src/dcps/dcps_domain_participant/discovery_methods.rs
    add_discovered_participant      domain id / domain tag / ignored checks, entry creation, entry refresh on re-announcement
                                    (with the repair fixes/D-spdp-1.patch; `addDiscoveredOld` is the code before it)
    remove_discovered_participant   (:2638) (the participant-list part; what happens to matched endpoints is C16)
    remove_stale_participants       (:228)  `now - last_communication_timestamp > lease_duration`, one removal per loop turn
    process_discovered_participants_detector_cache_change (:1874) valid sample -> add, disposed/unregistered -> remove
  dds/src/dcps/dcps_domain_participant/builtin_data_reader.rs:66-72 and communication_methods.rs:60-65
    every received cache change (SPDP, SEDP or user DATA) of a writer whose GUID prefix is in the list refreshes
    last_communication_timestamp
  dds/src/dcps/dcps_domain_participant/participant_methods.rs:467 ignore_participant
Times and durations are nanoseconds (Nat; `now - lastSeen` is truncated subtraction: a stamp from the future is not stale,
as with the signed Duration of the code). Keys are participant GUIDs (the instance id of the GUID prefix).
Import-free.
-/
namespace DustVerif.Spdp

/-- DiscoveredParticipantInfo, reduced to what the property is about -/
structure Entry where
  key : Nat
  lease : Nat
  lastSeen : Nat
deriving DecidableEq, Repr

/-- SpdpDiscoveredParticipantData as received -/
structure Data where
  key : Nat
  /-- PID_DOMAIN_ID may be absent -/
  domainId : Option Nat
  tag : String
  lease : Nat
deriving DecidableEq, Repr

structure St where
  domainId : Nat
  tag : String
  enabled : Bool
  /-- discovered_participant_list -/
  list : List Entry
  /-- ignored_participants -/
  ignored : List Nat
deriving DecidableEq, Repr

def St.init (domainId : Nat) (tag : String) : St :=
  { domainId := domainId
    tag := tag
    enabled := true
    list := []
    ignored := [] }

def keys (l : List Entry) : List Nat := l.map Entry.key

def entryHasKey (k : Nat) (e : Entry) : Bool := e.key == k
def entryNotKey (k : Nat) (e : Entry) : Bool := !(e.key == k)

/-- `discovered_participant_list.iter_mut().find(|x| x.guid_prefix == prefix)` … `last_communication_timestamp = now` -/
def touchList (k now : Nat) : List Entry → List Entry
  | [] => []
  | e :: es => if e.key == k then { e with lastSeen := now } :: es else e :: touchList k now es

/-- a cache change of a writer of participant `k` was received at `now` -/
def touch (s : St) (k now : Nat) : St := { s with list := touchList k now s.list }

def domainIdMatches (s : St) (d : Data) : Bool :=
  match d.domainId with
  | some x => x == s.domainId
  | none => true

/-- is the announcement for us: domain id absent or equal, domain tag equal, participant not ignored -/
def acceptable (s : St) (d : Data) : Bool :=
  domainIdMatches s d && (d.tag == s.tag) && !(s.ignored.contains d.key)

/-- `iter_mut().find(key)` … `Some(x) => *x = discovered_participant_info`: the stored entry is replaced by what the
    participant announces now -/
def refreshList (d : Data) (now : Nat) : List Entry → List Entry
  | [] => []
  | e :: es => if e.key == d.key then ⟨d.key, d.lease, now⟩ :: es else e :: refreshList d now es

/-- add_discovered_participant (repaired, fixes/D-spdp-1.patch); the Bool says whether the participant was NEW (then the
    builtin endpoints are matched and the local participant announces itself again); a participant that is already listed
    gets its entry refreshed (lease duration, locators, user data, stamp) -/
def addDiscovered (s : St) (d : Data) (now : Nat) : St × Bool :=
  if acceptable s d then
    if s.list.any (entryHasKey d.key) then ({ s with list := refreshList d now s.list }, false)
    else ({ s with list := s.list ++ [⟨d.key, d.lease, now⟩] }, true)
  else (s, false)

/-- the condition of add_discovered_participant before the repair -/
def accepts (s : St) (d : Data) : Bool :=
  domainIdMatches s d && (d.tag == s.tag) && !(s.list.any (entryHasKey d.key)) && !(s.ignored.contains d.key)

/-- before fixes/D-spdp-1.patch: nothing at all happens for a participant that is already listed -/
def addDiscoveredOld (s : St) (d : Data) (now : Nat) : St × Bool :=
  if accepts s d then ({ s with list := s.list ++ [⟨d.key, d.lease, now⟩] }, true) else (s, false)

/-- reception of an SPDP announcement: the builtin reader refreshes the stamp, then the sample is processed -/
def spdp (s : St) (d : Data) (now : Nat) : St × Bool := addDiscovered (touch s d.key now) d now
def spdpOld (s : St) (d : Data) (now : Nat) : St × Bool := addDiscoveredOld (touch s d.key now) d now

/-- remove_discovered_participant (participant list part); also the handling of a received dispose / unregister
    (process_discovered_participants_detector_cache_change): ignored_participants is NOT touched -/
def remove (s : St) (k : Nat) : St := { s with list := s.list.filter (entryNotKey k) }

/-- a variant that is NOT the code (seeded change C17_d, kept as a witness of what `C17_ignored_forever` rules out): the
    dispose / unregister of a participant also takes it out of ignored_participants -/
def removeSeeded (s : St) (k : Nat) : St := { remove s k with ignored := s.ignored.filter (fun h => !(h == k)) }

def stale (now : Nat) (e : Entry) : Bool := decide (now - e.lastSeen > e.lease)

/-- remove_stale_participants: `while let Some(handle) = list.iter().find_map(stale) { remove_discovered_participant(handle) }` -/
def tickLoop : Nat → Nat → List Entry → List Entry
  | 0, _, l => l
  | fuel + 1, now, l =>
    match l.find? (stale now) with
    | some e => tickLoop fuel now (l.filter (entryNotKey e.key))
    | none => l

def tick (s : St) (now : Nat) : St := { s with list := tickLoop s.list.length now s.list }

/-- ignore_participant: `none` = Err(NotEnabled) -/
def ignore (s : St) (h : Nat) : Option St :=
  if !s.enabled then none
  else if s.ignored.contains h then some s
  else some (remove { s with ignored := s.ignored ++ [h] } h)

inductive Step
  | spdp (d : Data) (now : Nat)
  | activity (k now : Nat)
  | tick (now : Nat)
  | ignore (h : Nat)
  | dispose (k : Nat)
deriving DecidableEq, Repr

def step (s : St) : Step → St
  | .spdp d now => (spdp s d now).1
  | .activity k now => touch s k now
  | .tick now => tick s now
  | .ignore h => (ignore s h).getD s
  | .dispose k => remove s k

def run (s : St) : List Step → St
  | [] => s
  | x :: xs => run (step s x) xs

end DustVerif.Spdp
