/-
Model of the listener dispatch decisions of dust-dds (property C33), transcribed as coded on main WITH the patches
fixes/D38.patch, fixes/D-listen-1.patch, fixes/D-listen-2.patch, fixes/D-listen-3.patch. The behaviour before each
patch is kept as an `…Old` function for the regression witnesses of Props/C33.lean.

  * dds/src/dcps/dcps_domain_participant/discovery_methods.rs
      :314-359   RequestedDeadlineMissed   reader -> subscriber -> participant
      :419-454   OfferedDeadlineMissed     writer -> publisher  -> participant
      :1148-1185 PublicationMatched        writer -> publisher  -> participant
      :1203-1247 OfferedIncompatibleQos    writer -> publisher  -> participant
      :1271-1300 InconsistentTopic         topic  -> participant            (writer side; :1801-1830 reader side)
      :1689-1725 SubscriptionMatched       reader -> subscriber -> participant
      :1738-1777 RequestedIncompatibleQos  reader -> subscriber -> participant
  * dds/src/dcps/dcps_domain_participant/communication_methods.rs
      :299-322   new data: DataOnReaders on the subscriber, else DataAvailable reader -> subscriber -> participant
                 (before D38.patch: on the READER ONLY)
      :332-356   SampleRejected            reader -> subscriber -> participant

Every chain has the shape
    if mask_1.is_enabled(kind) { if let Some(l) = sender_1 { l.send(mail) } }
    else if mask_2.is_enabled(kind) { if let Some(l) = sender_2 { l.send(mail) } } ...
i.e. the LEVEL is chosen by the masks alone; a chosen level without an installed listener
(`set_listener(None, mask)`) swallows the notification (DDS: a nil listener behaves as a no-op listener).

SampleLost, LivelinessLost and LivelinessChanged have no `ListenerMail` variant at the pinned commit: no code
path raises them, so they are not events of this model.
Import-free: linked into the `dustmodel` driver.
-/
namespace DustVerif.Listener

/-- `StatusKind` (infrastructure/status.rs) -/
inductive Status
  | inconsistentTopic | offeredDeadlineMissed | requestedDeadlineMissed | offeredIncompatibleQos
  | requestedIncompatibleQos | sampleLost | sampleRejected | dataOnReaders | dataAvailable
  | livelinessLost | livelinessChanged | publicationMatched | subscriptionMatched
deriving DecidableEq, Repr

/-- one level of the hierarchy: `listener_sender.is_some()` and `listener_mask` -/
structure Slot where
  installed : Bool
  mask : List Status
deriving Repr, DecidableEq

/-- `StatusMask::is_enabled` -/
def Slot.enabled (s : Slot) (k : Status) : Bool := s.mask.contains k

def Slot.none : Slot := { installed := false, mask := [] }

inductive Level
  | entity        -- data writer / data reader / topic
  | group         -- publisher / subscriber
  | participant
deriving DecidableEq, Repr

/-- the listener configuration an endpoint (or topic) sees: its own slot, its publisher's / subscriber's, its participant's -/
structure Chain where
  entity : Slot
  group : Slot
  participant : Slot
deriving Repr, DecidableEq

def Chain.slot (c : Chain) : Level → Slot
  | .entity => c.entity
  | .group => c.group
  | .participant => c.participant

/-- the status changes the code raises towards listeners -/
inductive Event
  | publicationMatched | offeredIncompatibleQos | offeredDeadlineMissed
  | subscriptionMatched | requestedIncompatibleQos | requestedDeadlineMissed | sampleRejected
  | inconsistentTopic
  | dataArrived
deriving DecidableEq, Repr

/-- a `ListenerMail` put into the channel of the listener task of `level`; `cb` names the callback (`on_<cb>`) -/
structure Mail where
  level : Level
  cb : Status
deriving DecidableEq, Repr

/-- `if let Some(l) = &x.listener_sender { l.send(..) }` -/
def sendTo (c : Chain) (l : Level) (k : Status) : List Mail :=
  if (c.slot l).installed then [{ level := l, cb := k }] else []

/-- the three-level `if / else if / else if` chain -/
def chain3 (k : Status) (c : Chain) : List Mail :=
  if c.entity.enabled k then sendTo c .entity k
  else if c.group.enabled k then sendTo c .group k
  else if c.participant.enabled k then sendTo c .participant k
  else []

/-- the two-level chain of InconsistentTopic (topic, then participant; discovery_methods.rs:1271-1300) -/
def chain2 (k : Status) (c : Chain) : List Mail :=
  if c.entity.enabled k then sendTo c .entity k
  else if c.participant.enabled k then sendTo c .participant k
  else []

/-- communication_methods.rs:299-312 BEFORE fixes/D38.patch: no `else if` for the subscriber's or the participant's
    DATA_AVAILABLE mask -/
def dataArrivedOld (c : Chain) : List Mail :=
  if c.group.enabled .dataOnReaders then sendTo c .group .dataOnReaders
  else if c.entity.enabled .dataAvailable then sendTo c .entity .dataAvailable
  else []

/-- communication_methods.rs:299-322 with fixes/D38.patch: DATA_ON_READERS on the subscriber first, then the usual
    precedence chain for DATA_AVAILABLE -/
def dataArrived (c : Chain) : List Mail :=
  if c.group.enabled .dataOnReaders then sendTo c .group .dataOnReaders
  else chain3 .dataAvailable c

/-- the status a (non-data) event is about -/
def Event.status : Event → Status
  | .publicationMatched => .publicationMatched
  | .offeredIncompatibleQos => .offeredIncompatibleQos
  | .offeredDeadlineMissed => .offeredDeadlineMissed
  | .subscriptionMatched => .subscriptionMatched
  | .requestedIncompatibleQos => .requestedIncompatibleQos
  | .requestedDeadlineMissed => .requestedDeadlineMissed
  | .sampleRejected => .sampleRejected
  | .inconsistentTopic => .inconsistentTopic
  | .dataArrived => .dataAvailable

/-- THE dispatch decision of the code: which mails one status change produces -/
def dispatch (e : Event) (c : Chain) : List Mail :=
  match e with
  | .dataArrived => dataArrived c
  | .inconsistentTopic => chain2 .inconsistentTopic c
  | e => chain3 e.status c

/-- the decision before fixes/D38.patch -/
def dispatchOld (e : Event) (c : Chain) : List Mail :=
  match e with
  | .dataArrived => dataArrivedOld c
  | e => dispatch e c

/-- what the listener TASK of the chosen level does with the mail. With fixes/D-listen-3.patch every task calls the
    callback that belongs to the mail (topic_listener.rs, data_writer_listener.rs, data_reader_listener.rs,
    publisher_listener.rs, subscriber_listener.rs — DataAvailable added by D38.patch —, domain_participant_listener.rs) -/
def taskInvokes (_e : Event) (_m : Mail) : Bool := true

/-- before fixes/D-listen-3.patch the topic listener task discarded every mail (`_listener` was never called) -/
def taskInvokesOld (e : Event) (m : Mail) : Bool :=
  !(e == .inconsistentTopic && m.level == .entity)

/-- the listener callbacks one status change results in: dispatch decision, then the listener task -/
def callbacks (e : Event) (c : Chain) : List Mail :=
  (dispatch e c).filter (taskInvokes e)

/-- the callbacks of the code before D38.patch and D-listen-3.patch -/
def callbacksOld (e : Event) (c : Chain) : List Mail :=
  (dispatchOld e c).filter (taskInvokesOld e)

/-! ### listeners and masks are mutable state: histories of set_listener steps and status changes -/

/-- `set_listener` replaces presence and mask of one level together (writer_methods.rs:86-88 and its siblings) -/
def Chain.set (c : Chain) (l : Level) (s : Slot) : Chain :=
  match l with
  | .entity => { c with entity := s }
  | .group => { c with group := s }
  | .participant => { c with participant := s }

/-- seeded variant C33_d: removing the listener (`None`) only clears the sender, the old mask stays in force -/
def Chain.setSeeded (c : Chain) (l : Level) (s : Slot) : Chain :=
  if s.installed then c.set l s else c.set l { installed := false, mask := (c.slot l).mask }

inductive Step
  | setListener (l : Level) (installed : Bool) (mask : List Status)
  | change (e : Event)
deriving Repr

/-- the callbacks of every status change of a history, each under the configuration in force at THAT moment -/
def runHist (c : Chain) : List Step → List (List Mail)
  | [] => []
  | .setListener l i m :: r => runHist (c.set l { installed := i, mask := m }) r
  | .change e :: r => callbacks e c :: runHist c r

def runHistSeeded (c : Chain) : List Step → List (List Mail)
  | [] => []
  | .setListener l i m :: r => runHistSeeded (c.setSeeded l { installed := i, mask := m }) r
  | .change e :: r => callbacks e c :: runHistSeeded c r

/-- one processing pass of process_user_defined_received_cache_changes that finds `n` new-data changes of one
    subscriber: the masks are tested for EVERY change (communication_methods.rs:299-322) -/
def passData : Nat → Chain → List Mail
  | 0, _ => []
  | n + 1, c => callbacks .dataArrived c ++ passData n c

/-- seeded variant C33_c: data-on-readers "coalesced" to once per pass by a flag that replaces the mask test -/
def passDataSeeded (pending : Bool) : Nat → Chain → List Mail
  | 0, _ => []
  | n + 1, c =>
    (if pending then sendTo c .group .dataOnReaders else chain3 .dataAvailable c) ++ passDataSeeded false n c

/-! ### a small world for the differential run (scenario sub-language of engine `listen`)

Entities are named; every endpoint knows its group and participant; the world predicts which status changes the
scenario ops raise in the restricted family the generator emits (see vlib/listen_common.py):
one topic name, two type tokens, QoS knobs `reliability`, `deadline`, `max_samples` with KEEP_ALL. -/

inductive Kind | participant | publisher | subscriber | topic | writer | reader
deriving DecidableEq, Repr

structure Ent where
  name : String
  kind : Kind
  parent : String            -- participant (for groups / topics), group (for endpoints), "" for participants
  topic : String := ""       -- endpoints: name of the topic ENTITY
  ty : String := ""          -- topics: type token
  tname : String := ""       -- topics: DDS topic name
  slot : Slot := Slot.none
  reliable : Bool := false
  deadline : Option Nat := none      -- ns, none = infinite
  maxSamples : Option Nat := none
  stored : Nat := 0                  -- reader: samples held (nothing is ever taken in this sub-language)
  lastWrite : Option Nat := none     -- writer / reader: virtual time of the last sample
  matched : List String := []        -- names of matched remote endpoints
  known : List String := []          -- endpoints already found incompatible (writer: incompatible_subscription_list,
                                     -- reader: incompatible_writer_list) / inconsistent (topic: inconsistent_endpoint_list)
  badTypes : List String := []       -- topic: discovered types reported as inconsistent when their representation
                                     -- arrived (inconsistent_type_list, type-lookup reply path)
  incons : Nat := 0                  -- topic: InconsistentTopicStatus.total_count
deriving Repr

structure World where
  ents : List Ent := []
  now : Nat := 0
  log : List String := []
  /-- only used by `iterateOld`: before fixes/D-listen-1.patch and D-listen-2.patch an incompatible or
      type-inconsistent remote endpoint was re-evaluated AND re-notified on every worker iteration
      (process_discovered_readers/writers skip only MATCHED endpoints) -/
  persist : List (Event × String) := []
  /-- virtual time of the last worker iteration (API call or 50 ms poke) -/
  lastIter : Nat := 0
  /-- `coalesce-next 1 DATA user` is armed: the next two user DATA datagrams travel as ONE RTPS message -/
  coalesce : Bool := false
  /-- the writer whose first datagram is waiting for its partner -/
  stashed : Option String := none
deriving Repr

def World.find (w : World) (n : String) : Option Ent := w.ents.find? (fun e => e.name == n)

def World.update (w : World) (e : Ent) : World :=
  { w with ents := w.ents.map (fun x => if x.name == e.name then e else x) }

def slotOf (w : World) (n : String) : Slot :=
  match w.find n with
  | some e => e.slot
  | none => Slot.none

/-- chain of an endpoint: own slot, group slot, participant slot -/
def chainOfEndpoint (w : World) (e : Ent) : Chain × String × String :=
  let g := e.parent
  let p := match w.find g with
    | some ge => ge.parent
    | none => ""
  ({ entity := e.slot, group := slotOf w g, participant := slotOf w p }, g, p)

/-- chain of a topic: own slot, (no group), participant slot -/
def chainOfTopic (w : World) (t : Ent) : Chain × String × String :=
  ({ entity := t.slot, group := Slot.none, participant := slotOf w t.parent }, "", t.parent)

def cbName : Status → String
  | .inconsistentTopic => "on_inconsistent_topic"
  | .offeredDeadlineMissed => "on_offered_deadline_missed"
  | .requestedDeadlineMissed => "on_requested_deadline_missed"
  | .offeredIncompatibleQos => "on_offered_incompatible_qos"
  | .requestedIncompatibleQos => "on_requested_incompatible_qos"
  | .sampleLost => "on_sample_lost"
  | .sampleRejected => "on_sample_rejected"
  | .dataOnReaders => "on_data_on_readers"
  | .dataAvailable => "on_data_available"
  | .livelinessLost => "on_liveliness_lost"
  | .livelinessChanged => "on_liveliness_changed"
  | .publicationMatched => "on_publication_matched"
  | .subscriptionMatched => "on_subscription_matched"

/-- raise `ev` for entity `e` (endpoint or topic): append `<owner>.<callback> src=<entity the callback is about>` -/
def raiseWith (cb : Event → Chain → List Mail) (w : World) (ev : Event) (e : Ent) : World :=
  let (c, g, p) := if e.kind == .topic then chainOfTopic w e else chainOfEndpoint w e
  let mails := cb ev c
  let line (m : Mail) : String :=
    let owner := match m.level with
      | .entity => e.name
      | .group => g
      | .participant => p
    -- on_data_on_readers is about the subscriber, every other callback about the endpoint / topic itself
    let src := if m.cb == .dataOnReaders then g else e.name
    s!"{owner}.{cbName m.cb} src={src}"
  { w with log := w.log ++ mails.map line }

def raise (w : World) (ev : Event) (e : Ent) : World := raiseWith callbacks w ev e
def raiseOld (w : World) (ev : Event) (e : Ent) : World := raiseWith callbacksOld w ev e

def durLe (a b : Option Nat) : Bool :=
  match a, b with
  | _, none => true
  | none, some _ => false
  | some x, some y => x ≤ y

/-- RxO restricted to the two knobs of the sub-language: reliability and deadline -/
def compatible (wr rd : Ent) : Bool :=
  (wr.reliable || !rd.reliable) && durLe wr.deadline rd.deadline

def topicOf (w : World) (e : Ent) : Option Ent := w.find e.topic

/-- record `who` in the `known` list of entity `n`; returns the world and whether it was new
    (`add_incompatible_subscription` / `add_requested_incompatible_qos` / `add_inconsistent_endpoint` return `is_new`) -/
def noteKnown (w : World) (n who : String) : World × Bool :=
  match w.find n with
  | some e => if e.known.contains who then (w, false) else (World.update w { e with known := e.known ++ [who] }, true)
  | none => (w, false)

/-- raise `ev` about entity `n` (looked up again: its record may have changed) -/
def raiseOn (w : World) (ev : Event) (n : String) : World :=
  match w.find n with
  | some e => raise w ev e
  | none => w

/-- count one inconsistency on topic `n` and notify it -/
def countInconsistent (w : World) (n : String) : World :=
  match w.find n with
  | some t => raiseOn (World.update w { t with incons := t.incons + 1 }) .inconsistentTopic n
  | none => w

/-- type-lookup reply path (discovery_methods.rs process_builtin_type_lookup_reply_cache_change): the representation of
    a discovered type of the same topic name arrives ONCE per (local topic, remote type); if it is not assignable the
    topic counts it, notifies, and remembers the type (fixes/D-listen-2.patch: `inconsistent_type_list`) -/
def resolveType (w : World) (local_ remoteTy : String) : World :=
  match w.find local_ with
  | some t =>
    if t.ty == remoteTy || t.badTypes.contains remoteTy then w
    else countInconsistent (World.update w { t with badTypes := t.badTypes ++ [remoteTy] }) local_
  | none => w

/-- a topic was created: every topic of ANOTHER participant with the same DDS name and a different type is discovered
    (DCPS_TOPIC) and its type representation requested, on both sides -/
def meetTopics (w : World) (newName : String) : World :=
  match w.find newName with
  | some nt =>
    let others := w.ents.filter (fun e => e.kind == .topic && e.name != nt.name && e.tname == nt.tname
      && e.parent != nt.parent && e.ty != nt.ty)
    others.foldl (fun w o => resolveType (resolveType w o.name nt.ty) nt.name o.ty) w
  | none => w

/-- `TopicEntity::add_inconsistent_endpoint` (fixes/D-listen-2.patch): a remote endpoint with an inconsistent type is
    recorded once; it is a NEW inconsistency to report unless its type was already reported by `resolveType` -/
def noteEndpoint (w : World) (topic who whoTy : String) : World × Bool :=
  match w.find topic with
  | some t =>
    if t.known.contains who then (w, false)
    else (World.update w { t with known := t.known ++ [who] }, !(t.badTypes.contains whoTy))
  | none => (w, false)

/-- a writer and a reader meet (same DDS topic name): match, incompatible QoS, or inconsistent topic.
    An incompatible / inconsistent remote endpoint changes the status at most ONCE (D-listen-1, D-listen-2 patches) -/
def meet (w : World) (wrn rdn : String) : World :=
  match w.find wrn, w.find rdn with
  | some wr, some rd =>
    match topicOf w wr, topicOf w rd with
    | some tw, some tr =>
      if tw.tname != tr.tname then w
      else if tw.ty != tr.ty then
        -- each side blames its own topic, once per offending remote endpoint and not again for an already reported type
        let (w, n1) := noteEndpoint w tw.name rdn tr.ty
        let w := if n1 then countInconsistent w tw.name else w
        let (w, n2) := noteEndpoint w tr.name wrn tw.ty
        if n2 then countInconsistent w tr.name else w
      else if compatible wr rd then
        let w := World.update w { wr with matched := wr.matched ++ [rdn] }
        let w := World.update w { rd with matched := rd.matched ++ [wrn] }
        let w := raise w .publicationMatched wr
        raise w .subscriptionMatched rd
      else
        let (w, n1) := noteKnown w wrn rdn
        let w := if n1 then raiseOn w .offeredIncompatibleQos wrn else w
        let (w, n2) := noteKnown w rdn wrn
        if n2 then raiseOn w .requestedIncompatibleQos rdn else w
    | _, _ => w
  | _, _ => w

/-- one worker iteration (API call or 50 ms poke): nothing is notified unless a status changes -/
def iterate (w : World) : World := { w with lastIter := w.now }

/-- before D-listen-1.patch / D-listen-2.patch: every persisting condition was notified again on every iteration,
    with the masks of that moment -/
def iterateOld (w : World) : World :=
  let w := w.persist.foldl (fun w p => match w.find p.2 with
    | some e => raiseOld w p.1 e
    | none => w) w
  { w with lastIter := w.now }

def POKE : Nat := 50000000

def meetAll (w : World) (newName : String) (isWriter : Bool) : World :=
  let others := w.ents.filter (fun e => e.kind == (if isWriter then Kind.reader else Kind.writer))
  others.foldl (fun w o => if isWriter then meet w newName o.name else meet w o.name newName) w

/-- a sample written by `wrn` arrives at every matched reader -/
def deliver (w : World) (wrn : String) : World :=
  match w.find wrn with
  | none => w
  | some wr =>
    let w := World.update w { wr with lastWrite := some w.now }
    wr.matched.foldl (fun w rdn =>
      match w.find rdn with
      | none => w
      | some rd =>
        let rd := { rd with lastWrite := some w.now }
        let full := match rd.maxSamples with
          | some m => rd.stored == m
          | none => false
        if full then raise (World.update w rd) .sampleRejected rd
        else raise (World.update w { rd with stored := rd.stored + 1 }) .dataArrived rd) w

/-- `set_listener(listener, mask)` on any entity (writer_methods.rs set_listener_data_writer and its five siblings):
    listener presence and mask are replaced TOGETHER, also when the listener is removed (`None`) -/
def setListener (w : World) (n : String) (installed : Bool) (mask : List Status) : World :=
  match w.find n with
  | some e => World.update w { e with slot := { installed := installed, mask := mask } }
  | none => w

/-- a `write` while datagram coalescing is armed: the first sample waits (only the writer's own deadline stamp moves);
    the second one arrives together with it in ONE message, so ONE processing pass of
    process_user_defined_received_cache_changes sees two new-data changes — each is dispatched on its own -/
def writeOp (w : World) (wrn : String) : World :=
  if w.coalesce then
    match w.stashed with
    | none =>
      match w.find wrn with
      | some wr => { (World.update w { wr with lastWrite := some w.now }) with stashed := some wrn }
      | none => w
    | some _ => { (deliver (deliver w wrn) wrn) with coalesce := false, stashed := none }
  else deliver w wrn

/-- deadline events in the window (now, now+dt]: which endpoints miss at least once -/
def missedIn (e : Ent) (now dt : Nat) : Bool :=
  match e.deadline, e.lastWrite with
  | some d, some t => t + d < now + dt
  | _, _ => false

def advance (w : World) (dt : Nat) : World :=
  let w' := w.ents.foldl (fun acc e =>
    if e.kind == .writer && missedIn e w.now dt then raise acc .offeredDeadlineMissed e
    else if e.kind == .reader && missedIn e w.now dt then raise acc .requestedDeadlineMissed e
    else acc) w
  let w' := { w' with now := w.now + dt }
  -- the worker's 50 ms timer, re-armed at every iteration: it fires inside the window iff lastIter + 50 ms <= now + dt
  if w.lastIter + POKE ≤ w.now + dt then
    let k := (w.now + dt - w.lastIter) / POKE
    { (iterate w') with lastIter := w.lastIter + k * POKE }
  else w'

end DustVerif.Listener
