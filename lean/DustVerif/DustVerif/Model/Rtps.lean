/-
Model of the RTPS endpoint state machines of dust-dds (import-free):
  dds/src/rtps/stateful_writer.rs   (RtpsStatefulWriter, RtpsReaderProxy::write_message_*)
  dds/src/rtps/reader_proxy.rs      (RtpsReaderProxy, HeartbeatMachine)
  dds/src/rtps/stateful_reader.rs   (RtpsStatefulReader::on_data[_frag]_submessage)
  dds/src/rtps/writer_proxy.rs      (RtpsWriterProxy: fragment buffer, missing changes, ACKNACK/NACK_FRAG)
  dds/src/rtps/cache_change.rs      (as_data_frag_submessage)
  dds/src/dcps/dcps_domain_participant/communication_methods.rs (handle_data: GAP / HEARTBEAT glue)

One writer, one matched reader, a list of in-flight datagrams. A datagram is the list of its submessages
(the unit of loss / duplication / reordering is the datagram). Sequence numbers, counts and sizes are `Nat`
(i64 / i32 overflow needs 2^31 messages and is out of scope); the two narrowing casts of
`as_data_frag_submessage` (`as u16`, `as u32`) are explicit. Bytes are `Nat`s (the theorems hold for any
element type). Rust panics that the modelled code can reach are the outcome `Out.panic`.

The code exists in two variants per defect: as-is and with the drafted repair of /verif/fixes/*.patch;
`Cfg` selects the variant (vlib detects from the source text which variant the tree under test has).
-/
namespace DustVerif.Rtps

/-- which repairs the tree under test contains -/
structure Cfg where
  fixD1 : Bool   -- D1 + D44: NACK_FRAG count incremented, 1-based fragment index on the writer, set limited to base+255
  fixD2 : Bool   -- D2 + D8 : a GAP is honoured only when contiguous with what the reader already has
  fixD43 : Bool  -- re-announcement of an already matched endpoint keeps the proxy
  fixD4 : Bool   -- D4 + D42: best-effort path honours first_relevant; highest_sent := gap_end after a range GAP
  fixR1 : Bool   -- D-rtps-1: fragments at or below available_changes_max are purged before the ACKNACK set is built
deriving DecidableEq, Repr

def Cfg.asIs : Cfg := { fixD1 := false, fixD2 := false, fixD43 := false, fixD4 := false, fixR1 := false }
def Cfg.fixed : Cfg := { fixD1 := true, fixD2 := true, fixD43 := true, fixD4 := true, fixR1 := true }

inductive Out (α : Type) where
  | ok (a : α)
  | panic
deriving DecidableEq, Repr

abbrev Payload := List Nat

structure Change where
  sn : Nat
  payload : Payload
deriving DecidableEq, Repr

/-- DataFragSubmessage, the fields that vary (reader/writer id, flags, empty inline QoS are constant) -/
structure Frag where
  sn : Nat
  startNum : Nat     -- fragment_starting_num, 1-based
  inSub : Nat        -- fragments_in_submessage
  fragSize : Nat     -- u16
  dataSize : Nat     -- u32
  bytes : Payload
deriving DecidableEq, Repr

inductive Sub where
  | dst                                                   -- INFO_DST
  | ts                                                    -- INFO_TS (invalidate flag set: changes carry no source timestamp here)
  | data (sn : Nat) (payload : Payload)
  | frag (fr : Frag)
  | gap (start : Nat) (base : Nat) (set : List Nat)       -- irrelevant: start..base-1 and the members of set
  | hb (first : Nat) (last : Nat) (count : Nat) (final : Bool) (liveliness : Bool)
  | acknack (base : Nat) (set : List Nat) (count : Nat) (final : Bool)
  | nackfrag (sn : Nat) (base : Nat) (set : List Nat) (count : Nat)
deriving DecidableEq, Repr

structure Dgram where
  toReader : Bool
  subs : List Sub
deriving DecidableEq, Repr

def mkW (subs : List Sub) : Dgram := { toReader := true, subs := subs }
def mkR (subs : List Sub) : Dgram := { toReader := false, subs := subs }

/-! ### small helpers -/

/-- `lo..=hi` -/
def rangeIncl (lo hi : Nat) : List Nat := (List.range (hi + 1 - lo)).map (lo + ·)

/-- usize::div_ceil / the reader's `total_fragments_expected` (writer_proxy.rs:20); `b = 0` panics in Rust and is excluded by
    the fragment-size range (C38) -/
def divCeil (a b : Nat) : Nat := a / b + (if a % b = 0 then 0 else 1)

def hasSn (sn : Nat) (c : Change) : Bool := c.sn == sn
def findChange (cs : List Change) (sn : Nat) : Option Change := cs.find? (hasSn sn)

/-- MIN { change.sn | change.sn > hs } (reader_proxy.rs:180 next_unsent_change) -/
def minAbove (hs : Nat) : List Change → Option Nat
  | [] => none
  | c :: cs =>
    match minAbove hs cs with
    | none => if c.sn > hs then some c.sn else none
    | some m => if c.sn > hs ∧ c.sn < m then some c.sn else some m

def minNat : List Nat → Option Nat
  | [] => none
  | x :: xs => match minNat xs with
    | none => some x
    | some m => if x < m then some x else some m

def maxNat : List Nat → Option Nat
  | [] => none
  | x :: xs => match maxNat xs with
    | none => some x
    | some m => if x > m then some x else some m

def snOf (c : Change) : Nat := c.sn
def minSn (cs : List Change) : Option Nat := minNat (cs.map snOf)
def maxSn (cs : List Change) : Option Nat := maxNat (cs.map snOf)

/-! ### fragmentation (cache_change.rs:119) and reassembly (writer_proxy.rs:75-145) -/

/-- `as_data_frag_submessage(.., data_max_size_serialized = f, fragment_number = k)`; for `k ≥ N` the Rust slice
    `start..end` has `start > end` and panics when read — every caller guards `k < N`. -/
def asDataFrag (c : Change) (f k : Nat) : Frag :=
  { sn := c.sn
    startNum := (k + 1) % 4294967296
    inSub := 1
    fragSize := f % 65536
    dataSize := c.payload.length % 4294967296
    bytes := (c.payload.drop (k * f)).take (min ((k + 1) * f) c.payload.length - k * f) }

/-- number of fragments the writer sends: `data_value.len().div_ceil(data_max_size_serialized)` (stateful_writer.rs:196,353,454,588) -/
def fragCount (c : Change) (f : Nat) : Nat := divCeil c.payload.length f

def fragments (c : Change) (f : Nat) : List Frag := (List.range (fragCount c f)).map (asDataFrag c f)

/-- writer_proxy.rs:20 (u32 arithmetic) -/
def totalExpected (fr : Frag) : Nat := divCeil fr.dataSize fr.fragSize

def isSn (sn : Nat) (fr : Frag) : Bool := fr.sn == sn
def isSnStart (sn k : Nat) (fr : Frag) : Bool := fr.sn == sn && fr.startNum == k
def notSn (sn : Nat) (fr : Frag) : Bool := fr.sn != sn
def snAbove (sn : Nat) (fr : Frag) : Bool := fr.sn > sn
def fragSn (fr : Frag) : Nat := fr.sn

/-- push_data_frag: identical submessages are kept once -/
def pushFrag (buf : List Frag) (fr : Frag) : List Frag := if buf.contains fr then buf else buf ++ [fr]

def sumInSub : List Frag → Nat
  | [] => 0
  | fr :: rest => fr.inSub + sumInSub rest

def pieceAt (buf : List Frag) (sn k : Nat) : Payload :=
  match buf.find? (isSnStart sn k) with
  | some fr => fr.bytes
  | none => []

/-- the data part of reconstruct_data_from_frag: `none` = incomplete -/
def reassemble (buf : List Frag) (sn : Nat) : Option Payload :=
  match buf.find? (isSn sn) with
  | none => none
  | some fr0 =>
    let total := totalExpected fr0
    if sumInSub (buf.filter (isSn sn)) == total then
      match buf.find? (isSnStart sn 1) with     -- `?` at writer_proxy.rs:118
      | none => none
      | some _ => some ((List.range (total + 1)).flatMap (pieceAt buf sn))
    else none

/-- reconstruct_data_from_frag including the purge of the buffer -/
def reconstruct (buf : List Frag) (sn : Nat) : Option Payload × List Frag :=
  match reassemble buf sn with
  | some d => (some d, buf.filter (notSn sn))
  | none => (none, buf)

/-! ### reader side -/

structure WProxy where
  firstAvail : Nat
  lastAvail : Nat
  highestRecv : Nat
  mustAck : Bool
  lastHbCount : Nat
  acknackCount : Nat
  nackFragCount : Nat
  fragBuf : List Frag
deriving DecidableEq, Repr

def WProxy.new : WProxy :=
  { firstAvail := 1, lastAvail := 0, highestRecv := 0, mustAck := false, lastHbCount := 0, acknackCount := 0,
    nackFragCount := 0, fragBuf := [] }

/-- available_changes_max (writer_proxy.rs:159) -/
def WProxy.availMax (p : WProxy) : Nat := max (p.firstAvail - 1) p.highestRecv

/-- missing_changes (writer_proxy.rs:189) -/
def WProxy.missing (p : WProxy) : List Nat :=
  rangeIncl (max p.firstAvail (p.highestRecv + 1)) (max p.lastAvail p.highestRecv)

/-- D2 repair: irrelevant_change_range_set -/
def WProxy.irrelevantRange (p : WProxy) (first last : Nat) : WProxy :=
  if first ≤ p.availMax + 1 ∧ last > p.highestRecv then { p with highestRecv := last } else p

/-- irrelevant_change_set (writer_proxy.rs:169) -/
def WProxy.irrelevant (cfg : Cfg) (p : WProxy) (a : Nat) : WProxy :=
  if cfg.fixD2 then p.irrelevantRange a a
  else if a > p.highestRecv then { p with highestRecv := a } else p

/-- received_change_set (writer_proxy.rs:215) -/
def WProxy.received (p : WProxy) (a : Nat) : WProxy :=
  { p with highestRecv := (if a > p.highestRecv then a else p.highestRecv), fragBuf := p.fragBuf.filter (snAbove a) }

structure Reader where
  reliable : Bool
  proxy : Option WProxy
  cache : List Change
deriving DecidableEq, Repr

/-- on_data_submessage (stateful_reader.rs:66) -/
def Reader.onData (r : Reader) (sn : Nat) (payload : Payload) : Reader :=
  match r.proxy with
  | none => r
  | some p =>
    let expected := p.availMax + 1
    if r.reliable then
      if sn = expected then { r with proxy := some (p.received sn), cache := r.cache ++ [⟨sn, payload⟩] } else r
    else
      if sn ≥ expected then
        let p1 := p.received sn
        let p2 := if sn > expected then { p1 with firstAvail := sn } else p1   -- lost_changes_update
        { r with proxy := some p2, cache := r.cache ++ [⟨sn, payload⟩] }
      else r

/-- on_data_frag_submessage (stateful_reader.rs:115) -/
def Reader.onFrag (r : Reader) (fr : Frag) : Reader :=
  match r.proxy with
  | none => r
  | some p =>
    let expected := p.availMax + 1
    let accept := if r.reliable then fr.sn = expected else fr.sn ≥ expected
    let p1 := if accept then { p with fragBuf := pushFrag p.fragBuf fr } else p
    match reconstruct p1.fragBuf fr.sn with
    | (some d, buf) => Reader.onData { r with proxy := some { p1 with fragBuf := buf } } fr.sn d
    | (none, _) => { r with proxy := some p1 }

/-- handle_gap_submessage (communication_methods.rs:563) -/
def Reader.onGap (cfg : Cfg) (r : Reader) (start base : Nat) (set : List Nat) : Reader :=
  match r.proxy with
  | none => r
  | some p =>
    let p1 :=
      if cfg.fixD2 then (if base > start then p.irrelevantRange start (base - 1) else p)
      else (if base > start then (rangeIncl start (base - 1)).foldl (WProxy.irrelevant cfg) p else p)
    { r with proxy := some (set.foldl (WProxy.irrelevant cfg) p1) }

def fragMinSn (buf : List Frag) : Option Nat := minNat (buf.map fragSn)
def belowOpt (m : Option Nat) (x : Nat) : Bool := match m with | none => true | some v => x < v
def hasFragOf (buf : List Frag) (sn : Nat) : Bool := buf.any (isSn sn)
def fragAbsent (buf : List Frag) (sn k : Nat) : Bool := !(buf.any (isSnStart sn k))
def within256 (base x : Nat) : Bool := x - base < 256

/-- the fragment numbers `1..=total` of `sn` that are not in the buffer (writer_proxy.rs:300-307) -/
def missingFrags (buf : List Frag) (sn total : Nat) : List Nat := (rangeIncl 1 total).filter (fragAbsent buf sn)

/-- first statements of RtpsWriterProxy::write_message: flag, count and (D-rtps-1 repair) purge of stale fragments -/
def WProxy.prepareAck (cfg : Cfg) (p : WProxy) : WProxy :=
  let p0 := { p with mustAck := false, acknackCount := p.acknackCount + 1 }
  if cfg.fixR1 then { p0 with fragBuf := p0.fragBuf.filter (snAbove p0.availMax) } else p0

/-- the ACKNACK (+ NACK_FRAG) datagram built from the prepared proxy (writer_proxy.rs:268-336) -/
def WProxy.ackDgram (cfg : Cfg) (p1 : WProxy) : Out (WProxy × List Dgram) :=
  let missing256 := p1.missing.take 256
  let set := missing256.takeWhile (belowOpt (fragMinSn p1.fragBuf))
  let an := Sub.acknack (p1.availMax + 1) set p1.acknackCount true
  match missing256.find? (hasFragOf p1.fragBuf) with
  | none => .ok (p1, [mkR [.dst, an]])
  | some sn =>
    match p1.fragBuf.find? (isSn sn) with
    | none => .panic                                             -- expect("Must exist")
    | some fr =>
      let total := divCeil fr.dataSize fr.fragSize
      let missingFrags := missingFrags p1.fragBuf sn total
      match missingFrags with
      | [] => .panic                                             -- expect("At least a fragment must be missing")
      | base :: _ =>
        if cfg.fixD1 then
          let p2 := { p1 with nackFragCount := p1.nackFragCount + 1 }
          .ok (p2, [mkR [.dst, an, .nackfrag sn base (missingFrags.takeWhile (within256 base)) p2.nackFragCount]])
        else if missingFrags.all (within256 base) then
          .ok (p1, [mkR [.dst, an, .nackfrag sn base missingFrags p1.nackFragCount]])
        else .panic                                              -- FragmentNumberSet::new indexes bitmap[≥ 8] (D44)

/-- RtpsWriterProxy::write_message (writer_proxy.rs:259): the ACKNACK (+ NACK_FRAG) datagram.
    `!self.missing_changes().count() == 0` is a bitwise NOT on usize and never true, so only the flag counts. -/
def WProxy.writeMessage (cfg : Cfg) (p : WProxy) : Out (WProxy × List Dgram) :=
  if p.mustAck then (p.prepareAck cfg).ackDgram cfg else .ok (p, [])

/-- handle_heartbeat_submessage (communication_methods.rs:595) -/
def Reader.onHb (cfg : Cfg) (r : Reader) (first last count : Nat) (final liveliness : Bool) : Out (Reader × List Dgram) :=
  match r.proxy with
  | none => .ok (r, [])
  | some p =>
    if p.lastHbCount < count then
      let p1 := { p with lastHbCount := count, lastAvail := last, firstAvail := first }
      let must := !final || (!liveliness && !p1.missing.isEmpty)
      match ({ p1 with mustAck := must } : WProxy).writeMessage cfg with
      | .ok (p2, out) => .ok ({ r with proxy := some p2 }, out)
      | .panic => .panic
    else .ok (r, [])

/-- one submessage of a datagram addressed to the reader (handle_data, communication_methods.rs:405) -/
def Reader.onSub (cfg : Cfg) (r : Reader) : Sub → Out (Reader × List Dgram)
  | .data sn p => .ok (r.onData sn p, [])
  | .frag fr => .ok (r.onFrag fr, [])
  | .gap s b set => .ok (r.onGap cfg s b set, [])
  | .hb f l c fin lv => r.onHb cfg f l c fin lv
  | _ => .ok (r, [])

def Reader.onSubs (cfg : Cfg) (r : Reader) : List Sub → Out (Reader × List Dgram)
  | [] => .ok (r, [])
  | s :: rest =>
    match r.onSub cfg s with
    | .panic => .panic
    | .ok (r1, o1) =>
      match Reader.onSubs cfg r1 rest with
      | .panic => .panic
      | .ok (r2, o2) => .ok (r2, o1 ++ o2)

/-- add_matched_writer (stateful_reader.rs:32) -/
def Reader.addMatchedWriter (cfg : Cfg) (r : Reader) : Reader :=
  match r.proxy with
  | none => { r with proxy := some WProxy.new }
  | some _ => if cfg.fixD43 then r else { r with proxy := some WProxy.new }

/-! ### writer side -/

structure RProxy where
  highestSent : Nat
  highestAcked : Nat
  requested : List Nat
  lastAcknack : Nat
  lastNackFrag : Nat
  hbCount : Nat
  lastHbTime : Nat        -- ms
  reliable : Bool
  firstRelevant : Nat
deriving DecidableEq, Repr

def RProxy.new (reliable : Bool) (firstRelevant : Nat) : RProxy :=
  { highestSent := 0, highestAcked := 0, requested := [], lastAcknack := 0, lastNackFrag := 0, hbCount := 0,
    lastHbTime := 0, reliable := reliable, firstRelevant := firstRelevant }

structure Writer where
  changes : List Change
  proxy : Option RProxy
  f : Nat                 -- data_max_size_serialized
deriving DecidableEq, Repr

def heartbeatPeriodMs : Nat := 200     -- stateful_writer.rs:38

/-- set_highest_sent_seq_num (reader_proxy.rs:237) -/
def RProxy.setSent (p : RProxy) (sn : Nat) : RProxy :=
  if sn > p.highestSent then { p with highestSent := sn } else p

/-- generate_new_heartbeat with first = min or 1, last = max or 0 (reader_proxy.rs:31) -/
def RProxy.genHb (p : RProxy) (cs : List Change) (now : Nat) : RProxy × Sub :=
  ({ p with hbCount := p.hbCount + 1, lastHbTime := now },
   .hb ((minSn cs).getD 1) ((maxSn cs).getD 0) (p.hbCount + 1) false false)

/-- the change to send for `sn`: present and, where the code checks it, relevant to this reader -/
def sendable (cs : List Change) (checkRelevant : Bool) (firstRelevant sn : Nat) : Option Change :=
  if checkRelevant ∧ ¬ sn > firstRelevant then none else findChange cs sn

def fragDgrams (c : Change) (f : Nat) : Nat → List Dgram
  | 0 => []
  | k + 1 => fragDgrams c f k ++ [mkW [.dst, .ts, .frag (asDataFrag c f k)]]

/-- all fragments, the last datagram also carries the heartbeat (stateful_writer.rs:461-501) -/
def fragDgramsHb (c : Change) (f n : Nat) (hb : Sub) : List Dgram :=
  fragDgrams c f (n - 1) ++ [mkW [.dst, .ts, .frag (asDataFrag c f (n - 1)), hb]]

/-- write_message_best_effort (stateful_writer.rs:302) -/
def beLoop (cfg : Cfg) (cs : List Change) (f : Nat) : Nat → RProxy → List Dgram → RProxy × List Dgram
  | 0, p, acc => (p, acc)
  | fuel + 1, p, acc =>
    match minAbove p.highestSent cs with
    | none => (p, acc)
    | some n =>
      if n > p.highestSent + 1 then
        let g := mkW [.gap (p.highestSent + 1) n []]
        if cfg.fixD4 then beLoop cfg cs f fuel (p.setSent (n - 1)) (acc ++ [g])
        else beLoop cfg cs f fuel (p.setSent n) (acc ++ [g])
      else
        match sendable cs cfg.fixD4 p.firstRelevant n with
        | some c =>
          if fragCount c f > 1 then beLoop cfg cs f fuel (p.setSent n) (acc ++ fragDgrams c f (fragCount c f))
          else beLoop cfg cs f fuel (p.setSent n) (acc ++ [mkW [.dst, .ts, .data c.sn c.payload]])
        | none => beLoop cfg cs f fuel (p.setSent n) (acc ++ [mkW [.gap n (n + 1) []]])

/-- top part of write_message_reliable: the unsent-changes loop (stateful_writer.rs:424-551) -/
def relUnsentLoop (cfg : Cfg) (cs : List Change) (f now : Nat) : Nat → RProxy → List Dgram → RProxy × List Dgram
  | 0, p, acc => (p, acc)
  | fuel + 1, p, acc =>
    match minAbove p.highestSent cs with
    | none => (p, acc)
    | some n =>
      if n > p.highestSent + 1 then
        let (p1, hb) := p.genHb cs now
        let d := mkW [.dst, .gap (p.highestSent + 1) n [], hb]
        if cfg.fixD4 then relUnsentLoop cfg cs f now fuel (p1.setSent (n - 1)) (acc ++ [d])
        else relUnsentLoop cfg cs f now fuel (p1.setSent n) (acc ++ [d])
      else
        match sendable cs true p.firstRelevant n with
        | some c =>
          let (p1, hb) := p.genHb cs now
          if fragCount c f > 1 then
            relUnsentLoop cfg cs f now fuel (p1.setSent n) (acc ++ fragDgramsHb c f (fragCount c f) hb)
          else relUnsentLoop cfg cs f now fuel (p1.setSent n) (acc ++ [mkW [.dst, .ts, .data c.sn c.payload, hb]])
        | none => relUnsentLoop cfg cs f now fuel (p.setSent n) (acc ++ [mkW [.dst, .gap n (n + 1) []]])

def neNat (m x : Nat) : Bool := x != m

/-- middle part of write_message_reliable: the requested-changes loop (stateful_writer.rs:574-670);
    a requested fragmented change is answered with its first fragment only -/
def relRequestedLoop (cs : List Change) (f now : Nat) : Nat → RProxy → List Dgram → RProxy × List Dgram
  | 0, p, acc => (p, acc)
  | fuel + 1, p, acc =>
    match minNat p.requested with
    | none => (p, acc)
    | some m =>
      let p0 := { p with requested := p.requested.filter (neNat m) }
      match sendable cs true p0.firstRelevant m with
      | some c =>
        let (p1, hb) := p0.genHb cs now
        if fragCount c f > 1 then
          relRequestedLoop cs f now fuel p1 (acc ++ [mkW [.dst, .ts, .frag (asDataFrag c f 0), hb]])
        else relRequestedLoop cs f now fuel p1 (acc ++ [mkW [.dst, .ts, .data c.sn c.payload, hb]])
      | none => relRequestedLoop cs f now fuel p0 (acc ++ [mkW [.dst, .gap m (m + 1) []]])

/-- unacked_changes (reader_proxy.rs:220) -/
def RProxy.unacked (p : RProxy) (highest : Option Nat) : Bool :=
  match highest with
  | some h => h > p.highestAcked
  | none => false

/-- write_message_reliable, top part (stateful_writer.rs:424-571): unsent changes, else idle, else periodic heartbeat -/
def RProxy.relTop (cfg : Cfg) (cs : List Change) (f now : Nat) (p : RProxy) : RProxy × List Dgram :=
  if (minAbove p.highestSent cs).isSome then relUnsentLoop cfg cs f now (2 * cs.length + 2) p []
  else if !p.unacked (maxSn cs) then (p, [])
  else if now - p.lastHbTime ≥ heartbeatPeriodMs then ((p.genHb cs now).1, [mkW [.dst, (p.genHb cs now).2]])
  else (p, [])

/-- write_message_reliable, middle part (stateful_writer.rs:574-670): requested changes -/
def RProxy.relMiddle (cs : List Change) (f now : Nat) (p : RProxy) : RProxy × List Dgram :=
  if !p.requested.isEmpty then relRequestedLoop cs f now (p.requested.length + 1) p [] else (p, [])

/-- write_message_reliable (stateful_writer.rs:410) -/
def RProxy.writeReliable (cfg : Cfg) (cs : List Change) (f now : Nat) (p : RProxy) : RProxy × List Dgram :=
  ((RProxy.relMiddle cs f now (p.relTop cfg cs f now).1).1,
   (p.relTop cfg cs f now).2 ++ (RProxy.relMiddle cs f now (p.relTop cfg cs f now).1).2)

/-- RtpsReaderProxy::write_message (stateful_writer.rs:272) -/
def RProxy.writeMessage (cfg : Cfg) (cs : List Change) (f now : Nat) (p : RProxy) : RProxy × List Dgram :=
  if p.reliable then p.writeReliable cfg cs f now else beLoop cfg cs f (2 * cs.length + 2) p []

/-- RtpsStatefulWriter::write_message (stateful_writer.rs:113) -/
def Writer.writeMessage (cfg : Cfg) (w : Writer) (now : Nat) : Writer × List Dgram :=
  match w.proxy with
  | none => (w, [])
  | some p =>
    let (p', out) := p.writeMessage cfg w.changes w.f now
    ({ w with proxy := some p' }, out)

/-- add_change (stateful_writer.rs:51) -/
def Writer.addChange (cfg : Cfg) (w : Writer) (c : Change) (now : Nat) : Writer × List Dgram :=
  Writer.writeMessage cfg { w with changes := w.changes ++ [c] } now

def notSnC (sn : Nat) (c : Change) : Bool := c.sn != sn
/-- remove_change (stateful_writer.rs:61) -/
def Writer.removeChange (w : Writer) (sn : Nat) : Writer := { w with changes := w.changes.filter (notSnC sn) }

/-- is_change_acknowledged (stateful_writer.rs:66), for the one matched reader: no reliable proxy has unacked changes up to `sn` -/
def Writer.isChangeAcknowledged (w : Writer) (sn : Nat) : Bool :=
  match w.proxy with
  | none => true
  | some p => !(p.reliable && sn > p.highestAcked)

/-- add_matched_reader (stateful_writer.rs:74) -/
def Writer.addMatchedReader (cfg : Cfg) (w : Writer) (reliable transientLocal : Bool) : Writer :=
  let firstRelevant := if transientLocal then 0 else (maxSn w.changes).getD 0
  match w.proxy with
  | none => { w with proxy := some (RProxy.new reliable firstRelevant) }
  | some _ => if cfg.fixD43 then w else { w with proxy := some (RProxy.new reliable firstRelevant) }

def pushNew (acc : List Nat) (x : Nat) : List Nat := if acc.contains x then acc else acc ++ [x]

/-- on_acknack_submessage_received (stateful_writer.rs:133) -/
def Writer.onAcknack (cfg : Cfg) (w : Writer) (base : Nat) (set : List Nat) (count : Nat) (now : Nat) : Writer × List Dgram :=
  match w.proxy with
  | none => (w, [])
  | some p =>
    if p.reliable ∧ count > p.lastAcknack then
      let acked := base - 1
      let p1 := if acked > p.highestAcked then { p with highestAcked := acked } else p
      let p2 := { p1 with requested := set.foldl pushNew p1.requested, lastAcknack := count }
      let (p3, out) := p2.writeReliable cfg w.changes w.f now
      ({ w with proxy := some p3 }, out)
    else (w, [])

/-- the answer to one requested fragment number (stateful_writer.rs:201-238) -/
def nackFragAnswer (cfg : Cfg) (c : Change) (f req : Nat) : List Dgram :=
  if cfg.fixD1 then
    (if 1 ≤ req ∧ req ≤ fragCount c f then [mkW [.dst, .ts, .frag (asDataFrag c f (req - 1))]] else [])
  else
    (if req < fragCount c f then [mkW [.dst, .ts, .frag (asDataFrag c f req)]] else [])

def nackFragAnswers (cfg : Cfg) (c : Change) (f : Nat) : List Nat → List Dgram
  | [] => []
  | r :: rest => nackFragAnswer cfg c f r ++ nackFragAnswers cfg c f rest

/-- on_nack_frag_submessage_received (stateful_writer.rs:173): base and then every member of the set (the base is a member) -/
def Writer.onNackFrag (cfg : Cfg) (w : Writer) (sn base : Nat) (set : List Nat) (count : Nat) : Writer × List Dgram :=
  match w.proxy with
  | none => (w, [])
  | some p =>
    if p.reliable ∧ count > p.lastNackFrag then
      let w1 := { w with proxy := some { p with lastNackFrag := count } }
      match findChange w.changes sn with
      | some c => (w1, nackFragAnswers cfg c w.f (base :: set))
      | none => (w1, [mkW [.dst, .gap sn (sn + 1) []]])
    else (w, [])

def Writer.onSub (cfg : Cfg) (w : Writer) (now : Nat) : Sub → Writer × List Dgram
  | .acknack b s c _ => w.onAcknack cfg b s c now
  | .nackfrag sn b s c => w.onNackFrag cfg sn b s c
  | _ => (w, [])

def Writer.onSubs (cfg : Cfg) (w : Writer) (now : Nat) : List Sub → Writer × List Dgram
  | [] => (w, [])
  | s :: rest =>
    let (w1, o1) := w.onSub cfg now s
    let (w2, o2) := Writer.onSubs cfg w1 now rest
    (w2, o1 ++ o2)

/-! ### the system: writer, reader, in-flight datagrams, adversary -/

structure Sys where
  w : Writer
  r : Reader
  net : List Dgram
  now : Nat            -- ms
  lastSn : Nat
  log : List Change    -- ghost: every change ever published, in publication order
  rel : Bool
  tl : Bool
deriving Repr

def Sys.init (rel tl : Bool) (f : Nat) : Sys :=
  { w := { changes := [], proxy := none, f := f }
    r := { reliable := rel, proxy := none, cache := [] }
    net := []
    now := 1000
    lastSn := 0
    log := []
    rel := rel
    tl := tl }

inductive Step where
  | doMatch
  | write (p : Payload)
  | remove (sn : Nat)
  | tick (ms : Nat)
  | deliver (i : Nat)
  | drop (i : Nat)
  | dup (i : Nat)
deriving Repr

def Sys.deliverAt (cfg : Cfg) (s : Sys) (i : Nat) : Out (Sys × List Dgram) :=
  match s.net[i]? with
  | none => .ok (s, [])
  | some d =>
    let net' := s.net.eraseIdx i
    if d.toReader then
      match s.r.onSubs cfg d.subs with
      | .panic => .panic
      | .ok (r', out) => .ok ({ s with r := r', net := net' ++ out }, out)
    else
      let (w', out) := s.w.onSubs cfg s.now d.subs
      .ok ({ s with w := w', net := net' ++ out }, out)

/-- one step; the index of deliver/drop/dup is taken modulo the number of in-flight datagrams -/
def Sys.step (cfg : Cfg) (s : Sys) : Step → Out (Sys × List Dgram)
  | .doMatch =>
    .ok ({ s with w := s.w.addMatchedReader cfg s.rel s.tl, r := s.r.addMatchedWriter cfg }, [])
  | .write p =>
    let c : Change := ⟨s.lastSn + 1, p⟩
    let (w', out) := s.w.addChange cfg c s.now
    .ok ({ s with w := w', lastSn := s.lastSn + 1, log := s.log ++ [c], net := s.net ++ out }, out)
  | .remove sn => .ok ({ s with w := s.w.removeChange sn }, [])
  | .tick ms =>
    let (w', out) := s.w.writeMessage cfg (s.now + ms)
    .ok ({ s with w := w', now := s.now + ms, net := s.net ++ out }, out)
  | .deliver i => if s.net.isEmpty then .ok (s, []) else s.deliverAt cfg (i % s.net.length)
  | .drop i => if s.net.isEmpty then .ok (s, []) else .ok ({ s with net := s.net.eraseIdx (i % s.net.length) }, [])
  | .dup i =>
    match s.net[i % s.net.length]? with
    | none => .ok (s, [])
    | some d => .ok ({ s with net := s.net ++ [d] }, [])

def Sys.run (cfg : Cfg) (s : Sys) : List Step → Out Sys
  | [] => .ok s
  | st :: rest =>
    match s.step cfg st with
    | .panic => .panic
    | .ok (s', _) => Sys.run cfg s' rest

end DustVerif.Rtps
