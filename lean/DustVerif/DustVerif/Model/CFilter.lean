/-
Model of the content-filter evaluation and of the per-batch loop of
`DcpsDomainParticipant::process_user_defined_received_cache_changes`
(dds/src/dcps/dcps_domain_participant/communication_methods.rs:35-367) for ONE data reader.

What is transcribed (line numbers of communication_methods.rs):
  * :55   `let changes = mem::take(transport_reader.changes_mut())`  -- the batch = every cache change the RTPS
          reader accepted since the last pass of the worker loop = the DATA submessages of ONE datagram
          (the worker handles one mail, then runs this function: domain_participant_factory.rs:314-322)
  * :59   `for cache_change in changes`                                -- `loop…` below
  * :87   only `ChangeKind::Alive` changes are filtered (dispose / unregister pass unfiltered)
  * :122-134  operator detection: `split_once("<=")` first, then `split_once("=")`; the text BEFORE the operator is the
          member name (`trim`med at :138); the text AFTER the operator was never looked at (D61, `evalOld`); with
          fixes/D61.patch it is the operand: `%n` / 'quoted' / integer literal (topic_entity.rs `filter_operand`, `operandOf`)
  * :137-144  unknown member -> the reader's loop is left
  * :145-195  `match member kind`: INT32 -> `params[0].parse().expect(..)` and `=` / `<=` on i32;
          STRING8/16 -> `=` / `<=` on `String` with `params[0]`; every other kind -> `todo!()`
  * participant_methods.rs:380 create_content_filtered_topic: as found nothing is validated (D60); with fixes/D60.patch the
          expression / member / parameter 0 are checked with the same parsing as the evaluation  -> `validate`
  * :158/:180 a sample that does NOT satisfy the filter:
          as found   : `continue 'data_readers`  -- leaves the loop over the batch; the rest of the batch is lost
                       because the batch was `mem::take`n (defect D32)                    -> `loopAsIs`
          repaired   : `continue`                -- next change of the batch (fixes/D32.patch) -> `loopFixed`
Panics (index out of range on `params[0]`, `expect("valid number")`, `todo!()`) are explicit outcomes.
Strings are lists of characters (the harness uses ASCII, where `String` order = code point order).
Import-free.
-/
namespace DustVerif.CFilter

/-! ### dynamic data as the filter sees it -/

/-- value of a member of the deserialised sample; `other` = any TypeKind for which the code says `todo!()` -/
inductive Val
  | int (v : Int)
  | str (s : List Char)
  | other
deriving DecidableEq, Repr

structure Member where
  name : List Char
  val : Val
deriving DecidableEq, Repr

/-- deserialised sample: members in declaration order -/
abbrev Data := List Member

/-- `DynamicData::get_member_id_by_name` followed by the descriptor / value access -/
def lookup (n : List Char) : Data → Option Val
  | [] => none
  | m :: ms => if m.name = n then some m.val else lookup n ms

/-! ### string helpers (Rust `str::split_once`, `trim`, `parse::<i32>`, `String::cmp`) -/

def isPrefix : List Char → List Char → Bool
  | [], _ => true
  | _ :: _, [] => false
  | p :: ps, c :: cs => p == c && isPrefix ps cs

/-- `s.split_once(pat)`: text before the first occurrence of `pat` and text after it -/
def splitOnce (pat : List Char) : List Char → Option (List Char × List Char)
  | [] => if pat.isEmpty then some ([], []) else none
  | c :: cs =>
    if isPrefix pat (c :: cs) then some ([], (c :: cs).drop pat.length)
    else match splitOnce pat cs with
      | some (a, b) => some (c :: a, b)
      | none => none

def isWs (c : Char) : Bool := c == ' ' || c == '\t' || c == '\n' || c == '\r'

def trimLeft : List Char → List Char
  | [] => []
  | c :: cs => if isWs c then trimLeft cs else c :: cs

def trim (s : List Char) : List Char := (trimLeft (trimLeft s).reverse).reverse

def digitVal (c : Char) : Option Nat :=
  if '0' ≤ c ∧ c ≤ '9' then some (c.toNat - '0'.toNat) else none

def parseNatAcc : List Char → Nat → Option Nat
  | [], acc => some acc
  | c :: cs, acc => match digitVal c with
    | some d => parseNatAcc cs (acc * 10 + d)
    | none => none

/-- `str::parse::<i32>()`: optional sign, at least one digit, value inside the i32 range; `none` = `Err` -/
def parseI32 (s : List Char) : Option Int :=
  let (neg, digits) := match s with
    | '-' :: r => (true, r)
    | '+' :: r => (false, r)
    | r => (false, r)
  if digits.isEmpty then none
  else match parseNatAcc digits 0 with
    | none => none
    | some n =>
      let v : Int := if neg then - (n : Int) else (n : Int)
      if -2147483648 ≤ v ∧ v ≤ 2147483647 then some v else none

/-- `lhs <= rhs` on `String` (lexicographic by code point; a proper prefix is smaller) -/
def strLe : List Char → List Char → Bool
  | [], _ => true
  | _ :: _, [] => false
  | a :: as, b :: bs => if a.toNat < b.toNat then true else if a.toNat = b.toNat then strLe as bs else false

/-! ### the filter -/

inductive Op
  | le   -- the enum value the code calls `LessThan` and prints as "<="
  | eq
deriving DecidableEq, Repr

structure Filter where
  expr : List Char
  params : List (List Char)
deriving DecidableEq, Repr

/-- communication_methods.rs:122-134: `<=` is tried first, then `=`; result = (text before the operator, text after
    it, operator) -/
def detectFull (expr : List Char) : Option (List Char × List Char × Op) :=
  match splitOnce ['<', '='] expr with
  | some (v, r) => some (v, r, .le)
  | none => match splitOnce ['='] expr with
    | some (v, r) => some (v, r, .eq)
    | none => none

/-- the code before fixes/D61.patch only kept the text before the operator -/
def detect (expr : List Char) : Option (List Char × Op) :=
  (detectFull expr).map (fun t => (t.1, t.2.2))

/-- `str::parse::<usize>()`: optional `+`, at least one digit (an index too large for usize selects nothing anyway) -/
def parseUsize (s : List Char) : Option Nat :=
  let digits := match s with
    | '+' :: r => r
    | r => r
  if digits.isEmpty then none else parseNatAcc digits 0

/-- topic_entity.rs `filter_operand` (fixes/D61.patch): the value the expression compares with. `%n` selects expression
    parameter n, a single-quoted string stands for its content, an i32 literal for itself; everything else (and `%n`
    beyond the parameter list) is `None` -/
def operandOf (operand : List Char) (params : List (List Char)) : Option (List Char) :=
  match trim operand with
  | '%' :: idx => match parseUsize idx with
    | some n => params[n]?
    | none => none
  | o =>
    if o.length ≥ 2 ∧ o.head? = some '\'' ∧ o.getLast? = some '\'' then some ((o.drop 1).dropLast)
    else if (parseI32 o).isSome then some o
    else none

def cmpInt : Op → Int → Int → Bool
  | .eq, a, b => a == b
  | .le, a, b => decide (a ≤ b)

def cmpStr : Op → List Char → List Char → Bool
  | .eq, a, b => a == b
  | .le, a, b => strLe a b

/-- what the code does with one ALIVE change -/
inductive Eval
  | pass        -- falls through to add_reader_change
  | fail        -- the comparison is false (:158 / :180)
  | leave       -- structural failure (no operator, unknown member): `continue 'data_readers` in both versions
  | panic       -- params[0] missing, params[0] not an i32, member kind without an implementation
deriving DecidableEq, Repr

/-- communication_methods.rs:122-198 for one deserialised ALIVE sample, with fixes/D61.patch: the operand after the
    operator is resolved (`operandOf`) before the member is looked up -/
def eval (f : Filter) (d : Data) : Eval :=
  match detectFull f.expr with
  | none => .leave
  | some (v, rest, op) =>
    match operandOf rest f.params with
    | none => .leave                                -- unreachable for a filter accepted at creation
    | some o =>
      match lookup (trim v) d with
      | none => .leave
      | some (.int x) =>
        match parseI32 o with
        | none => .panic                            -- `.expect("valid number")`
        | some k => if cmpInt op x k then .pass else .fail
      | some (.str x) => if cmpStr op x o then .pass else .fail
      | some .other => .panic                       -- `todo!()`

/-- the evaluation before fixes/D61.patch (D61): the text after the operator is never read, parameter 0 is used -/
def evalOld (f : Filter) (d : Data) : Eval :=
  match detect f.expr with
  | none => .leave
  | some (v, op) =>
    match lookup (trim v) d with
    | none => .leave
    | some (.int x) =>
      match f.params with
      | [] => .panic                                -- `expression_parameters[0]`
      | p :: _ => match parseI32 p with
        | none => .panic                            -- `.expect("valid number")`
        | some k => if cmpInt op x k then .pass else .fail
    | some (.str x) =>
      match f.params with
      | [] => .panic
      | p :: _ => if cmpStr op x p then .pass else .fail
    | some .other => .panic                         -- `todo!()`

/-! ### validation at creation (fixes/D60.patch) -/

/-- what `create_contentfilteredtopic` knows about the related topic's type: member names with their kind -/
inductive MKind
  | int32
  | string
  | other
deriving DecidableEq, Repr

abbrev TypeDesc := List (List Char × MKind)

def lookupKind (n : List Char) : TypeDesc → Option MKind
  | [] => none
  | m :: ms => if m.1 = n then some m.2 else lookupKind n ms

/-- participant_methods.rs create_content_filtered_topic with fixes/D60.patch: `true` = the topic is created, `false` =
    `Err(BadParameter)`. The same operator detection and `trim` as the evaluation; the member must be INT32 or a string,
    parameter 0 must exist and, for an INT32 member, parse as an i32. (Without the patch everything is accepted.) -/
def validate (ty : TypeDesc) (f : Filter) : Bool :=
  match detectFull f.expr with
  | none => false
  | some (v, rest, _) =>
    match lookupKind (trim v) ty, operandOf rest f.params with
    | some .int32, some o => (parseI32 o).isSome
    | some .string, some _ => true
    | _, _ => false

/-- the validation of fixes/D60.patch before fixes/D61.patch: parameter 0 whatever the operand says -/
def validateOld (ty : TypeDesc) (f : Filter) : Bool :=
  match detect f.expr with
  | none => false
  | some (v, _) =>
    match lookupKind (trim v) ty, f.params with
    | some .int32, p :: _ => (parseI32 p).isSome
    | some .string, _ :: _ => true
    | _, _ => false

def kindOf : Val → MKind
  | .int _ => .int32
  | .str _ => .string
  | .other => .other

/-! ### the batch loop -/

/-- a cache change of the batch: `data = none` for a dispose / unregister (never filtered) -/
structure Change (α : Type) where
  data : Option Data
  tag : α                -- whatever else travels with the change (sequence number, key, payload text)
deriving Repr

/-- outcome of the loop over one batch: the changes handed to `add_reader_change`, in order -/
inductive Out (α : Type)
  | ok (delivered : List (Change α))
  | panic (delivered : List (Change α))        -- the worker died after delivering these
deriving Repr

def Out.cons {α : Type} (c : Change α) : Out α → Out α
  | .ok l => .ok (c :: l)
  | .panic l => .panic (c :: l)

def evalChangeWith {α : Type} (ev : Filter → Data → Eval) (f : Option Filter) (c : Change α) : Eval :=
  match f, c.data with
  | some f, some d => ev f d
  | _, _ => .pass           -- reader on a plain topic, or a not-alive change

def evalChange {α : Type} (f : Option Filter) (c : Change α) : Eval := evalChangeWith eval f c

/-- the loop as found (D32): a failing sample ends the processing of the batch -/
def loopAsIs {α : Type} (f : Option Filter) : List (Change α) → Out α
  | [] => .ok []
  | c :: cs => match evalChange f c with
    | .pass => (loopAsIs f cs).cons c
    | .fail => .ok []
    | .leave => .ok []
    | .panic => .panic []

/-- the loop after fixes/D32.patch: a failing sample is skipped -/
def loopFixed {α : Type} (f : Option Filter) : List (Change α) → Out α
  | [] => .ok []
  | c :: cs => match evalChange f c with
    | .pass => (loopFixed f cs).cons c
    | .fail => loopFixed f cs
    | .leave => .ok []
    | .panic => .panic []

/-- the two loops with the evaluation before fixes/D61.patch (replay variants of the driver: tree as first found, main) -/
def loopAsIsOld {α : Type} (f : Option Filter) : List (Change α) → Out α
  | [] => .ok []
  | c :: cs => match evalChangeWith evalOld f c with
    | .pass => (loopAsIsOld f cs).cons c
    | .fail => .ok []
    | .leave => .ok []
    | .panic => .panic []

def loopFixedOld {α : Type} (f : Option Filter) : List (Change α) → Out α
  | [] => .ok []
  | c :: cs => match evalChangeWith evalOld f c with
    | .pass => (loopFixedOld f cs).cons c
    | .fail => loopFixedOld f cs
    | .leave => .ok []
    | .panic => .panic []

/-- several datagrams = several batches, processed one after the other; a panic kills the worker for good -/
def deliver {α : Type} (loop : List (Change α) → Out α) : List (List (Change α)) → Out α
  | [] => .ok []
  | b :: bs => match loop b with
    | .ok l => match deliver loop bs with
      | .ok l' => .ok (l ++ l')
      | .panic l' => .panic (l ++ l')
    | .panic l => .panic l

end DustVerif.CFilter
