import DustVerif.Model.Md5
/-! Model of `#[derive(DdsType)]` / `#[derive(TypeSupport)]` (property C40).

    Transcribes, AS THEY ARE,
      * dds_derive/src/derive/attributes.rs          (the attribute language),
      * dds_derive/src/derive/type_support.rs        (expansion: `Type::TYPE`, `create_dynamic_sample`, `create_sample`),
      * dds_derive/src/derive/enum_support.rs        (enum discriminant mapping),
      * dds/src/xtypes/type_support.rs               (`Type` impls of the member types),
      * dds/src/xtypes/data_storage.rs               (`DataStorageMapping`: into_storage / try_from_storage),
      * dds/src/xtypes/dynamic_type.rs:1631-1648     (`DynamicData::set_value / remove_value`).

    A declaration is a TREE: a member of a declared (struct / enum / union) type carries that type's
    declaration, so no environment and no fuel are needed and every function is structurally recursive.
    Not modelled (the driver answers `bad-op`, the generator does not emit them): `default_value`,
    `try_construct`, `external`/`Box`, `base_type`, generics, `Vec<Vec<_>>`-like nestings for which no
    `DataStorageMapping` impl exists (they do not compile). -/
namespace DustVerif.Derive

/-! ## declarations -/

inductive Prim
  | u8 | i8 | u16 | i16 | u32 | i32 | u64 | i64 | f32 | f64 | bool | char | string
  deriving DecidableEq, Repr, Inhabited

inductive Ext
  | final | appendable | mutable
  deriving DecidableEq, Repr, Inhabited

/-- field attributes `#[dust_dds(...)]` (attributes.rs:19-100) + the field name (`none`-like "" never occurs:
    tuple fields get their index as name, type_support.rs:61-65, which the struct header's `tuple` flag selects) -/
structure FieldAttr where
  name : String
  key : Bool
  id : Option Nat
  optional : Bool
  nonSerialized : Bool
  hashid : Bool
  deriving DecidableEq, Repr, Inhabited

/-- struct-level attributes (attributes.rs:109-166): `name`, `extensibility`, `nested`; `tuple` = unnamed fields -/
structure StructHdr where
  ident : String
  rename : Option String
  ext : Ext
  nested : Bool
  tuple : Bool
  deriving Repr, Inhabited

/-- enum-level attributes (attributes.rs:174-227). `variants`: identifier and the explicit discriminant if written.
    `dflt` is NOT part of the derive: it is the variant carrying Rust's `#[default]` (the user's `Default` impl, which
    the expansion calls for non_serialized / optional members). -/
structure EnumHdr where
  ident : String
  rename : Option String
  nested : Bool
  bits : Nat
  variants : List (String × Option Nat)
  dflt : Nat
  deriving Repr, Inhabited

/-- union-level attributes (attributes.rs:229-304); the discriminator is an integer primitive in this model -/
structure UnionHdr where
  ident : String
  rename : Option String
  ext : Ext
  nested : Bool
  disc : Prim
  discKey : Bool
  deriving Repr, Inhabited

/-- variant attributes (attributes.rs:306-334); `field = some f` for `V { f: T }`, `none` for `V(T)` / unit -/
structure VarAttr where
  name : String
  cases : List Int
  isDefault : Bool
  field : Option String
  deriving Repr, Inhabited

mutual
inductive Ty
  | prim (p : Prim)
  | vec (t : Ty)
  | arr (t : Ty) (n : Nat)
  | opt (t : Ty)
  | struct (h : StructHdr) (fs : Fields)
  | enum (h : EnumHdr)
  | union (h : UnionHdr) (vs : Variants)
inductive Fields
  | nil
  | cons (a : FieldAttr) (t : Ty) (rest : Fields)
inductive Variants
  | nil
  | unit (a : VarAttr) (rest : Variants)
  | data (a : VarAttr) (t : Ty) (rest : Variants)
end

instance : Inhabited Ty := ⟨.prim .u8⟩

def Fields.attrs : Fields → List FieldAttr
  | .nil => []
  | .cons a _ r => a :: r.attrs

def Fields.length : Fields → Nat
  | .nil => 0
  | .cons _ _ r => r.length + 1

def Variants.attrs : Variants → List VarAttr
  | .nil => []
  | .unit a r => a :: r.attrs
  | .data a _ r => a :: r.attrs

def Variants.length : Variants → Nat
  | .nil => 0
  | .unit _ r => r.length + 1
  | .data _ _ r => r.length + 1

/-! ## member ids (type_support.rs:56-99) -/

/-- the member name the expansion uses: identifier, or the index for tuple structs (type_support.rs:61-65) -/
def memberName (tuple : Bool) (idx : Nat) (a : FieldAttr) : String :=
  if tuple then toString idx else a.name

/-- type_support.rs:67-89. `next` is `next_auto_id`. Final/Appendable IGNORE an explicit `id`. -/
def memberId (ext : Ext) (tuple : Bool) (idx next : Nat) (a : FieldAttr) : Nat :=
  if a.hashid then Md5.hashId (memberName tuple idx a)
  else match ext with
    | .final => idx
    | .appendable => idx
    | .mutable => match a.id with
      | some n => n
      | none => next

/-- type_support.rs:91-99: `next_auto_id` follows every non-hash id (which always is an integer literal here) -/
def nextAuto (ext : Ext) (tuple : Bool) (idx next : Nat) (a : FieldAttr) : Nat :=
  if a.hashid then next else memberId ext tuple idx next a + 1

def idsFrom (ext : Ext) (tuple : Bool) : Nat → Nat → List FieldAttr → List Nat
  | _, _, [] => []
  | idx, next, a :: r => memberId ext tuple idx next a :: idsFrom ext tuple (idx + 1) (nextAuto ext tuple idx next a) r

def memberIds (h : StructHdr) (fs : Fields) : List Nat := idsFrom h.ext h.tuple 0 0 fs.attrs

/-! ## published type description (`Type::TYPE`) -/

inductive Kind
  | none | boolean | int8 | uint8 | int16 | uint16 | int32 | uint32 | int64 | uint64 | float32 | float64
  | char8 | string8 | enum | structure | union | sequence | array
  deriving DecidableEq, Repr, Inhabited

structure MemberInfo where
  name : String
  id : Nat
  index : Nat
  key : Bool
  optional : Bool
  mustUnderstand : Bool
  labels : List Int
  isDefault : Bool
  deriving DecidableEq, Repr, Inhabited

mutual
/-- mirror of `DynamicType { descriptor: TypeDescriptor, member_list }` (dynamic_type.rs:644-664, 828-833);
    `base_type` and `key_element_type` are always `None` for what is modelled -/
inductive TypeDesc
  | mk (kind : Kind) (name : String) (ext : Ext) (nested : Bool) (bound : List Nat)
       (elem : OptDesc) (disc : OptDesc) (members : MemberDescs)
inductive OptDesc
  | none
  | some (d : TypeDesc)
inductive MemberDescs
  | nil
  | cons (m : MemberInfo) (t : TypeDesc) (rest : MemberDescs)
end

instance : Inhabited TypeDesc := ⟨.mk .none "" .final false [] .none .none .nil⟩

def MemberDescs.infos : MemberDescs → List MemberInfo
  | .nil => []
  | .cons m _ r => m :: r.infos

def TypeDesc.kind : TypeDesc → Kind | .mk k _ _ _ _ _ _ _ => k
def TypeDesc.name : TypeDesc → String | .mk _ n _ _ _ _ _ _ => n
def TypeDesc.ext : TypeDesc → Ext | .mk _ _ e _ _ _ _ _ => e
def TypeDesc.nested : TypeDesc → Bool | .mk _ _ _ n _ _ _ _ => n
def TypeDesc.bound : TypeDesc → List Nat | .mk _ _ _ _ b _ _ _ => b
def TypeDesc.members : TypeDesc → MemberDescs | .mk _ _ _ _ _ _ _ m => m
def TypeDesc.infos (d : TypeDesc) : List MemberInfo := d.members.infos

def U32MAX : Nat := 4294967295

def primKind : Prim → Kind
  | .u8 => .uint8 | .i8 => .int8 | .u16 => .uint16 | .i16 => .int16 | .u32 => .uint32 | .i32 => .int32
  | .u64 => .uint64 | .i64 => .int64 | .f32 => .float32 | .f64 => .float64 | .bool => .boolean
  | .char => .char8 | .string => .string8

/-- xtypes/type_support.rs:50-252 (primitives: nested = true), :272-287 (String: bound [u32::MAX], nested = false) -/
def primDesc : Prim → TypeDesc
  | .string => .mk .string8 "" .final false [U32MAX] .none .none .nil
  | p => .mk (primKind p) "" .final true [] .none .none .nil

/-- the `NONE` type of a unit union variant (derive type_support.rs:480-493) -/
def noneDesc : TypeDesc := .mk .none "" .final false [] .none .none .nil

/-- AS IT WAS before fix D-gen-4 (`impl Type for Vec<i8>` named `u8::TYPE`, xtypes/type_support.rs:382); kept for the
    regression witness `C40_vec_i8_old_counterexample` -/
def vecPrimElemOld : Prim → Prim
  | .i8 => .u8
  | p => p

def bitsKind (bits : Nat) : Kind :=
  if bits = 8 then .int8 else if bits = 16 then .int16 else .int32

def bitsPrim (bits : Nat) : Prim :=
  if bits = 8 then .i8 else if bits = 16 then .i16 else .i32

def bitsDesc (bits : Nat) : TypeDesc := primDesc (bitsPrim bits)

def typeName (ident : String) (rename : Option String) : String := rename.getD ident

/-- labels published for a variant: the `case`s, or `variant_index + 1` when none is given (type_support.rs:383-387) -/
def variantLabels (idx : Nat) (a : VarAttr) : List Int :=
  if a.cases.isEmpty then [((idx + 1 : Nat) : Int)] else a.cases

def variantInfo (idx : Nat) (a : VarAttr) : MemberInfo :=
  { name := a.name, id := idx + 1, index := idx + 1, key := false, optional := false, mustUnderstand := false,
    labels := variantLabels idx a, isDefault := a.isDefault }

def fieldInfo (ext : Ext) (tuple : Bool) (idx next : Nat) (a : FieldAttr) : MemberInfo :=
  { name := memberName tuple idx a, id := memberId ext tuple idx next a, index := idx, key := a.key,
    optional := a.optional, mustUnderstand := a.key, labels := [], isDefault := false }

mutual
/-- `<T as Type>::TYPE` -/
def describe : Ty → TypeDesc
  | .prim p => primDesc p
  | .opt t => describe t                                   -- xtypes/type_support.rs:268-270
  | .arr t n => .mk .array "" .final false [n] (.some (describe t)) .none .nil   -- :289-304
  | .vec t =>                                              -- :340-355 (complex) / :357-576 (primitive)
    match t with
    | .prim p => .mk .sequence "" .final false [U32MAX] (.some (primDesc p)) .none .nil
    | t => .mk .sequence "SequenceComplexValue" .final false [U32MAX] (.some (describe t)) .none .nil
  | .struct h fs =>                                        -- derive type_support.rs:38-50, 290-296
    .mk .structure (typeName h.ident h.rename) h.ext h.nested [] .none .none (describeFields h.ext h.tuple 0 0 fs)
  | .enum h =>                                             -- :593-612: member_list is EMPTY, literals are not published
    .mk .enum (typeName h.ident h.rename) .final h.nested [] .none (.some (bitsDesc h.bits)) .nil
  | .union h vs =>                                         -- :337-370, 533-539
    .mk .union (typeName h.ident h.rename) h.ext h.nested [] .none (.some (primDesc h.disc))
      (.cons { name := "discriminator", id := 0, index := 0, key := h.discKey, optional := false,
               mustUnderstand := true, labels := [], isDefault := false } (primDesc h.disc)
        (describeVariants 0 vs))
def describeFields (ext : Ext) (tuple : Bool) : Nat → Nat → Fields → MemberDescs
  | _, _, .nil => .nil
  | idx, next, .cons a t r =>
    .cons (fieldInfo ext tuple idx next a) (describe t)
      (describeFields ext tuple (idx + 1) (nextAuto ext tuple idx next a) r)
def describeVariants : Nat → Variants → MemberDescs
  | _, .nil => .nil
  | idx, .unit a r => .cons (variantInfo idx a) noneDesc (describeVariants (idx + 1) r)
  | idx, .data a t r => .cons (variantInfo idx a) (describe t) (describeVariants (idx + 1) r)
end

/-! ## values -/

/-- untyped values; `HasType` says which belong to a declaration.
    `i`: every integer, bool (0/1) and char (code point); `f q`: the float `q / 4`;
    `list`: Vec and arrays; `struct`: field values in order; `enumv k`: k-th variant; `unionv k p`: k-th variant with payload -/
inductive Val
  | i (x : Int)
  | f (q : Int)
  | s (x : String)
  | list (vs : List Val)
  | none
  | some (v : Val)
  | struct (vs : List Val)
  | enumv (k : Nat)
  | unionv (k : Nat) (p : Option Val)
  deriving Repr, Inhabited

def primRange : Prim → Int × Int
  | .u8 => (0, 255) | .i8 => (-128, 127) | .u16 => (0, 65535) | .i16 => (-32768, 32767)
  | .u32 => (0, 4294967295) | .i32 => (-2147483648, 2147483647)
  | .u64 => (0, 18446744073709551615) | .i64 => (-9223372036854775808, 9223372036854775807)
  | .bool => (0, 1) | .char => (0, 127)
  | _ => (0, 0)

def primHas : Prim → Val → Bool
  | .f32, .f _ => true
  | .f64, .f _ => true
  | .string, .s _ => true
  | .f32, _ => false
  | .f64, _ => false
  | .string, _ => false
  | p, .i x => decide ((primRange p).1 ≤ x) && decide (x ≤ (primRange p).2)
  | _, _ => false

def primDefault : Prim → Val
  | .f32 => .f 0
  | .f64 => .f 0
  | .string => .s ""
  | _ => .i 0

def primIsDefault : Prim → Val → Bool
  | .f32, .f q => q == 0
  | .f64, .f q => q == 0
  | .string, .s x => x == ""
  | .f32, _ => false
  | .f64, _ => false
  | .string, _ => false
  | _, .i x => x == 0
  | _, _ => false

/-- enum_support.rs:6-28 (and Rust's own rule): an explicit discriminant restarts the count -/
def enumDiscsFrom : Nat → List (String × Option Nat) → List Nat
  | _, [] => []
  | _, (_, some d) :: r => d :: enumDiscsFrom (d + 1) r
  | n, (_, none) :: r => n :: enumDiscsFrom (n + 1) r

def enumDiscs (h : EnumHdr) : List Nat := enumDiscsFrom 0 h.variants

def allB {α} (p : α → Bool) : List α → Bool
  | [] => true
  | x :: r => p x && allB p r

mutual
/-- typing of values -/
def hasType : Ty → Val → Bool
  | .prim p, v => primHas p v
  | .vec t, .list vs => allB (hasType t) vs
  | .arr t n, .list vs => allB (hasType t) vs && vs.length == n
  | .opt _, .none => true
  | .opt t, .some v => hasType t v
  | .struct _ fs, .struct vs => hasTypeFields fs vs
  | .enum h, .enumv k => decide (k < h.variants.length)
  | .union _ vs, .unionv k p => hasTypeVariant vs k p
  | _, _ => false
def hasTypeFields : Fields → List Val → Bool
  | .nil, [] => true
  | .cons _ t r, v :: vs => hasType t v && hasTypeFields r vs
  | _, _ => false
def hasTypeVariant : Variants → Nat → Option Val → Bool
  | .unit _ _, 0, Option.none => true
  | .data _ t _, 0, Option.some v => hasType t v
  | .unit _ r, k + 1, p => hasTypeVariant r k p
  | .data _ _ r, k + 1, p => hasTypeVariant r k p
  | _, _, _ => false
end

mutual
/-- `<T as Default>::default()` of the user type (derived `Default`; enums: the `#[default]` variant).
    Unions have no derived `Default` (result unspecified, excluded by `defaultable`). -/
def defaultVal : Ty → Val
  | .prim p => primDefault p
  | .vec _ => .list []
  | .arr t n => .list (List.replicate n (defaultVal t))
  | .opt _ => .none
  | .struct _ fs => .struct (defaultFields fs)
  | .enum h => .enumv h.dflt
  | .union _ _ => .unionv 0 Option.none
def defaultFields : Fields → List Val
  | .nil => []
  | .cons _ t r => defaultVal t :: defaultFields r
end

mutual
/-- `x == Default::default()` with the derived `PartialEq` -/
def isDefault : Ty → Val → Bool
  | .prim p, v => primIsDefault p v
  | .vec _, .list vs => vs.isEmpty
  | .arr t _, .list vs => allB (isDefault t) vs
  | .opt _, .none => true
  | .struct _ fs, .struct vs => isDefaultFields fs vs
  | .enum h, .enumv k => k == h.dflt
  | _, _ => false
def isDefaultFields : Fields → List Val → Bool
  | .nil, [] => true
  | .cons _ t r, v :: vs => isDefault t v && isDefaultFields r vs
  | _, _ => false
end

/-! ## dynamic data (dynamic_type.rs:900-903, data_storage.rs:10-72) -/

/-- `DataStorage`: scalar of a primitive kind, sequence of a primitive kind, complex value, sequence of complex values.
    A `DynamicData` is the association list id ↦ storage (`abstract_data: BTreeMap<MemberId, DataStorage>`). -/
inductive Storage
  | prim (p : Prim) (v : Val)
  | seqPrim (p : Prim) (vs : List Val)
  | complex (d : List (Nat × Storage))
  | seqComplex (ds : List (List (Nat × Storage)))
  deriving Inhabited

abbrev DynData := List (Nat × Storage)

def idNe (id : Nat) (e : Nat × Storage) : Bool := e.1 != id

def erase (m : DynData) (id : Nat) : DynData := m.filter (idNe id)

def lookup (id : Nat) : DynData → Option Storage
  | [] => none
  | (k, x) :: r => if k == id then some x else lookup id r

/-- `DynamicData::set_value` = `BTreeMap::insert` (overwrites) -/
def setValue (m : DynData) (id : Nat) (x : Storage) : DynData := (id, x) :: erase m id

/-- `DynamicData::remove_value` -/
def removeValue (m : DynData) (id : Nat) : Option Storage × DynData := (lookup id m, erase m id)

/-! ## which member types compile -/

/-- types with a scalar / complex `DataStorageMapping` impl that may be the element of `Vec` / `[_; N]` -/
def Ty.isElem : Ty → Bool
  | .prim _ => true
  | .struct _ _ => true
  | .enum _ => true
  | .union _ _ => true
  | _ => false

def Ty.isColl : Ty → Bool
  | .vec t => t.isElem
  | .arr t _ => t.isElem
  | t => t.isElem

/-- has `Default`: unions have none, arrays only up to 32 elements -/
def Ty.defaultable : Ty → Bool
  | .union _ _ => false
  | .arr t n => decide (n ≤ 32) && t.defaultable
  | .vec _ => true
  | .opt _ => true
  | .prim _ => true
  | .enum _ => true
  | .struct _ _ => true   -- the fields are checked where the struct is declared (`wf`)

def isIntPrim : Prim → Bool
  | .u8 | .i8 | .u16 | .i16 | .u32 | .i32 | .u64 | .i64 => true
  | _ => false

/-! ## conversions -/

/-- outcome of generated code: value, `None` (create_sample refused), Rust panic, or an ill-typed / unsupported input -/
inductive Res (α : Type)
  | ok (a : α)
  | none
  | panic
  | bad
  deriving Repr, Inhabited

def Res.bind {α β} : Res α → (α → Res β) → Res β
  | .ok a, f => f a
  | .none, _ => .none
  | .panic, _ => .panic
  | .bad, _ => .bad

/-- how a member is written / read (type_support.rs:200-283):
    `skip`  — non_serialized: never written, read back as the default;
    `opt`   — `optional`, and EVERY member of a mutable TUPLE struct (line 253): written unless equal to the default,
              a missing value reads as the default;
    `plain` — always written; a missing value makes `create_sample` return `None`. -/
inductive Mode
  | skip | opt | plain
  deriving DecidableEq, Repr

def fieldMode (ext : Ext) (tuple : Bool) (a : FieldAttr) : Mode :=
  if a.nonSerialized then .skip
  else if a.optional || (tuple && ext == .mutable) then .opt
  else .plain

def mapRes {α β} (f : α → Res β) : List α → Res (List β)
  | [] => .ok []
  | x :: r => (f x).bind (fun y => (mapRes f r).bind (fun ys => .ok (y :: ys)))

def firstLabel (idx : Nat) (a : VarAttr) : Int :=
  match a.cases with
  | [] => ((idx + 1 : Nat) : Int)
  | c :: _ => c

def primOf : Storage → Option Val
  | .prim _ v => some v
  | _ => none

def complexOf : Storage → Option DynData
  | .complex d => some d
  | _ => none

def allSome {α} : List (Option α) → Option (List α)
  | [] => some []
  | none :: _ => none
  | some x :: r => (allSome r).map (x :: ·)

/-- `Vec<T>` / `[T; N]` (data_storage.rs:279-660): ONE `SequenceXxx` storage for a primitive element type,
    `SequenceComplexValue` for an element type with `TypeSupport`; nothing else has an impl -/
def packSeq : Ty → List Storage → Res Storage
  | .prim p, xs => match allSome (xs.map primOf) with
    | some vs => .ok (.seqPrim p vs)
    | none => .bad
  | .struct _ _, xs => match allSome (xs.map complexOf) with
    | some ds => .ok (.seqComplex ds)
    | none => .bad
  | .enum _, xs => match allSome (xs.map complexOf) with
    | some ds => .ok (.seqComplex ds)
    | none => .bad
  | .union _ _, xs => match allSome (xs.map complexOf) with
    | some ds => .ok (.seqComplex ds)
    | none => .bad
  | _, _ => .bad

/-- inverse view used by `try_from_storage` of `Vec<T>` / `[T; N]`; `.none` = `Err(InvalidType)` -/
def unpackSeq : Ty → Storage → Res (List Storage)
  | .prim p, .seqPrim q vs => if p == q then .ok (vs.map (Storage.prim p)) else .none
  | .struct _ _, .seqComplex ds => .ok (ds.map Storage.complex)
  | .enum _, .seqComplex ds => .ok (ds.map Storage.complex)
  | .union _ _, .seqComplex ds => .ok (ds.map Storage.complex)
  | _, _ => .none

/-- type_support.rs:581-585: `data.set_intN_value(0, self as iN)` -/
def enumDyn (h : EnumHdr) : Val → Res DynData
  | .enumv k => match (enumDiscs h)[k]? with
    | some d => .ok (setValue [] 0 (.prim (bitsPrim h.bits) (.i (d : Nat))))
    | none => .bad
  | _ => .bad

def findIdx (d : Nat) : Nat → List Nat → Option Nat
  | _, [] => none
  | k, x :: r => if x == d then some k else findIdx d (k + 1) r

/-- type_support.rs:587-629: `*src.get_intN_value(0).ok()?`, then a `match` over the discriminant mapping in variant order -/
def enumSample (h : EnumHdr) (m : DynData) : Res Val :=
  match lookup 0 m with
  | some (.prim q (.i d)) =>
    if q == bitsPrim h.bits && decide (0 ≤ d) then
      match findIdx d.toNat 0 (enumDiscs h) with
      | some k => .ok (.enumv k)
      | none => .none
    else .none
  | _ => .none

mutual
/-- `DataStorageMapping::into_storage` of a member of type `t`; for struct / enum / union types this is
    `ComplexValue(self.create_dynamic_sample())` (data_storage.rs:672-675) -/
def toStorage : Ty → Val → Res Storage
  | .prim p, v => if primHas p v then .ok (.prim p v) else .bad
  | .opt _, .none => .panic                       -- data_storage.rs:663 `expect("Only options with value are converted …")`
  | .opt t, .some v => toStorage t v
  | .vec t, .list vs => (mapRes (toStorage t) vs).bind (packSeq t)
  | .arr t n, .list vs => if vs.length == n then (mapRes (toStorage t) vs).bind (packSeq t) else .bad
  | .struct h fs, .struct vs => (writeFields h.ext h.tuple 0 0 fs vs []).bind (fun d => .ok (.complex d))
  | .enum h, v => (enumDyn h v).bind (fun d => .ok (.complex d))
  | .union h us, .unionv k p => (writeVariant h.disc 0 us k p).bind (fun d => .ok (.complex d))
  | _, _ => .bad
/-- generated `create_dynamic_sample` of a struct (type_support.rs:224-229, 246-247, 260-264, 277-279):
    the statements run in member order on `data` -/
def writeFields (ext : Ext) (tuple : Bool) : Nat → Nat → Fields → List Val → DynData → Res DynData
  | _, _, .nil, [], m => .ok m
  | idx, next, .cons a t r, v :: vs, m =>
    match fieldMode ext tuple a with
    | .skip => writeFields ext tuple (idx + 1) (nextAuto ext tuple idx next a) r vs m
    | .opt =>
      if isDefault t v then writeFields ext tuple (idx + 1) (nextAuto ext tuple idx next a) r vs m
      else (toStorage t v).bind (fun x =>
        writeFields ext tuple (idx + 1) (nextAuto ext tuple idx next a) r vs (setValue m (memberId ext tuple idx next a) x))
    | .plain => (toStorage t v).bind (fun x =>
        writeFields ext tuple (idx + 1) (nextAuto ext tuple idx next a) r vs (setValue m (memberId ext tuple idx next a) x))
  | _, _, _, _, _ => .bad
/-- generated `create_dynamic_sample` of a union (type_support.rs:431-435, 469-473, 516-518):
    discriminator := FIRST label (or index + 1), payload under id index + 1 -/
def writeVariant (disc : Prim) : Nat → Variants → Nat → Option Val → Res DynData
  | idx, .unit a _, 0, Option.none => .ok (setValue [] 0 (.prim disc (.i (firstLabel idx a))))
  | idx, .data a t _, 0, Option.some v =>
    (toStorage t v).bind (fun x => .ok (setValue (setValue [] 0 (.prim disc (.i (firstLabel idx a)))) (idx + 1) x))
  | idx, .unit _ r, k + 1, p => writeVariant disc (idx + 1) r k p
  | idx, .data _ _ r, k + 1, p => writeVariant disc (idx + 1) r k p
  | _, _, _, _ => .bad
end

/-- body of a union arm with a payload (type_support.rs:420-424, 458-462): `conv` is `try_from_storage` of the payload type;
    tuple form `V(T)`: `.ok()?` twice; named form `V { f: T }`: `.expect("Must exist")` / `.expect("Must match")` -/
def payloadRes (a : VarAttr) (pos : Nat) (conv : Storage → Res Val) : Option Storage → Res Val
  | Option.none => match a.field with
    | Option.none => .none
    | Option.some _ => .panic
  | Option.some x => match a.field with
    | Option.none => (conv x).bind (fun v => .ok (.unionv pos (Option.some v)))
    | Option.some _ => match conv x with
      | .none => .panic
      | r => r.bind (fun v => .ok (.unionv pos (Option.some v)))

/-- `Self::try_from(vec)` of arrays: the length must be N -/
def lenOk (n : Option Nat) (k : Nat) : Bool :=
  match n with
  | Option.none => true
  | Option.some n => k == n

mutual
/-- `DataStorageMapping::try_from_storage`: `.none` stands for `Err(_)`; struct / enum / union:
    `T::create_sample(x).ok_or(InvalidData)` on a `ComplexValue` (data_storage.rs:677-682) -/
def fromStorage : Ty → Storage → Res Val
  | .prim p, .prim q v => if p == q then .ok v else .none
  | .opt t, x => (fromStorage t x).bind (fun v => .ok (.some v))          -- data_storage.rs:666-668
  | .vec t, x => (unpackSeq t x).bind (fun xs => (mapRes (fromStorage t) xs).bind (fun vs => .ok (.list vs)))
  | .arr t n, x => (unpackSeq t x).bind (fun xs => (mapRes (fromStorage t) xs).bind (fun vs =>
      if vs.length == n then .ok (.list vs) else .none))
  | .struct h fs, .complex m => (readFields h.ext h.tuple 0 0 fs m).bind (fun vs => .ok (.struct vs))
  | .enum h, .complex m => enumSample h m
  | .union h us, .complex m =>                     -- type_support.rs:547-556
    match removeValue m 0 with
    | (some (.prim q (.i d)), m') =>
      if q == h.disc then
        match readNonDefault 0 0 us d m' with
        | Option.some r => r
        | Option.none => match readDefault 0 0 us m' with     -- `_ => <default variant>` or `_ => return None`
          | Option.some r => r
          | Option.none => .none
      else .none
    | _ => .none
  | _, _ => .none
/-- generated `create_sample` of a struct (type_support.rs:203-275): the struct literal evaluates its field
    expressions in order, each `remove_value`s its id -/
def readFields (ext : Ext) (tuple : Bool) : Nat → Nat → Fields → DynData → Res (List Val)
  | _, _, .nil, _ => .ok []
  | idx, next, .cons a t r, m =>
    match fieldMode ext tuple a with
    | .skip => (readFields ext tuple (idx + 1) (nextAuto ext tuple idx next a) r m).bind (fun vs => .ok (defaultVal t :: vs))
    | .opt =>
      match lookup (memberId ext tuple idx next a) m with
      | Option.none =>
        (readFields ext tuple (idx + 1) (nextAuto ext tuple idx next a) r (erase m (memberId ext tuple idx next a))).bind
          (fun vs => .ok (defaultVal t :: vs))
      | Option.some x =>
        (fromStorage t x).bind (fun v =>
          (readFields ext tuple (idx + 1) (nextAuto ext tuple idx next a) r (erase m (memberId ext tuple idx next a))).bind
            (fun vs => .ok (v :: vs)))
    | .plain =>
      match lookup (memberId ext tuple idx next a) m with
      | Option.none => .none
      | Option.some x =>
        (fromStorage t x).bind (fun v =>
          (readFields ext tuple (idx + 1) (nextAuto ext tuple idx next a) r (erase m (memberId ext tuple idx next a))).bind
            (fun vs => .ok (v :: vs)))
/-- arms of the variants that are not `default`, in variant order; an arm tests the FIRST label only
    (type_support.rs: `#first_discriminator => …`); `pos` counts the variant for the result value -/
def readNonDefault : Nat → Nat → Variants → Int → DynData → Option (Res Val)
  | _, _, .nil, _, _ => Option.none
  | pos, idx, .unit a r, d, m =>
    if !a.isDefault && firstLabel idx a == d then Option.some (.ok (.unionv pos Option.none))
    else readNonDefault (pos + 1) (idx + 1) r d m
  | pos, idx, .data a t r, d, m =>
    if !a.isDefault && firstLabel idx a == d then Option.some (payloadRes a pos (fromStorage t) (lookup (idx + 1) m))
    else readNonDefault (pos + 1) (idx + 1) r d m
/-- the `_` arm, emitted AFTER all other arms (fix D-gen-5): the body of the LAST variant marked `default` -/
def readDefault : Nat → Nat → Variants → DynData → Option (Res Val)
  | _, _, .nil, _ => Option.none
  | pos, idx, .unit a r, m =>
    match readDefault (pos + 1) (idx + 1) r m with
    | Option.some res => Option.some res
    | Option.none => if a.isDefault then Option.some (.ok (.unionv pos Option.none)) else Option.none
  | pos, idx, .data a t r, m =>
    match readDefault (pos + 1) (idx + 1) r m with
    | Option.some res => Option.some res
    | Option.none => if a.isDefault then Option.some (payloadRes a pos (fromStorage t) (lookup (idx + 1) m)) else Option.none
end

/-- generated `create_dynamic_sample` (only struct / enum / union declarations have one) -/
def createDynamic (t : Ty) (v : Val) : Res DynData :=
  match t with
  | .struct _ _ | .enum _ | .union _ _ => (toStorage t v).bind (fun x => match x with
    | .complex d => .ok d
    | _ => .bad)
  | _ => .bad

/-- generated `create_sample` -/
def createSample (t : Ty) (m : DynData) : Res Val :=
  match t with
  | .struct _ _ | .enum _ | .union _ _ => fromStorage t (.complex m)
  | _ => .bad

/-! ## which declarations are in the modelled language, and which are well-formed for the round trip -/

def nodupNat : List Nat → Bool
  | [] => true
  | x :: r => !r.contains x && nodupNat r

def bitsMax (bits : Nat) : Nat := if bits = 8 then 127 else if bits = 16 then 32767 else 2147483647

def leNat (hi : Nat) (x : Nat) : Bool := decide (x ≤ hi)

def labelFits (p : Prim) (c : Int) : Bool :=
  decide ((primRange p).1 ≤ c) && decide (c ≤ (primRange p).2) && decide (-2147483648 ≤ c) && decide (c ≤ 2147483647)

def Variants.hasData : Variants → Bool
  | .nil => false
  | .unit _ r => r.hasData
  | .data _ _ _ => true

/-- type_support.rs:97 `next_auto_id = lit_int.base10_parse::<u32>()? + 1`: the id literal must be a u32 and the
    increment must not overflow (the proc-macro panics with "attempt to add with overflow" when built with overflow
    checks, and wraps to 0 otherwise) -/
def idsFit (ext : Ext) (tuple : Bool) : Nat → Nat → List FieldAttr → Bool
  | _, _, [] => true
  | idx, next, a :: r =>
    (a.hashid || decide (memberId ext tuple idx next a < U32MAX)) && idsFit ext tuple (idx + 1) (nextAuto ext tuple idx next a) r

mutual
/-- the declaration compiles and uses only what this model covers (otherwise the driver answers `bad-op`):
    element types of `Vec`/arrays/`Option` for which a `DataStorageMapping` impl exists; members read or skipped through
    their default have a `Default`; member ids fit u32 (`idsFit`) and — fixes/D-gen-1.patch: the macro now rejects a
    repeated member id with a compile error — are pairwise distinct; enum discriminants are distinct (rustc E0081) and fit the bit bound (rustc:
    overflowing literal in the generated `match`); a union has a data variant (an all-unit enum is an ENUMERATION for the
    macro, `is_enum_xtypes_union`), an integer discriminator, and labels that fit the discriminator type and `i32`. -/
def supported : Ty → Bool
  | .prim _ => true
  | .vec t => t.isElem && supported t
  | .arr t _ => t.isElem && supported t
  | .opt t => t.isColl && supported t
  | .struct h fs => idsFit h.ext h.tuple 0 0 fs.attrs && nodupNat (memberIds h fs) && supportedFields h.ext h.tuple fs
  | .enum h =>
    (h.bits == 8 || h.bits == 16 || h.bits == 32) && !h.variants.isEmpty && decide (h.dflt < h.variants.length)
      && allB (leNat (bitsMax h.bits)) (enumDiscs h) && nodupNat (enumDiscs h)
  | .union h us => isIntPrim h.disc && us.hasData && supportedVariants h.disc 0 us
def supportedFields (ext : Ext) (tuple : Bool) : Fields → Bool
  | .nil => true
  | .cons a t r => supported t && (fieldMode ext tuple a == .plain || t.defaultable) && supportedFields ext tuple r
def supportedVariants (disc : Prim) : Nat → Variants → Bool
  | _, .nil => true
  | idx, .unit a r => allB (labelFits disc) (variantLabels idx a) && supportedVariants disc (idx + 1) r
  | idx, .data a t r => supported t && allB (labelFits disc) (variantLabels idx a) && supportedVariants disc (idx + 1) r
end

/-- AS IT WAS before fix D-gen-1: a struct was accepted without looking at repeated member ids -/
def supportedStructOld (h : StructHdr) (fs : Fields) : Bool :=
  idsFit h.ext h.tuple 0 0 fs.attrs && supportedFields h.ext h.tuple fs

/-- position (relative to the head) of the first non-default variant whose arm accepts discriminator value `d` -/
def armNonDefault : Nat → Variants → Int → Option Nat
  | _, .nil, _ => none
  | idx, .unit a r, d => if !a.isDefault && firstLabel idx a == d then some 0 else (armNonDefault (idx + 1) r d).map (· + 1)
  | idx, .data a _ r, d => if !a.isDefault && firstLabel idx a == d then some 0 else (armNonDefault (idx + 1) r d).map (· + 1)

/-- position of the LAST variant marked `default` (its `_` arm is the one that is emitted) -/
def lastDefault : Variants → Option Nat
  | .nil => none
  | .unit a r => match lastDefault r with
    | some k => some (k + 1)
    | none => if a.isDefault then some 0 else none
  | .data a _ r => match lastDefault r with
    | some k => some (k + 1)
    | none => if a.isDefault then some 0 else none

/-- the variant the generated `match disc` selects for discriminator value `d`: the arms of the non-default variants
    in order, then the `_` arm -/
def armIndex (idx : Nat) (us : Variants) (d : Int) : Option Nat :=
  match armNonDefault idx us d with
  | some k => some k
  | none => lastDefault us

/-- AS IT WAS before fix D-gen-5: the `_` arm stood at the position of the default variant and shadowed every later arm -/
def armIndexOld : Nat → Variants → Int → Option Nat
  | _, .nil, _ => none
  | idx, .unit a r, d => if a.isDefault || firstLabel idx a == d then some 0 else (armIndexOld (idx + 1) r d).map (· + 1)
  | idx, .data a _ r, d => if a.isDefault || firstLabel idx a == d then some 0 else (armIndexOld (idx + 1) r d).map (· + 1)

/-- AS IT WAS before fix D-gen-5: reading a union with the arms in variant order (regression witness
    `C40_roundtrip_default_first_old_counterexample`) -/
def readVariantOld : Nat → Nat → Variants → Int → DynData → Res Val
  | _, _, .nil, _, _ => .none
  | pos, idx, .unit a r, d, m =>
    if a.isDefault || firstLabel idx a == d then .ok (.unionv pos Option.none)
    else readVariantOld (pos + 1) (idx + 1) r d m
  | pos, idx, .data a t r, d, m =>
    if a.isDefault || firstLabel idx a == d then payloadRes a pos (fromStorage t) (lookup (idx + 1) m)
    else readVariantOld (pos + 1) (idx + 1) r d m

def unionSampleOld (h : UnionHdr) (us : Variants) (m : DynData) : Res Val :=
  match removeValue m 0 with
  | (some (.prim q (.i d)), m') => if q == h.disc then readVariantOld 0 0 us d m' else .none
  | _ => .none

/-- round trip of a union value with the OLD `create_sample` -/
def roundTripUnionOld (h : UnionHdr) (us : Variants) (v : Val) : Res Val :=
  (createDynamic (.union h us) v).bind (unionSampleOld h us)

/-- the discriminator value `create_dynamic_sample` writes for the k-th variant -/
def labelAt : Nat → Variants → Nat → Int
  | _, .nil, _ => 0
  | idx, .unit a _, 0 => firstLabel idx a
  | idx, .data a _ _, 0 => firstLabel idx a
  | idx, .unit _ r, k + 1 => labelAt (idx + 1) r k
  | idx, .data _ _ r, k + 1 => labelAt (idx + 1) r k

/-- the label `create_dynamic_sample` writes for each variant, in variant order -/
def writtenLabels : Nat → Variants → List Int
  | _, .nil => []
  | idx, .unit a r => firstLabel idx a :: writtenLabels (idx + 1) r
  | idx, .data a _ r => firstLabel idx a :: writtenLabels (idx + 1) r

def defaultCount : Variants → Nat
  | .nil => 0
  | .unit a r => (if a.isDefault then 1 else 0) + defaultCount r
  | .data a _ r => (if a.isDefault then 1 else 0) + defaultCount r

def nodupInt : List Int → Bool
  | [] => true
  | x :: r => !r.contains x && nodupInt r

/-- a declaration-level condition that makes a union well-formed for the round trip: the written labels (first `case`, or
    index + 1) of all variants are pairwise distinct and at most one variant is `default` — WHEREVER it stands -/
def labelsDistinct (us : Variants) : Bool := nodupInt (writtenLabels 0 us) && decide (defaultCount us ≤ 1)

/-- every variant is selected again by the label written for it -/
def selectsFrom (us : Variants) : Nat → Bool
  | 0 => true
  | k + 1 => (armIndex 0 us (labelAt 0 us k) == some k) && selectsFrom us k

def Ty.isOpt : Ty → Bool
  | .opt _ => true
  | _ => false

mutual
/-- well-formedness for the round trip, beyond `supported`:
    (1) an `Option` member is `optional` (or non_serialized): a bare `Option` panics on `None` by design (data_storage.rs:663);
    (2) in every union the label written for a variant selects that variant again when read (no two variants with the
        same first label; the position of the `default` variant is irrelevant since fix D-gen-5).
    (Distinct member ids are part of `supported` since fix D-gen-1.) -/
def good : Ty → Bool
  | .prim _ => true
  | .vec t => good t
  | .arr t _ => good t
  | .opt t => good t
  | .struct h fs => goodFields h.ext h.tuple fs
  | .enum _ => true
  | .union _ us => selectsFrom us us.length && goodVariants us
def goodFields (ext : Ext) (tuple : Bool) : Fields → Bool
  | .nil => true
  | .cons a t r => good t && (!(t.isOpt) || fieldMode ext tuple a != .plain) && goodFields ext tuple r
def goodVariants : Variants → Bool
  | .nil => true
  | .unit _ r => goodVariants r
  | .data _ t r => good t && !(t.isOpt) && goodVariants r
end

/-- the round trip of the property: `create_dynamic_sample` then `create_sample` -/
def roundTrip (t : Ty) (v : Val) : Res Val := (createDynamic t v).bind (createSample t)

mutual
/-- what the round trip is expected to return: non_serialized members come back as the default -/
def scrub : Ty → Val → Val
  | .opt t, .some v => .some (scrub t v)
  | .vec t, .list vs => .list (vs.map (scrub t))
  | .arr t _, .list vs => .list (vs.map (scrub t))
  | .struct _ fs, .struct vs => .struct (scrubFields fs vs)
  | .union _ us, .unionv k p => .unionv k (scrubVariant us k p)
  | _, v => v
def scrubFields : Fields → List Val → List Val
  | .cons a t r, v :: vs => (if a.nonSerialized then defaultVal t else scrub t v) :: scrubFields r vs
  | _, _ => []
def scrubVariant : Variants → Nat → Option Val → Option Val
  | .data _ t _, 0, Option.some v => Option.some (scrub t v)
  | .unit _ r, k + 1, p => scrubVariant r k p
  | .data _ _ r, k + 1, p => scrubVariant r k p
  | _, _, p => p
end

/-! ## predicates used in the statements of C40 -/

def Ty.isDecl : Ty → Bool
  | .struct _ _ => true
  | .enum _ => true
  | .union _ _ => true
  | _ => false

/-- `id`s given in ascending order: each explicit id is at least the running `next_auto_id` -/
def explicitAscending : Nat → List FieldAttr → Bool
  | _, [] => true
  | next, a :: r => match a.id with
    | some n => decide (next ≤ n) && explicitAscending (n + 1) r
    | none => explicitAscending (next + 1) r

def noHash (as : List FieldAttr) : Bool := allB (fun a => !a.hashid) as

mutual
/-- no member anywhere in the tree is `non_serialized` -/
def noNonSer : Ty → Bool
  | .prim _ => true
  | .vec t => noNonSer t
  | .arr t _ => noNonSer t
  | .opt t => noNonSer t
  | .struct _ fs => noNonSerFields fs
  | .enum _ => true
  | .union _ us => noNonSerVariants us
def noNonSerFields : Fields → Bool
  | .nil => true
  | .cons a t r => !a.nonSerialized && noNonSer t && noNonSerFields r
def noNonSerVariants : Variants → Bool
  | .nil => true
  | .unit _ r => noNonSerVariants r
  | .data _ t r => noNonSer t && noNonSerVariants r
end

end DustVerif.Derive
