/-
Model of dds/src/dcps/infrastructure/time.rs, dds/src/rtps_messages/types.rs (Time),
dds/src/rtps/behavior_types.rs (Duration), dds/src/transport/types.rs (Time) and
RtpsUdpTransportParticipantFactory::set_fragment_size.
Fixed-width integers are Int/Nat with explicit wrap (`as`) and saturation.
Import-free: linked into the `dustmodel` driver.
-/
namespace DustVerif.Time

def NS : Nat := 1000000000
def TWO32 : Nat := 4294967296
def I32MAX : Int := 2147483647
def I32MIN : Int := -2147483648

/-- `i32::saturating_*` result clamp -/
def sat32 (x : Int) : Int :=
  if x > I32MAX then I32MAX else if x < I32MIN then I32MIN else x

/-- `x as u32` for an i32/i64 value -/
def asU32 (x : Int) : Nat := (x % (TWO32 : Int)).toNat
/-- `x as i32` for a u32 value -/
def asI32 (x : Nat) : Int :=
  let y := x % TWO32
  if y < 2147483648 then (y : Int) else (y : Int) - (TWO32 : Int)

/-- time.rs:118 `fraction_to_nanosec` (identical copy rtps_messages/types.rs:184) -/
def fractionToNanosec (f : Nat) : Nat := (f * NS / TWO32) % TWO32
/-- time.rs:122 `nanosec_to_fraction` (identical copy rtps_messages/types.rs:188):
    `(nanosec as u64 * 2^32).div_ceil(10^9) as u32` -/
def nanosecToFraction (ns : Nat) : Nat := ((ns * TWO32 + (NS - 1)) / NS) % TWO32
/-- the pinned commit's version (round to nearest), kept for the counter-example theorem -/
def nanosecToFractionRounding (ns : Nat) : Nat := ((ns * TWO32 + 500000000) / NS) % TWO32

structure Dur where
  sec : Int
  ns : Nat
deriving Repr, DecidableEq

/-- `Duration::new` / `Time::new` (dds): saturating carry of whole seconds -/
def Dur.new (sec : Int) (nanosec : Nat) : Dur :=
  { sec := sat32 (sec + (nanosec / NS : Nat)), ns := nanosec % NS }

/-- seconds and nanoseconds as one number (`total_nanosec`, i64 in the code: |sec| ≤ 2^31 and nanosec < 2^32, so sums and
    differences of two totals stay below 2^63 — the model uses `Int`) -/
def totalNs (d : Dur) : Int := d.sec * (NS : Int) + (d.ns : Int)
def TOT_MIN : Int := I32MIN * (NS : Int)
def TOT_MAX : Int := I32MAX * (NS : Int) + ((NS : Int) - 1)
def clampTot (t : Int) : Int := if t < TOT_MIN then TOT_MIN else if t > TOT_MAX then TOT_MAX else t
/-- `from_total_nanosec`: clamp, then `div_euclid` / `rem_euclid` -/
def fromTotal (t : Int) : Dur :=
  let c := clampTot t
  { sec := c / (NS : Int), ns := (c % (NS : Int)).toNat }

/-- `impl Add<Duration> for Duration` and `impl Add<Duration> for Time` (with fixes/D50.patch: the total saturates as a whole) -/
def Dur.add (a b : Dur) : Dur := fromTotal (totalNs a + totalNs b)

/-- `impl Sub<Duration> for Duration` (with fixes/D50.patch) -/
def Dur.sub (a b : Dur) : Dur := fromTotal (totalNs a - totalNs b)

/-- the operators before fixes/D50.patch: seconds saturate, nanoseconds wrap (regression witness) -/
def Dur.addOld (a b : Dur) : Dur :=
  let sec := sat32 (a.sec + b.sec)
  let n := a.ns + b.ns
  let q := n / NS
  { sec := sat32 (sec + asI32 q), ns := (n - q * NS) % TWO32 }

def Dur.subOld (a b : Dur) : Dur :=
  let sec := sat32 (a.sec - b.sec)
  if a.ns < b.ns then
    { sec := sat32 (sec - 1), ns := asU32 ((NS : Int) + (a.ns : Int) - (b.ns : Int)) }
  else
    { sec := sec, ns := a.ns - b.ns }

/-- `impl Sub<Time> for Time` : both operands re-normalised through `Duration::new` -/
def timeSub (a b : Dur) : Dur := Dur.sub (Dur.new a.sec a.ns) (Dur.new b.sec b.ns)

def Dur.le (a b : Dur) : Prop := a.sec < b.sec ∨ (a.sec = b.sec ∧ a.ns ≤ b.ns)
instance (a b : Dur) : Decidable (Dur.le a b) := by unfold Dur.le; exact inferInstance

def Dur.normalized (d : Dur) : Prop := d.ns < NS
def inI32 (x : Int) : Prop := I32MIN ≤ x ∧ x ≤ I32MAX

/-- wire pair (seconds, fraction) -/
structure Wire where
  s : Int       -- i32 for behavior Duration; u32 for message Time (kept as Nat-valued Int)
  f : Nat
deriving Repr, DecidableEq

/-- `From<Duration> for behavior_types::Duration` then `From<behavior_types::Duration> for Duration` -/
def durToBeh (d : Dur) : Wire := { s := d.sec, f := nanosecToFraction d.ns }
def behToDur (w : Wire) : Dur := { sec := w.s, ns := fractionToNanosec w.f }

/-- `From<Duration> for rtps_messages::types::Time` (sec as u32) and back (seconds as i32) -/
def durToMsg (d : Dur) : Wire := { s := (asU32 d.sec : Int), f := nanosecToFraction d.ns }
def msgToDur (w : Wire) : Dur := { sec := asI32 w.s.toNat, ns := fractionToNanosec w.f }

/-- transport::types::Time::new : plain `+` (debug build panics on overflow); `none` = panic -/
def transportNew (sec : Int) (nanosec : Nat) : Option Dur :=
  let s := sec + (nanosec / NS : Nat)
  if s > I32MAX then none else some { sec := s, ns := nanosec % NS }

/-- dds Time → transport Time → message Time → transport Time → dds Time
    (source timestamp path: writer cache change → INFO_TS → reader cache change → SampleInfo) -/
def timeChain (t : Dur) : Option Dur :=
  match transportNew t.sec t.ns with
  | none => none
  | some tt =>
    let w : Wire := { s := (asU32 tt.sec : Int), f := nanosecToFraction tt.ns }
    match transportNew (asI32 w.s.toNat) (fractionToNanosec w.f) with
    | none => none
    | some t2 => some (Dur.new t2.sec t2.ns)

/-! ### set_fragment_size (udp_transport.rs:107) -/
def FRAG_LO : Nat := 8
def FRAG_HI : Nat := 65000
def FRAG_DEFAULT : Nat := 1344

/-- returns (new setting, accepted?) -/
def setFragmentSize (cur n : Nat) : Nat × Bool :=
  if FRAG_LO ≤ n ∧ n ≤ FRAG_HI then (n, true) else (cur, false)

end DustVerif.Time
