/-
Model of the matched-endpoint bookkeeping of ONE user-defined data writer (and, symmetrically, one data reader)
of dust-dds:
  dds/src/dcps/dcps_domain_participant/discovery_methods.rs
    process_discovered_readers  (:800, the match / re-announcement / incompatible branches :1046-1252)
    remove_discovered_reader    (:1313)          remove_discovered_writer (:1843)
    process_discovered_writers  (:1348, :1617-1782)
    remove_discovered_participant (:2638)
  dds/src/dcps/dcps_domain_participant/user_defined_data_writer.rs  remove_matched_subscription (:88)
  dds/src/dcps/dcps_domain_participant/user_defined_data_reader.rs  add_matched_publication (:76),
    remove_matched_publication (:96), get_subscription_matched_status (:165)
  dds/src/rtps/stateful_writer.rs add_matched_reader (:74) / delete_matched_reader (:104) / write_message (:109)
  dds/src/rtps/stateful_reader.rs add_matched_writer (:32) / delete_matched_writer (:51)
The model is the code WITH the repairs D3 (the RTPS proxy is deleted when the remote endpoint is deleted), D21 (a QoS
re-announcement of a matched endpoint is not counted as a new match), D22 (fixes/D22.patch: an endpoint that is not
compatible any more is un-matched) and D23 (fixes/D23.patch: a removed participant's endpoints are un-matched like deleted
endpoints and forgotten); the behaviour before the repairs is kept as `discoverAsIs` / `undiscoverAsIs` (before D21 / D3),
`discoverOld` (before D22) and `goneWriterOld` / `goneReaderOld` (before D23) — regression witnesses.
Import-free.
-/
namespace DustVerif.MatchSet

/-- a 16-byte endpoint handle / GUID: the participant (GUID prefix) and the entity id -/
structure Key where
  pfx : Nat
  ent : Nat
deriving DecidableEq, Repr

/-- what a remote endpoint announces (DiscoveredReaderData / DiscoveredWriterData): its key and its contents;
    `rev` stands for the whole record (`==` on the records is `==` on (key, rev)) -/
structure Ann where
  key : Key
  rev : Nat
deriving DecidableEq, Repr

/-- an RTPS reader proxy / writer proxy: the remote GUID and where its messages are sent (`loc` = the unicast locator
    taken from the announcement or from the discovered participant at the moment the proxy is created; 0 = empty list) -/
structure Proxy where
  key : Key
  loc : Nat
deriving DecidableEq, Repr

/-- Publication/SubscriptionMatchedStatus as returned by the getter -/
structure Status where
  total : Int
  dTotal : Int
  current : Int
  dCurrent : Int
deriving DecidableEq, Repr

/-- bookkeeping of one local endpoint -/
structure St where
  /-- matched_subscription_list / matched_publication_list -/
  matched : List Ann
  /-- the four counters of publication_matched_status / subscription_matched_status -/
  status : Status
  /-- the RTPS reader proxies (matched_readers) / writer proxies (matched_writers) -/
  proxies : List Proxy
  /-- incompatible_subscriptions / incompatible_writer_list -/
  incompat : List Key
deriving DecidableEq, Repr

def St.init : St :=
  { matched := []
    status := ⟨0, 0, 0, 0⟩
    proxies := []
    incompat := [] }

def keys (l : List Ann) : List Key := l.map Ann.key

def hasKey (k : Key) (a : Ann) : Bool := a.key == k
def notKey (k : Key) (a : Ann) : Bool := !(a.key == k)
def keyNe (k : Key) (x : Key) : Bool := !(x == k)
def pkeys (l : List Proxy) : List Key := l.map Proxy.key
def proxyHasKey (k : Key) (x : Proxy) : Bool := x.key == k
def proxyNotKey (k : Key) (x : Proxy) : Bool := !(x.key == k)

/-- `iter_mut().find(|x| x.key() == a.key())` … `Some(x) => *x = a` -/
def replaceAnn (a : Ann) : List Ann → List Ann
  | [] => []
  | x :: xs => if x.key == a.key then a :: xs else x :: replaceAnn a xs

/-- `position(|x| x.key() == k)` + `remove(i)` -/
def eraseKey (k : Key) : List Ann → List Ann
  | [] => []
  | x :: xs => if x.key == k then xs else x :: eraseKey k xs

def replaceProxy (p : Proxy) : List Proxy → List Proxy
  | [] => []
  | x :: xs => if x.key == p.key then p :: xs else x :: replaceProxy p xs

/-- add_matched_reader / add_matched_writer: the proxy with the same remote GUID is replaced in place (by a FRESH proxy,
    which is D43), otherwise pushed -/
def upsertProxy (p : Proxy) (l : List Proxy) : List Proxy :=
  if l.any (proxyHasKey p.key) then replaceProxy p l else l ++ [p]

def pushNew (k : Key) (l : List Key) : List Key := if l.contains k then l else l ++ [k]

/-- remove_discovered_reader / remove_discovered_writer for one local endpoint: the remote endpoint `k` was deleted
    (repaired code, fixes/D3.patch: the RTPS proxy is deleted too) -/
def undiscover (s : St) (k : Key) : St :=
  if s.matched.any (hasKey k) then
    let m := eraseKey k s.matched
    { s with matched := m
             status := { s.status with current := m.length, dCurrent := s.status.dCurrent - 1 }
             proxies := s.proxies.filter (proxyNotKey k) }
  else s

/-- one pass of process_discovered_readers / process_discovered_writers over ONE discovered remote endpoint with the
    same topic, matching partition and type: `compat` = the incompatible-policy list is empty (computed with the CURRENT
    QoS of the local endpoint). Repaired code (D21: the counters move only when the key is new; D22: the shortcut for an
    endpoint matched with identical data applies only while it is compatible, and an incompatible endpoint that is matched is
    un-matched exactly like a deleted one before the incompatibility is recorded) -/
def discover (s : St) (a : Ann) (compat : Bool) (loc : Nat) : St :=
  if s.matched.contains a && compat then s                         -- :810 `continue`
  else if compat then
    if s.matched.any (hasKey a.key) then
      let m := replaceAnn a s.matched                              -- `Some(x) => *x = …`
      { s with matched := m
               status := { s.status with current := m.length }
               proxies := upsertProxy ⟨a.key, loc⟩ s.proxies }
    else
      let m := s.matched ++ [a]                                    -- `None => push`
      { s with matched := m
               status := { total := s.status.total + 1
                           dTotal := s.status.dTotal + 1
                           current := m.length
                           dCurrent := s.status.dCurrent + 1 }
               proxies := upsertProxy ⟨a.key, loc⟩ s.proxies }
  else
    -- remove_matched_subscription + delete_matched_reader when matched, then add_incompatible_subscription
    { undiscover s a.key with incompat := pushNew a.key (undiscover s a.key).incompat }

/-- the code before fixes/D22.patch (with D21): the shortcut ignores compatibility and the incompatible branch leaves the
    matched list alone. One pass of process_discovered_readers / process_discovered_writers over ONE discovered remote endpoint with the
    same topic, matching partition and type: `compat` = the incompatible-policy list is empty.
    (repaired code, fixes/D21.patch: the counters move only when the key is new) -/
def discoverOld (s : St) (a : Ann) (compat : Bool) (loc : Nat) : St :=
  if s.matched.contains a then s                                   -- :810 `continue`
  else if compat then
    if s.matched.any (hasKey a.key) then
      let m := replaceAnn a s.matched                              -- :1061 `Some(x) => *x = …`
      { s with matched := m
               status := { s.status with current := m.length }
               proxies := upsertProxy ⟨a.key, loc⟩ s.proxies }
    else
      let m := s.matched ++ [a]                                    -- :1065 `None => push`
      { s with matched := m
               status := { total := s.status.total + 1
                           dTotal := s.status.dTotal + 1
                           current := m.length
                           dCurrent := s.status.dCurrent + 1 }
               proxies := upsertProxy ⟨a.key, loc⟩ s.proxies }
  else
    -- :1190 add_incompatible_subscription / add_requested_incompatible_qos; the matched list is NOT touched (D22)
    { s with incompat := pushNew a.key s.incompat }

/-- the code before fixes/D21.patch: all four counter updates sit after the `match` (:1069-1074) -/
def discoverAsIs (s : St) (a : Ann) (compat : Bool) (loc : Nat) : St :=
  if s.matched.contains a then s
  else if compat then
    let m := if s.matched.any (hasKey a.key) then replaceAnn a s.matched else s.matched ++ [a]
    { s with matched := m
             status := { total := s.status.total + 1
                         dTotal := s.status.dTotal + 1
                         current := m.length
                         dCurrent := s.status.dCurrent + 1 }
             proxies := upsertProxy ⟨a.key, loc⟩ s.proxies }
  else { s with incompat := pushNew a.key s.incompat }

/-- the code before fixes/D3.patch: the proxy list is not touched -/
def undiscoverAsIs (s : St) (k : Key) : St :=
  if s.matched.any (hasKey k) then
    let m := eraseKey k s.matched
    { s with matched := m
             status := { s.status with current := m.length, dCurrent := s.status.dCurrent - 1 } }
  else s

def annOfPfx (p : Nat) (a : Ann) : Bool := a.key.pfx == p
def annNotPfx (p : Nat) (a : Ann) : Bool := !(a.key.pfx == p)
/-- the proxies deleted by remove_discovered_participant: those of MATCHED endpoints with the prefix -/
def proxyKept (m : List Ann) (p : Nat) (x : Proxy) : Bool := !(x.key.pfx == p && (keys m).contains x.key)

/-- remove_discovered_participant (repaired, fixes/D23.patch): every endpoint the removed participant announced is taken out
    of the discovered lists and remove_discovered_reader / _writer runs for it on every local endpoint — a no-op for the
    ones that are not matched, so what matters are the matched endpoints of that participant, in list order -/
def goneKeys (s : St) (p : Nat) : List Key := (keys s.matched).filter (fun k => k.pfx == p)
def gone (s : St) (p : Nat) : St := (goneKeys s p).foldl undiscover s

/-- before fixes/D23.patch — remove_discovered_participant, the loop over the data writers: proxies of matched readers with the
    prefix are deleted, the matched list is purged, the COUNTERS ARE NOT TOUCHED (D23) -/
def goneWriterOld (s : St) (p : Nat) : St :=
  { s with proxies := s.proxies.filter (proxyKept s.matched p)
           matched := s.matched.filter (annNotPfx p) }

/-- before fixes/D23.patch — remove_discovered_participant, the loop over the data readers: proxies of matched writers with the
    prefix are deleted; the matched list and the counters are NOT touched (D23) -/
def goneReaderOld (s : St) (p : Nat) : St :=
  { s with proxies := s.proxies.filter (proxyKept s.matched p) }

/-- get_publication_matched_status / get_subscription_matched_status (also run for every listener call):
    returns the status and zeroes the two change fields -/
def readStatus (s : St) : St × Status :=
  ({ s with status := { s.status with dTotal := 0, dCurrent := 0 } }, s.status)

/-- RtpsStatefulWriter::write_message: one message stream per reader proxy; these are the endpoints DATA, HEARTBEAT
    and GAP submessages are addressed to -/
def addressees (s : St) : List Key := pkeys s.proxies

/-- the listener mail (and, for it, a status read) is sent in the branch that adds or replaces the matched entry
    (:1148 / :1689): also for a mere re-announcement, never for a removal -/
def discoverNotifies (s : St) (a : Ann) (compat : Bool) : Bool := !s.matched.contains a && compat

inductive Side | writer | reader
deriving DecidableEq, Repr

/-- the steps of the bookkeeping automaton -/
inductive Step
  | discover (a : Ann) (compat : Bool) (loc : Nat)
  | undiscover (k : Key)
  | gone (p : Nat)
  | read
deriving DecidableEq, Repr

def step (side : Side) (s : St) : Step → St
  | .discover a c l => discover s a c l
  | .undiscover k => undiscover s k
  | .gone p => gone s p
  | .read => (readStatus s).1

def run (side : Side) (s : St) : List Step → St
  | [] => s
  | x :: xs => run side (step side s x) xs

end DustVerif.MatchSet
