import DustVerif.Model.Timer
import DustVerif.Driver.Util
/-! Line-protocol driver of the `timer` engine (C42). Virtual time starts at 1000 units.

    push id d | remove id          direct `TimerHeap::push` / `remove`                 -> ok len=<entries>
    advance k                      time passes                                          -> ok now=<t>
    service                        the thread's wake loop                               -> woke=<ids sorted> ord=<pops in deadline order> len=
    next                           `duration_until_next_timer` in whole units           -> none | <d>
    sleep sid dur | poll sid | drop sid     `Sleep` created / polled / dropped          -> ok | ready | pending | gone
    recv                           the thread receives one queued `TimerMessage`        -> wake id len= | cancel id len= | empty
    smoke.* …                      real-time smoke tests of the public API (the model answers `ok`);
                                   smoke.chain k ms d / smoke.yields k d: block_timeout(d x 10 ms) around a future that needs k wake-ups -/
namespace DustVerif.Driver.TimerEngine
open DustVerif.Timer DustVerif.Driver

def init : Sys := { Sys.init with now := 1000 }

def insertNat (x : Nat) : List Nat → List Nat
  | [] => [x]
  | y :: ys => if x ≤ y then x :: y :: ys else y :: insertNat x ys

def sortNat (l : List Nat) : List Nat := l.foldr insertNat []

def listS (l : List Nat) : String :=
  if l.isEmpty then "-" else String.intercalate "," (l.map toString)

def sortedB : List Entry → Bool
  | [] => true
  | [_] => true
  | a :: b :: t => decide (a.deadline ≤ b.deadline) && sortedB (b :: t)

def smokeOk (args : List String) (k : Nat) : String :=
  match nats? args with
  | some l => if l.length == k && l.all (fun x => x ≤ 1000) then "ok" else "bad-op"
  | none => "bad-op"

def step (s : Sys) (line : String) : Sys × String :=
  match toks line with
  | ["reset"] => (init, "ok")
  | ["push", id, d] => match id.toNat?, d.toNat? with
    | some id, some d =>
      if d > 100000 then (s, "bad-op") else
      let h := insertSorted { id := id, deadline := d } s.heap
      ({ s with heap := h }, s!"ok len={h.length}")
    | _, _ => (s, "bad-op")
  | ["remove", id] => match id.toNat? with
    | some id =>
      let h := removeId id s.heap
      ({ s with heap := h }, s!"ok len={h.length}")
    | none => (s, "bad-op")
  | ["advance", k] => match k.toNat? with
    | some k => if k > 10000 then (s, "bad-op") else let (s', _) := s.step (.advance k); (s', s!"ok now={s'.now}")
    | none => (s, "bad-op")
  | ["service"] =>
    match s.step .service with
    | (s', .woke l) => (s', s!"woke={listS (sortNat (l.map (·.id)))} ord={if sortedB l then 1 else 0} len={s'.heap.length}")
    | (s', _) => (s', "bad-op")
  | ["next"] => (s, match nextDelay s.heap s.now with
    | none => "none"
    | some d => toString d)
  | ["sleep", sid, dur] => match sid.toNat?, dur.toNat? with
    | some sid, some dur => if dur > 10000 then (s, "bad-op") else match s.step (.sleep sid dur) with
      | (s', .ok) => (s', "ok")
      | (s', _) => (s', "gone")
    | _, _ => (s, "bad-op")
  | ["poll", sid] => match sid.toNat? with
    | some sid => match s.step (.poll sid) with
      | (s', .polled .ready) => (s', "ready")
      | (s', .polled .pending) => (s', "pending")
      | (s', _) => (s', "gone")
    | none => (s, "bad-op")
  | ["drop", sid] => match sid.toNat? with
    | some sid => match s.step (.drop sid) with
      | (s', .ok) => (s', "ok")
      | (s', _) => (s', "gone")
    | none => (s, "bad-op")
  | ["recv"] => match s.step .recv with
    | (s', .received (some (.wake e))) => (s', s!"wake {e.id} len={s'.heap.length}")
    | (s', .received (some (.cancel i))) => (s', s!"cancel {i} len={s'.heap.length}")
    | (s', _) => (s', "empty")
  | "smoke.sleep" :: args => (s, smokeOk args 1)
  | "smoke.sleeps" :: args => (s, smokeOk args 2)
  | "smoke.drop" :: args => (s, smokeOk args 1)
  | "smoke.block_on" :: args => (s, smokeOk args 1)
  | "smoke.timeout" :: args => (s, smokeOk args 2)
  -- a future that completes after k wake-ups far inside the timeout must get `Ok` (C42_block_timeout_no_early_timeout /
  -- C42_block_timeout_ok_iff: the deadline is fixed at the start, the number of wake-ups before it does not matter)
  | "smoke.chain" :: args => (s, smokeOk args 3)
  | "smoke.yields" :: args => (s, smokeOk args 2)
  | _ => (s, "bad-op")

end DustVerif.Driver.TimerEngine
