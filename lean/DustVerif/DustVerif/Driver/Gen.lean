import DustVerif.Model.Derive
import DustVerif.Driver.Util
/-! Line-protocol driver of engine `gen` (C40: derive macro; C41: IDL compiler, see `Driver/GenIdl.lean`).
    Op lines carry s-expressions (format: notes/gen.md, vlib/gen_common.py):
      decl <i> TYPE                 -> `T <description>`
      val  <i> <k> TYPE VALUE       -> `eq=<0|1> dyn=<dynamic data> rt=<Some(debug)|None|PANIC>` -/
namespace DustVerif.Driver.GenEngine
open DustVerif.Derive DustVerif.Driver

/-! ### s-expressions -/

inductive Sexp
  | atom (s : String)
  | list (xs : List Sexp)
  deriving Inhabited

def isDelim (c : Char) : Bool := c == ' ' || c == '(' || c == ')' || c == '\t' || c == '\n' || c == '\r'

partial def takeAtom : List Char → List Char → List Char × List Char
  | acc, [] => (acc.reverse, [])
  | acc, c :: r => if isDelim c then (acc.reverse, c :: r) else takeAtom (c :: acc) r

mutual
partial def parseOne : List Char → Option (Sexp × List Char)
  | [] => none
  | c :: r =>
    if c == ' ' || c == '\t' || c == '\n' || c == '\r' then parseOne r
    else if c == '(' then parseList [] r
    else if c == ')' then none
    else
      let (a, rest) := takeAtom [] (c :: r)
      some (.atom (String.ofList a), rest)
partial def parseList : List Sexp → List Char → Option (Sexp × List Char)
  | _, [] => none
  | acc, c :: r =>
    if c == ' ' || c == '\t' || c == '\n' || c == '\r' then parseList acc r
    else if c == ')' then some (.list acc.reverse, r)
    else match parseOne (c :: r) with
      | some (x, rest) => parseList (x :: acc) rest
      | none => none
end

partial def parseAll (cs : List Char) : Option (List Sexp) :=
  match parseOne cs with
  | none => if cs.all (fun c => c == ' ' || c == '\n' || c == '\r' || c == '\t') then some [] else none
  | some (x, rest) => (parseAll rest).map (x :: ·)

/-! ### s-expression → declaration / value -/

def prim? : String → Option Prim
  | "u8" => some .u8 | "i8" => some .i8 | "u16" => some .u16 | "i16" => some .i16 | "u32" => some .u32
  | "i32" => some .i32 | "u64" => some .u64 | "i64" => some .i64 | "f32" => some .f32 | "f64" => some .f64
  | "bool" => some .bool | "char" => some .char | "string" => some .string | _ => none

def ext? : String → Option Ext
  | "final" => some .final | "appendable" => some .appendable | "mutable" => some .mutable | _ => none

def b? : String → Option Bool
  | "0" => some false | "1" => some true | _ => none

def optStr (s : String) : Option String := if s == "-" then none else some s

def optNat? (s : String) : Option (Option Nat) := if s == "-" then some none else s.toNat?.map some

def enumVariants? : List Sexp → Option (List (String × Option Nat))
  | [] => some []
  | .list [.atom n, .atom d] :: r => do
    let d ← optNat? d
    let rest ← enumVariants? r
    pure ((n, d) :: rest)
  | _ => none

def intAtoms? : List Sexp → Option (List Int)
  | [] => some []
  | .atom a :: r => do
    let x ← a.toInt?
    let rest ← intAtoms? r
    pure (x :: rest)
  | _ => none

mutual
partial def ty? : Sexp → Option Ty
  | .atom a => (prim? a).map Ty.prim
  | .list [.atom "vec", t] => (ty? t).map Ty.vec
  | .list [.atom "arr", .atom n, t] => do
    let n ← n.toNat?
    let t ← ty? t
    pure (.arr t n)
  | .list [.atom "opt", t] => (ty? t).map Ty.opt
  | .list [.atom "struct", .atom ident, .atom rename, .atom ext, .atom nested, .atom tuple, .list fs] => do
    let ext ← ext? ext
    let nested ← b? nested
    let tuple ← b? tuple
    let fs ← fields? fs
    pure (.struct { ident := ident, rename := optStr rename, ext := ext, nested := nested, tuple := tuple } fs)
  | .list [.atom "enum", .atom ident, .atom rename, .atom nested, .atom bits, .atom dflt, .list vs] => do
    let nested ← b? nested
    let bits ← bits.toNat?
    let dflt ← dflt.toNat?
    let vs ← enumVariants? vs
    pure (.enum { ident := ident, rename := optStr rename, nested := nested, bits := bits, variants := vs, dflt := dflt })
  | .list [.atom "union", .atom ident, .atom rename, .atom ext, .atom nested, .atom disc, .atom dkey, .list vs] => do
    let ext ← ext? ext
    let nested ← b? nested
    let disc ← prim? disc
    let dkey ← b? dkey
    let vs ← variants? vs
    pure (.union { ident := ident, rename := optStr rename, ext := ext, nested := nested, disc := disc, discKey := dkey } vs)
  | _ => none
partial def fields? : List Sexp → Option Fields
  | [] => some .nil
  | .list [.atom "f", .atom name, .atom key, .atom id, .atom optional, .atom nonser, .atom hashid, t] :: r => do
    let key ← b? key
    let id ← optNat? id
    let optional ← b? optional
    let nonser ← b? nonser
    let hashid ← b? hashid
    let t ← ty? t
    let rest ← fields? r
    pure (.cons { name := name, key := key, id := id, optional := optional, nonSerialized := nonser, hashid := hashid } t rest)
  | _ => none
partial def variants? : List Sexp → Option Variants
  | [] => some .nil
  | .list [.atom "v", .atom name, .list cases, .atom dflt, .atom fld] :: r => do
    let cases ← intAtoms? cases
    let dflt ← b? dflt
    let rest ← variants? r
    pure (.unit { name := name, cases := cases, isDefault := dflt, field := optStr fld } rest)
  | .list [.atom "v", .atom name, .list cases, .atom dflt, .atom fld, t] :: r => do
    let cases ← intAtoms? cases
    let dflt ← b? dflt
    let t ← ty? t
    let rest ← variants? r
    pure (.data { name := name, cases := cases, isDefault := dflt, field := optStr fld } t rest)
  | _ => none
end

mutual
partial def val? : Sexp → Option Val
  | .atom a =>
    if a == "N" then some .none
    else match a.toList with
      | 'I' :: r => (String.ofList r).toInt?.map Val.i
      | 'F' :: r => (String.ofList r).toInt?.map Val.f
      | 'S' :: r => some (.s (String.ofList r))
      | _ => none
  | .list [.atom "some", v] => (val? v).map Val.some
  | .list (.atom "l" :: vs) => (vals? vs).map Val.list
  | .list (.atom "st" :: vs) => (vals? vs).map Val.struct
  | .list [.atom "e", .atom k] => k.toNat?.map Val.enumv
  | .list [.atom "u", .atom k] => k.toNat?.map (fun k => Val.unionv k none)
  | .list [.atom "u", .atom k, v] => do
    let k ← k.toNat?
    let v ← val? v
    pure (.unionv k (some v))
  | _ => none
partial def vals? : List Sexp → Option (List Val)
  | [] => some []
  | v :: r => do
    let v ← val? v
    let rest ← vals? r
    pure (v :: rest)
end

/-! ### canonical printing (same shapes as the prelude of the generated crate prints) -/

def kindStr : Kind → String
  | .none => "NONE" | .boolean => "BOOLEAN" | .int8 => "INT8" | .uint8 => "UINT8" | .int16 => "INT16"
  | .uint16 => "UINT16" | .int32 => "INT32" | .uint32 => "UINT32" | .int64 => "INT64" | .uint64 => "UINT64"
  | .float32 => "FLOAT32" | .float64 => "FLOAT64" | .char8 => "CHAR8" | .string8 => "STRING8" | .enum => "ENUM"
  | .structure => "STRUCTURE" | .union => "UNION" | .sequence => "SEQUENCE" | .array => "ARRAY"

def extStr : Ext → String
  | .final => "F" | .appendable => "A" | .mutable => "M"

def b01 (b : Bool) : String := if b then "1" else "0"
def q (s : String) : String := "\"" ++ s ++ "\""

mutual
partial def descStr : TypeDesc → String
  | .mk k name ext nested bound elem disc ms =>
    "(" ++ kindStr k ++ " " ++ q name ++ " " ++ extStr ext ++ " " ++ b01 nested ++ " (" ++
      joinSp (bound.map toString) ++ ") " ++ optDescStr elem ++ " " ++ optDescStr disc ++ " (" ++
      joinSp (membersStr ms) ++ "))"
partial def optDescStr : OptDesc → String
  | .none => "-"
  | .some d => descStr d
partial def membersStr : MemberDescs → List String
  | .nil => []
  | .cons m t r =>
    ("(m " ++ q m.name ++ " " ++ toString m.id ++ " " ++ toString m.index ++ " " ++ b01 m.key ++ " " ++ b01 m.optional ++ " " ++
      b01 m.mustUnderstand ++ " (" ++ joinSp (m.labels.map toString) ++ ") " ++ b01 m.isDefault ++ " " ++ descStr t ++ ")")
      :: membersStr r
end

/-- Rust `{:?}` of the float q/4 -/
def floatStr (qv : Int) : String :=
  let a := qv.natAbs
  (if qv < 0 then "-" else "") ++ toString (a / 4) ++ "." ++ (["0", "25", "5", "75"].getD (a % 4) "0")

def charStr (c : Int) : String :=
  if c == 0 then "'\\0'" else "'" ++ String.singleton (Char.ofNat c.toNat) ++ "'"

def primName : Prim → String
  | .u8 => "u8" | .i8 => "i8" | .u16 => "u16" | .i16 => "i16" | .u32 => "u32" | .i32 => "i32" | .u64 => "u64"
  | .i64 => "i64" | .f32 => "f32" | .f64 => "f64" | .bool => "bool" | .char => "char" | .string => "string"

/-- Rust `{:?}` of a primitive value -/
def primValStr : Prim → Val → String
  | .f32, .f x => floatStr x
  | .f64, .f x => floatStr x
  | .string, .s x => q x
  | .bool, .i x => if x == 0 then "false" else "true"
  | .char, .i x => charStr x
  | _, .i x => toString x
  | _, _ => "?"

/-- `{}` for integers and bool, `{:?}` otherwise — as `st` of the generated prelude prints scalars -/
def insertSorted (e : Nat × String) : List (Nat × String) → List (Nat × String)
  | [] => [e]
  | x :: r => if e.1 ≤ x.1 then e :: x :: r else x :: insertSorted e r

mutual
partial def storageStr : Storage → String
  | .prim p v => "(" ++ primName p ++ " " ++ primValStr p v ++ ")"
  | .seqPrim p vs => "(" ++ primName p ++ "s " ++ joinSp (vs.map (primValStr p)) ++ ")"
  | .complex d => "(c " ++ dynStr d ++ ")"
  | .seqComplex ds => "(cs " ++ joinSp (ds.map dynStr) ++ ")"
partial def dynStr (d : DynData) : String :=
  let es := d.foldl (fun acc e => insertSorted (e.1, "(" ++ toString e.1 ++ " " ++ storageStr e.2 ++ ")") acc) []
  "(d " ++ joinSp (es.map (·.2)) ++ ")"
end

def commaSp (xs : List String) : String := String.intercalate ", " xs

mutual
/-- Rust derived `Debug` -/
partial def dbg : Ty → Val → String
  | .prim p, v => primValStr p v
  | .vec t, .list vs => "[" ++ commaSp (vs.map (dbg t)) ++ "]"
  | .arr t _, .list vs => "[" ++ commaSp (vs.map (dbg t)) ++ "]"
  | .opt _, .none => "None"
  | .opt t, .some v => "Some(" ++ dbg t v ++ ")"
  | .struct h fs, .struct vs =>
    if vs.isEmpty then h.ident
    else if h.tuple then h.ident ++ "(" ++ commaSp (dbgFields true fs vs) ++ ")"
    else h.ident ++ " { " ++ commaSp (dbgFields false fs vs) ++ " }"
  | .enum h, .enumv k => (h.variants.getD k ("?", none)).1
  | .union _ us, .unionv k p => dbgVariant us k p
  | _, _ => "?"
partial def dbgFields (tuple : Bool) : Fields → List Val → List String
  | .cons a t r, v :: vs => ((if tuple then "" else a.name ++ ": ") ++ dbg t v) :: dbgFields tuple r vs
  | _, _ => []
partial def dbgVariant : Variants → Nat → Option Val → String
  | .unit a _, 0, _ => a.name
  | .data a t _, 0, some v =>
    match a.field with
    | some f => a.name ++ " { " ++ f ++ ": " ++ dbg t v ++ " }"
    | none => a.name ++ "(" ++ dbg t v ++ ")"
  | .unit _ r, k + 1, p => dbgVariant r k p
  | .data _ _ r, k + 1, p => dbgVariant r k p
  | _, _, _ => "?"
end

def answerDecl (t : Ty) : String :=
  if t.isDecl && supported t then "T " ++ descStr (describe t) else "bad-op"

def answerVal (t : Ty) (v : Val) : String :=
  if !(t.isDecl && supported t && hasType t v) then "bad-op"
  else match createDynamic t v with
    | .panic => "eq=0 dyn=PANIC rt=-"
    | .ok d =>
      let ds := dynStr d
      match createSample t d with
      | .ok w => "eq=" ++ b01 (dbg t w == dbg t v) ++ " dyn=" ++ ds ++ " rt=Some(" ++ dbg t w ++ ")"
      | .none => "eq=0 dyn=" ++ ds ++ " rt=None"
      | .panic => "eq=0 dyn=" ++ ds ++ " rt=PANIC"
      | .bad => "bad-op"
    | _ => "bad-op"

/-- drop the first `n` whitespace-separated tokens of a line -/
partial def dropToks : Nat → List Char → List Char
  | 0, cs => cs
  | n + 1, cs =>
    let cs := cs.dropWhile (· == ' ')
    dropToks n (cs.dropWhile (· != ' '))

def stepDerive (line : String) : String :=
  match toks line with
  | "decl" :: _ :: _ =>
    match parseAll (dropToks 2 line.toList) with
    | some [t] => match ty? t with
      | some t => answerDecl t
      | none => "bad-op"
    | _ => "bad-op"
  | "val" :: _ :: _ :: _ =>
    match parseAll (dropToks 3 line.toList) with
    | some [t, v] => match ty? t, val? v with
      | some t, some v => answerVal t v
      | _, _ => "bad-op"
    | _ => "bad-op"
  | _ => "bad-op"

end DustVerif.Driver.GenEngine
