import DustVerif.Model.Rtps
import DustVerif.Model.AckWait
import DustVerif.Driver.Util
/-! Line-protocol driver of the `rtps` engine (see harness/src/bin/rtps.rs for the op list). -/
namespace DustVerif.Driver.RtpsEngine
open DustVerif.Rtps DustVerif.Driver

structure St where
  cfg : Cfg
  sys : Option Sys
  poisoned : Bool

def defaultSt : St := { cfg := Cfg.asIs, sys := none, poisoned := false }

def hexDigit (n : Nat) : Char := if n < 10 then Char.ofNat (48 + n) else Char.ofNat (87 + n)
def hexByte (b : Nat) : List Char := [hexDigit (b / 16 % 16), hexDigit (b % 16)]
def hexOf (bs : List Nat) : String := if bs.isEmpty then "-" else String.ofList (bs.flatMap hexByte)
def hexVal (c : Char) : Option Nat :=
  if '0' ≤ c ∧ c ≤ '9' then some (c.toNat - 48)
  else if 'a' ≤ c ∧ c ≤ 'f' then some (c.toNat - 87)
  else if 'A' ≤ c ∧ c ≤ 'F' then some (c.toNat - 55)
  else none
def unhex : List Char → Option (List Nat)
  | [] => some []
  | [_] => none
  | a :: b :: rest => match hexVal a, hexVal b, unhex rest with
    | some x, some y, some r => some ((x * 16 + y) :: r)
    | _, _, _ => none

def pattern (len seed : Nat) : List Nat :=
  (List.range len).map (fun i => (seed + i * 7 + (i / 256) * 11 + (i / 65536) * 13) % 256)

def pspec (s : String) : Option (List Nat) :=
  match s.toList with
  | 'x' :: rest => if rest == ['-'] then some [] else unhex rest
  | 'p' :: rest => match (String.ofList rest).splitOn "." with
    | [a, b] => match a.toNat?, b.toNat? with
      | some a, some b => some (pattern a b)
      | _, _ => none
    | _ => none
  | _ => none

def fnv (bs : List Nat) : Nat := bs.foldl (fun h b => ((h ^^^ b) * 16777619) % 4294967296) 2166136261
def hex8 (n : Nat) : String :=
  String.ofList ((List.range 8).map (fun i => hexDigit (n / 16 ^ (7 - i) % 16)))
def showPayload (bs : List Nat) : String :=
  if bs.length ≤ 32 then hexOf bs else s!"L{bs.length}.{hex8 (fnv bs)}"

def csv (xs : List Nat) : String := if xs.isEmpty then "-" else String.intercalate "," (xs.map toString)
def showFrag (fr : Frag) : String :=
  s!"{fr.startNum}:{fr.inSub}:{fr.fragSize}:{fr.dataSize}:{showPayload fr.bytes}"
def fl (b : Bool) (t f : String) : String := if b then t else f
def showSub : Sub → String
  | .dst => "dst"
  | .ts => "ts-"
  | .data sn p => s!"data:{sn}:{showPayload p}"
  | .frag fr => s!"frag:{fr.sn}:{showFrag fr}"
  | .gap s b set => s!"gap:{s}:{b}:{csv set}"
  | .hb f l c fin lv => s!"hb:{f}:{l}:{c}:{fl fin "F" "f"}:{fl lv "L" "l"}"
  | .acknack b set c fin => s!"an:{b}:{csv set}:{c}:{fl fin "F" "f"}"
  | .nackfrag sn b set c => s!"nf:{sn}:{b}:{csv set}:{c}"
def showDgram (d : Dgram) : String :=
  s!"{fl d.toReader "W" "R"}[{String.intercalate "+" (d.subs.map showSub)}]"
def showDgrams (ds : List Dgram) : String := if ds.isEmpty then "-" else joinSp (ds.map showDgram)
def showCache (s : Sys) : String :=
  if s.r.cache.isEmpty then "-" else joinSp (s.r.cache.map (fun c => s!"{c.sn}={showPayload c.payload}"))

def finish (st : St) (r : Out (Sys × List Dgram)) : St × String :=
  match r with
  | .panic => ({ st with poisoned := true }, "PANIC")
  | .ok (s', out) => ({ st with sys := some s' }, s!"{showDgrams out} | {showCache s'}")

def flushLoop (cfg : Cfg) : Nat → Sys → List Dgram → Out (Sys × List Dgram)
  | 0, s, acc => .ok (s, acc)
  | fuel + 1, s, acc =>
    if s.net.isEmpty then .ok (s, acc)
    else match s.deliverAt cfg 0 with
      | .panic => .panic
      | .ok (s', out) => flushLoop cfg fuel s' (acc ++ out)

def kvBool (ts : List String) (k : String) : Option Bool :=
  ts.findSome? (fun t => match t.splitOn "=" with
    | [a, b] => if a == k then (if b == "1" then some true else if b == "0" then some false else none) else none
    | _ => none)

def reasmPush (ca cb : Change) (f : Nat) : List String → List Frag → Option (List Frag)
  | [], buf => some buf
  | t :: rest, buf =>
    match t.toList with
    | c :: ks =>
      match (String.ofList ks).toNat? with
      | some k =>
        let ch? := if c == 'a' then some ca else if c == 'b' then some cb else none
        match ch? with
        | some ch => if k < fragCount ch f then reasmPush ca cb f rest (pushFrag buf (asDataFrag ch f k)) else none
        | none => none
      | none => none
    | [] => none

def showOpt : Option Payload → String
  | none => "none"
  | some p => showPayload p

def step (st : St) (line : String) : St × String :=
  match toks line with
  | ["reset"] => (defaultSt, "ok")
  | ts =>
    if st.poisoned then (st, "POISONED") else
    match ts with
    | "cfg" :: rest =>
      match kvBool rest "d1", kvBool rest "d2", kvBool rest "d43", kvBool rest "d4", kvBool rest "r1" with
      | some d1, some d2, some d43, some d4, some r1 =>
        ({ st with cfg := { fixD1 := d1, fixD2 := d2, fixD43 := d43, fixD4 := d4, fixR1 := r1 } }, s!"ok d2={fl d2 "1" "0"}")
      | _, _, _, _, _ => (st, "bad-op")
    | ["init", rel, dur, f] =>
      match f.toNat? with
      | some f =>
        if f == 0 then (st, "bad-op") else
        let rel? := if rel == "rel" then some true else if rel == "be" then some false else none
        let tl? := if dur == "tl" then some true else if dur == "vol" then some false else none
        match rel?, tl? with
        | some r, some t => ({ st with sys := some (Sys.init r t f) }, "ok")
        | _, _ => (st, "bad-op")
      | none => (st, "bad-op")
    | ["match"] => match st.sys with
      | some s => finish st (s.step st.cfg .doMatch)
      | none => (st, "bad-op")
    | ["write", p] => match st.sys, pspec p with
      | some s, some d => finish st (s.step st.cfg (.write d))
      | _, _ => (st, "bad-op")
    | ["remove", sn] => match st.sys, sn.toNat? with
      | some s, some sn => finish st (s.step st.cfg (.remove sn))
      | _, _ => (st, "bad-op")
    | ["tick", ms] => match st.sys, ms.toNat? with
      | some s, some ms => finish st (s.step st.cfg (.tick ms))
      | _, _ => (st, "bad-op")
    | ["acked", sn] => match st.sys, sn.toNat? with
      | some s, some sn => (st, toString (s.w.isChangeAcknowledged sn))
      | _, _ => (st, "bad-op")
    | [op, i] =>
      if op == "deliver" || op == "drop" || op == "dup" then
        match st.sys, i.toNat? with
        | some s, some i =>
          if s.net.isEmpty then (st, s!"empty | {showCache s}")
          else finish st (s.step st.cfg (if op == "deliver" then .deliver i else if op == "drop" then .drop i else .dup i))
        | _, _ => (st, "bad-op")
      else (st, "bad-op")
    | ["forgegap", start, base, offs] =>
      let offs? : Option (List Nat) :=
        if offs == "-" then some [] else
        (offs.splitOn ",").foldr (fun x acc => match x.toNat?, acc with
          | some o, some l => if o ≤ 255 then some (o :: l) else none
          | _, _ => none) (some [])
      match st.sys, start.toNat?, base.toNat?, offs? with
      | some s, some start, some base, some offs =>
        finish st (.ok ({ s with r := s.r.onGap st.cfg start base (offs.map (base + ·)) }, []))
      | _, _, _, _ => (st, "bad-op")
    | ["forgehb", f, l, c, fin, lv] =>
      let fin? := if fin == "F" then some true else if fin == "f" then some false else none
      let lv? := if lv == "L" then some true else if lv == "l" then some false else none
      match st.sys, f.toNat?, l.toNat?, c.toNat?, fin?, lv? with
      | some s, some f, some l, some c, some fin, some lv =>
        (match s.r.onHb st.cfg f l c fin lv with
         | .panic => finish st .panic
         | .ok (r', out) => finish st (.ok ({ s with r := r', net := s.net ++ out }, out)))
      | _, _, _, _, _, _ => (st, "bad-op")
    | ["flush"] => match st.sys with
      | some s =>
        match flushLoop st.cfg 4096 s [] with
        | .panic => ({ st with poisoned := true }, "PANIC")
        | .ok (s', out) =>
          ({ st with sys := some s' }, s!"{showDgrams out}{if s'.net.isEmpty then "" else " flush-limit"} | {showCache s'}")
      | none => (st, "bad-op")
    | ["histrecv"] => match st.sys with
      | some s => (st, toString (DustVerif.AckWait.histReceived s.r))
      | none => (st, "bad-op")
    | ["net"] => match st.sys with
      | some s => (st, showDgrams s.net)
      | none => (st, "-")
    | ["frags", p, f] => match pspec p, f.toNat? with
      | some d, some f =>
        if f == 0 then (st, "bad-op") else
        let c : Change := ⟨1, d⟩
        (st, joinSp (toString (fragCount c f) :: (fragments c f).map showFrag))
      | _, _ => (st, "bad-op")
    | "reasm" :: f :: pa :: pb :: rest => match f.toNat?, pspec pa, pspec pb with
      | some f, some a, some b =>
        if f == 0 then (st, "bad-op") else
        match reasmPush ⟨1, a⟩ ⟨2, b⟩ f rest [] with
        | none => (st, "bad-op")
        | some buf =>
          let (r1, buf1) := reconstruct buf 1
          let (r2, buf2) := reconstruct buf1 2
          let (r1b, _) := reconstruct buf2 1
          (st, s!"r1={showOpt r1} r2={showOpt r2} again={showOpt r1b}")
      | _, _, _ => (st, "bad-op")
    | _ => (st, "bad-op")

end DustVerif.Driver.RtpsEngine
