import DustVerif.Model.Tree
import DustVerif.Model.TreeOld
import DustVerif.Driver.Util
/-! Line-protocol driver of the `tree` engine: the subset of the dsim scenario language (notes/dsim.md) whose
    return codes and handles the model `Model/Tree.lean` predicts. Anything else answers `bad-op`. -/
namespace DustVerif.Driver.TreeEngine
open DustVerif.Tree DustVerif.Driver

/-- what a name of the scenario is bound to = what the corresponding `…Async` object holds -/
inductive Obj where
  | part (ph : Nat)
  | pub (r : GroupRef)
  | sub (r : GroupRef)
  | topic (r : TopicRef) (h : Handle)
  | cft (name : String) (related : TopicRef)
  | writer (w : EndRef)
  | reader (w : EndRef)

/-- name table: hash buckets (the counter loops of C35 bind tens of thousands of names) -/
abbrev Names := Array (List (String × Obj))
def NBUCKETS : Nat := 4096

structure DSt where
  m : St
  names : Names
  /-- run the code as it was BEFORE fixes/D40, D-tree-1, D-tree-2 (`Model/TreeOld.lean`); switched by `#model old` -/
  old : Bool
  /-- run the writer instance calls as they were BEFORE fixes/D33, D33b (`wopOld`); switched by `#inst old` -/
  oldInst : Bool
  /-- type token (`ki|kb|ni|nb`) of every topic name of the scenario (needed to validate filter expressions) -/
  ttypes : List (String × String)
  /-- discovery, tracked outside the model (its result is the `discovered` argument of `Op.findTopic`):
      `announced` = (announcing participant, topic name) for every topic a LIVE participant created enabled (the entries of
      its built-in DCPSTopic writer, which new participants still receive); `known` = (participant, topic name) pairs in a
      participant's `discovered_topic_list` (never shrinks). Assumes one domain and default-enabled participants. -/
  announced : List (Nat × String)
  known : List (Nat × String)

def defaultSt : DSt := { m := St.init .debug, names := Array.replicate NBUCKETS [], old := false, oldInst := false, ttypes := [], announced := [], known := [] }

def mstep (d : DSt) (op : Op) : St × Res :=
  if d.old then stepOld d.m op
  else if d.oldInst then stepInstOld d.m op
  else DustVerif.Tree.step d.m op

def bucketOf (n : String) : Nat := n.hash.toNat % NBUCKETS

def lookupName (d : DSt) (n : String) : Option Obj :=
  ((d.names.getD (bucketOf n) []).find? (fun p => p.1 == n)).map (·.2)
def bind (d : DSt) (n : String) (o : Obj) : Names :=
  d.names.modify (bucketOf n) (fun l => (n, o) :: l.filter (fun p => p.1 != n))

def hexDigit (n : Nat) : Char := "0123456789abcdef".toList.getD n '0'
def hex2 (n : Nat) : String := String.ofList [hexDigit ((n / 16) % 16), hexDigit (n % 16)]
/-- host id b1b2b3b4, app id a1a2a3a4 (harness constants), instance id in native (little-endian) byte order -/
def showHandle (h : Handle) : String :=
  "b1b2b3b4a1a2a3a4" ++ hex2 (h.pfx % 256) ++ hex2 ((h.pfx / 256) % 256) ++ hex2 ((h.pfx / 65536) % 256) ++
  hex2 ((h.pfx / 16777216) % 256) ++ hex2 h.ent.b0 ++ hex2 h.ent.b1 ++ hex2 h.ent.b2 ++ hex2 h.ent.kind

def errS : Err → String
  | .alreadyDeleted => "err:AlreadyDeleted"
  | .preconditionNotMet => "err:PreconditionNotMet"
  | .badParameter => "err:BadParameter"
  | .notEnabled => "err:NotEnabled"
  | .illegalOperation => "err:IllegalOperation"
  | .outOfResources => "err:OutOfResources"
  | .inconsistentPolicy => "err:InconsistentPolicy"
  | .timeout => "err:Timeout"

def showRes (keyed : Bool) : Res → String
  | .ok => "ok"
  | .handle h => "ok " ++ showHandle h
  | .inst none => "ok none"
  | .inst (some k) => if keyed then s!"ok h({k})" else "ok h(nokey)"
  | .err e => errS e
  | .panic => "PANIC"

def kvOf (t : String) : Option (String × String) :=
  match t.splitOn "=" with
  | [a, b] => some (a, b)
  | _ => none

/-- split tokens into plain ones and `k=v` ones -/
def splitKv (ts : List String) : List String × List (String × String) :=
  (ts.filter (fun t => (kvOf t).isNone), ts.filterMap kvOf)

def kvGet (kv : List (String × String)) (k : String) : Option String :=
  (kv.find? (fun p => p.1 == k)).map (·.2)
def kvOnly (kv : List (String × String)) (allowed : List String) : Bool :=
  kv.all (fun p => allowed.contains p.1)

def bool? : String → Option Bool
  | "0" => some false
  | "1" => some true
  | _ => none

/-- `autoenable=` option with default `true`; `none` on a malformed value -/
def autoOpt (kv : List (String × String)) : Option Bool :=
  match kvGet kv "autoenable" with
  | none => some true
  | some v => bool? v

def len? (v : String) : Option (Option Nat) :=
  if v == "inf" then some none else v.toNat?.map some

/-- writer / reader QoS subset of the tree engine: (max_instances, consistent). `none` = unsupported combination -/
def endQos (kv : List (String × String)) (writer : Bool) : Option (Option Nat × Bool) := do
  if !(kvOnly kv (if writer then ["max_instances", "history", "max_spi"] else ["history", "max_spi"])) then none
  let mi ← match kvGet kv "max_instances" with
    | none => some none
    | some v => len? v
  let depth : Option Nat ← match kvGet kv "history" with
    | none => some (some 1)
    | some "keep_all" => some none
    | some v => match v.splitOn ":" with
      | ["keep_last", d] => d.toNat?.map some
      | _ => none
  let spi ← match kvGet kv "max_spi" with
    | none => some none
    | some v => len? v
  match spi with
  | none => some (mi, true)
  | some n =>
    match depth with
    | some d => if d > n then some (mi, false) else none   -- a finite max_spi that is consistent is not modelled
    | none => none

/-- the INT32 members of the four test types -/
def int32Member (ty member : String) : Bool :=
  (member == "value" && (ty == "ki" || ty == "ni")) || (member == "id" && (ty == "ki" || ty == "kb"))

def i32? (v : String) : Bool :=
  match v.toInt? with
  | some i => decide (-2147483648 ≤ i) && decide (i ≤ 2147483647)
  | none => false

/-- the validation of `create_content_filtered_topic` (participant_methods.rs): the text before the first `<=`
    (or, when there is no `<=`, before the first `=`) must name an INT32 member of the related type and the first
    expression parameter must parse as an i32 (the test types have no string members) -/
def cftValid (ty params : String) (expr : List String) : Bool :=
  let e := String.intercalate " " expr
  let member : Option String :=
    match e.splitOn "<=" with
    | m :: _ :: _ => some m.trimAscii.toString
    | _ => match e.splitOn "=" with
      | m :: _ :: _ => some m.trimAscii.toString
      | _ => none
  let first : Option String := if params == "-" then none else (params.splitOn ",").head?
  match member, first with
  | some m, some p => int32Member ty m && i32? p
  | _, _ => false

def tyKeyed : String → Option Bool
  | "ki" => some true
  | "kb" => some true
  | "ni" => some false
  | "nb" => some false
  | _ => none

/-- run a model op, bind `name` to `mk handle` when a handle comes back -/
def creation (d : DSt) (name : String) (op : Op) (mk : Handle → Obj) : DSt × String :=
  let (m', r) := mstep d op
  match r with
  | .handle h => ({ d with m := m', names := bind d name (mk h) }, showRes true r)
  | _ => ({ d with m := m' }, showRes true r)

def plainOp (d : DSt) (op : Op) (keyed : Bool := true) : DSt × String :=
  let (m', r) := mstep d op
  ({ d with m := m' }, showRes keyed r)

def groupOfWriter (w : EndRef) : GroupRef := { ph := w.ph, b := w.b }

def writerKeyed (w : EndRef) : Bool := w.ent.kind == KIND_WRITER_WITH_KEY

def instArgs (op : String) (args : List String) : Option (String × Int) :=
  match op, args with
  | "write", [n, id, _v] => id.toInt?.map (fun i => (n, i))
  | "write", _ => none
  | _, [n, id] => id.toInt?.map (fun i => (n, i))
  | _, [n, id, _v] => id.toInt?.map (fun i => (n, i))
  | _, _ => none

/-- one primitive op line (no `repeat`) -/
def prim (d : DSt) (ts : List String) : DSt × String :=
  match ts with
  | [] => (d, "ok")
  | "factory-qos" :: rest =>
    let (_, kv) := splitKv rest
    match kv with
    | [("autoenable", v)] => match bool? v with
      | some b => plainOp d (.factoryQos b)
      | none => (d, "bad-op")
    | _ => (d, "bad-op")
  | "participant" :: rest =>
    let (plain, kv) := splitKv rest
    match plain, autoOpt kv, kvOnly kv ["autoenable", "domain"] with
    | [name], some a, true =>
      let (d', o) := creation d name (.createPart a) (fun h => .part h.pfx)
      -- a new participant receives what the live participants have announced (transient-local built-in writers)
      match lookupName d' name, o.startsWith "ok" with
      | some (.part ph), true => ({ d' with known := d'.announced.map (fun p => (ph, p.2)) ++ d'.known }, o)
      | _, _ => (d', o)
    | _, _, _ => (d, "bad-op")
  | "publisher" :: rest =>
    let (plain, kv) := splitKv rest
    match plain, autoOpt kv, kvOnly kv ["autoenable"] with
    | [name, parent], some a, true =>
      match lookupName d parent with
      | some (.part ph) => creation d name (.createPub ph a) (fun h => .pub { ph := ph, b := h.ent.b0 })
      | _ => (d, "bad-op")
    | _, _, _ => (d, "bad-op")
  | "subscriber" :: rest =>
    let (plain, kv) := splitKv rest
    match plain, autoOpt kv, kvOnly kv ["autoenable"] with
    | [name, parent], some a, true =>
      match lookupName d parent with
      | some (.part ph) => creation d name (.createSub ph a) (fun h => .sub { ph := ph, b := h.ent.b0 })
      | _ => (d, "bad-op")
    | _, _, _ => (d, "bad-op")
  | ["topic", name, parent, tname, ty] =>
    match lookupName d parent, tyKeyed ty with
    | some (.part ph), some k =>
      let (d', o) := creation d name (.createTopic ph tname k) (fun h => .topic { ph := ph, name := tname } h)
      if o.startsWith "ok" then
        -- an enabled topic is announced: every live participant (the announcer included) discovers it
        let enabled := match findTopic d'.m ph tname with
          | some t => t.enabled
          | none => false
        let d2 := { d' with ttypes := (name, ty) :: d'.ttypes }
        if enabled then
          ({ d2 with announced := (ph, tname) :: d2.announced
                     known := d2.m.parts.map (fun p => (p.uid % U32, tname)) ++ d2.known }, o)
        else (d2, o)
      else (d', o)
    | _, _ => (d, "bad-op")
  | "find-topic" :: name :: parent :: tname :: ty :: rest =>
    match lookupName d parent, tyKeyed ty, rest.all (fun t => t.toNat?.isSome) && rest.length ≤ 1 with
    | some (.part ph), some k, true =>
      let disc := d.known.any (fun p => p.1 == ph && p.2 == tname)
      let (d', o) := creation d name (.findTopic ph tname k disc) (fun h => .topic { ph := ph, name := tname } h)
      (if o.startsWith "ok" then { d' with ttypes := (name, ty) :: d'.ttypes } else d', o)
    | _, _, _ => (d, "bad-op")
  | "cft" :: name :: parent :: topic :: cname :: params :: e :: es =>
    match lookupName d parent, lookupName d topic with
    | some (.part _), some (.topic r _) =>
      let ty := ((d.ttypes.find? (fun p => p.1 == topic)).map (·.2)).getD ""
      let (m', res) := mstep d (.createCft r cname (cftValid ty params (e :: es)))
      match res with
      | .ok => ({ d with m := m', names := bind d name (.cft cname r) }, "ok")
      | _ => ({ d with m := m' }, showRes true res)
    | _, _ => (d, "bad-op")
  | "writer" :: rest =>
    let (plain, kv) := splitKv rest
    match plain, endQos kv true with
    | [name, parent, topic], some (mi, cons) =>
      match lookupName d parent, lookupName d topic with
      | some (.pub r), some (.topic t _) =>
        creation d name (.createWriter r t.name mi cons) (fun h => .writer { ph := r.ph, b := r.b, ent := h.ent })
      | _, _ => (d, "bad-op")
    | _, _ => (d, "bad-op")
  | "reader" :: rest =>
    let (plain, kv) := splitKv rest
    match plain, endQos kv false with
    | [name, parent, topic], some (_, cons) =>
      match lookupName d parent, lookupName d topic with
      | some (.sub r), some (.topic t _) =>
        creation d name (.createReader r t.name cons) (fun h => .reader { ph := r.ph, b := r.b, ent := h.ent })
      | some (.sub r), some (.cft cname _) =>
        creation d name (.createReader r cname cons) (fun h => .reader { ph := r.ph, b := r.b, ent := h.ent })
      | _, _ => (d, "bad-op")
    | _, _ => (d, "bad-op")
  | ["delete", name] =>
    match lookupName d name with
    | some (.part ph) =>
      let (d', o) := plainOp d (.deletePart ph)
      (if o == "ok" then { d' with announced := d'.announced.filter (fun p => p.1 != ph) } else d', o)
    | some (.pub r) => plainOp d (.deletePub r.ph r)
    | some (.sub r) => plainOp d (.deleteSub r.ph r)
    | some (.topic r _) => plainOp d (.deleteTopic r.ph r)
    | some (.cft cname rel) => plainOp d (.deleteCft rel.ph cname)
    | some (.writer w) => plainOp d (.deleteWriter (groupOfWriter w) w)
    | some (.reader w) => plainOp d (.deleteReader (groupOfWriter w) w)
    | none => (d, "bad-op")
  | ["delete-from", parent, name] =>
    match lookupName d parent, lookupName d name with
    | some (.part via), some (.pub r) => plainOp d (.deletePub via r)
    | some (.part via), some (.sub r) => plainOp d (.deleteSub via r)
    | some (.part via), some (.topic r _) => plainOp d (.deleteTopic via r)
    | some (.part _), some (.cft cname rel) => plainOp d (.deleteCft rel.ph cname)
    | some (.pub via), some (.writer w) => plainOp d (.deleteWriter via w)
    | some (.sub via), some (.reader w) => plainOp d (.deleteReader via w)
    | _, _ => (d, "bad-op")
  | ["delete-contained", name] =>
    match lookupName d name with
    | some (.part ph) => plainOp d (.deleteContained ph)
    | some _ => (d, "unsupported")
    | none => (d, "bad-op")
  | ["enable", name] =>
    match lookupName d name with
    | some (.part ph) => plainOp d (.enablePart ph)
    | some (.topic r _) => plainOp d (.enableTopic r)
    | some (.writer w) => plainOp d (.enableWriter w)
    | some (.reader w) => plainOp d (.enableReader w)
    | some _ => (d, "unsupported")
    | none => (d, "bad-op")
  -- virtual time has no effect on the entity tree (discovery is instantaneous in the simulator)
  | ["advance", ns] => (d, if ns.toNat?.isSome then "ok" else "bad-op")
  | ["handle", name] =>
    match lookupName d name with
    | some (.part ph) => (d, "ok " ++ showHandle (partHandle ph))
    | some (.pub r) => (d, "ok " ++ showHandle { pfx := r.ph, ent := { b0 := r.b, b1 := 0, b2 := 0, kind := KIND_WRITER_GROUP } })
    | some (.sub r) => (d, "ok " ++ showHandle { pfx := r.ph, ent := { b0 := r.b, b1 := 0, b2 := 0, kind := KIND_READER_GROUP } })
    | some (.topic _ h) => (d, "ok " ++ showHandle h)
    | some (.cft _ _) => (d, "unsupported")
    | some (.writer w) => (d, "ok " ++ showHandle { pfx := w.ph, ent := w.ent })
    | some (.reader w) => (d, "ok " ++ showHandle { pfx := w.ph, ent := w.ent })
    | none => (d, "bad-op")
  | ["probe", name] =>
    match lookupName d name with
    | some (.part ph) => plainOp d (.probePart ph)
    | some (.pub r) => plainOp d (.probePub r)
    | some (.sub r) => plainOp d (.probeSub r)
    | some (.topic r _) => plainOp d (.probeTopic r)
    | some (.cft _ _) => (d, "unsupported")
    | some (.writer w) => plainOp d (.probeWriter w)
    | some (.reader w) => plainOp d (.probeReader w)
    | none => (d, "bad-op")
  | op :: args =>
    if op == "write" || op == "register" || op == "unregister" || op == "dispose" || op == "lookup" then
      match instArgs op args with
      | some (n, k) =>
        match lookupName d n with
        | some (.writer w) =>
          let o : WOp := if op == "write" then .write k else if op == "register" then .register k
            else if op == "unregister" then .unregister k else if op == "dispose" then .dispose k else .lookup k
          plainOp d (.inst w o) (writerKeyed w)
        | _ => (d, "bad-op")
      | none => (d, "bad-op")
    else (d, "bad-op")

def substI (i : Nat) (t : String) : String := t.replace "%i" (toString i)

/-- split a token list at `;` tokens -/
def splitSemi : List String → List (List String)
  | [] => [[]]
  | t :: ts =>
    match splitSemi ts with
    | [] => [[t]]
    | b :: bs => if t == ";" then [] :: b :: bs else (t :: b) :: bs

/-- run the bodies of one `repeat` iteration; stops at a panic -/
def runBodies (d : DSt) (i : Nat) : List (List String) → DSt × List String
  | [] => (d, [])
  | b :: bs =>
    let (d1, o) := prim d (b.map (substI i))
    if d1.m.dead then (d1, [o])
    else
      let (d2, os) := runBodies d1 i bs
      (d2, o :: os)

def runRepeat (d : DSt) (bodies : List (List String)) (i : Nat) : Nat → DSt × List String
  | 0 => (d, [])
  | fuel + 1 =>
    let (d1, os) := runBodies d i bodies
    if d1.m.dead then (d1, os)
    else
      let (d2, os2) := runRepeat d1 bodies (i + 1) fuel
      (d2, os ++ os2)

def step (d : DSt) (line : String) : DSt × String :=
  match toks line with
  | ["reset"] => (defaultSt, "ok")
  | ts =>
    if d.m.dead then (d, "POISONED")
    else match ts with
      | "repeat" :: n :: rest =>
        match n.toNat? with
        | some n =>
          let bodies := (splitSemi rest).filter (fun b => !b.isEmpty)
          if bodies.isEmpty || bodies.any (fun b => b.head? == some "repeat") then (d, "bad-op")
          else
            let (d', os) := runRepeat d bodies 0 n
            (d', String.intercalate ";" os)
        | none => (d, "bad-op")
      -- `#model old|fixed`, `#inst old|fixed`, `#profile release|debug`: comments for the harness (which is whatever build of whatever
      -- tree it is), switches for the model: the code before / after the patches, wrapping / checked arithmetic
      | ["#model", "old"] => ({ d with old := true }, "ok")
      | ["#model", "fixed"] => ({ d with old := false }, "ok")
      | ["#inst", "old"] => ({ d with oldInst := true }, "ok")
      | ["#inst", "fixed"] => ({ d with oldInst := false }, "ok")
      | ["#profile", "release"] => ({ d with m := { d.m with profile := .release } }, "ok")
      | ["#profile", "debug"] => ({ d with m := { d.m with profile := .debug } }, "ok")
      | t :: _ => if t.startsWith "#" then (d, "ok") else prim d ts
      | [] => (d, "ok")

end DustVerif.Driver.TreeEngine
