import DustVerif.Driver.Worker
/-! Engine `deadline` (C30, C24 deadline clause): the same world and scenario sub-language as engine `worker`
    (Model/Worker.lean over Model/Deadline.lean); the property files differ in what they generate and check. -/
namespace DustVerif.Driver.DeadlineEngine
open DustVerif.Worker

def step (w : World) (line : String) : World × String := DustVerif.Driver.WorkerEngine.step w line

end DustVerif.Driver.DeadlineEngine
