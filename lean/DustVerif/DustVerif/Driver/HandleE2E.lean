import DustVerif.Model.HandleE2E
import DustVerif.Driver.Util
/-! Stateless driver of the `handle` engine (C11 end to end): the expected handle bytes of the simulator's test types and
    the reader's derivation on the model's encoding.
      whandle <ty> <id>                                   -> 32 hex digits: the handle the writer assigns
      rhandle <ty> <kind> <hash|nohash> <id> <len>        -> the handle the reader derives (as coded), or `none`
      rhandle-kh <ty> <kind> <hash|nohash> <id> <len>     -> the same with the seeded "key holder only" variant -/
namespace DustVerif.Driver.HandleEngine
open DustVerif.HandleE2E DustVerif.Driver

def hexDigit (n : Nat) : Char := "0123456789abcdef".toList.getD n '0'
def hex2 (n : Nat) : String := String.ofList [hexDigit ((n / 16) % 16), hexDigit (n % 16)]
def hexOf (bs : List Nat) : String := String.join (bs.map hex2)

def step (line : String) : String :=
  match toks line with
  | ["whandle", ty, id] =>
    match typeOf ty, id.toInt? with
    | some t, some i => hexOf (writerHandle (codecOf t) (sampleOf t i 0))
    | _, _ => "bad-op"
  | [op, ty, kind, hash, id, len] =>
    match typeOf ty, kindOf kind, id.toInt?, len.toNat? with
    | some t, some k, some i, some n =>
      if hash != "hash" && hash != "nohash" then "bad-op"
      else
        let c := codecOf t
        let ch := writerChange c (sampleOf t i n) k (hash == "hash")
        let r := if op == "rhandle" then some (readerHandle c ch)
                 else if op == "rhandle-kh" then some (readerHandleKeyHolderOnly c ch) else none
        match r with
        | some (some h) => hexOf h
        | some none => "none"
        | none => "bad-op"
    | _, _, _, _ => "bad-op"
  | _ => "bad-op"

end DustVerif.Driver.HandleEngine
