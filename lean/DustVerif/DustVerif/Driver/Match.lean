import DustVerif.Model.Match
import DustVerif.Model.Partition
import DustVerif.Driver.Util
namespace DustVerif.Driver.MatchEngine
open DustVerif.Match DustVerif.Driver

def kvs (ts : List String) : List (String × String) :=
  ts.filterMap (fun t => match t.splitOn "=" with
    | [a, b] => some (a, b)
    | _ => none)

def look (k : String) : List (String × String) → Option String
  | [] => none
  | (a, b) :: r => if a == k then some b else look k r

def dur? (s : String) : Option DurK :=
  if s == "inf" then some none
  else match s.splitOn ":" with
    | [a, b] => match a.toInt?, b.toNat? with
      | some a, some b => some (some { sec := a, ns := b })
      | _, _ => none
    | _ => none

def len? (s : String) : Option Len :=
  if s == "-" then some none else s.toNat?.map some

def repr? (s : String) : Option (List Int) :=
  if s == "-" then some [] else ints? (s.splitOn ",")

def durability? : String → Option Durability
  | "0" => some .volatile | "1" => some .transientLocal | "2" => some .transient | "3" => some .persistent | _ => none
def scope? : String → Option Scope
  | "0" => some .instance | "1" => some .topic | _ => none
def livk? : String → Option LivKind
  | "0" => some .automatic | "1" => some .manualByParticipant | "2" => some .manualByTopic | _ => none
def rel? : String → Option Rel
  | "0" => some .bestEffort | "1" => some .reliable | _ => none
def dord? : String → Option DestOrd
  | "0" => some .byReception | "1" => some .bySource | _ => none
def own? : String → Option Own
  | "0" => some .shared | "1" => some .exclusive | _ => none
def bool? : String → Option Bool
  | "0" => some false | "1" => some true | _ => none

def endQos? (ts : List String) : Option EndQos := do
  let m := kvs ts
  let d ← (← look "dur" m) |> durability?
  let sc ← (← look "scope" m) |> scope?
  let coh ← (← look "coh" m) |> bool?
  let ord ← (← look "ord" m) |> bool?
  let dl ← (← look "dl" m) |> dur?
  let lat ← (← look "lat" m) |> dur?
  let lk ← (← look "livk" m) |> livk?
  let lease ← (← look "lease" m) |> dur?
  let rel ← (← look "rel" m) |> rel?
  let dor ← (← look "do" m) |> dord?
  let own ← (← look "own" m) |> own?
  let rp ← (← look "repr" m) |> repr?
  pure { durability := d, presentation := { scope := sc, coherent := coh, ordered := ord }, deadline := dl,
         latency := lat, liveliness := { kind := lk, lease := lease }, reliability := rel, destOrder := dor,
         ownership := own, representation := rp }

def depth? (s : String) : Option (Option Nat) :=
  if s == "all" then some none else s.toNat?.map some

def hexNats (s : String) : List Nat := s.toList.map (fun c => c.toNat)

def entQos? (ts : List String) : Option EntQos := do
  let m := kvs ts
  let d ← (← look "dur" m) |> durability?
  let lk ← (← look "livk" m) |> livk?
  let lease ← (← look "lease" m) |> dur?
  let rel ← (← look "rel" m) |> rel?
  let mbt ← (← look "mbt" m) |> dur?
  let dor ← (← look "do" m) |> dord?
  let depth ← (← look "depth" m) |> depth?
  let ms ← (← look "ms" m) |> len?
  let mi ← (← look "mi" m) |> len?
  let mspi ← (← look "mspi" m) |> len?
  let own ← (← look "own" m) |> own?
  let dl ← (← look "dl" m) |> dur?
  let minsep ← (← look "minsep" m) |> dur?
  let rp ← (← look "repr" m) |> repr?
  let ud ← look "ud" m
  pure { durability := d, liveliness := { kind := lk, lease := lease }, reliability := rel, maxBlocking := mbt,
         destOrder := dor, depth := depth, limits := { maxSamples := ms, maxInstances := mi, maxSpi := mspi },
         ownership := own, deadline := dl, minSep := minsep, representation := rp, userData := hexNats ud }

def showPolicies (l : List Policy) : String :=
  if l.isEmpty then "-" else String.intercalate "," (l.map (fun p => toString p.id))

def splitBar (ts : List String) : List String × List String :=
  (ts.takeWhile (· != "|"), (ts.dropWhile (· != "|")).drop 1)

def showRes : Option QErr → String
  | none => "ok"
  | some .inconsistent => "InconsistentPolicy"
  | some .immutable => "ImmutablePolicy"

def showEnt (q : EntQos) : String :=
  let d := match q.depth with
    | none => "all"
    | some n => toString n
  s!"depth={d} ud={String.ofList (q.userData.map Char.ofNat)}"

def step (line : String) : String :=
  match toks line with
  | "rxo" :: rest =>
    let (a, b) := splitBar rest
    match endQos? a, endQos? b with
    | some w, some r => s!"W:{showPolicies (writerSideIncompat w r)} R:{showPolicies (readerSideIncompat w r)}"
    | _, _ => "bad-op"
  | ["glob", pat, name] =>
    let e := fun (x : String) => if x == "%e" then [] else x.toList
    if DustVerif.Partition.supported (e pat) then (if DustVerif.Partition.globMatch (e pat) (e name) then "1" else "0")
    else "bad-op"
  | "wcons" :: rest => match entQos? rest with
    | some q => if writerConsistent q then "ok" else "InconsistentPolicy"
    | none => "bad-op"
  | "rcons" :: rest => match entQos? rest with
    | some q => if readerConsistent q then "ok" else "InconsistentPolicy"
    | none => "bad-op"
  | "tcons" :: rest => match entQos? rest with
    | some q => if topicConsistent q then "ok" else "InconsistentPolicy"
    | none => "bad-op"
  | "wset" :: en :: rest =>
    let (a, b) := splitBar rest
    match bool? en, entQos? a, entQos? b with
    | some en, some x, some y =>
      let r := setQos writerConsistent en x y
      s!"{showRes r.2} {showEnt r.1}"
    | _, _, _ => "bad-op"
  | "rset" :: en :: rest =>
    let (a, b) := splitBar rest
    match bool? en, entQos? a, entQos? b with
    | some en, some x, some y =>
      let r := setQos readerConsistent en x y
      s!"{showRes r.2} {showEnt r.1}"
    | _, _, _ => "bad-op"
  | op :: rest =>
    if op == "wimm" || op == "rimm" then
      let (a, b) := splitBar rest
      match entQos? a, entQos? b with
      | some x, some y => if immutableSame x y then "ok" else "ImmutablePolicy"
      | _, _ => "bad-op"
    else "bad-op"
  | _ => "bad-op"

end DustVerif.Driver.MatchEngine
