import DustVerif.Model.XcdrWF
import DustVerif.Model.Key
import DustVerif.Model.Assign
import DustVerif.Spec.Xcdr
import DustVerif.Driver.Util
/-! Line-protocol driver of engine `xcdr` (same grammar as `harness/src/bin/xcdr.rs`).
    Engine names: `xcdr` = `Cfg.fixed` (tree with the fix patches), `xcdr-asis` = `Cfg.asIs`,
    `xcdr:<d12><d13><d45><d46><d47><d61><d66>` (seven 0/1 digits) = any combination. -/
namespace DustVerif.Driver.XcdrEngine
open DustVerif.Xcdr DustVerif.Driver

def hexDigit (n : Nat) : Char := if n < 10 then Char.ofNat (48 + n) else Char.ofNat (87 + n)
def hexOf (bs : Bytes) : String :=
  if bs.isEmpty then "-" else String.ofList (bs.flatMap fun b => [hexDigit (b.toNat / 16), hexDigit (b.toNat % 16)])
def hexVal (c : Char) : Option Nat :=
  if '0' ≤ c ∧ c ≤ '9' then some (c.toNat - 48)
  else if 'a' ≤ c ∧ c ≤ 'f' then some (c.toNat - 87)
  else if 'A' ≤ c ∧ c ≤ 'F' then some (c.toNat - 55)
  else none
def unhexL : List Char → Option Bytes
  | [] => some []
  | a :: b :: r => match hexVal a, hexVal b, unhexL r with
    | some x, some y, some bs => some (UInt8.ofNat (16 * x + y) :: bs)
    | _, _, _ => none
  | _ => none
def unhex (s : String) : Option Bytes := if s == "-" then some [] else unhexL s.toList

/-! parsers over `List Char`: result = value and the rest -/
def takeDigits : List Char → List Char × List Char
  | c :: r => if c.isDigit then let (d, r') := takeDigits r; (c :: d, r') else ([], c :: r)
  | [] => ([], [])
def pNat (cs : List Char) : Option (Nat × List Char) :=
  let (d, r) := takeDigits cs
  if d.isEmpty then none else (String.ofList d).toNat?.map fun n => (n, r)
def pInt : List Char → Option (Int × List Char)
  | '-' :: r => (pNat r).map fun (n, r') => (-(n : Int), r')
  | cs => (pNat cs).map fun (n, r') => ((n : Int), r')

def pPrim : List Char → Option (Prim × List Char)
  | 'i' :: '1' :: '6' :: r => some (.i16, r)
  | 'u' :: '1' :: '6' :: r => some (.u16, r)
  | 'i' :: '3' :: '2' :: r => some (.i32, r)
  | 'u' :: '3' :: '2' :: r => some (.u32, r)
  | 'f' :: '3' :: '2' :: r => some (.f32, r)
  | 'i' :: '6' :: '4' :: r => some (.i64, r)
  | 'u' :: '6' :: '4' :: r => some (.u64, r)
  | 'f' :: '6' :: '4' :: r => some (.f64, r)
  | 'u' :: '8' :: r => some (.u8, r)
  | 'i' :: '8' :: r => some (.i8, r)
  | 'c' :: '8' :: r => some (.c8, r)
  | 'b' :: r => some (.bool, r)
  | 'y' :: r => some (.byte, r)
  | _ => none

def takeFlags : List Char → (Bool × Bool × Bool) × List Char
  | 'o' :: r => let ((_, m, k), r') := takeFlags r; ((true, m, k), r')
  | 'k' :: r => let ((o, m, _), r') := takeFlags r; ((o, m, true), r')
  | 'm' :: r => let ((o, _, k), r') := takeFlags r; ((o, true, k), r')
  | cs => ((false, false, false), cs)

partial def pInts : List Char → Option (List Int × List Char)
  | cs => match pInt cs with
    | some (i, ',' :: r) => (pInts r).map fun (is, r') => (i :: is, r')
    | some (i, ']' :: r) => some ([i], r)
    | _ => none

mutual
  partial def pTy : List Char → Option (KTy × List Char)
    | 's' :: r => some (.str, r)
    | 'w' :: r => some (.wstr, r)
    -- final / appendable union: U<F|A><disc>{<id>[d][<labels>]:<ty>,...}  (UM is answered `unmodelled` before parsing)
    | 'U' :: x :: r =>
      if !(x == 'F' || x == 'A') then none else
      match pPrim r with
      | some (d, '{' :: '}' :: r1) => some (.union (x == 'A') d .nil, r1)
      | some (d, '{' :: r1) => (pBs r1).map fun (bs, r2) => (.union (x == 'A') d bs, r2)
      | _ => none
    | 'Q' :: r =>
      let r1 := (takeDigits r).2
      match r1 with
      | '(' :: r2 => match pTy r2 with
        | some (t, ')' :: r3) => some (.seq t, r3)
        | _ => none
      | _ => none
    | 'A' :: r => match pNat r with
      | some (n, '(' :: r2) => match pTy r2 with
        | some (t, ')' :: r3) => some (.arr t n, r3)
        | _ => none
      | _ => none
    | 'S' :: x :: '{' :: r =>
      let ext : Option Ext := if x == 'F' then some .final else if x == 'A' then some .appendable
                              else if x == 'M' then some .mutable else none
      match ext with
      | none => none
      | some ext => match r with
        | '}' :: r1 => some (.struct ext .nil, r1)
        | _ => (pMs r).map fun (ms, r1) => (.struct ext ms, r1)
    | 'E' :: r => match pPrim r with
      | some (h, r0) =>
        -- optional extensibility of the enumeration type: `a` (appendable) / `m` (mutable), none = final
        let (x, r0) : Ext × List Char := match r0 with
          | 'a' :: r' => (.appendable, r')
          | 'm' :: r' => (.mutable, r')
          | r' => (.final, r')
        if !(h == .i8 || h == .i16 || h == .i32) then none else
        (match r0 with
         | '[' :: ']' :: r1 => some (.enum h [] x, r1)
         | '[' :: r1 => (pInts r1).map fun (ls, r2) => (.enum h ls x, r2)
         | _ => none)
      | none => none
    | cs => (pPrim cs).map fun (p, r) => (.prim p, r)
  partial def pBs : List Char → Option (Bs × List Char)
    | cs => match pNat cs with
      | none => none
      | some (id, r) =>
        let (dflt, r1) : Bool × List Char := match r with
          | 'd' :: r' => (true, r')
          | r' => (false, r')
        let lr : Option (List Int × List Char) := match r1 with
          | '[' :: ']' :: r' => some ([], r')
          | '[' :: r' => pInts r'
          | r' => some ([], r')
        match lr with
        | some (ls, ':' :: r2) => match pTy r2 with
          | some (t, ',' :: r3) => (pBs r3).map fun (rest, r4) => (.cons id ls dflt t.erase rest, r4)
          | some (t, '}' :: r3) => some (.cons id ls dflt t.erase .nil, r3)
          | _ => none
        | _ => none
  partial def pMs : List Char → Option (KMs × List Char)
    | cs => match pNat cs with
      | none => none
      | some (id, r) =>
        let ((opt, mu, key), r1) := takeFlags r
        match r1 with
        | ':' :: r2 => match pTy r2 with
          | some (t, ',' :: r3) => (pMs r3).map fun (rest, r4) => (.cons id opt mu key t rest, r4)
          | some (t, '}' :: r3) => some (.cons id opt mu key t .nil, r3)
          | _ => none
        | _ => none
end

def takeHex : List Char → List Char × List Char
  | c :: r => if (hexVal c).isSome then let (d, r') := takeHex r; (c :: d, r') else ([], c :: r)
  | [] => ([], [])

mutual
  partial def pVal : List Char → Option (Val × List Char)
    | 'x' :: r =>
      let (h, r1) := takeHex r
      (unhexL h).map fun bs => (.str bs, r1)
    | '_' :: r => some (.absent, r)
    -- union value <disc> or <disc,branch id:value>
    | '<' :: r => match pNat r with
      | some (d, '>' :: r1) => some (.struct [.num d], r1)
      | some (d, ',' :: r1) => match pNat r1 with
        | some (id, ':' :: r2) => match pVal r2 with
          | some (v, '>' :: r3) => some (.struct [.num d, .num id, v], r3)
          | _ => none
        | _ => none
      | _ => none
    | '[' :: ']' :: r => some (.list [], r)
    | '[' :: r => (pVals ']' r).map fun (vs, r1) => (.list vs, r1)
    | '{' :: '}' :: r => some (.struct [], r)
    | '{' :: r => (pVals '}' r).map fun (vs, r1) => (.struct vs, r1)
    | cs => (pNat cs).map fun (n, r) => (.num n, r)
  partial def pVals (close : Char) : List Char → Option (List Val × List Char)
    | cs => match pVal cs with
      | some (v, c :: r) =>
        if c == ',' then (pVals close r).map fun (vs, r1) => (v :: vs, r1)
        else if c == close then some ([v], r) else none
      | _ => none
end

/-- the type with its key flags -/
def parseKTy (s : String) : Option KTy := match pTy s.toList with
  | some (t, []) => some t
  | _ => none
def parseTy (s : String) : Option Ty := (parseKTy s).map KTy.erase
def parseVal (s : String) : Option Val := match pVal s.toList with
  | some (v, []) => some v
  | _ => none

mutual
  partial def showVal : Val → String
    | .num n => toString n
    | .str bs => "x" ++ (if bs.isEmpty then "" else hexOf bs)
    | .list vs => "[" ++ String.intercalate "," (vs.map showVal) ++ "]"
    | .struct fs => "{" ++ String.intercalate "," (fs.map showVal) ++ "}"
    | .absent => "_"
end

def bsTyOf (id : Nat) : Bs → Option Ty
  | .nil => none
  | .cons id' _ _ t r => if id' == id then some t else bsTyOf id r

def msTys : Ms → List Ty
  | .nil => []
  | .cons _ _ _ t r => t :: msTys r

/-- type-directed printing (union values are `<disc,id:value>`) -/
partial def showTV : Ty → Val → String
  | .union _ _ bs, .struct [.num d, .num id, v] =>
    "<" ++ toString d ++ "," ++ toString id ++ ":" ++ (match bsTyOf id bs with | some t => showTV t v | none => showVal v) ++ ">"
  | .union _ _ _, .struct [.num d] => "<" ++ toString d ++ ">"
  | .struct _ ms, .struct fs =>
    "{" ++ String.intercalate "," (((msTys ms).zip fs).map fun (t, f) => showTV t f) ++ "}"
  | .seq el, .list vs => "[" ++ String.intercalate "," (vs.map (showTV el)) ++ "]"
  | .arr el _, .list vs => "[" ++ String.intercalate "," (vs.map (showTV el)) ++ "]"
  | _, v => showVal v

def showErr : Err → String
  | .notEnoughData => "err NotEnoughData"
  | .invalidData => "err InvalidData"
  | .invalidType => "err InvalidType"
  | .pidNotFound => "err PidNotFound"

def showResT (t : Ty) : Res Val → String
  | .ok v _ => "ok " ++ showTV t v
  | .err e _ => showErr e
  | .panic .alloc => "ALLOC-LIMIT"
  | .panic _ => "PANIC"

def showRes : Res Val → String
  | .ok v _ => "ok " ++ showVal v
  | .err e _ => showErr e
  | .panic .alloc => "ALLOC-LIMIT"
  | .panic _ => "PANIC"

def pVer (s : String) : Option Ver := if s == "1" then some .v1 else if s == "2" then some .v2 else none
def pEnd (s : String) : Option Endian := if s == "le" then some .le else if s == "be" then some .be else none

mutual
  /-- supported subset: no collection of collections (`todo!()` in serializer.rs:297 / deserializer.rs:803) -/
  def tyOk : Ty → Bool
    | .seq (.seq _) | .seq (.arr _ _) | .arr (.seq _) _ | .arr (.arr _ _) _ => false
    | .seq el => tyOk el
    | .arr el _ => tyOk el
    | .struct _ ms => msOk ms
    | .union _ _ bs => bsOk bs
    | _ => true
  def bsOk : Bs → Bool
    | .nil => true
    | .cons id _ _ t r => id != 0 && tyOk t && bsOk r
  def msOk : Ms → Bool
    | .nil => true
    | .cons _ _ _ t r => tyOk t && msOk r
end

def isStruct : Ty → Bool
  | .struct x ms => tyOk (.struct x ms)
  | _ => false

/-- `ser`: `bad-op` unless the value has the shape of the type; `PANIC` for the u16 parameter-id overflow -/
def serLine (cfg : Cfg) (ver : Ver) (e : Endian) (t : Ty) (v : Val) : Sum String Bytes :=
  if !(isStruct t && shapeOk t v) then .inl "bad-op"
  else if ver == .v1 && serPanics1 t v then .inl "PANIC"
  else .inr (serTop cfg ver e t v)

def showKErr : KErr → String
  | .invalidId => "err InvalidId"
  | .invalidType => "err InvalidType"

def khLine (cfg : Cfg) (kt : KTy) (v : Val) : Option (Except KErr Bytes) := handleOutcome cfg kt v

def showHandle : Option (Except KErr Bytes) → String
  | none => "PANIC"
  | some (.ok h) => "ok " ++ hexOf h
  | some (.error e) => showKErr e

def flatIds (kt : KTy) : List Nat := (flatTy kt).map fun k => k.id

def step (cfg : Cfg) (line : String) : String :=
  -- unions are not modelled: the harness answer of such a line is checked by the oracle only
  -- appendable / mutable unions are not modelled: the harness answer of such a line is checked by the oracle only
  if (line.splitOn "UM").length > 1 then "unmodelled" else
  match toks line with
  | ["ser", ver, en, ty, val] => match pVer ver, pEnd en, parseTy ty, parseVal val with
    | some ver, some e, some t, some v => match serLine cfg ver e t v with
      | .inl s => s
      | .inr b => "ok " ++ hexOf b
    | _, _, _, _ => "bad-op"
  | ["de", ty, h] => match parseTy ty, unhex h with
    | some t, some b => if isStruct t then showResT t (deTop cfg t b) else "bad-op"
    | _, _ => "bad-op"
  | ["rt", ver, en, ty, val] => match pVer ver, pEnd en, parseTy ty, parseVal val with
    | some ver, some e, some t, some v => match serLine cfg ver e t v with
      | .inl s => s
      | .inr b =>
        -- the payload, the payload without the recorded padding, and with one byte less
        let pad := (b.getD 3 0).toNat
        let d (k : Nat) : String := showResT t (deTop cfg t (b.take (b.length - k)))
        let ds := [d 0, d pad, d (pad + 1)]
        -- the harness worker dies on an allocation above the limit: the whole line is `ALLOC-LIMIT`
        if ds.contains "ALLOC-LIMIT" then "ALLOC-LIMIT"
        else "ok " ++ hexOf b ++ " | " ++ String.intercalate " | " ds
    | _, _, _, _ => "bad-op"
  -- the independent specification (Spec/Xcdr.lean): encoder and decoder
  | ["specser", ver, en, ty, val] => match pVer ver, pEnd en, parseTy ty, parseVal val with
    | some ver, some e, some t, some v =>
      if isStruct t && shapeOk t v then "ok " ++ hexOf (Spec.serTop ver e t v) else "bad-op"
    | _, _, _, _ => "bad-op"
  | ["specstd", ver, en, ty, val] => match pVer ver, pEnd en, parseTy ty, parseVal val with
    | some ver, some e, some t, some v =>
      if isStruct t && shapeOk t v then "ok " ++ hexOf (Spec.serTopStd ver e t v) else "bad-op"
    | _, _, _, _ => "bad-op"
  | ["cmp", ver, en, ty, val, h1, h2] => match pVer ver, pEnd en, parseTy ty, parseVal val, unhex h1, unhex h2 with
    | some ver, some e, some t, some v, some b1, some b2 =>
      if !isStruct t then "bad-op" else
      let d (b : Bytes) : String := showResT t (deTop cfg t b)
      let s := match serLine cfg ver e t v with
        | .inl s => s
        | .inr b => "ok " ++ hexOf b
      if d b1 == "ALLOC-LIMIT" || d b2 == "ALLOC-LIMIT" then "ALLOC-LIMIT" else s ++ " | " ++ d b1 ++ " | " ++ d b2
    | _, _, _, _, _, _ => "bad-op"
  -- is the case inside the hypotheses of the round-trip theorems (C09_roundtrip_partial)?
  | ["wf", ver, ty, val] => match pVer ver, parseTy ty, parseVal val with
    | some ver, some t, some v =>
      if isStruct t then (if wfVal cfg ver t v && decide (maxSize t v < 2 ^ 32) then "wf 1" else "wf 0") else "bad-op"
    | _, _, _ => "bad-op"
  -- C39: assignability of the complete type objects (Model/Assign.lean)
  | ["asg", tr, tw] => match parseKTy tr, parseKTy tw with
    | some tr, some tw =>
      if isStruct tr.erase && isStruct tw.erase then (if assignable tr tw then "asg 1" else "asg 0") else "bad-op"
    | _, _ => "bad-op"
  -- C39: the writer's sample decoded with the reader's type
  | ["evo", ver, en, tw, val, tr] => match pVer ver, pEnd en, parseKTy tw, parseVal val, parseKTy tr with
    | some ver, some e, some tw, some v, some tr =>
      if !(isStruct tr.erase && isStruct tw.erase) then "bad-op" else
      let a := if assignable tr tw then "asg 1" else "asg 0"
      (match serLine cfg ver e tw.erase v with
       | .inl s => if s == "bad-op" then s else a ++ " | " ++ s
       | .inr b =>
         let d := showRes (deTop cfg tr.erase b)
         if d == "ALLOC-LIMIT" then d else a ++ " | " ++ d)
    | _, _, _, _, _ => "bad-op"
  -- model only: hypotheses of C39_project_partial and the expected reader view
  | ["evolves", ver, tw, val, tr] => match pVer ver, parseTy tw, parseVal val, parseTy tr with
    | some ver, some tw, some v, some tr =>
      if !(isStruct tr && isStruct tw) then "bad-op" else
      let ok := evolves tr tw && wfVal cfg ver tw v && decide (maxSize tw v < 2 ^ 32) &&
                decide (maxSize tr (project tr tw v) < 2 ^ 32)
      (if ok then "evolves 1 " else "evolves 0 ") ++ showVal (project tr tw v)
    | _, _, _, _ => "bad-op"
  -- C39 / D49: the typed view for the fixed derived types of the harness
  | ["typed", ver, pair] =>
    let a1 := "SA{0:u8}"
    let a2 := "SA{0:u8,1:u32}"
    let m1 := "SM{0:u8,2:u16}"
    let m2 := "SM{2:u16,5:u32,0:u8}"
    let sel : Option (String × String × String) :=
      if pair == "a1-a2" then some (a1, "{7}", a2) else if pair == "a2-a1" then some (a2, "{7,9}", a1)
      else if pair == "a2-a2" then some (a2, "{7,9}", a2) else if pair == "m1-m2" then some (m1, "{7,5}", m2)
      else if pair == "m2-m1" then some (m2, "{5,9,7}", m1) else none
    (match sel, pVer ver with
     | some (tw, v, tr), some ver => match parseTy tw, parseVal v, parseTy tr with
       | some tw, some v, some tr =>
         (match deTop cfg tr (serTop cfg ver .le tw v) with
          | .ok x _ => "dynamic ok | typed " ++ (match typedView tr x with | some y => "Some(" ++ showVal y ++ ")" | none => "None")
          | .err er _ => "dynamic " ++ showErr er ++ " | typed -"
          | .panic _ => "PANIC")
       | _, _, _ => "bad-op"
     | _, _ => "bad-op")
  -- C11 / C12: instance handle (Model/Key.lean)
  | ["kh", ty, val] => match parseKTy ty, parseVal val with
    | some kt, some v => if isStruct kt.erase && shapeOk kt.erase v then showHandle (khLine cfg kt v) else "bad-op"
    | _, _ => "bad-op"
  -- same as `kh`; the third token (the specification's key bytes, for the oracle) is ignored
  | ["khx", ty, val, _] => match parseKTy ty, parseVal val with
    | some kt, some v => if isStruct kt.erase && shapeOk kt.erase v then showHandle (khLine cfg kt v) else "bad-op"
    | _, _ => "bad-op"
  -- model only: hypotheses of C11_iff_partial / C12_rule_partial
  | ["wfk", ty, val] => match parseKTy ty, parseVal val with
    | some kt, some v => if isStruct kt.erase then (if wfKey cfg kt v then "wfk 1" else "wfk 0") else "bad-op"
    | _, _ => "bad-op"
  | ["khrt", ver, en, ty, val] => match pVer ver, pEnd en, parseKTy ty, parseVal val with
    | some ver, some e, some kt, some v =>
      if !(isStruct kt.erase && shapeOk kt.erase v) then "bad-op" else
      let hw := showHandle (khLine cfg kt v)
      if hw == "PANIC" then "PANIC" else
      -- the reader decodes the sample and derives the handle from the decoded value
      let alive : String := match serLine cfg ver e kt.erase v with
        | .inl s => s
        | .inr b => match deTop cfg kt.erase b with
          | .ok x _ => showHandle (khLine cfg kt x)
          | .err er _ => showErr er
          | .panic .alloc => "ALLOC-LIMIT"
          | .panic _ => "PANIC"
      -- dispose / unregister: the key holder is serialized and decoded with the key-holder type
      let disposed : String :=
        if !(flatIds kt).Nodup then "dup-ids" else
        match keyHolder kt v with
        | .error er => showKErr er
        | .ok kvs =>
          let kht := keyHolderTy kt
          let khv := Val.struct (entriesVals kvs)
          match serLine cfg ver e kht.erase khv with
          | .inl s => s
          | .inr b => match deTop cfg kht.erase b with
            | .ok x _ => showHandle (khLine cfg kht x)
            | .err er _ => showErr er
            | .panic .alloc => "ALLOC-LIMIT"
            | .panic _ => "PANIC"
      hw ++ " | " ++ alive ++ " | " ++ disposed
    | _, _, _, _ => "bad-op"
  -- model only: the key bytes according to the specification (big-endian XCDR1 of the key members)
  | ["keyspec", ty, val] => match parseKTy ty, parseVal val with
    | some kt, some v =>
      if !(isStruct kt.erase && shapeOk kt.erase v) then "bad-op" else
      match keyHolder kt v with
      | .ok kvs => "ok " ++ hexOf (Spec.fmembers Spec.Dialect.dust .v1 .be (entriesMs kvs) (entriesVals kvs) 0)
      | .error er => showKErr er
    | _, _ => "bad-op"
  | ["sizeof"] => s!"char={Prim.c8.memSize} string=24 dyn=48"
  | _ => "bad-op"

def bit (c : Char) : Option Bool := if c == '1' then some true else if c == '0' then some false else none

/-- engine name → configuration -/
def engineCfg (name : String) : Option Cfg :=
  if name == "xcdr" then some Cfg.fixed
  else if name == "xcdr-asis" then some Cfg.asIs
  else match name.toList with
    | 'x' :: 'c' :: 'd' :: 'r' :: ':' :: a :: b :: c :: d :: f :: g :: h :: [] =>
      match bit a, bit b, bit c, bit d, bit f, bit g, bit h with
      | some a, some b, some c, some d, some f, some g, some h => some ⟨a, b, c, d, f, g, h⟩
      | _, _, _, _, _, _, _ => none
    | _ => none

end DustVerif.Driver.XcdrEngine
