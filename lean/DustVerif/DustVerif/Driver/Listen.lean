import DustVerif.Model.Listener
import DustVerif.Driver.Util
/-! Driver of engine `listen` (C33): predicts, line by line, the canonicalised answers of the `dsim` scenario
    sub-language emitted by vlib/listen_common.py. Handles are answered `*` (wildcard); `log` is answered as the
    sorted multiset of `<owner>.<callback> src=<entity> x<count>` (count `+` for deadline callbacks, whose
    multiplicity is the subject of C30). Anything else: `bad-op`. -/
namespace DustVerif.Driver.ListenEngine
open DustVerif.Listener DustVerif.Driver

def allStatuses : List Status :=
  [.inconsistentTopic, .offeredDeadlineMissed, .requestedDeadlineMissed, .offeredIncompatibleQos,
   .requestedIncompatibleQos, .sampleLost, .sampleRejected, .dataOnReaders, .dataAvailable,
   .livelinessLost, .livelinessChanged, .publicationMatched, .subscriptionMatched]

def status? : String → Option Status
  | "inconsistent_topic" => some .inconsistentTopic
  | "offered_deadline_missed" => some .offeredDeadlineMissed
  | "requested_deadline_missed" => some .requestedDeadlineMissed
  | "offered_incompatible_qos" => some .offeredIncompatibleQos
  | "requested_incompatible_qos" => some .requestedIncompatibleQos
  | "sample_lost" => some .sampleLost
  | "sample_rejected" => some .sampleRejected
  | "data_on_readers" => some .dataOnReaders
  | "data_available" => some .dataAvailable
  | "liveliness_lost" => some .livelinessLost
  | "liveliness_changed" => some .livelinessChanged
  | "publication_matched" => some .publicationMatched
  | "subscription_matched" => some .subscriptionMatched
  | _ => none

def statuses? : List String → Option (List Status)
  | [] => some []
  | s :: r => match status? s, statuses? r with
    | some a, some b => some (a :: b)
    | _, _ => none

def mask? (s : String) : Option (List Status) :=
  if s == "none" || s == "-" then some []
  else if s == "all" then some allStatuses
  else statuses? (s.splitOn ",")

/-- split tokens into plain ones and key=value options -/
def splitKv (ts : List String) : List String × List (String × String) :=
  ts.foldr (fun t (p, kv) => match t.splitOn "=" with
    | [a, b] => (p, (a, b) :: kv)
    | _ => (t :: p, kv)) ([], [])

def look (k : String) : List (String × String) → Option String
  | [] => none
  | (a, b) :: r => if a == k then some b else look k r

def onlyKeys (allowed : List String) (kv : List (String × String)) : Bool :=
  kv.all (fun p => allowed.contains p.1)

/-- `listener=<mask>` option → slot; absent → no listener, empty mask -/
def slot? (kv : List (String × String)) : Option Slot :=
  match look "listener" kv with
  | none => some Slot.none
  | some m => (mask? m).map (fun l => { installed := true, mask := l })

def dur? (s : String) : Option (Option Nat) :=
  if s == "inf" then some none else s.toNat?.map some

def rel? : String → Option Bool
  | "reliable" => some true
  | "best_effort" => some false
  | _ => none

def insertSorted (x : String) : List String → List String
  | [] => [x]
  | y :: r => if x ≤ y then x :: y :: r else y :: insertSorted x r

def sortStrings (l : List String) : List String := l.foldl (fun acc x => insertSorted x acc) []

/-- callbacks compared as "at least one per receiver and window" -/
def repeating (line : String) : Bool :=
  ["deadline_missed"].any (fun k => (line.splitOn k).length > 1)

def countEq (x : String) (l : List String) : Nat := (l.filter (· == x)).length

def dedup : List String → List String
  | [] => []
  | x :: r => x :: (dedup r).filter (· != x)

def showLog (l : List String) : String :=
  let keys := sortStrings (dedup l)
  let items := keys.map (fun k => if repeating k then s!"{k} x+" else s!"{k} x{countEq k l}")
  if items.isEmpty then "ok 0" else s!"ok {items.length} | " ++ String.intercalate " | " items

def fresh (w : World) (n : String) : Bool := (w.find n).isNone

def kindIs (w : World) (n : String) (k : Kind) : Bool :=
  match w.find n with
  | some e => e.kind == k
  | none => false

def addEnt (w : World) (e : Ent) : World := { w with ents := w.ents ++ [e] }

def participantOfGroup (w : World) (g : String) : String :=
  match w.find g with
  | some e => e.parent
  | none => ""

def step (w : World) (line : String) : World × String :=
  match toks line with
  | ["reset"] => ({}, "ok")
  | "participant" :: rest =>
    let (p, kv) := splitKv rest
    match p, slot? kv with
    | [n], some s =>
      if fresh w n && onlyKeys ["listener"] kv then
        (iterate (addEnt w { name := n, kind := .participant, parent := "", slot := s }), "ok *")
      else (w, "bad-op")
    | _, _ => (w, "bad-op")
  | "publisher" :: rest =>
    let (p, kv) := splitKv rest
    match p, slot? kv with
    | [n, par], some s =>
      if fresh w n && kindIs w par .participant && onlyKeys ["listener"] kv then
        (iterate (addEnt w { name := n, kind := .publisher, parent := par, slot := s }), "ok *")
      else (w, "bad-op")
    | _, _ => (w, "bad-op")
  | "subscriber" :: rest =>
    let (p, kv) := splitKv rest
    match p, slot? kv with
    | [n, par], some s =>
      if fresh w n && kindIs w par .participant && onlyKeys ["listener"] kv then
        (iterate (addEnt w { name := n, kind := .subscriber, parent := par, slot := s }), "ok *")
      else (w, "bad-op")
    | _, _ => (w, "bad-op")
  | "topic" :: rest =>
    let (p, kv) := splitKv rest
    match p, slot? kv with
    | [n, par, tn, ty], some s =>
      if fresh w n && kindIs w par .participant && onlyKeys ["listener"] kv && (ty == "ki" || ty == "ni") then
        (iterate (meetTopics (addEnt w { name := n, kind := .topic, parent := par, tname := tn, ty := ty, slot := s }) n), "ok *")
      else (w, "bad-op")
    | _, _ => (w, "bad-op")
  | "writer" :: rest =>
    let (p, kv) := splitKv rest
    match p, slot? kv, (look "reliability" kv).bind rel?, dur? ((look "deadline" kv).getD "inf") with
    | [n, par, t], some s, some rel, some dl =>
      if fresh w n && kindIs w par .publisher && kindIs w t .topic
          && onlyKeys ["listener", "reliability", "deadline", "history"] kv
          && look "history" kv == some "keep_all"
          && participantOfGroup w par == participantOfGroup w t then
        let w := addEnt w { name := n, kind := .writer, parent := par, topic := t, slot := s, reliable := rel, deadline := dl }
        (iterate (meetAll (iterate w) n true), "ok *")
      else (w, "bad-op")
    | _, _, _, _ => (w, "bad-op")
  | "reader" :: rest =>
    let (p, kv) := splitKv rest
    match p, slot? kv, (look "reliability" kv).bind rel?, dur? ((look "deadline" kv).getD "inf"),
        dur? ((look "max_samples" kv).getD "inf") with
    | [n, par, t], some s, some rel, some dl, some ms =>
      if fresh w n && kindIs w par .subscriber && kindIs w t .topic
          && onlyKeys ["listener", "reliability", "deadline", "history", "max_samples", "max_spi"] kv
          && look "history" kv == some "keep_all"
          && look "max_spi" kv == look "max_samples" kv
          && participantOfGroup w par == participantOfGroup w t then
        let w := addEnt w { name := n, kind := .reader, parent := par, topic := t, slot := s, reliable := rel,
                            deadline := dl, maxSamples := ms }
        (iterate (meetAll (iterate w) n false), "ok *")
      else (w, "bad-op")
    | _, _, _, _, _ => (w, "bad-op")
  | "listeners" :: n :: m :: rest =>
    match w.find n, mask? m with
    | some e, some l =>
      if e.kind == .topic then (w, "bad-op")
      else if rest == [] then (iterate (setListener w n true l), "ok")
      else if rest == ["off"] then (iterate (setListener w n false l), "ok")
      else (w, "bad-op")
    | _, _ => (w, "bad-op")
  | ["coalesce-next", "1", "DATA", "user"] =>
    if w.coalesce then (w, "bad-op") else ({ w with coalesce := true }, "ok")
  | ["write", n, "1", v] =>
    match w.find n with
    | some e =>
      if e.kind == .writer && v.toInt?.isSome
          && (!w.coalesce || (e.matched.length == 1 && (w.stashed == none || w.stashed == some n))) then
        (iterate (writeOp (iterate w) n), "ok")
      else (w, "bad-op")
    | none => (w, "bad-op")
  | ["advance", ns] =>
    match ns.toNat? with
    | some dt => (advance w dt, "ok")
    | none => (w, "bad-op")
  | ["log"] => ({ w with log := [] }, showLog w.log)
  | ["matched", n] =>
    match w.find n with
    | some e =>
      if e.kind == .writer || e.kind == .reader then
        (iterate w, joinSp (["ok", toString e.matched.length] ++ sortStrings e.matched))
      else (w, "bad-op")
    | none => (w, "bad-op")
  | ["status", n, "inconsistent_topic"] =>
    match w.find n with
    | some e => if e.kind == .topic then (iterate w, s!"ok total={e.incons}") else (w, "bad-op")
    | none => (w, "bad-op")
  | ["read", n] =>
    match w.find n with
    | some e =>
      if e.kind == .reader then (iterate w, if e.stored == 0 then "err:NoData" else s!"ok {e.stored}") else (w, "bad-op")
    | none => (w, "bad-op")
  | _ => (w, "bad-op")

end DustVerif.Driver.ListenEngine
