import DustVerif.Driver.Time
open DustVerif.Driver

partial def loopStateless (h : IO.FS.Stream) (out : IO.FS.Stream) (f : String → String) : IO Unit := do
  let line ← h.getLine
  if line.isEmpty then return ()
  out.putStrLn (if toks line == ["reset"] then "ok" else f line)
  loopStateless h out f

def main (args : List String) : IO UInt32 := do
  let stdin ← IO.getStdin
  let stdout ← IO.getStdout
  match args with
  | ["time"] => loopStateless stdin stdout TimeEngine.step; return 0
  | _ => IO.eprintln "usage: dustmodel <engine>"; return 2
