import DustVerif.Driver.Time
import DustVerif.Driver.Hist
import DustVerif.Driver.Match
import DustVerif.Driver.Wire
import DustVerif.Driver.Tree
import DustVerif.Driver.HandleE2E
import DustVerif.Driver.GenIdl
import DustVerif.Driver.Plist
import DustVerif.Driver.Listen
import DustVerif.Driver.Worker
import DustVerif.Driver.Deadline
import DustVerif.Driver.MatchSet
import DustVerif.Driver.Spdp
import DustVerif.Driver.Chan
import DustVerif.Driver.Cond
import DustVerif.Driver.Timer
import DustVerif.Driver.Rtps
import DustVerif.Driver.Wrt
import DustVerif.Driver.CFilter
import DustVerif.Driver.Receiver
import DustVerif.Driver.AckWait
import DustVerif.Driver.Xcdr
open DustVerif.Driver

partial def loopStateless (h : IO.FS.Stream) (out : IO.FS.Stream) (f : String → String) : IO Unit := do
  let line ← h.getLine
  if line.isEmpty then return ()
  out.putStrLn (if toks line == ["reset"] then "ok" else f line)
  loopStateless h out f

partial def loopStateful {σ : Type} (h : IO.FS.Stream) (out : IO.FS.Stream) (f : σ → String → σ × String)
    (s : σ) : IO Unit := do
  let line ← h.getLine
  if line.isEmpty then return ()
  let (s', o) := f s line
  out.putStrLn o
  loopStateful h out f s'

def main (args : List String) : IO UInt32 := do
  let stdin ← IO.getStdin
  let stdout ← IO.getStdout
  match args with
  | ["time"] => loopStateless stdin stdout TimeEngine.step; return 0
  | ["wire"] => loopStateless stdin stdout WireEngine.step; return 0
  | ["match"] => loopStateless stdin stdout MatchEngine.step; return 0
  | ["tree"] => loopStateful stdin stdout TreeEngine.step TreeEngine.defaultSt; return 0
  | ["handle"] => loopStateless stdin stdout HandleEngine.step; return 0
  | ["gen"] => loopStateless stdin stdout GenEngine.step; return 0
  | ["plist"] => loopStateless stdin stdout PlistEngine.step; return 0
  | ["listen"] => loopStateful stdin stdout ListenEngine.step {}; return 0
  | ["worker"] => loopStateful stdin stdout WorkerEngine.step {}; return 0
  | ["deadline"] => loopStateful stdin stdout DeadlineEngine.step {}; return 0
  | ["matchset"] => loopStateful stdin stdout MatchSetEngine.step MatchSetEngine.DSt.init; return 0
  | ["spdp"] => loopStateful stdin stdout SpdpEngine.step SpdpEngine.DSt.init; return 0
  | ["chan"] => loopStateful stdin stdout ChanEngine.step ChanEngine.init; return 0
  | ["cond"] => loopStateful stdin stdout CondEngine.step DustVerif.Cond.Sys.init; return 0
  | ["timer"] => loopStateful stdin stdout TimerEngine.step TimerEngine.init; return 0
  | ["rtps"] => loopStateful stdin stdout RtpsEngine.step RtpsEngine.defaultSt; return 0
  | ["wrt"] => loopStateful stdin stdout WrtEngine.step WrtEngine.initSt; return 0
  | ["cfilter"] => loopStateful stdin stdout CFilterEngine.step CFilterEngine.init; return 0
  | ["fuzzdg"] => loopStateful stdin stdout ReceiverEngine.step ReceiverEngine.init; return 0
  | ["ackw"] => loopStateful stdin stdout AckWaitEngine.step AckWaitEngine.init; return 0
  | ["hist"] => loopStateful stdin stdout HistEngine.step HistEngine.defaultSt; return 0
  | [a] => match XcdrEngine.engineCfg a with
    | some cfg => loopStateless stdin stdout (XcdrEngine.step cfg); return 0
    | none => IO.eprintln "usage: dustmodel <engine>"; return 2
  | _ => IO.eprintln "usage: dustmodel <engine>"; return 2
