import DustVerif.Model.WrtWorld
import DustVerif.Driver.Util
/-! Driver of the `wrt` engine: predicts, line by line, the answers of the dsim scenario sub-language emitted by
    vlib/wrt_common.py (fixed two-participant template, one writer `w`, at most one reader `r`; see notes/w2c.md).
    Everything outside that sub-language answers `bad-op`. -/
namespace DustVerif.Driver.WrtEngine
open DustVerif.Wrt DustVerif.Driver

structure DSt where
  w : World
  phase : Nat          -- number of template lines accepted so far (0..7); 7 = writer exists
  wtl : Bool           -- the writer offers TRANSIENT_LOCAL durability (only used for the request/offered check)
  t0 : Bool            -- the optional topic t0 of the idle first writer w0 exists
  bg : Bool            -- a `write-bg` call is outstanding
  bad : Bool           -- a line was refused: the rest of the case is not predicted
deriving Repr

def initSt : DSt := { w := World.init, phase := 0, wtl := false, t0 := false, bg := false, bad := false }

def PFX : String := "b1b2b3b4a1a2a3a4"

def kv (ts : List String) (k : String) : Option String :=
  ts.findSome? (fun t => match t.splitOn "=" with
    | [a, b] => if a == k then some b else none
    | _ => none)

def allKeysIn (ts : List String) (keys : List String) : Bool :=
  ts.all (fun t => match t.splitOn "=" with
    | [a, _] => keys.contains a
    | _ => false)

def optLen (s : Option String) : Option (Option Nat) :=
  match s with
  | none => some none
  | some "inf" => some none
  | some x => (x.toNat?).map some

def optDur (s : Option String) (dflt : Option Int) : Option (Option Int) :=
  match s with
  | none => some dflt
  | some "inf" => some none
  | some x => (x.toNat?).map (fun n => some (Int.ofNat n))

def lenLe (a b : Option Nat) : Bool :=
  match a, b with
  | _, none => true
  | none, some _ => false
  | some x, some y => decide (x ≤ y)

/-- writer QoS tokens -> (Qos, transient_local); none = not in the sub-language (or inconsistent) -/
def parseWriterQos (ts : List String) : Option (Qos × Bool) := do
  if !allKeysIn ts ["reliability", "history", "max_blocking", "max_samples", "max_instances", "max_spi", "lifespan", "durability"] then none
  let rel ← match kv ts "reliability" with
    | none => some true | some "reliable" => some true | some "best_effort" => some false | _ => none
  let depth ← match kv ts "history" with
    | none => some (some 1)
    | some "keep_all" => some none
    | some h => (match h.splitOn ":" with
      | ["keep_last", n] => (n.toNat?).map some
      | _ => none)
  let mbt ← optDur (kv ts "max_blocking") (some 100000000)
  let ms ← optLen (kv ts "max_samples")
  let mi ← optLen (kv ts "max_instances")
  let mspi ← optLen (kv ts "max_spi")
  let life ← optDur (kv ts "lifespan") none
  let tl ← match kv ts "durability" with
    | none => some false | some "volatile" => some false | some "transient_local" => some true | _ => none
  -- DataWriterQos::is_consistent (qos.rs): max_samples >= max_samples_per_instance, depth <= max_samples_per_instance
  if !lenLe mspi ms then none
  if !(match depth with | some d => lenLe (some d) mspi | none => true) then none
  if depth == some 0 then none
  some ({ depth := depth, reliable := rel, maxBlocking := mbt, maxSamples := ms, maxInstances := mi, maxSpi := mspi,
          lifespan := life }, tl)

/-- reader QoS tokens -> (reliable, transient_local); history must be keep_all -/
def parseReaderQos (ts : List String) : Option (Bool × Bool) := do
  if !allKeysIn ts ["reliability", "history", "durability"] then none
  let rel ← match kv ts "reliability" with
    | none => some false | some "reliable" => some true | some "best_effort" => some false | _ => none
  if kv ts "history" != some "keep_all" then none
  let tl ← match kv ts "durability" with
    | none => some false | some "volatile" => some false | some "transient_local" => some true | _ => none
  some (rel, tl)

def showSub : Sub → String
  | .data c => s!"DATA(sn={c.sn})"
  | .gap a b => s!"GAP(start={a},base={b})"
  | .hb f l c => s!"HEARTBEAT(first={f},last={l},count={c})"

def showNats (l : List Nat) : String := "[" ++ String.intercalate "," (l.map toString) ++ "]"

def showMsg : Msg → String
  | .toReader d => joinSp (d.subs.map showSub)
  | .toWriter a => s!"ACKNACK(base={a.base},set={showNats a.set},count={a.count})"

def showTrace (e : TraceE) : String := s!"t={e.t} {showMsg e.msg} {e.fate}"

def showChange (c : Change) : String := if c.alive then s!"{c.key}:{c.val}@{c.ts}" else s!"{c.key}:-@{c.ts}"

def keyEq (k : Nat) (c : Change) : Bool := c.key == k
def keyNe (k : Nat) (c : Change) : Bool := c.key != k

/-- samples grouped by instance in order of first appearance, reception order inside an instance -/
def groupByKey : Nat → List Change → List Change
  | 0, _ => []
  | _, [] => []
  | fuel + 1, c :: cs => (c :: cs.filter (keyEq c.key)) ++ groupByKey fuel (cs.filter (keyNe c.key))

def showReply : Reply → String
  | .ok => "ok" | .outOfResources => "err:OutOfResources" | .timeout => "err:Timeout" | .error => "err:Error"

def BLOCK_FUEL : Nat := 4000       -- worker iterations a blocked write may take (200 s of virtual time)
def MAX_TIME : Int := 90000000000  -- scenarios stay below the 100 s participant lease

def T0_HANDLE : String := "000000000001000a"          -- second topic of participant P1
def W_SECOND_HANDLE : String := "0000000000010002"    -- second writer of publisher pub

def parseTs (rest : List String) : Option (Option Int) :=
  match rest with
  | [] => some none
  | [t] => (match t.splitOn "=" with
    | ["ts", x] => (x.toInt?).map some
    | _ => none)
  | _ => none

def refuse (s : DSt) : DSt × String := ({ s with bad := true }, "bad-op")

def template (s : DSt) (n : Nat) (answer : String) : DSt × String :=
  if s.phase == n && s.w.now == 0 then ({ s with phase := n + 1, w := { s.w with lastWake := 0 } }, "ok " ++ PFX ++ answer)
  else refuse s

def step (s : DSt) (line : String) : DSt × String :=
  match toks line with
  | ["reset"] => (initSt, "ok")
  | ts =>
  if s.bad then (s, "bad-op") else
  match ts with
  | [] => (s, "ok")
  | ["#", "assume-fix", "D34"] =>
    -- a comment for dsim; tells the model that the tree carries fixes/D34.patch (purge before every mail)
    if s.phase == 0 then ({ s with w := { s.w with purgeFirst := true } }, "ok") else refuse s
  | ["config", a] =>
    (match kv [a] "announce" with
     | some v => (match v.toNat? with
       | some n => if s.phase == 0 && n > 0 then ({ s with w := { s.w with annInterval := Int.ofNat n } }, "ok") else refuse s
       | none => refuse s)
     | none => refuse s)
  | ["participant", "P1"] => template s 0 "00000000000001c1"
  | ["participant", "P2"] => template s 1 "01000000000001c1"
  | ["topic", "t1", "P1", "T", "ki"] => template s 2 "000000000000000a"
  | ["topic", "t2", "P2", "T", "ki"] => template s 3 "010000000000000a"
  | ["publisher", "pub", "P1"] => template s 4 "0000000000000008"
  | ["subscriber", "sub", "P2"] => template s 5 "0100000000000009"
  | ["topic", "t0", "P1", "T0", "ki"] =>
    -- optional: the topic of an idle first writer (two writers in one participant, C29)
    if s.phase != 6 || s.t0 || s.w.now != 0 then refuse s else ({ s with t0 := true }, "ok " ++ PFX ++ T0_HANDLE)
  | "writer" :: "w0" :: "pub" :: "t0" :: qos =>
    if s.phase != 6 || !s.t0 || s.w.wr0.isSome || s.w.now != 0 then refuse s else
    (match parseWriterQos qos with
     | some (q, _) => ({ s with w := { s.w with wr0 := some (St.init q), lastWake := 0 } }, "ok " ++ PFX ++ "0000000000000002")
     | none => refuse s)
  | "writer" :: "w" :: "pub" :: "t1" :: qos =>
    if s.phase != 6 || s.w.now != 0 || (s.t0 && s.w.wr0.isNone) then refuse s else
    (match parseWriterQos qos with
     | some (q, tl) =>
       ({ s with phase := 7, wtl := tl, w := { s.w with wr := some (St.init q), lastWake := 0 } },
        "ok " ++ PFX ++ (if s.w.wr0.isSome then W_SECOND_HANDLE else "0000000000000002"))
     | none => refuse s)
  | "reader" :: "r" :: "sub" :: "t2" :: qos =>
    if s.phase != 7 || s.w.rd.isSome then refuse s else
    (match parseReaderQos qos, s.w.wr with
     | some (rel, tl), some wr =>
       -- request/offered: a reliable reader needs a reliable writer, a TRANSIENT_LOCAL reader a TRANSIENT_LOCAL writer
       if (rel && !wr.qos.reliable) || (tl && !s.wtl) then refuse s else
       -- create_datareader is a mail of its own; the SEDP exchange then matches the two endpoints
       let w1 := { (s.w.call .api) with rd := some (Rd.init rel tl) }
       let w2 := w1.call (.matchR rel tl)
       ({ s with w := w2 }, "ok " ++ PFX ++ "0100000000000007")
     | _, _ => refuse s)
  | _ =>
  if s.phase != 7 then refuse s else
  match ts with
  | "write" :: "w" :: k :: v :: rest =>
    if s.bg then refuse s else
    (match k.toNat?, v.toInt?, parseTs rest with
     | some k, some v, some tso =>
       let ts := tso.getD s.w.now
       -- DataWriterAsync::write asks the participant for the current time first (one more mail), write_w_timestamp does not
       let w0 := if tso.isNone then s.w.call .api else s.w
       let w1 := ({ w0 with reply := none }).iterate (some (.write k v ts))
       (match w1.blockUntilReply BLOCK_FUEL with
        | some w2 =>
          (match w2.reply with
           | some r => ({ s with w := { w2 with reply := none } }, showReply r)
           | none => refuse s)
        | none => refuse s)
     | _, _, _ => refuse s)
  | "write-bg" :: "w" :: k :: v :: rest =>
    -- dsim ext2 w2c: the same mails as `write`, the world settles at the current time, the call stays outstanding
    if s.bg then refuse s else
    (match k.toNat?, v.toInt?, parseTs rest with
     | some k, some v, some tso =>
       let ts := tso.getD s.w.now
       let w0 := if tso.isNone then s.w.call .api else s.w
       let w1 := (({ w0 with reply := none }).iterate (some (.write k v ts))).settle SETTLE_FUEL
       ({ s with w := w1, bg := true }, "ok")
     | _, _, _ => refuse s)
  | ["join"] =>
    if !s.bg then refuse s else
    (match s.w.blockUntilReply BLOCK_FUEL with
     | some w2 =>
       (match w2.reply with
        | some r => ({ s with w := { w2 with reply := none }, bg := false }, showReply r)
        | none => refuse s)
     | none => refuse s)
  | "unregister" :: "w" :: k :: rest =>
    (match k.toNat?, parseTs rest with
     | some k, some tso =>
       let ts := tso.getD s.w.now
       let w0 := if tso.isNone then s.w.call .api else s.w
       let w1 := w0.call (.unregister k ts)
       ({ s with w := w1 }, if w1.lastUnreg then "ok" else "err:BadParameter")
     | _, _ => refuse s)
  | ["lookup", "w", k] =>
    (match k.toNat?, s.w.wr with
     | some k, some _ =>
       let w1 := s.w.call .api
       (match w1.wr with
        | some wr => ({ s with w := w1 }, if lookup wr k then s!"ok h({k})" else "ok none")
        | none => refuse s)
     | _, _ => refuse s)
  | ["take", "r"] =>
    (match s.w.rd with
     | some _ =>
       let w1 := s.w.call .api
       (match w1.rd with
        | some r =>
          if r.cache.isEmpty then ({ s with w := w1 }, "err:NoData")
          else
            let g := groupByKey (r.cache.length + 1) r.cache
            ({ s with w := { w1 with rd := some { r with cache := [] } } },
             s!"ok {g.length} " ++ joinSp (g.map showChange))
        | none => refuse s)
     | none => refuse s)
  | ["now"] => (s, s!"ok {s.w.now}")
  | ["advance", n] =>
    (match n.toNat? with
     | some n =>
       let target := s.w.now + Int.ofNat n
       if target > MAX_TIME then refuse s else
       ({ s with w := s.w.advanceTo target (n / 1000000 + 100) }, "ok")
     | none => refuse s)
  | ["jump", n] =>
    (match n.toNat? with
     | some n => if s.w.now + Int.ofNat n > MAX_TIME then refuse s else ({ s with w := s.w.jump (Int.ofNat n) }, "ok")
     | none => refuse s)
  | ["late-release", n] =>
    (match n.toNat? with
     | some n =>
       if s.w.now + Int.ofNat n > MAX_TIME then refuse s else
       let (w1, k) := s.w.lateRelease (Int.ofNat n)
       ({ s with w := w1 }, s!"ok {k}")
     | none => refuse s)
  | ["release"] =>
    let (w1, k) := s.w.release
    ({ s with w := w1 }, s!"ok {k}")
  | ["hold", "ACKNACK", "user"] =>
    ({ s with w := { s.w with rules := s.w.rules ++ [{ drop := false, pat := .acknack, remaining := none }] } }, "ok")
  | ["drop-if", "ACKNACK", "user"] =>
    ({ s with w := { s.w with rules := s.w.rules ++ [{ drop := true, pat := .acknack, remaining := none }] } }, "ok")
  | ["drop-if", "ACKNACK", "user", t] =>
    (match (kv [t] "times") >>= String.toNat? with
     | some n => ({ s with w := { s.w with rules := s.w.rules ++ [{ drop := true, pat := .acknack, remaining := some n }] } }, "ok")
     | none => refuse s)
  | ["drop-if", "DATA", "user", t] =>
    (match (kv [t] "times") >>= String.toNat? with
     | some n => ({ s with w := { s.w with rules := s.w.rules ++ [{ drop := true, pat := .data, remaining := some n }] } }, "ok")
     | none => refuse s)
  | ["drop-next", n, "DATA", "user"] =>
    (match n.toNat? with
     | some n => ({ s with w := { s.w with rules := s.w.rules ++ [{ drop := true, pat := .data, remaining := some n }] } }, "ok")
     | none => refuse s)
  | ["drop-next", n, "ACKNACK", "user"] =>
    (match n.toNat? with
     | some n => ({ s with w := { s.w with rules := s.w.rules ++ [{ drop := true, pat := .acknack, remaining := some n }] } }, "ok")
     | none => refuse s)
  | ["hold-off"] => ({ s with w := { s.w with rules := s.w.rules.filter (fun r => r.drop) } }, "ok")
  | ["clear-faults"] => ({ s with w := { s.w with rules := [] } }, "ok")
  | ["trace", "on"] => ({ s with w := { s.w with trace := some [] } }, "ok")
  | ["trace", "off"] => ({ s with w := { s.w with trace := none } }, "ok")
  | ["trace", "show"] =>
    let l := s.w.trace.getD []
    let w1 := { s.w with trace := s.w.trace.map (fun _ => []) }
    ({ s with w := w1 }, s!"ok {l.length}" ++ (if l.isEmpty then "" else " | " ++ String.intercalate " | " (l.map showTrace)))
  | _ => refuse s

end DustVerif.Driver.WrtEngine
