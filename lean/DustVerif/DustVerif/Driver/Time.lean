import DustVerif.Model.Time
import DustVerif.Driver.Util
namespace DustVerif.Driver.TimeEngine
open DustVerif.Time DustVerif.Driver

def showDur (d : Dur) : String := s!"{d.sec} {d.ns}"
def showOpt : Option Dur → String
  | some d => showDur d
  | none => "PANIC"

/-- stateless engine: one output line per input line -/
def step (line : String) : String :=
  match toks line with
  | "fragseq" :: rest => match nats? rest with
    | some ns =>
      let (cur, outs) := ns.foldl (fun (acc : Nat × List String) n =>
        let (c, ok) := setFragmentSize acc.1 n
        (c, acc.2 ++ [if ok then s!"ok:{c}" else s!"bad:{c}"])) (FRAG_DEFAULT, [])
      joinSp (outs ++ [s!"final:{cur}"])
    | none => "bad-op"
  | ["dur_new", s, n] => match int? s, nat? n with
    | some s, some n => showDur (Dur.new s n)
    | _, _ => "bad-op"
  | ["dur_rt_beh", s, n] => match int? s, nat? n with
    | some s, some n => showDur (behToDur (durToBeh (Dur.new s n)))
    | _, _ => "bad-op"
  | ["dur_rt_msg", s, n] => match int? s, nat? n with
    | some s, some n => showDur (msgToDur (durToMsg (Dur.new s n)))
    | _, _ => "bad-op"
  | ["time_rt", s, n] => match int? s, nat? n with
    | some s, some n => showOpt (timeChain (Dur.new s n))
    | _, _ => "bad-op"
  | ["frac", n] => match nat? n with
    | some n => s!"{nanosecToFraction n} {fractionToNanosec (nanosecToFraction n)}"
    | none => "bad-op"
  | [op, s1, n1, s2, n2, s3, n3] =>
    match int? s1, nat? n1, int? s2, nat? n2, int? s3, nat? n3 with
    | some s1, some n1, some s2, some n2, some s3, some n3 =>
      let a := Dur.new s1 n1
      let b := Dur.new s2 n2
      let d := Dur.new s3 n3
      if op == "mono_add" then s!"{showDur (a.add d)} {showDur (b.add d)}"
      else if op == "mono_sub" then s!"{showDur (a.sub d)} {showDur (b.sub d)}"
      else if op == "mono_addr" then s!"{showDur (a.add b)} {showDur (a.add d)}"
      else "bad-op"
    | _, _, _, _, _, _ => "bad-op"
  | [op, s1, n1, s2, n2] => match int? s1, nat? n1, int? s2, nat? n2 with
    | some s1, some n1, some s2, some n2 =>
      let a := Dur.new s1 n1
      let b := Dur.new s2 n2
      if op == "dur_add" || op == "time_add" then showDur (a.add b)
      else if op == "dur_sub" then showDur (a.sub b)
      else if op == "time_sub" then showDur (timeSub a b)
      else "bad-op"
    | _, _, _, _ => "bad-op"
  | _ => "bad-op"

end DustVerif.Driver.TimeEngine
