import DustVerif.Model.Chan
import DustVerif.Driver.Util
/-! Line-protocol driver of the `chan` engine (C34). One one-shot, one mpsc and one notification channel per case.

    o.send v | o.drops | o.poll w | o.dropr
    m.send sid v | m.clone sid new | m.drops sid | m.poll w | m.dropr
    n.notify sid | n.clone sid new | n.drops sid | n.poll w | n.dropr
    x.one n seed | x.mpsc k n | x.notif n     (threaded stress of the real code; the model answers `ok`, which is what
                                               the C34 theorems predict for every interleaving)

  `o.send v` is the whole `OneshotSender::send(self, v)`: the send critical section followed by the implicit drop of
  `self` (two model steps); the wakes of both are reported together. -/
namespace DustVerif.Driver.ChanEngine
open DustVerif.Chan DustVerif.Driver

structure St where
  o : OneSys
  m : MpscSys
  n : NotifSys

def init : St :=
  { o := OneSys.init
    m := MpscSys.init
    n := NotifSys.init }

def wakeS (l : List Nat) : String :=
  if l.isEmpty then "wake=-" else "wake=" ++ String.intercalate "," (l.map toString)

def optL : Option Nat → List Nat
  | none => []
  | some w => [w]

def resS (withVal : Bool) : Res → String
  | .ready v => if withVal then s!"ready {v}" else "ready"
  | .closed => "closed"
  | .pending => "pending"

/-- render the output of a sender-side / ownership step; `word` names the successful action -/
def outS (word : String) (withVal : Bool) : Out → String
  | .sender true wk => s!"{word} {wakeS (optL wk)}"
  | .sender false _ => "senderr"
  | .polled r => resS withVal r
  | .unit => "ok"
  | .illegal => "gone"
  | .panic => "PANIC"

def stressOk (args : List String) (k : Nat) : String :=
  match nats? args with
  | some l => if l.length == k && l.all (fun x => 0 < x && x ≤ 100000) then "ok" else "bad-op"
  | none => "bad-op"

def step (s : St) (line : String) : St × String :=
  match toks line with
  | ["reset"] => (init, "ok")
  | ["o.send", v] => match v.toNat? with
    | some v =>
      match s.o.step (.sendCS v) with
      | (o1, .sender _ wk1) =>
        match o1.step .dropSender with
        | (o2, .sender _ wk2) => ({ s with o := o2 }, s!"sent {wakeS (optL wk1 ++ optL wk2)}")
        | (o2, _) => ({ s with o := o2 }, "bad-op")
      | (_, _) => (s, "gone")
    | none => (s, "bad-op")
  | ["o.drops"] => let (o, r) := s.o.step .dropSender; ({ s with o := o }, outS "dropped" true r)
  | ["o.poll", w] => match w.toNat? with
    | some w => let (o, r) := s.o.step (.poll w); ({ s with o := o }, outS "" true r)
    | none => (s, "bad-op")
  | ["o.dropr"] => let (o, r) := s.o.step .dropReceiver; ({ s with o := o }, outS "" true r)
  | ["m.send", sid, v] => match sid.toNat?, v.toNat? with
    | some sid, some v => let (m, r) := s.m.step (.send sid v); ({ s with m := m }, outS "sent" true r)
    | _, _ => (s, "bad-op")
  | ["m.clone", sid, new] => match sid.toNat?, new.toNat? with
    | some sid, some new => let (m, r) := s.m.step (.clone sid new); ({ s with m := m }, outS "" true r)
    | _, _ => (s, "bad-op")
  | ["m.drops", sid] => match sid.toNat? with
    | some sid =>
      -- `Drop for MpscSender` (fixes/D39.patch): the last handle closes the channel and wakes the receiver
      let (m, r) := s.m.step (.dropSender sid)
      ({ s with m := m }, outS "dropped" true r)
    | none => (s, "bad-op")
  | ["m.poll", w] => match w.toNat? with
    | some w => let (m, r) := s.m.step (.poll w); ({ s with m := m }, outS "" true r)
    | none => (s, "bad-op")
  | ["m.dropr"] => let (m, r) := s.m.step .dropReceiver; ({ s with m := m }, outS "" true r)
  | ["n.notify", sid] => match sid.toNat? with
    | some sid => let (n, r) := s.n.step (.notify sid); ({ s with n := n }, outS "notified" false r)
    | none => (s, "bad-op")
  | ["n.clone", sid, new] => match sid.toNat?, new.toNat? with
    | some sid, some new => let (n, r) := s.n.step (.clone sid new); ({ s with n := n }, outS "" false r)
    | _, _ => (s, "bad-op")
  | ["n.drops", sid] => match sid.toNat? with
    | some sid => let (n, r) := s.n.step (.dropSender sid); ({ s with n := n }, outS "dropped" false r)
    | none => (s, "bad-op")
  | ["n.poll", w] => match w.toNat? with
    | some w => let (n, r) := s.n.step (.poll w); ({ s with n := n }, outS "" false r)
    | none => (s, "bad-op")
  | ["n.dropr"] => let (n, r) := s.n.step .dropReceiver; ({ s with n := n }, outS "" false r)
  | "x.one" :: args => (s, stressOk args 2)
  | "x.mpsc" :: args => (s, stressOk args 2)
  | "x.notif" :: args => (s, stressOk args 1)
  | _ => (s, "bad-op")

end DustVerif.Driver.ChanEngine
