import DustVerif.Model.CFilter
import DustVerif.Model.ReaderHist
import DustVerif.Driver.Util
/-! Driver of the `cfilter` engine: predicts, line by line, the answers of the `dsim` scenario sub-language that
    vlib/props/C26.py emits (fixed three-participant skeleton, one writer, a reader `rf` on the content-filtered
    topic in P2 and a control reader `rc` on the plain topic in P3; datagrams to P2 are either delivered at once,
    held and re-grouped with `x-w2d merge-held`, or merged pair-wise with `coalesce-next`).
    Answers that the model does not predict: handles of created entities (`ok *`); the publication handle inside
    a sample is printed as `@w` (the comparison in C26.py substitutes the handle the implementation gave for `w`).
    Anything outside the sub-language -> `bad-op`. -/
namespace DustVerif.Driver.CFilterEngine
open DustVerif.CFilter DustVerif.Driver

inductive Ty | ki | kb | ks
deriving DecidableEq, Repr

/-- what travels with a change: the text `show` prints for the sample and the key -/
structure Tag where
  id : Int
  text : String
deriving Repr

structure St where
  pre : Nat                      -- number of skeleton lines accepted so far
  ty : Option Ty
  filter : Option Filter
  hold : Bool
  coalesce : Nat                 -- datagrams the coalesce rule still applies to
  stash : Option (Change Tag)
  held : List (Change Tag)
  rf : Hist.St
  rc : Hist.St
  dead : Bool
  fixed : Bool                   -- which loop: true = repaired code (default), false = as found (`variant asis`)
  d61 : Bool                     -- operand resolution of fixes/D61.patch (default); false with `variant asis` / `variant main`
  scft : Bool                    -- the current `cft` line was written `x-w2d s-cft` (escapes decoded)
  rejected : Bool                -- the `cft` op answered BadParameter (fixes/D60.patch): `f` and `rf` do not exist

def readerQos : Hist.Qos :=
  { depth := none
    maxSamples := none
    maxInst := none
    maxSpi := none
    bySource := false
    exclusive := false
    minSep := some 0 }

def init : St :=
  { pre := 0, ty := none, filter := none, hold := false, coalesce := 0, stash := none, held := [],
    rf := Hist.St.init readerQos true, rc := Hist.St.init readerQos true, dead := false, fixed := true, d61 := true, scft := false, rejected := false }

def inI32 (v : Int) : Bool := decide (-2147483648 ≤ v ∧ v ≤ 2147483647)

/-- instance handle as the Nat the history model wants (two's complement of the i32 key) -/
def hOf (id : Int) : Nat := (id % 4294967296).toNat
def idOf (h : Nat) : Int := if h < 2147483648 then (h : Int) else (h : Int) - 4294967296

/-- `\s` stands for a blank inside string values, filter parameters and expressions of the `ks` scenarios -/
def unesc : List Char → List Char
  | '\\' :: 's' :: r => ' ' :: unesc r
  | c :: r => c :: unesc r
  | [] => []

def isHex (s : String) : Bool :=
  s.length % 2 == 0 && s.length > 0 && s.toList.all (fun c => c.isDigit || ('a' ≤ c && c ≤ 'f'))

/-- the sample a `write` line describes, as deserialised dynamic data + printed text -/
def mkData (ty : Ty) (id : Int) (v : String) : Option (Data × String) :=
  match ty with
  | .ki => match v.toInt? with
    | some x => if inI32 x then some ([⟨"id".toList, .int id⟩, ⟨"value".toList, .int x⟩], s!"{id}:{x}") else none
    | none => none
  | .kb => if isHex v ∧ v.length ≤ 32 then some ([⟨"id".toList, .int id⟩, ⟨"value".toList, .other⟩], s!"{id}:{v}") else none
  | .ks =>
    let okc := v.toList.all (fun c => c.isAlphanum || c == '_' || c == '%' || c == '\\')
    if !okc || v.isEmpty then none
    else
      let name := if v == "%e" then [] else unesc v.toList
      some ([⟨"id".toList, .int id⟩, ⟨"name".toList, .str name⟩], s!"{id}:{v}")

def showInfo (i : Hist.Info) : String :=
  let st := match i.st with
    | .alive => "A" | .disposed => "D" | .noWriters => "W"
  let ts := match i.sts with
    | none => "-" | some n => toString n
  s!"{i.data}/{if i.read then "R" else "N"}/{if i.viewNew then "new" else "old"}/{st}/{i.dgc}/{i.nwgc}/{i.srank}/{i.grank}/{i.agrank}/{ts}/h({idOf i.inst})/@w/{if i.valid then 1 else 0}"

def showTake : Except Hist.Err (List Hist.Info) → String
  | .error .noData => "err:NoData"
  | .error .badParameter => "err:BadParameter"
  | .error .notEnabled => "err:NotEnabled"
  | .ok l => joinSp (["ok", toString l.length] ++ l.map showInfo)

/-- hand one change to `add_reader_change` of a reader -/
def addTo (h : Hist.St) (c : Change Tag) : Hist.St :=
  match c.data with
  | some _ => (Hist.addChange h 0 c.tag.text .alive (hOf c.tag.id) (some 0) 0).1
  | none => (Hist.addChange h 0 "-" .disposed (hOf c.tag.id) (some 0) 0).1

/-- one datagram with the given changes reaches P2: the batch loop of the reader on the filtered topic -/
def batchToRf (s : St) (batch : List (Change Tag)) : St × Bool :=
  let out := if s.fixed then (if s.d61 then loopFixed s.filter batch else loopFixedOld s.filter batch)
             else loopAsIsOld s.filter batch
  match out with
  | .ok l => ({ s with rf := l.foldl addTo s.rf }, false)
  | .panic l => ({ s with rf := l.foldl addTo s.rf, dead := true }, true)

/-- `x-w2d merge-held k1 k2 …`: consecutive groups of the given sizes, what is left over one by one -/
def cut : Nat → List Nat → List (Change Tag) → List (List (Change Tag))
  | 0, _, _ => []
  | _, _, [] => []
  | f + 1, [], c :: cs => [c] :: cut f [] cs
  | f + 1, k :: ks, l => l.take k :: cut f ks (l.drop k)

/-- deliver the batches one after the other; stops at the first panic; returns whether the worker died -/
def batchesToRf (s : St) : List (List (Change Tag)) → St × Bool
  | [] => (s, false)
  | b :: bs =>
    match batchToRf s b with
    | (s', true) => (s', true)
    | (s', false) => batchesToRf s' bs

/-- a DATA datagram for P2 leaves the writer: fault rules in the order dsim applies them (first matching rule) -/
def sendToP2 (s : St) (c : Change Tag) : St × Bool :=
  if s.hold then ({ s with held := s.held ++ [c] }, false)
  else if s.coalesce > 0 then
    match s.stash with
    | none => ({ s with coalesce := s.coalesce - 1, stash := some c }, false)
    | some a => batchToRf { s with coalesce := s.coalesce - 1, stash := none } [a, c]
  else batchToRf s [c]

/-- a write / dispose: the control reader in P3 gets the change at once, P2 according to the fault rules -/
def publish (s : St) (c : Change Tag) : St × String :=
  let s1 := { s with rc := addTo s.rc c }
  if s.rejected then (s1, "ok")          -- no reader on the filtered topic: nothing else happens in P2
  else match sendToP2 s1 c with
  | (s2, true) => (s2, "PANIC")
  | (s2, false) => (s2, "ok")

def skeleton (ty : Ty) (k : Nat) : Option (List String) :=
  let topic (n p : String) : List String :=
    if ty == .ks then ["x-w2d", "s-topic", n, p, "T"] else ["topic", n, p, "T", if ty == .ki then "ki" else "kb"]
  let q := ["reliability=reliable", "history=keep_all"]
  let ent (kind n parent t : String) : List String :=
    if ty == .ks then ["x-w2d", "s-" ++ kind, n, parent, t] ++ q else [kind, n, parent, t] ++ q
  match k with
  | 0 => some ["participant", "P1"]
  | 1 => some ["participant", "P2"]
  | 2 => some ["participant", "P3"]
  | 3 => some (topic "t1" "P1")
  | 4 => some (topic "t2" "P2")
  | 5 => some (topic "t3" "P3")
  | 7 => some ["publisher", "pub", "P1"]
  | 8 => some ["subscriber", "sub2", "P2"]
  | 9 => some ["subscriber", "sub3", "P3"]
  | 10 => some (ent "writer" "w" "pub" "t1")
  | 11 => some (ent "reader" "rf" "sub2" "f")
  | 12 => some (ent "reader" "rc" "sub3" "t3")
  | _ => none

def typeDesc : Ty → TypeDesc
  | .ki => [("id".toList, .int32), ("value".toList, .int32)]
  | .kb => [("id".toList, .int32), ("value".toList, .other)]
  | .ks => [("id".toList, .int32), ("name".toList, .string)]

def tyOfTopicLine : List String → Option Ty
  | ["topic", "t1", "P1", "T", "ki"] => some .ki
  | ["topic", "t1", "P1", "T", "kb"] => some .kb
  | ["x-w2d", "s-topic", "t1", "P1", "T"] => some .ks
  | _ => none

def parseParams (p : String) : List (List Char) :=
  if p == "-" then [] else (p.splitOn ",").map String.toList

def takeOp (ty : Ty) : List String → Option String
  | ["take", r] => if ty != .ks then some r else none
  | ["x-w2d", "s-take", r] => if ty == .ks then some r else none
  | _ => none

def dataStep (s : St) (ty : Ty) (ts : List String) : St × String :=
  let wr (id v : String) : St × String :=
    match id.toInt?, (id.toInt?).bind (fun i => mkData ty i v) with
    | some i, some (d, text) => if inI32 i then publish s { data := some d, tag := { id := i, text := text } } else (s, "bad-op")
    | _, _ => (s, "bad-op")
  let dis (id : String) : St × String :=
    match id.toInt? with
    | some i => if inI32 i then publish s { data := none, tag := { id := i, text := "-" } } else (s, "bad-op")
    | none => (s, "bad-op")
  match ts with
  | ["write", "w", id, v] => if ty != .ks then wr id v else (s, "bad-op")
  | ["x-w2d", "s-write", "w", id, v] => if ty == .ks then wr id v else (s, "bad-op")
  | ["dispose", "w", id] => if ty != .ks then dis id else (s, "bad-op")
  | ["x-w2d", "s-dispose", "w", id] => if ty == .ks then dis id else (s, "bad-op")
  | ["hold", "DATA", "user", "to=P2"] => ({ s with hold := true }, "ok")
  | ["coalesce-next", n, "DATA", "user", "to=P2"] =>
    match n.toNat? with
    | some n => if s.hold || s.coalesce > 0 || s.stash.isSome then (s, "bad-op") else ({ s with coalesce := 2 * n }, "ok")
    | none => (s, "bad-op")
  | "x-w2d" :: "merge-held" :: ks =>
    match nats? ks with
    | some sizes =>
      if sizes.any (· == 0) then (s, "bad-op")
      else if s.rejected then ({ s with held := [] }, "ok 0")
      else
        let groups := cut (s.held.length + 1) sizes s.held
        match batchesToRf { s with held := [] } groups with
        | (s', true) => (s', "PANIC")
        | (s', false) => (s', s!"ok {groups.length}")
    | none => (s, "bad-op")
  | ["probe", n] => if n == "P1" || n == "P2" || n == "P3" then (s, "ok") else (s, "bad-op")
  | _ =>
    match takeOp ty ts with
    | some "rf" =>
      if s.rejected then (s, "bad-op") else
      let (h, r) := Hist.readOrTake s.rf 2147483647 { ss := 3, vs := 3, is := 7 } none true
      ({ s with rf := h }, showTake r)
    | some "rc" =>
      let (h, r) := Hist.readOrTake s.rc 2147483647 { ss := 3, vs := 3, is := 7 } none true
      ({ s with rc := h }, showTake r)
    | _ => (s, "bad-op")

def step (s : St) (line : String) : St × String :=
  let ts := toks line
  if ts == ["reset"] then (init, "ok")
  else if ts == ["#", "variant", "asis"] then ({ s with fixed := false, d61 := false }, "ok")
  else if ts == ["#", "variant", "main"] then ({ s with d61 := false }, "ok")
  else if ts.isEmpty || ts.head?.any (fun t => t.startsWith "#") then (s, "ok")
  else if s.dead then (s, "POISONED")
  else if s.pre < 13 then
    if s.pre == 3 then
      match tyOfTopicLine ts with
      | some ty => ({ s with pre := 4, ty := some ty }, "ok *")
      | none => (s, "bad-op")
    else if s.pre == 6 then
      match (match ts with
             | "x-w2d" :: "s-cft" :: r => if s.ty == some Ty.ks then some (true, "cft" :: r) else none
             | _ => some (false, ts)) with
      | none => (s, "bad-op")
      | some (esc, ts) =>
      let s := { s with scft := esc }
      match ts with
      | kw :: "f" :: "P2" :: "t2" :: "F" :: p :: e :: es =>
        -- `cft …`, or for the string type `x-w2d s-cft …` (handled below by re-dispatch) with `\s` = blank
        if kw != "cft" then (s, "bad-op") else
        let esc := s.scft
        let f : Filter := { expr := if esc then unesc (joinSp (e :: es)).toList else (joinSp (e :: es)).toList,
                            params := if esc then (parseParams p).map unesc else parseParams p }
        -- the as-found variant accepts every filter (D60)
        if s.fixed && !(match s.ty with
            | some ty => if s.d61 then validate (typeDesc ty) f else validateOld (typeDesc ty) f
            | none => false) then ({ s with pre := 7, rejected := true }, "err:BadParameter")
        else ({ s with pre := 7, filter := some f }, "ok")
      | _ => (s, "bad-op")
    else
      let ty := if s.pre < 3 then some Ty.ki else s.ty
      match ty with
      | some ty =>
        if some ts == skeleton ty s.pre then
          -- the reader on a content-filtered topic that was not created: dsim does not know the name `f`
          if s.rejected && s.pre == 11 then ({ s with pre := s.pre + 1 }, "bad-op") else ({ s with pre := s.pre + 1 }, "ok *")
        else (s, "bad-op")
      | none => (s, "bad-op")
  else
    match s.ty with
    | some ty => dataStep s ty ts
    | none => (s, "bad-op")

end DustVerif.Driver.CFilterEngine
