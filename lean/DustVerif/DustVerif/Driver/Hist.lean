import DustVerif.Model.ReaderHist
import DustVerif.Driver.Util
namespace DustVerif.Driver.HistEngine
open DustVerif.Hist DustVerif.Driver

def kv (ts : List String) (k : String) : Option String :=
  ts.findSome? (fun t => match t.splitOn "=" with
    | [a, b] => if a == k then some b else none
    | _ => none)

def optNat (s : String) : Option (Option Nat) :=
  if s == "-" then some none else (s.toNat?).map some

def kindOf : String → Option Kind
  | "A" => some .alive | "F" => some .aliveFiltered | "D" => some .disposed
  | "U" => some .unregistered | "DU" => some .disposedUnregistered | _ => none
def kindS : Kind → String
  | .alive => "A" | .aliveFiltered => "F" | .disposed => "D" | .unregistered => "U" | .disposedUnregistered => "DU"
def rejS : Option Reject → String
  | none => "none" | some .samples => "samples" | some .instances => "instances" | some .spi => "spi"
def errS : Err → String
  | .noData => "err:NoData" | .badParameter => "err:BadParameter" | .notEnabled => "err:NotEnabled"
def optS : Option Nat → String
  | none => "-" | some n => toString n
def stS : IState → String
  | .alive => "A" | .disposed => "D" | .noWriters => "W"

def showInfo (i : Info) : String :=
  s!"{i.data}/{if i.read then "R" else "N"}/{if i.viewNew then "new" else "old"}/{stS i.st}/{i.dgc}/{i.nwgc}/{i.srank}/{i.grank}/{i.agrank}/{optS i.sts}/{i.inst}/{i.pub}/{if i.valid then 1 else 0}"

def showRes : Except Err (List Info) → String
  | .error e => errS e
  | .ok l => joinSp (l.map showInfo)

def parseQos (ts : List String) : Option (Qos × Bool) := do
  let d ← kv ts "depth"
  let depth ← if d == "all" then some none else (d.toNat?).map some
  let ms ← (kv ts "ms") >>= optNat
  let mi ← (kv ts "mi") >>= optNat
  let mspi ← (kv ts "mspi") >>= optNat
  let order ← kv ts "order"
  let own ← kv ts "own"
  let sep ← kv ts "minsep"
  let minSep ← if sep == "inf" then some none else (sep.toNat?).map some
  let en ← kv ts "enabled"
  some ({ depth := depth, maxSamples := ms, maxInst := mi, maxSpi := mspi, bySource := order == "src",
          exclusive := own == "excl", minSep := minSep }, en == "1")

def rn (b : Bool) : String := if b then "R" else "N"
def showSample (x : Sample) : String :=
  s!"{x.inst}:{kindS x.kind}:{x.writer}:{optS x.sts}:{rn x.read}:{x.dgc}:{x.nwgc}:{x.data}"
def showOwn (o : Own) : String := s!"{o.inst}:{o.owner}:{o.lastRecv}"
def showInst (i : Inst) : String :=
  s!"{i.h}:{if i.viewNew then "new" else "old"}:{stS i.st}:{i.dgc}:{i.nwgc}"
def dump (s : St) : String :=
  joinSp (s.samples.map showSample ++ ["|"] ++ s.insts.map showInst ++ ["|"]
    ++ s.owns.map showOwn)

def defaultQos : Qos :=
  { depth := some 1
    maxSamples := none
    maxInst := none
    maxSpi := none
    bySource := false
    exclusive := false
    minSep := some 0 }
def defaultSt : St := St.init defaultQos false

def step (s : St) (line : String) : St × String :=
  match toks line with
  | ["reset"] => (defaultSt, "ok")
  | "qos" :: rest => match parseQos rest with
    | some (q, en) => (St.init q en, "ok")
    | none => (s, "bad-op")
  | ["pub", w, st] => match w.toNat?, st.toInt? with
    | some w, some st => (addPub s w st, "ok")
    | _, _ => (s, "bad-op")
  | ["unpub", w] => match w.toNat? with
    | some w => (removePub s w, "ok")
    | none => (s, "bad-op")
  | ["add", w, inst, kind, sts, rts, data] =>
    match w.toNat?, inst.toNat?, kindOf kind, optNat sts, rts.toNat? with
    | some w, some inst, some k, some sts, some rts =>
      let (s', r) := addChange s w data k inst sts rts
      (s', match r with
        | .added => "added" | .notAdded => "notadded" | .error => "error"
        | .rejected h why => s!"rejected {h} {rejS (some why)}")
    | _, _, _, _, _ => (s, "bad-op")
  | [op, max, ss, vs, is, inst] =>
    if op == "read" || op == "take" then
      match max.toInt?, ss.toNat?, vs.toNat?, is.toNat?, optNat inst with
      | some max, some ss, some vs, some is, some inst =>
        let (s', r) := readOrTake s max { ss := ss, vs := vs, is := is } inst (op == "take")
        (s', showRes r)
      | _, _, _, _, _ => (s, "bad-op")
    else if op == "readni" || op == "takeni" then
      -- readni max prev ss vs is
      match max.toInt?, optNat ss, vs.toNat?, is.toNat?, inst.toNat? with
      | some max, some prev, some m1, some m2, some m3 =>
        let (s', r) := readTakeNextInstance s max prev { ss := m1, vs := m2, is := m3 } (op == "takeni")
        (s', showRes r)
      | _, _, _, _, _ => (s, "bad-op")
    else (s, "bad-op")
  | ["rejstatus"] =>
    let (s', r) := getRejStatus s
    (s', s!"{r.total} {r.change} {rejS r.reason} {r.inst}")
  | ["dump"] => (s, dump s)
  | _ => (s, "bad-op")

end DustVerif.Driver.HistEngine
