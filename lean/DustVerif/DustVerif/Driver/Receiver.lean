import DustVerif.Model.Receiver
import DustVerif.Driver.Util
/-! Driver of the `fuzzdg` engine (C06): predicts the answers of the dsim scenario sub-language of vlib/props/C06.py.
    Fixed skeleton (two participants, attacked reader `ra` and writer `wb` of P2, two probe pairs), `n` real samples on
    each attacked pair, then `hold from=P2` and cycles of `inject` / `inflight` / `drop-held`, then the liveness epilogue.
    The datagram of `inject` is decoded here from hex for the well-formed subset the generator emits (little-endian
    submessages with exact lengths); anything else -> `bad-op`. Not predicted: entity handles (`ok *`), datagram numbers (`#*`). -/
namespace DustVerif.Driver.ReceiverEngine
open DustVerif.Receiver DustVerif.Driver

/-! ### hex and little-endian readers -/

def hexVal (c : Char) : Option Nat :=
  if '0' ≤ c ∧ c ≤ '9' then some (c.toNat - '0'.toNat)
  else if 'a' ≤ c ∧ c ≤ 'f' then some (c.toNat - 'a'.toNat + 10)
  else none

def unhex : List Char → Option (List Nat)
  | [] => some []
  | [_] => none
  | a :: b :: r => match hexVal a, hexVal b, unhex r with
    | some x, some y, some l => some ((x * 16 + y) :: l)
    | _, _, _ => none

def le (bs : List Nat) : Nat := bs.foldr (fun b acc => b + 256 * acc) 0
def be (bs : List Nat) : Nat := bs.foldl (fun acc b => acc * 256 + b) 0

def u16 (bs : List Nat) : Option (Nat × List Nat) := if bs.length ≥ 2 then some (le (bs.take 2), bs.drop 2) else none
def u32 (bs : List Nat) : Option (Nat × List Nat) := if bs.length ≥ 4 then some (le (bs.take 4), bs.drop 4) else none
def i32 (bs : List Nat) : Option (Int × List Nat) :=
  match u32 bs with
  | some (v, r) => some (if v < 2147483648 then (v : Int) else (v : Int) - 4294967296, r)
  | none => none
def eid (bs : List Nat) : Option (Nat × List Nat) := if bs.length ≥ 4 then some (be (bs.take 4), bs.drop 4) else none
/-- SequenceNumber: high i32, low u32 -/
def sn64 (bs : List Nat) : Option (Int × List Nat) :=
  match i32 bs with
  | some (h, r) => match u32 r with
    | some (l, r2) => some (h * 4294967296 + (l : Int), r2)
    | none => none
  | none => none

/-- offsets of the set bits of the bitmap words (bit i of the set = mask `1 << (31 - i % 32)` of word `i / 32`) -/
def bitsOf (words : List Nat) : List Nat :=
  (List.range (words.length * 32)).filter (fun i => (words.getD (i / 32) 0 / 2 ^ (31 - i % 32)) % 2 == 1)

def readWords : Nat → List Nat → Option (List Nat × List Nat)
  | 0, bs => some ([], bs)
  | n + 1, bs => match u32 bs with
    | some (w, r) => match readWords n r with
      | some (ws, r2) => some (w :: ws, r2)
      | none => none
    | none => none

/-- SequenceNumberSet: `none` = not parseable here, `some (none, rest)` = the decoder's InvalidData (numBits > 256) -/
def snSet (bs : List Nat) : Option (Option SnSet × List Nat) :=
  match sn64 bs with
  | some (base, r) => match u32 r with
    | some (nb, r2) =>
      if nb > 256 then some (none, r2)
      else match readWords ((nb + 31) / 32) r2 with
        | some (ws, r3) => some (some { base := base, numBits := nb, bits := (bitsOf ws).filter (· < nb) }, r3)
        | none => none
    | none => none
  | none => none

def fnSet (bs : List Nat) : Option (FnSetRaw × List Nat) :=
  match u32 bs with
  | some (base, r) => match u32 r with
    | some (nb, r2) => match readWords (min ((nb + 31) / 32) 8) r2 with
      | some (ws, r3) => some ({ base := base, numBits := nb, bits := bitsOf ws }, r3)
      | none => none
    | none => none
  | none => none

/-- one submessage body (little-endian, flags already split); `some none` = dropped by the decoder -/
def decodeBody (sid flags : Nat) (b : List Nat) : Option (Option Sub) :=
  let fl (i : Nat) : Bool := (flags / 2 ^ i) % 2 == 1
  match sid with
  | 0x01 => some (some .pad)
  | 0x09 => if fl 1 then (if b.isEmpty then some (some (.infoTs true 0 0)) else none)
            else match u32 b with
              | some (s, r) => match u32 r with
                | some (f, []) => some (some (.infoTs false s f))
                | _ => none
              | none => none
  | 0x0e => if b.length = 12 then some (some (.infoDst b)) else none
  | 0x0c => if b.length = 20 then some (some (.infoSrc (b.drop 8))) else none
  | 0x0f =>
    -- InfoReplySubmessage::try_from_bytes: numLocators (from the wire) locators of 24 octets, a second list with the
    -- MulticastFlag; the reader only sees the submessage's own octets (D-wire-3): when they run out the submessage is
    -- dropped and decoding goes on with the next one; octets left over are ignored
    match u32 b with
    | some (n, r) =>
      if r.length < 24 * n then some none
      else if !fl 1 then some (some .infoReply)
      else match u32 (r.drop (24 * n)) with
        | some (m, r2) => if r2.length < 24 * m then some none else some (some .infoReply)
        | none => some none
    | none => some none
  | 0x07 => match eid b with
    | some (rd, r1) => match eid r1 with
      | some (wr, r2) => match sn64 r2 with
        | some (f, r3) => match sn64 r3 with
          | some (l, r4) => match i32 r4 with
            | some (c, []) => some (some (.heartbeat rd wr f l c (fl 1) (fl 2)))
            | _ => none
          | none => none
        | none => none
      | none => none
    | none => none
  | 0x13 => match eid b with
    | some (rd, r1) => match eid r1 with
      | some (wr, r2) => match sn64 r2 with
        | some (s, r3) => match u32 r3 with
          | some (lf, r4) => match i32 r4 with
            | some (c, []) => some (some (.hbFrag rd wr s lf c))
            | _ => none
          | none => none
        | none => none
      | none => none
    | none => none
  | 0x08 => match eid b with
    | some (rd, r1) => match eid r1 with
      | some (wr, r2) => match sn64 r2 with
        | some (st, r3) => match snSet r3 with
          | some (some set, []) => some (some (.gap rd wr st set))
          | some (none, _) => some none
          | _ => none
        | none => none
      | none => none
    | none => none
  | 0x06 => match eid b with
    | some (rd, r1) => match eid r1 with
      | some (wr, r2) => match snSet r2 with
        | some (some set, r3) => match i32 r3 with
          | some (c, []) => some (some (.ackNack rd wr set c))
          | _ => none
        | some (none, _) => some none
        | none => none
      | none => none
    | none => none
  | 0x12 => match eid b with
    | some (rd, r1) => match eid r1 with
      | some (wr, r2) => match sn64 r2 with
        | some (s, r3) => match fnSet r3 with
          | some (set, r4) => match i32 r4 with
            | some (c, []) => some (some (.nackFrag rd wr s set c))
            | _ => none
          | none => none
        | none => none
      | none => none
    | none => none
  | 0x15 =>
    -- extraFlags, octetsToInlineQos = 16, reader, writer, sn, payload; no inline QoS
    if fl 1 then none
    else match u16 b with
      | some (_, r0) => match u16 r0 with
        | some (16, r1) => match eid r1 with
          | some (rd, r2) => match eid r2 with
            | some (wr, r3) => match sn64 r3 with
              | some (s, pl) => some (some (.data rd wr s pl))
              | none => none
            | none => none
          | none => none
        | _ => none
      | none => none
  | 0x16 =>
    if fl 1 ∨ b.length < 32 then none
    else match u16 b with
      | some (_, r0) => match u16 r0 with
        | some (28, r1) => match eid r1 with
          | some (rd, r2) => match eid r2 with
            | some (wr, r3) => match sn64 r3 with
              | some (s, r4) => match u32 r4 with
                | some (st, r5) => match u16 r5 with
                  | some (n, r6) => match u16 r6 with
                    | some (fs, r7) => match u32 r7 with
                      | some (ds, pl) => some (some (.dataFrag rd wr s st n fs ds pl))
                      | none => none
                    | none => none
                  | none => none
                | none => none
              | none => none
            | none => none
          | none => none
        | _ => none
      | none => none
  | _ => some none        -- unknown submessage id: skipped by the decoder

def decodeSubs (g : Guards) : Nat → List Nat → Option (List Sub)
  | 0, _ => none
  | _, [] => some []
  | fuel + 1, sid :: flags :: l0 :: l1 :: rest =>
    let len := l0 + 256 * l1
    let known := [0x01, 0x06, 0x07, 0x08, 0x09, 0x0c, 0x0e, 0x0f, 0x12, 0x13, 0x15, 0x16].contains sid
    -- a zero length on a known kind means "up to the end" (DATA / DATA_FRAG) or reads past the submessage: not in the sub-language
    if flags % 2 ≠ 1 ∨ rest.length < len ∨ (len = 0 ∧ known ∧ sid ≠ 0x01 ∧ !(sid = 0x09 ∧ (flags / 2) % 2 = 1)) then none
    -- main (D-wire-3): a zero length on any kind but PAD / INFO_TS extends the submessage to the end of the message
    else if len = 0 ∧ !known ∧ g.dw3 then some []
    else match decodeBody sid flags (rest.take len), decodeSubs g fuel (rest.drop len) with
      | some (some s), some l => some (s :: l)
      | some none, some l => some l
      | _, _ => none
  | _, _ => none

/-- header: "RTPS", version, vendor, 12-octet prefix -/
def decodeDatagram (g : Guards) (bs : List Nat) : Option (Prefix × List Sub) :=
  if bs.length < 20 ∨ bs.take 4 ≠ [0x52, 0x54, 0x50, 0x53] then none
  else match decodeSubs g (bs.length + 1) (bs.drop 20) with
    | some l => some ((bs.drop 8).take 12, l)
    | none => none

/-! ### canonical text of the replies (as `dsim` prints held datagrams) -/

def hex2 (n : Nat) : String := String.ofList [Nat.digitChar (n / 16), Nat.digitChar (n % 16)]
def eidS (e : Nat) : String := hex2 (e / 16777216 % 256) ++ hex2 (e / 65536 % 256) ++ hex2 (e / 256 % 256) ++ hex2 (e % 256)
def listS {α : Type} [ToString α] (l : List α) : String := "[" ++ String.intercalate ", " (l.map toString) ++ "]"

def replyS (ids : Ids) : Reply → String
  | .ackNack base set count nf =>
    let a := s!"INFO_DST ACKNACK(w={eidS ids.wa},r=00000007,base={base},set={listS set},count={count})"
    match nf with
    | none => a
    | some (s, b, set, c) => a ++ s!" NACK_FRAG(w={eidS ids.wa},sn={s},base={b},set={listS set},count={c})"
  | .dataHb w s f l hb => s!"INFO_DST INFO_TS DATA(w={eidS w},r={eidS (if w == ids.wb then ids.rb else ids.rqId)},sn={s},len=12) HEARTBEAT(w={eidS w},first={f},last={l},count={hb},final=0)"
  | .dataFrag0 w s => s!"INFO_DST INFO_TS DATA_FRAG(w={eidS w},sn={s},frag=1+1,fsize=1344,size=12)"
  | .gap w s b => s!"INFO_DST GAP(w={eidS w},start={s},base={b},set=[])"

/-! ### scenario state -/

structure St where
  pre : Nat
  na : Nat
  nb : Nat
  hold : Bool
  epi : Nat              -- epilogue lines accepted
  v : Victim
  held : List Reply
  guards : Guards
  dead : Bool
  hang : Bool

def ids : Ids :=
  { peer := [0xb1, 0xb2, 0xb3, 0xb4, 0xa1, 0xa2, 0xa3, 0xa4, 0, 0, 0, 0], wa := 0x00000002, rb := 0x00000007, wb := 0x00000002,
    rqId := 0x00010007, wq := 0x00010002 }

def victim0 (na nb : Nat) : Victim :=
  { wp := { first := 1, last := na, highest := na, hbCount := na, hbFragCount := 0, mustAck := false, ackCount := na, nfCount := 0, frags := [] }
    rp := { lastAck := nb, lastNackFrag := 0, highestAcked := nb, requested := [], hbCount := nb }
    wbLast := nb
    rq := { lastAck := 0, lastNackFrag := 0, highestAcked := 0, requested := [], hbCount := 0 }
    delivered := []
    replies := []
    steps := 0 }

def init : St :=
  { pre := 0, na := 0, nb := 0, hold := false, epi := 0, v := victim0 0 0, held := [], guards := Guards.all, dead := false, hang := false }

def q : List String := ["reliability=reliable", "history=keep_all"]

def skeleton : List (List String) :=
  [["participant", "P1"], ["participant", "P2"],
   ["topic", "a1", "P1", "A", "ki"], ["topic", "a2", "P2", "A", "ki"], ["topic", "b1", "P1", "B", "ki"], ["topic", "b2", "P2", "B", "ki"],
   ["topic", "q1", "P1", "Q", "ki"], ["topic", "q2", "P2", "Q", "ki"], ["topic", "r1", "P1", "R", "ki"], ["topic", "r2", "P2", "R", "ki"],
   ["publisher", "pub1", "P1"], ["subscriber", "sub1", "P1"], ["publisher", "pub2", "P2"], ["subscriber", "sub2", "P2"],
   ["writer", "wa", "pub1", "a1"] ++ q, ["reader", "ra", "sub2", "a2"] ++ q, ["writer", "wb", "pub2", "b2"] ++ q, ["reader", "rb", "sub1", "b1"] ++ q,
   ["writer", "wp", "pub1", "q1"] ++ q, ["reader", "rp", "sub2", "q2"] ++ q, ["writer", "wq", "pub2", "r2"] ++ q, ["reader", "rq", "sub1", "r1"] ++ q]

def epilogue : List (List String × String) :=
  [(["clear-faults"], "ok"), (["write", "wp", "9", "9"], "ok"), (["take", "rp"], "ok 1 9:9/N/new/A/0/0/0/0/0/0/h(9)/@wp/1"),
   (["wait-ack", "wp", "1000000000"], "ok"), (["write", "wq", "8", "8"], "ok"), (["take", "rq"], "ok 1 8:8/N/new/A/0/0/0/0/0/0/h(8)/@wq/1"),
   (["wait-ack", "wq", "1000000000"], "ok"), (["probe", "P2"], "ok")]

def inflightS (l : List Reply) : String :=
  if l.isEmpty then "ok 0"
  else s!"ok {l.length} | " ++ String.intercalate " | " (l.map (fun r => s!"#* t=0 from=1 to=7411 {replyS ids r} held"))

def step (s : St) (line : String) : St × String :=
  let ts := toks line
  if ts == ["reset"] then (init, "ok")
  else if ts == ["#", "variant", "asis"] then ({ s with guards := Guards.none }, "ok")
  else if ts == ["#", "variant", "main"] then ({ s with guards := Guards.main }, "ok")
  else if ts.isEmpty || ts.head?.any (fun t => t.startsWith "#") then (s, "ok")
  else if s.dead then (s, "POISONED")
  else if s.pre < skeleton.length then
    if some ts == skeleton[s.pre]? then ({ s with pre := s.pre + 1 }, "ok *") else (s, "bad-op")
  else if s.epi > 0 then
    match epilogue[s.epi]? with
    | some (l, a) => if ts == l then ({ s with epi := s.epi + 1 }, a) else (s, "bad-op")
    | none => (s, "bad-op")
  else
    match ts with
    | ["write", "wa", a, b] =>
      if !s.hold && s.nb == 0 && a == toString (s.na + 1) && b == a then
        ({ s with na := s.na + 1, v := victim0 (s.na + 1) 0 }, "ok") else (s, "bad-op")
    | ["write", "wb", a, b] =>
      if !s.hold && a == toString (s.nb + 1) && b == a then
        ({ s with nb := s.nb + 1, v := victim0 s.na (s.nb + 1) }, "ok") else (s, "bad-op")
    | ["hold", "from=P2"] => if s.hold then (s, "bad-op") else ({ s with hold := true }, "ok")
    | [op, "P1", "P2", port, h] =>
      -- `x-w2d-inject` = `inject` with the allocation observation of the dsim extension (same answers on a healthy tree)
      if op != "inject" && op != "x-w2d-inject" then (s, "bad-op") else
      if port != "user" && port != "meta" then (s, "bad-op")
      else match (unhex h.toList).bind (decodeDatagram s.guards) with
        | none => (s, "bad-op")
        | some (hdr, subs) =>
          match handleDatagram s.guards ids { s.v with replies := [], steps := 0 } hdr subs with
          | none => ({ s with dead := true }, "PANIC")
          | some v' =>
            if v'.steps > 4294967296 then ({ s with dead := true, hang := true }, "HANG")
            else ({ s with v := v', held := if s.hold then s.held ++ v'.replies else s.held }, "ok #*")
    | ["inflight"] => if s.hold then (s, inflightS s.held) else (s, "bad-op")
    | ["drop-held"] => if s.hold then ({ s with held := [] }, s!"ok {s.held.length}") else (s, "bad-op")
    | ["clear-faults"] => if s.held.isEmpty then ({ s with epi := 1, hold := false }, "ok") else (s, "bad-op")
    | _ => (s, "bad-op")

end DustVerif.Driver.ReceiverEngine
