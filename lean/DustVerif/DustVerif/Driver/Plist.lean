import DustVerif.Model.Plist
import DustVerif.Driver.Util
/-! Line-protocol driver of the engine `plist` (same ops and canonical output as harness/src/bin/plist.rs):
      enc <kind> <field=value ...> [fix=..]  -> hex of intoBytes
      dec <kind> <hex> [fix=..]              -> `ok field=value ...` | `err:<kind>` | PANIC | ALLOC-LIMIT
    `fix=11,13,p1` names the repairs the tree under test carries (11 = D11, 13 = D13, p1 = D-plist-1; default: all). -/
namespace DustVerif.Driver.PlistEngine
open DustVerif.Plist DustVerif.Driver

def hexDigit (n : Nat) : Char := if n < 10 then Char.ofNat (48 + n) else Char.ofNat (87 + n)

def hexOf (b : Bytes) : String :=
  if b.isEmpty then "-" else String.ofList (b.flatMap (fun x => [hexDigit (x / 16), hexDigit (x % 16)]))

def nib? (c : Char) : Option Nat :=
  if '0' ≤ c ∧ c ≤ '9' then some (c.toNat - 48)
  else if 'a' ≤ c ∧ c ≤ 'f' then some (c.toNat - 87)
  else none

def unhexL : List Char → Option Bytes
  | [] => some []
  | a :: b :: r => match nib? a, nib? b, unhexL r with
    | some x, some y, some l => some ((16 * x + y) :: l)
    | _, _, _ => none
  | _ => none

def unhex? (s : String) : Option Bytes := if s == "-" then some [] else unhexL s.toList

/-- shapes of the textual field values -/
inductive Shape
  | bytesN (n : Nat)   -- fixed-length hex
  | bytes              -- hex, `-` = empty
  | optInt             -- `-` or i32
  | int
  | nat
  | bool
  | dur                -- sec:nsec
  | kindDur            -- kind,sec:nsec
  | tuple (n : Nat) (firstInt : Bool)   -- comma separated: ints (kind first) then bools, or n ints
  | ints (n : Nat)
  | strs
  | u16s
  | locs
  | eid
  | ti

def i32? (s : String) : Option Int := match s.toInt? with
  | some i => if -2147483648 ≤ i ∧ i ≤ 2147483647 then some i else none
  | none => none
def u32? (s : String) : Option Nat := match s.toNat? with
  | some n => if n < 4294967296 then some n else none
  | none => none
def bool? : String → Option Bool
  | "0" => some false | "1" => some true | _ => none

def dur? (s : String) : Option (List PVal) := match s.splitOn ":" with
  | [a, b] => match i32? a, u32? b with
    | some x, some y => some [.i x, .n y]
    | _, _ => none
  | _ => none

def mapM? {α β : Type} (f : α → Option β) : List α → Option (List β)
  | [] => some []
  | a :: r => match f a, mapM? f r with
    | some x, some l => some (x :: l)
    | _, _ => none

def loc? (s : String) : Option (List PVal) := match s.splitOn ":" with
  | [a, b, c] => match i32? a, u32? b, unhex? c with
    | some x, some y, some z => if z.length == 16 then some [.i x, .n y, .bs z] else none
    | _, _, _ => none
  | _ => none

def str1? (s : String) : Option Bytes :=
  match s.toList with
  | 's' :: r => unhexL r
  | _ => none

def u16? (s : String) : Option Nat := match s.toNat? with
  | some n => if n < 65536 then some n else none
  | none => none

def parseVal (sh : Shape) (s : String) : Option FVal :=
  match sh with
  | .bytesN n => match unhex? s with
    | some b => if b.length == n then some (.one [.bs b]) else none
    | none => none
  | .bytes => (unhex? s).map (fun b => .one [.bs b])
  | .optInt => if s == "-" then some (.opt none) else (i32? s).map (fun i => .opt (some [.i i]))
  | .int => (i32? s).map (fun i => .one [.i i])
  | .nat => (u32? s).map (fun i => .one [.n i])
  | .bool => (bool? s).map (fun b => .one [.b b])
  | .dur => (dur? s).map .one
  | .kindDur => match s.splitOn "," with
    | [k, d] => match i32? k, dur? d with
      | some x, some l => some (.one (.i x :: l))
      | _, _ => none
    | _ => none
  | .tuple n _ => match s.splitOn "," with
    | k :: bs => match i32? k, mapM? bool? bs with
      | some x, some l => if l.length + 1 == n then some (.one (.i x :: l.map .b)) else none
      | _, _ => none
    | _ => none
  | .ints n => match mapM? i32? (s.splitOn ",") with
    | some l => if l.length == n then some (.one (l.map .i)) else none
    | none => none
  | .strs => if s == "-" then some (.one [.ss []]) else (mapM? str1? (s.splitOn ",")).map (fun l => .one [.ss l])
  | .u16s => if s == "-" then some (.one [.ns []]) else (mapM? u16? (s.splitOn ",")).map (fun l => .one [.ns l])
  | .locs => if s == "-" then some (.many []) else (mapM? loc? (s.splitOn ",")).map .many
  | .eid => match unhex? s with
    | some [a, b, c, d] => some (.one [.bs [a, b, c], .n d])
    | _ => none
  | .ti => if s == "-" then some (.blob none) else (unhex? s).map (fun b => .blob (some b))

def showB (b : Bool) : String := if b then "1" else "0"

def showP : PVal → String
  | .n v => toString v
  | .i v => toString v
  | .b v => showB v
  | .bs v => hexOf v
  | .ss _ => "?"
  | .ns _ => "?"

def showStr1 (s : Bytes) : String := if s.isEmpty then "s" else "s" ++ hexOf s

def showLoc : List PVal → String
  | [.i k, .n p, .bs a] => s!"{k}:{p}:{hexOf a}"
  | _ => "?"

def showVal (sh : Shape) (v : FVal) : String :=
  match sh, v with
  | .bytesN _, .one [.bs b] => hexOf b
  | .bytes, .one [.bs b] => hexOf b
  | .optInt, .opt none => "-"
  | .optInt, .opt (some [.i x]) => toString x
  | .int, .one [.i x] => toString x
  | .nat, .one [.n x] => toString x
  | .bool, .one [.b x] => showB x
  | .dur, .one [.i s, .n n] => s!"{s}:{n}"
  | .kindDur, .one [.i k, .i s, .n n] => s!"{k},{s}:{n}"
  | .tuple _ _, .one l => String.intercalate "," (l.map showP)
  | .ints _, .one l => String.intercalate "," (l.map showP)
  | .strs, .one [.ss l] => if l.isEmpty then "-" else String.intercalate "," (l.map showStr1)
  | .u16s, .one [.ns l] => if l.isEmpty then "-" else String.intercalate "," (l.map toString)
  | .locs, .many l => if l.isEmpty then "-" else String.intercalate "," (l.map showLoc)
  | .eid, .one [.bs k, .n d] => hexOf (k ++ [d])
  | .ti, .blob none => "-"
  | .ti, .blob (some b) => hexOf b
  | _, _ => "?"

/-- a field of the textual record: name, pid (0 = derived from the key), shape, default -/
structure TField where
  name : String
  pid : Nat
  sh : Shape
  dflt : FVal

def kKey : FVal := .one dKey0
def kEmpty : FVal := .one dEmpty

def tParticipant : List TField := [
  ⟨"key", PID_PARTICIPANT_GUID, .bytesN 16, kKey⟩,
  ⟨"ud", PID_USER_DATA, .bytes, kEmpty⟩,
  ⟨"did", PID_DOMAIN_ID, .optInt, .opt none⟩,
  ⟨"tag", PID_DOMAIN_TAG, .bytes, kEmpty⟩,
  ⟨"pv", PID_PROTOCOL_VERSION, .bytesN 2, .one [.bs [2, 4]]⟩,
  ⟨"gp", 0, .bytesN 12, .one [.bs []]⟩,
  ⟨"vid", PID_VENDORID, .bytesN 2, .one [.bs [0, 0]]⟩,
  ⟨"eiq", PID_EXPECTS_INLINE_QOS, .bool, .one [.b false]⟩,
  ⟨"mul", PID_METATRAFFIC_UNICAST_LOCATOR, .locs, .many []⟩,
  ⟨"mml", PID_METATRAFFIC_MULTICAST_LOCATOR, .locs, .many []⟩,
  ⟨"dul", PID_DEFAULT_UNICAST_LOCATOR, .locs, .many []⟩,
  ⟨"dml", PID_DEFAULT_MULTICAST_LOCATOR, .locs, .many []⟩,
  ⟨"bes", PID_BUILTIN_ENDPOINT_SET, .nat, .one [.n 0]⟩,
  ⟨"mlc", PID_PARTICIPANT_MANUAL_LIVELINESS_COUNT, .int, .one [.i 0]⟩,
  ⟨"beq", PID_BUILTIN_ENDPOINT_QOS, .nat, .one [.n 0]⟩,
  ⟨"lease", PID_PARTICIPANT_LEASE_DURATION, .dur, .one dLease⟩]

def tEndpointHead : List TField := [
  ⟨"key", PID_ENDPOINT_GUID, .bytesN 16, kKey⟩,
  ⟨"pkey", PID_PARTICIPANT_GUID, .bytesN 16, kKey⟩,
  ⟨"tn", PID_TOPIC_NAME, .bytes, kEmpty⟩,
  ⟨"ty", PID_TYPE_NAME, .bytes, kEmpty⟩,
  ⟨"ti", PID_TYPE_INFORMATION, .ti, .blob none⟩,
  ⟨"dur", PID_DURABILITY, .int, .one [.i 0]⟩,
  ⟨"dl", PID_DEADLINE, .dur, .one dInf⟩,
  ⟨"lb", PID_LATENCY_BUDGET, .dur, .one dZero⟩,
  ⟨"liv", PID_LIVELINESS, .kindDur, .one dLiv⟩]

def tPublication : List TField := tEndpointHead ++ [
  ⟨"rel", PID_RELIABILITY, .kindDur, .one dRelWriter⟩,
  ⟨"ls", PID_LIFESPAN, .dur, .one dInf⟩,
  ⟨"ud", PID_USER_DATA, .bytes, kEmpty⟩,
  ⟨"own", PID_OWNERSHIP, .int, .one [.i 0]⟩,
  ⟨"ost", PID_OWNERSHIP_STRENGTH, .int, .one [.i 0]⟩,
  ⟨"dord", PID_DESTINATION_ORDER, .int, .one [.i 0]⟩,
  ⟨"pres", PID_PRESENTATION, .tuple 3 true, .one dPres⟩,
  ⟨"part", PID_PARTITION, .strs, .one [.ss []]⟩,
  ⟨"td", PID_TOPIC_DATA, .bytes, kEmpty⟩,
  ⟨"gd", PID_GROUP_DATA, .bytes, kEmpty⟩,
  ⟨"repr", PID_DATA_REPRESENTATION, .u16s, .one [.ns []]⟩,
  ⟨"rwg", 0, .bytesN 16, .one [.bs []]⟩,
  ⟨"geid", PID_GROUP_ENTITYID, .eid, .one dEntityUnknown⟩,
  ⟨"ul", PID_UNICAST_LOCATOR, .locs, .many []⟩,
  ⟨"ml", PID_MULTICAST_LOCATOR, .locs, .many []⟩]

def tSubscription : List TField := tEndpointHead ++ [
  ⟨"rel", PID_RELIABILITY, .kindDur, .one dRelReader⟩,
  ⟨"own", PID_OWNERSHIP, .int, .one [.i 0]⟩,
  ⟨"dord", PID_DESTINATION_ORDER, .int, .one [.i 0]⟩,
  ⟨"ud", PID_USER_DATA, .bytes, kEmpty⟩,
  ⟨"tbf", PID_TIME_BASED_FILTER, .dur, .one dZero⟩,
  ⟨"pres", PID_PRESENTATION, .tuple 3 true, .one dPres⟩,
  ⟨"part", PID_PARTITION, .strs, .one [.ss []]⟩,
  ⟨"td", PID_TOPIC_DATA, .bytes, kEmpty⟩,
  ⟨"gd", PID_GROUP_DATA, .bytes, kEmpty⟩,
  ⟨"repr", PID_DATA_REPRESENTATION, .u16s, .one [.ns []]⟩,
  ⟨"tce", PID_TYPE_CONSISTENCY_ENFORCEMENT, .tuple 6 true, .one dTce⟩,
  ⟨"rrg", 0, .bytesN 16, .one [.bs []]⟩,
  ⟨"geid", PID_GROUP_ENTITYID, .eid, .one dEntityUnknown⟩,
  ⟨"ul", PID_UNICAST_LOCATOR, .locs, .many []⟩,
  ⟨"ml", PID_MULTICAST_LOCATOR, .locs, .many []⟩,
  ⟨"eiq", PID_EXPECTS_INLINE_QOS, .bool, .one [.b false]⟩]

def tTopic : List TField := [
  ⟨"key", PID_ENDPOINT_GUID, .bytesN 16, kKey⟩,
  ⟨"tn", PID_TOPIC_NAME, .bytes, kEmpty⟩,
  ⟨"ty", PID_TYPE_NAME, .bytes, kEmpty⟩,
  ⟨"ti", PID_TYPE_INFORMATION, .ti, .blob none⟩,
  ⟨"dur", PID_DURABILITY, .int, .one [.i 0]⟩,
  ⟨"dl", PID_DEADLINE, .dur, .one dInf⟩,
  ⟨"lb", PID_LATENCY_BUDGET, .dur, .one dZero⟩,
  ⟨"liv", PID_LIVELINESS, .kindDur, .one dLiv⟩,
  ⟨"rel", PID_RELIABILITY, .kindDur, .one dRelReader⟩,
  ⟨"tp", PID_TRANSPORT_PRIORITY, .int, .one [.i 0]⟩,
  ⟨"ls", PID_LIFESPAN, .dur, .one dInf⟩,
  ⟨"dord", PID_DESTINATION_ORDER, .int, .one [.i 0]⟩,
  ⟨"hist", PID_HISTORY, .ints 2, .one dHist⟩,
  ⟨"rl", PID_RESOURCE_LIMITS, .ints 3, .one dLimits⟩,
  ⟨"own", PID_OWNERSHIP, .int, .one [.i 0]⟩,
  ⟨"td", PID_TOPIC_DATA, .bytes, kEmpty⟩,
  ⟨"repr", PID_DATA_REPRESENTATION, .u16s, .one [.ns []]⟩]

structure Kind where
  tf : List TField
  enc : List EncField
  dec : List DecField

def kind? : String → Option Kind
  | "participant" => some ⟨tParticipant, participantEnc, participantDec⟩
  | "publication" => some ⟨tPublication, publicationEnc, publicationDec⟩
  | "subscription" => some ⟨tSubscription, subscriptionEnc, subscriptionDec⟩
  | "topic" => some ⟨tTopic, topicEnc, topicDec⟩
  | _ => none

def lookKV (k : String) : List (String × String) → Option String
  | [] => none
  | (a, b) :: r => if a == k then some b else lookKV k r

def kvs (ts : List String) : List (String × String) :=
  ts.filterMap (fun t => match t.splitOn "=" with
    | [a, b] => some (a, b)
    | _ => none)

def cfgOf (m : List (String × String)) : Cfg :=
  match lookKV "fix" m with
  | none => Cfg.fixed
  | some s =>
    let l := s.splitOn ","
    { fixD11 := l.contains "11", fixD13 := l.contains "13", fixHdr := l.contains "p1" }

/-- the record as a list (pid, value); `none` if a given value does not parse or is outside the value domain -/
def buildRec (tf : List TField) (m : List (String × String)) : Option (List (Nat × FVal)) :=
  match tf with
  | [] => some []
  | f :: r =>
    let v? : Option FVal := match lookKV f.name m with
      | none => some f.dflt
      | some s => parseVal f.sh s
    match v?, buildRec r m with
    | some v, some l => some ((f.pid, v) :: l)
    | _, _ => none

def lookRec (l : List (Nat × FVal)) (pid : Nat) : FVal :=
  match l with
  | [] => .one []
  | (p, v) :: r => if p == pid then v else lookRec r pid

/-- values the Rust types cannot hold (the harness would refuse them): enum values outside their range -/
def valueOk (S : List EncField) (d : Nat → FVal) : Bool :=
  S.all (fun f => match d f.pid with
    | .one vs => enumsOk f.codec.members vs
    | _ => true)

def findTF (pid : Nat) : List TField → Option TField
  | [] => none
  | f :: r => if f.pid == pid then some f else findTF pid r

def showErr : Err → String
  | .invalidData => "err:InvalidData"
  | .pidNotFound p => s!"err:PidNotFound({p})"
  | .notEnoughData => "err:NotEnoughData"
  | .unsupported a b => s!"err:Unsupported({hexOf [a, b]})"
  | .xNotEnoughData => "err:X:NotEnoughData"
  | .xInvalidData => "err:X:InvalidData"

def keyBytes (r : List (Nat × FVal)) (pid : Nat) : Bytes :=
  match lookRec r pid with
  | .one [.bs b] => b
  | _ => []

def showRec (k : Kind) (r : List (Nat × FVal)) : String :=
  let keyPid := match k.tf with
    | f :: _ => f.pid
    | [] => 0
  joinSp (k.tf.map (fun f =>
    if f.pid == 0 then
      -- derived from the key: guid prefix (12 octets) or the whole guid
      let kb := keyBytes r keyPid
      match f.sh with
      | .bytesN n => s!"{f.name}={hexOf (kb.take n)}"
      | _ => s!"{f.name}=?"
    else s!"{f.name}={showVal f.sh (lookRec r f.pid)}"))

def step (line : String) : String :=
  match toks line with
  | "enc" :: kind :: rest =>
    match kind? kind with
    | none => "bad-op"
    | some k =>
      match buildRec k.tf (kvs rest) with
      | none => "bad-op"
      | some r =>
        let d := lookRec r
        if valueOk k.enc d then hexOf (intoBytes k.enc d) else "bad-op"
  | "dec" :: kind :: h :: rest =>
    match kind? kind, unhex? h with
    | some k, some b =>
      match fromBytes (cfgOf (kvs rest)) k.dec b with
      | .ok r => "ok " ++ showRec k r
      | .err e => showErr e
      | .panic => "PANIC"
      | .alloc => "ALLOC-LIMIT"
    | _, _ => "bad-op"
  | _ => "bad-op"

end DustVerif.Driver.PlistEngine
