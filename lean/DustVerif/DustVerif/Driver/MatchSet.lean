import DustVerif.Model.MatchWorld
import DustVerif.Driver.Util
/-! Engine `matchset`: predicts, line by line, the answers of the `dsim` scenario interpreter for the scenario
    sub-language of vlib/props/C16.py (see notes/w2b.md). Anything else answers `bad-op`. -/
namespace DustVerif.Driver.MatchSetEngine
open DustVerif.MatchSet DustVerif.MatchWorld DustVerif.Driver

structure Group where
  name : String
  part : Nat
  isPub : Bool
  byte : Nat
  alive : Bool
  partition : List Partition.Name

structure Topic where
  name : String
  part : Nat
  tname : String
  alive : Bool

structure DSt where
  w : World
  pnames : List (String × Nat)
  groups : List Group
  topics : List Topic
  tracing : Bool

def DSt.init : DSt :=
  { w := World.init
    pnames := []
    groups := []
    topics := []
    tracing := false }

def hexDigit (n : Nat) : Char := if n < 10 then Char.ofNat (48 + n) else Char.ofNat (87 + n)
def hex2 (n : Nat) : String := String.ofList [hexDigit (n / 16 % 16), hexDigit (n % 16)]
def hex8 (n : Nat) : String := hex2 (n / 2 ^ 24 % 256) ++ hex2 (n / 2 ^ 16 % 256) ++ hex2 (n / 2 ^ 8 % 256) ++ hex2 (n % 256)

/-- GUID prefix of participant `i`: host id b1b2b3b4, app id a1a2a3a4, creation index little-endian (notes/dsim.md 1) -/
def prefixHex (i : Nat) : String :=
  "b1b2b3b4a1a2a3a4" ++ hex2 (i % 256) ++ hex2 (i / 2 ^ 8 % 256) ++ hex2 (i / 2 ^ 16 % 256) ++ hex2 (i / 2 ^ 24 % 256)

def keyHex (k : Key) : String := prefixHex k.pfx ++ hex8 k.ent

def nilHandle : String := "00000000000000000000000000000000"

def showStatus (s : Status) : String :=
  s!"total={s.total} dtotal={s.dTotal} current={s.current} dcurrent={s.dCurrent} last={nilHandle}"

def keyLt (a b : Key) : Bool := decide (a.pfx % 256 < b.pfx % 256) || (a.pfx % 256 == b.pfx % 256 && decide (a.ent < b.ent))

def insertKey (k : Key) : List Key → List Key
  | [] => [k]
  | x :: xs => if keyLt k x then k :: x :: xs else x :: insertKey k xs

def sortKeys (l : List Key) : List Key := l.foldl (fun acc k => insertKey k acc) []

def insertStr (s : String) : List String → List String
  | [] => [s]
  | x :: xs => if s < x then s :: x :: xs else x :: insertStr s xs

def sortStrs (l : List String) : List String := l.foldl (fun acc k => insertStr k acc) []

def dedup (l : List String) : List String := l.foldl (fun acc s => if acc.contains s then acc else acc ++ [s]) []

def lookupP (s : DSt) (n : String) : Option Nat := (s.pnames.find? (fun x => x.1 == n)).map (·.2)

def kvOf (t : String) : Option (String × String) :=
  match t.splitOn "=" with
  | [a, b] => some (a, b)
  | _ => none

/-- hex string → Nat with a leading 1 nibble (keeps the length); `-` = empty -/
def hexVal (s : String) : Option Nat :=
  if s == "-" then some 1
  else s.toList.foldl (fun acc c => match acc with
    | none => none
    | some v =>
      let n := c.toNat
      if 48 ≤ n && n ≤ 57 then some (v * 16 + (n - 48))
      else if 97 ≤ n && n ≤ 102 then some (v * 16 + (n - 87))
      else none) (some 1)

def dur? (s : String) : Option (Option Nat) := if s == "inf" then some none else s.toNat?.map some

/-- apply QoS tokens; `creation` allows reliability= and listener= -/
def applyQos (creation isWriter : Bool) : EpQos × Bool → List String → Option (EpQos × Bool)
  | acc, [] => some acc
  | (q, l), t :: ts =>
    match kvOf t with
    | some ("deadline", v) => match dur? v with
      | some d => applyQos creation isWriter ({ q with deadline := d }, l) ts
      | none => none
    | some ("user_data", v) => match hexVal v with
      | some d => if v.length % 2 == 0 || v == "-" then applyQos creation isWriter ({ q with userData := d }, l) ts else none
      | none => none
    | some ("reliability", v) =>
      if !creation then none
      else if v == "reliable" then applyQos creation isWriter ({ q with reliable := true }, l) ts
      else if v == "best_effort" then applyQos creation isWriter ({ q with reliable := false }, l) ts
      else none
    | some ("listener", v) =>
      if creation && v == (if isWriter then "publication_matched" else "subscription_matched") then
        applyQos creation isWriter (q, true) ts
      else none
    | _ => none

/-- DataWriterQos default: RELIABLE; DataReaderQos default: BEST_EFFORT; deadline infinite, user_data empty -/
def defaultQos (isWriter : Bool) : EpQos :=
  { reliable := isWriter
    deadline := none
    userData := 1 }

def partAlive (s : DSt) (i : Nat) : Bool :=
  match getPart s.w i with
  | some p => p.alive
  | none => false

def showLog (e : LogEntry) : String :=
  s!"{e.owner}.{if e.isWriter then "on_publication_matched" else "on_subscription_matched"} src={keyHex e.src} {showStatus e.status}"

def showDest (d : Nat × Nat × Nat) : String :=
  s!"P{d.1}/{hex8 d.2.1}>{if d.2.2 == 0 then "-" else toString d.2.2}"

def bad (s : DSt) : DSt × String := (s, "bad-op")

def createEndpoint (s : DSt) (isWriter : Bool) (name g t : String) (opts : List String) : DSt × String :=
  match s.groups.find? (fun x => x.name == g), s.topics.find? (fun x => x.name == t) with
  | some grp, some top =>
    if grp.isPub != isWriter || grp.part != top.part || !grp.alive || !top.alive then bad s
    else if (findEp s.w name).isSome then bad s
    else match applyQos true isWriter (defaultQos isWriter, false) opts with
      | none => bad s
      | some (q, l) => match createEp s.w name isWriter grp.part grp.byte top.tname q grp.partition l with
        | none => bad s
        | some (w', key) => ({ s with w := w' }, s!"ok {keyHex key}")
  | _, _ => bad s

def stepWrite (s : DSt) (n id v : String) : DSt × String :=
  match findEp s.w n, id.toNat?, v.toNat? with
  | some e, some _, some _ =>
    if !e.isWriter then bad s
    else if !e.alive then (s, "err:AlreadyDeleted")
    else ({ s with w := if s.tracing then write s.w e else s.w }, "ok")
  | _, _, _ => bad s

def stepSetQos (s : DSt) (n : String) (opts : List String) : DSt × String :=
  match findEp s.w n with
  | some e =>
    if opts.isEmpty then bad s
    else match applyQos false e.isWriter (e.qos, e.listener) opts with
      | none => bad s
      | some (q, _) => if !e.alive then (s, "err:AlreadyDeleted") else ({ s with w := setQos s.w e q }, "ok")
  | none => bad s

/-- `partition=a,b` / `partition=-` (empty list); `%e` is the empty name; only names the glob model covers -/
def partition? (v : String) : Option (List Partition.Name) :=
  if v == "-" then some []
  else
    let names := (v.splitOn ",").map (fun x => if x == "%e" then [] else x.toList)
    if names.all Partition.supported then some names else none

def createGroup (s : DSt) (isPub : Bool) (n p : String) (part : List Partition.Name) : DSt × String :=
  match lookupP s p with
  | some i => match getPart s.w i with
    | some pt =>
      if !pt.alive || s.groups.any (fun x => x.name == n) then bad s
      else if isPub then
        ({ s with w := setPart s.w i { pt with pubCount := pt.pubCount + 1 }
                  groups := s.groups ++ [⟨n, i, true, pt.pubCount, true, part⟩] }, s!"ok {keyHex ⟨i, entId pt.pubCount 0 0x08⟩}")
      else
        ({ s with w := setPart s.w i { pt with subCount := pt.subCount + 1 }
                  groups := s.groups ++ [⟨n, i, false, pt.subCount, true, part⟩] }, s!"ok {keyHex ⟨i, entId pt.subCount 0 0x09⟩}")
    | none => bad s
  | none => bad s

def step1 (s : DSt) (line : String) : DSt × String :=
  match toks line with
  | ["reset"] => (DSt.init, "ok")
  | [] => (s, "ok")
  | ["participant", n] =>
    if (lookupP s n).isSome then bad s
    else
      let (w', i) := createPart s.w
      ({ s with w := w', pnames := s.pnames ++ [(n, i)] }, s!"ok {keyHex ⟨i, 0x1c1⟩}")
  | ["topic", n, p, tname, "ki"] =>
    match lookupP s p with
    | some i => match getPart s.w i with
      | some pt =>
        if !pt.alive || s.topics.any (fun x => x.name == n) then bad s
        else
          let h : Key := ⟨i, entId 0 pt.topicCount 0x0a⟩
          ({ s with w := setPart s.w i { pt with topicCount := pt.topicCount + 1 }
                    topics := s.topics ++ [⟨n, i, tname, true⟩] }, s!"ok {keyHex h}")
      | none => bad s
    | none => bad s
  | [kind, n, p, opt] =>
    if kind == "publisher" || kind == "subscriber" then
      match kvOf opt with
      | some ("partition", v) => match partition? v with
        | some part => createGroup s (kind == "publisher") n p part
        | none => bad s
      | _ => bad s
    else if kind == "writer" then createEndpoint s true n p opt []
    else if kind == "reader" then createEndpoint s false n p opt []
    else if kind == "write" then stepWrite s n p opt
    else if kind == "set-qos" then stepSetQos s n [p, opt]
    else bad s
  | "writer" :: n :: g :: t :: opts => createEndpoint s true n g t opts
  | "reader" :: n :: g :: t :: opts => createEndpoint s false n g t opts
  | "set-qos" :: n :: opts => stepSetQos s n opts
  | [kind, n, p] =>
    if kind == "publisher" || kind == "subscriber" then createGroup s (kind == "publisher") n p []
    else if kind == "status" then
      match findEp s.w n with
      | some e =>
        if p != (if e.isWriter then "publication_matched" else "subscription_matched") then bad s
        else if !e.alive then (s, "err:AlreadyDeleted")
        else
          let (w', st) := readEp s.w e
          ({ s with w := w' }, s!"ok {showStatus st}")
      | none => bad s
    else bad s
  | ["delete", n] =>
    match findEp s.w n, lookupP s n with
    | some e, _ => if !e.alive then (s, "err:AlreadyDeleted") else ({ s with w := deleteEp s.w e }, "ok")
    | none, some i =>
      if !partAlive s i then bad s
      else if hasAliveEps s.w i || s.groups.any (fun g => g.alive && g.part == i) || s.topics.any (fun t => t.alive && t.part == i) then
        (s, "err:PreconditionNotMet")
      else ({ s with w := deletePart s.w i }, "ok")
    | none, none => bad s
  | ["delete-contained", p] =>
    match lookupP s p with
    | some i =>
      if !partAlive s i then bad s
      else
        ({ s with w := deleteContained s.w i
                  groups := s.groups.map (fun g => if g.part == i then { g with alive := false } else g)
                  topics := s.topics.map (fun t => if t.part == i then { t with alive := false } else t) }, "ok")
    | none => bad s
  | ["drop-if", pat] =>
    match kvOf pat with
    | some ("from", p) => match lookupP s p with
      | some i => ({ s with w := cut s.w i }, "ok")
      | none => bad s
    | _ => bad s
  | ["advance", d] =>
    match d.toNat? with
    | some d =>
      let w' := advance s.w d
      if ambiguous w' then bad s else ({ s with w := w' }, "ok")
    | none => bad s
  | ["matched", n] =>
    match findEp s.w n with
    | some e =>
      if !e.alive then (s, "err:AlreadyDeleted")
      else
        let ks := sortKeys (keys e.st.matched)
        (s, joinSp (["ok", toString ks.length] ++ ks.map keyHex))
    | none => bad s
  | ["log"] =>
    let ls := sortStrs (s.w.log.map showLog)
    ({ s with w := { s.w with log := [] } },
      if ls.isEmpty then "ok 0" else s!"ok {ls.length} | " ++ String.intercalate " | " ls)
  | ["trace", "on"] => ({ s with tracing := true, w := { s.w with sent := [] } }, "ok")
  | ["trace", "show"] =>
    if !s.tracing then bad s
    else
      let ds := sortStrs (dedup (s.w.sent.map showDest))
      ({ s with w := { s.w with sent := [] } }, joinSp ("ok" :: ds))
  | t :: _ => if t.startsWith "#" then (s, "ok") else bad s

/-- the trace window of the digest op (`trace on`, `write`…, `trace show`) must contain writes only: any other op closes it -/
def step (s : DSt) (line : String) : DSt × String :=
  let r := step1 s line
  match toks line with
  | "write" :: _ => r
  | "trace" :: _ => r
  | ["reset"] => r
  | _ => ({ r.1 with tracing := false }, r.2)

end DustVerif.Driver.MatchSetEngine
