import DustVerif.Model.Wire
import DustVerif.Driver.Util
/-! Line-protocol driver of engine `wire` (same ops and canonical output as harness/src/bin/wire.rs). -/
namespace DustVerif.Driver.WireEngine
open DustVerif.Wire DustVerif.Driver

/-! ### hex -/
def hexDigit? (c : Char) : Option Nat :=
  if '0' ≤ c ∧ c ≤ '9' then some (c.toNat - '0'.toNat)
  else if 'a' ≤ c ∧ c ≤ 'f' then some (c.toNat - 'a'.toNat + 10)
  else none

def unhexChars : List Char → Option (List Nat)
  | [] => some []
  | a :: b :: r =>
    match hexDigit? a, hexDigit? b, unhexChars r with
    | some x, some y, some rest => some ((16 * x + y) :: rest)
    | _, _, _ => none
  | _ => none

def unhex? (s : String) : Option (List Nat) :=
  if s == "-" then some [] else unhexChars s.toList

def hexChar (n : Nat) : Char := if n < 10 then Char.ofNat (48 + n) else Char.ofNat (87 + n)
def hexCharsOf : List Nat → List Char
  | [] => []
  | b :: r => hexChar (b / 16 % 16) :: hexChar (b % 16) :: hexCharsOf r
def hexTR (bs : List Nat) : String :=
  String.ofList (bs.foldr (fun b acc => hexChar (b / 16 % 16) :: hexChar (b % 16) :: acc) [])
def hex (bs : List Nat) : String := if bs.isEmpty then "-" else hexTR bs
def hex32 (w : Nat) : String :=
  hexTR [w / 16777216 % 256, w / 65536 % 256, w / 256 % 256, w % 256]

/-! ### parsing -/
def bytes? (s : String) : Option (List Nat) :=
  match s.toList with
  | '#' :: rest =>
    match (String.ofList rest).splitOn ":" with
    | [n, b] =>
      match n.toNat?, b.toNat? with
      | some n, some b => if n > 16777216 then none else some ((List.range n).map (fun i => (b + i) % 256))
      | _, _ => none
    | _ => none
  | _ => unhex? s

def fixed? (n : Nat) (s : String) : Option (List Nat) :=
  match unhex? s with
  | some v => if v.length = n then some v else none
  | none => none

def intIn? (lo hi : Int) (s : String) : Option Int :=
  match s.toInt? with
  | some i => if lo ≤ i ∧ i ≤ hi then some i else none
  | none => none
def i64? := intIn? (-9223372036854775808) 9223372036854775807
def i32? := intIn? (-2147483648) 2147483647
def i16? := intIn? (-32768) 32767
def natBelow? (b : Nat) (s : String) : Option Nat :=
  match s.toNat? with
  | some n => if n < b then some n else none
  | none => none
def u32? := natBelow? 4294967296
def u16? := natBelow? 65536

def flags? (n : Nat) (s : String) : Option (List Bool) :=
  let cs := s.toList
  if cs.length = n ∧ cs.all (fun c => c == '0' || c == '1') then some (cs.map (fun c => c == '1')) else none

def list? {α : Type} (f : String → Option α) (s : String) : Option (List α) :=
  if s == "-" then some []
  else (s.splitOn ";").foldr (fun x acc => match f x, acc with
    | some a, some l => some (a :: l)
    | _, _ => none) (some [])

def param? (s : String) : Option Param :=
  match s.splitOn ":" with
  | [pid, v] => match i16? pid, bytes? v with
    | some pid, some v => some { pid := pid, value := v }
    | _, _ => none
  | _ => none

def locator? (s : String) : Option Locator :=
  match s.splitOn ":" with
  | [k, p, a] => match i32? k, u32? p, fixed? 16 a with
    | some k, some p, some a => some { kind := k, port := p, address := a }
    | _, _, _ => none
  | _ => none

def header? (s : String) : Option Header :=
  match s.splitOn ":" with
  | ["H", v, ven, p] => match fixed? 2 v, fixed? 2 ven, fixed? 12 p with
    | some v, some ven, some p => some { version := v, vendorId := ven, guidPrefix := p }
    | _, _, _ => none
  | _ => none

def splitSet? (s : String) : Option (String × String) :=
  match s.splitOn "/" with
  | [b, m] => some (b, m)
  | _ => none

def mapOutcome {α β : Type} (f : α → β) : Outcome α → Outcome β
  | .ok a => .ok (f a)
  | .err e => .err e
  | .panic => .panic

/-- `none` = malformed token (`bad-op`); `panic` = a real constructor panics -/
def sub? (s : String) : Option (Outcome Sub) :=
  match s.splitOn "," with
  | ["DATA", fl, r, w, sn, q, p] =>
    match flags? 4 fl, fixed? 4 r, fixed? 4 w, i64? sn, list? param? q, bytes? p with
    | some [q', d, k, n], some r, some w, some sn, some q, some p => some (.ok (.data q' d k n r w sn q p))
    | _, _, _, _, _, _ => none
  | ["DFRAG", fl, r, w, sn, fs, fis, fsz, ds, q, p] =>
    match flags? 3 fl, fixed? 4 r, fixed? 4 w, i64? sn, u32? fs, u16? fis, u16? fsz, u32? ds, list? param? q, bytes? p with
    | some [q', k, n], some r, some w, some sn, some fs, some fis, some fsz, some ds, some q, some p =>
      some (.ok (.dataFrag q' k n r w sn fs fis fsz ds q p))
    | _, _, _, _, _, _, _, _, _, _ => none
  | ["GAP", r, w, start, set] =>
    match splitSet? set with
    | some (b, m) =>
      match fixed? 4 r, fixed? 4 w, i64? start, i64? b, list? i64? m with
      | some r, some w, some start, some b, some m => some (mapOutcome (Sub.gap r w start) (snsetNew b m))
      | _, _, _, _, _ => none
    | none => none
  | ["HB", fl, r, w, first, last, count] =>
    match flags? 2 fl, fixed? 4 r, fixed? 4 w, i64? first, i64? last, i32? count with
    | some [f, l], some r, some w, some first, some last, some count => some (.ok (.heartbeat f l r w first last count))
    | _, _, _, _, _, _ => none
  | ["ACK", fl, r, w, set, count] =>
    match splitSet? set with
    | some (b, m) =>
      match flags? 1 fl, fixed? 4 r, fixed? 4 w, i64? b, list? i64? m, i32? count with
      | some [f], some r, some w, some b, some m, some c => some (mapOutcome (fun s => Sub.ackNack f r w s c) (snsetNew b m))
      | _, _, _, _, _, _ => none
    | none => none
  | ["NFRAG", r, w, sn, set, count] =>
    match splitSet? set with
    | some (b, m) =>
      match fixed? 4 r, fixed? 4 w, i64? sn, u32? b, list? u32? m, i32? count with
      | some r, some w, some sn, some b, some m, some c => some (mapOutcome (fun s => Sub.nackFrag r w sn s c) (fnsetNew b m))
      | _, _, _, _, _, _ => none
    | none => none
  | ["HBFRAG", r, w, sn, last, count] =>
    match fixed? 4 r, fixed? 4 w, i64? sn, u32? last, i32? count with
    | some r, some w, some sn, some last, some c => some (.ok (.heartbeatFrag r w sn last c))
    | _, _, _, _, _ => none
  | ["IDST", p] =>
    match fixed? 12 p with
    | some p => some (.ok (.infoDst p))
    | none => none
  | ["ISRC", v, ven, p] =>
    match fixed? 2 v, fixed? 2 ven, fixed? 12 p with
    | some v, some ven, some p => some (.ok (.infoSrc v ven p))
    | _, _, _ => none
  | ["IREPLY", m, u, mc] =>
    match flags? 1 m, list? locator? u, list? locator? mc with
    | some [m], some u, some mc => some (.ok (.infoReply m u mc))
    | _, _, _ => none
  | ["ITS", inv, sec, frac] =>
    match flags? 1 inv, u32? sec, u32? frac with
    | some [i], some sec, some frac => some (.ok (.infoTs i sec frac))
    | _, _, _ => none
  | ["PAD"] => some (.ok .pad)
  | _ => none

/-- tokens are processed in order as the harness does: the first malformed token gives `bad-op`, the first
    panicking constructor `PANIC` -/
def subs? : List String → Option (Outcome (List Sub))
  | [] => some (.ok [])
  | t :: ts =>
    match sub? t with
    | none => none
    | some .panic => some .panic
    | some (.err e) => some (.err e)
    | some (.ok s) =>
      match subs? ts with
      | none => none
      | some o => some (mapOutcome (fun l => s :: l) o)

def msg? : List String → Option (Outcome Msg)
  | [] => none
  | h :: ts =>
    match header? h with
    | none => none
    | some h => match subs? ts with
      | none => none
      | some o => some (mapOutcome (fun l => { header := h, subs := l }) o)

/-! ### rendering -/
def b (x : Bool) : String := if x then "1" else "0"
def joinWith (sep : String) (xs : List String) : String := String.intercalate sep xs

def qosS (q : List Param) : String :=
  if q.isEmpty then "-" else joinWith ";" (q.map (fun p => s!"{p.pid}:{hex p.value}"))

def membersS {α : Type} [ToString α] : Outcome (List α) → String
  | .ok [] => "-"
  | .ok l => joinWith ";" (l.map toString)
  | _ => "!"

def wordsS (bm : List Nat) : String := joinWith "." (bm.map hex32)
def snsetS (s : SNSet) : String := s!"{s.base}/{s.numBits}/{wordsS s.bitmap}/{membersS (snsetMembers s)}"
def fnsetS (s : FNSet) : String := s!"{s.base}/{s.numBits}/{wordsS s.bitmap}/{membersS (fnsetMembers s)}"

def locsS (l : List Locator) : String :=
  if l.isEmpty then "-" else joinWith ";" (l.map (fun x => s!"{x.kind}:{x.port}:{hex x.address}"))

def subS : Sub → String
  | .data q d k n r w sn qos p => s!"DATA,{b q}{b d}{b k}{b n},{hex r},{hex w},{sn},{qosS qos},{hex p}"
  | .dataFrag q k n r w sn fs fis fsz ds qos p =>
    s!"DFRAG,{b q}{b k}{b n},{hex r},{hex w},{sn},{fs},{fis},{fsz},{ds},{qosS qos},{hex p}"
  | .gap r w start set => s!"GAP,{hex r},{hex w},{start},{snsetS set}"
  | .heartbeat f l r w first last c => s!"HB,{b f}{b l},{hex r},{hex w},{first},{last},{c}"
  | .ackNack f r w set c => s!"ACK,{b f},{hex r},{hex w},{snsetS set},{c}"
  | .nackFrag r w sn set c => s!"NFRAG,{hex r},{hex w},{sn},{fnsetS set},{c}"
  | .heartbeatFrag r w sn last c => s!"HBFRAG,{hex r},{hex w},{sn},{last},{c}"
  | .infoDst p => s!"IDST,{hex p}"
  | .infoSrc v ven p => s!"ISRC,{hex v},{hex ven},{hex p}"
  | .infoReply m u mc => s!"IREPLY,{b m},{locsS u},{locsS mc}"
  | .infoTs i sec frac => s!"ITS,{b i},{sec},{frac}"
  | .pad => "PAD"

def errS : Err → String
  | .io => "Io"
  | .invalidData => "InvalidData"
  | .notEnoughData => "NotEnoughData"
  | .unknownMessage => "UnknownMessage"

def decodeS (o : Outcome Msg) : String :=
  match o with
  | .panic => "PANIC"
  | .err e => s!"err:{errS e}"
  | .ok m =>
    joinSp (s!"ok H:{hex m.header.version}:{hex m.header.vendorId}:{hex m.header.guidPrefix}" :: m.subs.map subS)

/-- `op@<letters>` selects the tree the line is answered for: `5` = D5 fix (bdfece3), `e` = fixes/D-wire-3.patch,
    `a` = fixes/D-wire-4.patch, `m` = fixes/D-wire-2.patch; no suffix = the tree of the first delivery -/
def cfgOf (letters : String) : Option Cfg :=
  let cs := letters.toList
  if cs.all (fun ch => ch == '5' || ch == 'e' || ch == 'a' || ch == 'm') then
    some { d5 := cs.contains '5', ext := cs.contains 'e', snchk := cs.contains 'a', mflag := cs.contains 'm' }
  else none

def splitOp (tok : String) : Option (String × Cfg) :=
  match tok.splitOn "@" with
  | [op] => some (op, Cfg.orig)
  | [op, letters] => match cfgOf letters with
    | some c => some (op, c)
    | none => none
  | _ => none

/-- stateless engine: one output line per input line -/
def step (line : String) : String :=
  match toks line with
  | [] => "bad-op"
  | t :: rest =>
    match splitOp t with
    | none => "bad-op"
    | some (op, c) =>
      if op == "enc" then
        match msg? rest with
        | none => "bad-op"
        | some (.ok m) => hex (encodeC c m)
        | some _ => "PANIC"
      else if op == "rt" then
        match msg? rest with
        | none => "bad-op"
        | some (.ok m) =>
          let bs := encodeC c m
          match decodeG c bs with
          | .panic => "PANIC"
          | o => s!"{hex bs} {decodeS o}"
        | some _ => "PANIC"
      else if op == "sub" then
        match rest with
        | [s] =>
          match sub? s with
          | none => "bad-op"
          | some (.ok s) => hex (if c.mflag then subE true s else subEOld true s)
          | some _ => "PANIC"
        | _ => "bad-op"
      else if op == "dec" then
        match rest with
        | [h] =>
          match unhex? h with
          | none => "bad-op"
          | some bs => decodeS (decodeG c bs)
        | _ => "bad-op"
      else if op == "decx" then
        match rest with
        | h :: _ =>
          match unhex? h with
          | none => "bad-op"
          | some bs => decodeS (decodeG c bs)
        | _ => "bad-op"
      else "bad-op"

end DustVerif.Driver.WireEngine
