import DustVerif.Model.Cond
import DustVerif.Driver.Util
/-! Line-protocol driver of the `cond` engine (C32): 4 status conditions (0..3), `wait` calls 0..99.

    add c k | remove c k | enable c mask | trig c        -> t=<trigger of c afterwards> [wake=<calls woken>]
    start w c1,c2,.. | start w -                         -> phase of the call after its first poll
    wstep w                                              -> phase of the call after its next suspension point, t=<trigger
                                                            of the condition the processed mail addressed>
  The model runs the code WITH fixes/D37.patch (`fx = true`). -/
namespace DustVerif.Driver.CondEngine
open DustVerif.Cond DustVerif.Driver

def NCOND : Nat := 4
def NKIND : Nat := 13
def NWAIT : Nat := 100

def insertSorted (x : Nat) : List Nat → List Nat
  | [] => [x]
  | y :: ys => if x ≤ y then x :: y :: ys else y :: insertSorted x ys

def sortNat (l : List Nat) : List Nat := l.foldr insertSorted []

def listS (l : List Nat) : String :=
  if l.isEmpty then "-" else String.intercalate "," (l.map toString)

def b01 (b : Bool) : String := if b then "1" else "0"

def phaseS (x : Waiter) : String :=
  match x.phase with
  | .idle => "idle"
  | .check i _ => s!"checking {nth x.conds i}"
  | .register i => s!"registering {nth x.conds i}"
  | .await => "waiting"
  | .collect i _ => s!"collecting {nth x.conds i}"
  | .done res => s!"done {listS res}"
  | .failed => "err-precondition"

def parseConds (s : String) : Option (List Nat) :=
  if s == "-" then some []
  else match nats? (s.splitOn ",") with
    | some l => if l.all (fun c => c < NCOND) && l.length ≤ 8 then some l else none
    | none => none

def step (s : Sys) (line : String) : Sys × String :=
  match toks line with
  | ["reset"] => (Sys.init, "ok")
  | ["add", c, k] => match c.toNat?, k.toNat? with
    | some c, some k =>
      if c < NCOND && k < NKIND then
        let (s', o) := s.step true (.add c k)
        (s', s!"t={b01 o.trig} wake={listS (sortNat o.woke)}")
      else (s, "bad-op")
    | _, _ => (s, "bad-op")
  | ["remove", c, k] => match c.toNat?, k.toNat? with
    | some c, some k =>
      if c < NCOND && k < NKIND then
        let (s', o) := s.step true (.remove c k)
        (s', s!"t={b01 o.trig}")
      else (s, "bad-op")
    | _, _ => (s, "bad-op")
  | ["enable", c, m] => match c.toNat?, m.toNat? with
    | some c, some m =>
      if c < NCOND && m < 8192 then
        let (s', o) := s.step true (.enable c m)
        (s', s!"t={b01 o.trig} wake={listS (sortNat o.woke)}")
      else (s, "bad-op")
    | _, _ => (s, "bad-op")
  | ["trig", c] => match c.toNat? with
    | some c => if c < NCOND then (s, s!"t={b01 (s.conds c).trigger}") else (s, "bad-op")
    | none => (s, "bad-op")
  | ["start", w, cs] => match w.toNat?, parseConds cs with
    | some w, some cs =>
      if w < NWAIT then
        let (s', o) := s.step true (.start w cs)
        (s', if o.legal then phaseS (s'.waiters w) else "gone")
      else (s, "bad-op")
    | _, _ => (s, "bad-op")
  | ["wstep", w] => match w.toNat? with
    | some w =>
      if w < NWAIT then
        let (s', o) := s.step true (.wstep w)
        let wasAwait := decide ((s.waiters w).phase = .await)
        (s', if o.legal then s!"{phaseS (s'.waiters w)} t={if wasAwait then "-" else b01 o.trig}"
             else "gone")
      else (s, "bad-op")
    | none => (s, "bad-op")
  | _ => (s, "bad-op")

end DustVerif.Driver.CondEngine
