/-! Shared helpers of the line-protocol driver (import-free). -/
namespace DustVerif.Driver

def toks (line : String) : List String :=
  (line.trimAscii.toString.splitOn " ").filter (fun s => !s.isEmpty)

def int? (s : String) : Option Int := s.toInt?
def nat? (s : String) : Option Nat := s.toNat?

def ints? : List String → Option (List Int)
  | [] => some []
  | s :: ss => match s.toInt?, ints? ss with
    | some i, some is => some (i :: is)
    | _, _ => none

def nats? : List String → Option (List Nat)
  | [] => some []
  | s :: ss => match s.toNat?, nats? ss with
    | some i, some is => some (i :: is)
    | _, _ => none

def joinSp (xs : List String) : String := String.intercalate " " xs

end DustVerif.Driver
