import DustVerif.Model.AckWait
import DustVerif.Driver.Util
/-! Engine `ackw`: the DCPS wait-list automata of Model/AckWait.lean, driven by EVENT lines. The events of a dsim
    scenario (matches, accepted writes, the ACKNACK / DATA / GAP / HEARTBEAT datagrams in the order the simulator
    handled them) are extracted from the implementation's own trace by vlib/dcps_wait_common.py; the model answers
    what each event does to the wait lists, the reader cache and the ACKNACKs the reader sends.

    writer automaton:  wreset <drainOnGone 0|1> | wmatch <rid> <rel|be> | wwrite | wack <rid> <base> <count> |
                       wunmatch <rid> | wgone <rid>,<rid>.. | wwait <id> | wstate
    reader automaton (any number of matched writers, wid = writer id):  rreset <rel|be> <vol|tl> | rmatch <wid> |
                       rdata <wid> <sn> | rgap <wid> <start> <base> <set|-> | rhb <wid> <first> <last> <count> <F|f> <L|l> |
                       rwait <id> | rstate -/
namespace DustVerif.Driver.AckWaitEngine
open DustVerif.AckWait DustVerif.Rtps DustVerif.Driver

structure DSt where
  d : Bool
  w : St
  r : MSt
  poisoned : Bool

def initR (rel vol : Bool) : MSt := { ws := [], reliable := rel, volatile := vol, waiters := [] }
def init : DSt := { d := false, w := St.init, r := initR true false, poisoned := false }

def csv (xs : List Nat) : String := if xs.isEmpty then "-" else String.intercalate "," (xs.map toString)
def uncsv (s : String) : Option (List Nat) := if s == "-" then some [] else nats? (s.splitOn ",")

def showAck : Sub → Option String
  | .acknack b set c _ => some s!"an:{b}:{csv set}:{c}"
  | _ => none
def showNf : Sub → Option String
  | .nackfrag sn b set c => some s!"nf:{sn}:{b}:{csv set}:{c}"
  | _ => none
def showOut (ds : List Dgram) : String :=
  let xs := ds.flatMap (fun d => d.subs.filterMap (fun s => match showAck s with | some x => some x | none => showNf s))
  if xs.isEmpty then "-" else String.intercalate "+" xs

def wans (x : St × List Nat) (st : DSt) : DSt × String := ({ st with w := x.1 }, s!"ok {csv x.2}")

def cacheOf (s : MSt) (wid : Nat) : List Nat :=
  match s.ws.find? (hasWid wid) with
  | some x => x.2.cache.map (·.sn)
  | none => []

def dots (xs : List Nat) : String := if xs.isEmpty then "-" else String.intercalate "." (xs.map toString)
def allCaches (s : MSt) : String :=
  if s.ws.isEmpty then "-" else String.intercalate ";" (s.ws.map (fun x => s!"{x.1}:{dots (x.2.cache.map (·.sn))}"))

def rans (st : DSt) (wid : Nat) (o : Out (MSt × RAns × List Dgram)) : DSt × String :=
  match o with
  | .panic => ({ st with poisoned := true }, "PANIC")
  | .ok (r', a, out) =>
    let ans := match a with
      | .none => "-"
      | .ok ids => csv ids
      | .illegal _ => "illegal"
    ({ st with r := r' }, s!"ok {ans} | {csv (cacheOf r' wid)} | {showOut out}")

def step (st : DSt) (line : String) : DSt × String :=
  match toks line with
  | ["reset"] => (init, "ok")
  | ts =>
    if st.poisoned then (st, "POISONED") else
    match ts with
    | ["wreset", d] => ({ st with d := d == "1", w := St.init }, "ok")
    | ["wmatch", rid, rel] => match rid.toNat? with
      | some rid => wans (AckWait.step st.d st.w (.matchReader rid (rel == "rel"))) st
      | none => (st, "bad-op")
    | ["wwrite"] =>
      let x := AckWait.step st.d st.w .write
      ({ st with w := x.1 }, s!"ok {x.1.lastSn}")
    | ["wack", rid, base, count] => match rid.toNat?, base.toNat?, count.toNat? with
      | some rid, some b, some c => wans (AckWait.step st.d st.w (.acknack rid b c)) st
      | _, _, _ => (st, "bad-op")
    | ["wunmatch", rid] => match rid.toNat? with
      | some rid => wans (AckWait.step st.d st.w (.unmatch rid)) st
      | none => (st, "bad-op")
    | ["wgone", rids] => match uncsv rids with
      | some rids => wans (AckWait.step st.d st.w (.pgone rids)) st
      | none => (st, "bad-op")
    | ["wwait", id] => match id.toNat? with
      | some id =>
        let x := AckWait.step st.d st.w (.waitAck id)
        ({ st with w := x.1 }, if x.2.isEmpty then "parked" else s!"ok {csv x.2}")
      | none => (st, "bad-op")
    | ["wstate"] => (st, s!"isack={if st.w.isAck then 1 else 0} last={st.w.lastSn} waiters={csv st.w.waiters}")
    | ["rreset", rel, dur] =>
      if (rel == "rel" || rel == "be") && (dur == "vol" || dur == "tl") then ({ st with r := initR (rel == "rel") (dur == "vol") }, "ok")
      else (st, "bad-op")
    | ["rmatch", wid] => match wid.toNat? with
      | some wid => rans st wid (mstep Cfg.fixed st.r (.matchWriter wid))
      | none => (st, "bad-op")
    | ["rdata", wid, sn] => match wid.toNat?, sn.toNat? with
      | some wid, some sn => rans st wid (mstep Cfg.fixed st.r (.sub wid (.data sn [sn])))
      | _, _ => (st, "bad-op")
    | ["rgap", wid, a, b, set] => match wid.toNat?, a.toNat?, b.toNat?, uncsv set with
      | some wid, some a, some b, some set => rans st wid (mstep Cfg.fixed st.r (.sub wid (.gap a b set)))
      | _, _, _, _ => (st, "bad-op")
    | ["rhb", wid, a, b, c, fin, lv] => match wid.toNat?, a.toNat?, b.toNat?, c.toNat? with
      | some wid, some a, some b, some c => rans st wid (mstep Cfg.fixed st.r (.sub wid (.hb a b c (fin == "F") (lv == "L"))))
      | _, _, _, _ => (st, "bad-op")
    | ["rwait", id] => match id.toNat? with
      | some id => rans st 0 (mstep Cfg.fixed st.r (.waitHist id))
      | none => (st, "bad-op")
    | ["rstate"] => (st, s!"hist={if histReceivedAll st.r.proxies then 1 else 0} waiters={csv st.r.waiters} cache={allCaches st.r}")
    | _ => (st, "bad-op")

end DustVerif.Driver.AckWaitEngine
