import DustVerif.Model.Worker
import DustVerif.Driver.Util
/-! Driver of the engines `worker` (C31) and `deadline` (C30, C24 deadline clause): one world (Model/Worker.lean), one
    scenario sub-language (vlib/worker_common.py). Predicts the canonicalised answers of `dsim`:
    `timers` = the worker's sleeps (last request per instant, run-length encoded), `log` = deadline callbacks with time,
    total count and instance, `status`, `now`, `read`/`take`, `write` (ok / err:Timeout). Handles are `*`. -/
namespace DustVerif.Driver.WorkerEngine
open DustVerif.Worker DustVerif.Deadline DustVerif.Driver

def splitKv (ts : List String) : List String × List (String × String) :=
  ts.foldr (fun t (p, kv) => match t.splitOn "=" with
    | [a, b] => (p, (a, b) :: kv)
    | _ => (t :: p, kv)) ([], [])

def look (k : String) : List (String × String) → Option String
  | [] => none
  | (a, b) :: r => if a == k then some b else look k r

def onlyKeys (allowed : List String) (kv : List (String × String)) : Bool :=
  kv.all (fun p => allowed.contains p.1)

/-- `inf` or nanoseconds -/
def dur? (s : String) : Option (Option Int) :=
  if s == "inf" then some none else (s.toNat?).map (fun n => some (n : Int))

def rel? : String → Option Bool
  | "reliable" => some true
  | "best_effort" => some false
  | _ => none

def hist? (s : String) : Option (Option Nat) :=
  if s == "keep_all" then some none
  else match s.splitOn ":" with
    | ["keep_last", d] => (d.toNat?).map some
    | _ => none

def own? : Option String → Option Bool
  | none => some false
  | some "shared" => some false
  | some "exclusive" => some true
  | _ => none

/-- run-length encoding of the sleeps: (start, delay, count) for `count` requests of `delay` spaced by `delay` -/
def rle : List (Int × Nat) → List (Int × Nat × Nat)
  | [] => []
  | (a, d) :: rest =>
    let rec go (start : Int) (d : Nat) (k : Nat) (last : Int) : List (Int × Nat) → List (Int × Nat × Nat)
      | [] => [(start, d, k)]
      | (a', d') :: r =>
        if d' == d && d > 0 && a' == last + (d : Int) then go start d (k + 1) a' r
        else (start, d, k) :: go a' d' 1 a' r
    go a d 1 a rest

def showRun (r : Int × Nat × Nat) : String :=
  if r.2.2 == 1 then s!"{r.1}:{r.2.1}" else s!"{r.1}:{r.2.1}*{r.2.2}"

def showSleeps (l : List (Int × Nat)) : String :=
  let runs := rle l
  joinSp (["ok", toString runs.length] ++ runs.map showRun)

def showLog (l : List String) : String :=
  if l.isEmpty then "ok 0" else s!"ok {l.length} | " ++ String.intercalate " | " l

/-- the `t=<ns>` field of a log line -/
def tOf (line : String) : Nat :=
  match (line.splitOn " ").filterMap (fun t => match t.splitOn "=" with
      | ["t", v] => v.toNat?
      | _ => none) with
  | t :: _ => t
  | [] => 0

/-- canonical order of the log: by time, then textually (owner, callback, total) -/
def logLe (a b : String) : Bool := tOf a < tOf b || (tOf a == tOf b && decide (a ≤ b))

def insertLog (x : String) : List String → List String
  | [] => [x]
  | y :: r => if logLe x y then x :: y :: r else y :: insertLog x r

def sortWithinInstant (l : List String) : List String := l.foldl (fun acc x => insertLog x acc) []

def partOfGroup (w : World) (g : String) : Option String := look g w.groups

def topicInfo (w : World) (t : String) : Option (String × String) :=
  match w.topics.find? (fun x => x.1 == t) with
  | some x => some x.2
  | none => none

def nameFree (w : World) (n : String) : Bool :=
  !(w.parts.contains n) && (look n w.groups).isNone && (topicInfo w n).isNone
    && (findWriter w n).isNone && (findReader w n).isNone

/-- matched-publication lists of the readers after an endpoint was added -/
def rematch (w : World) : World :=
  { w with readers := w.readers.map (fun r =>
      { r with pubs := (w.writers.filter (fun x => compatible x r)).map (fun x => { id := x.id, strength := x.strength }) }) }

def showSamples (l : List Sample) : String :=
  if l.isEmpty then "err:NoData"
  else joinSp (["ok", toString l.length] ++ l.map (fun s => s!"{s.key}:{s.value}"))

def FUEL : Nat := 400000

def step (w : World) (line : String) : World × String :=
  match toks line with
  | ["reset"] => ({}, "ok")
  | ["config", "announce=1000000000000"] => (w, "ok")
  | ["participant", n] =>
    if nameFree w n && w.now == 0 then
      (iterate { w with parts := w.parts ++ [n], peersAlive := true }, "ok *")
    else (w, "bad-op")
  | ["publisher", n, p] =>
    if nameFree w n && w.parts.contains p && w.now == 0 then (iterate { w with groups := w.groups ++ [(n, p)] }, "ok *")
    else (w, "bad-op")
  | ["subscriber", n, p] =>
    if nameFree w n && w.parts.contains p && w.now == 0 then (iterate { w with groups := w.groups ++ [(n, p)] }, "ok *")
    else (w, "bad-op")
  | ["topic", n, p, tn, "ki"] =>
    if nameFree w n && w.parts.contains p && w.now == 0 then (iterate { w with topics := w.topics ++ [(n, p, tn)] }, "ok *")
    else (w, "bad-op")
  | "writer" :: rest =>
    let (pl, kv) := splitKv rest
    match pl, (look "reliability" kv).bind rel?, (look "history" kv).bind hist?, dur? ((look "deadline" kv).getD "inf"),
        dur? ((look "lifespan" kv).getD "inf"), dur? ((look "max_blocking" kv).getD "100000000"),
        own? (look "ownership" kv), ((look "strength" kv).getD "0").toInt? with
    | [n, g, t], some rel, some h, some dl, some ls, some mb, some ex, some st =>
      match partOfGroup w g, topicInfo w t with
      | some pg, some (pt, tn) =>
        if nameFree w n && pg == pt && w.now == 0
            && onlyKeys ["reliability", "history", "deadline", "lifespan", "max_blocking", "ownership", "strength", "listener"] kv
            && (look "listener" kv == none || look "listener" kv == some "offered_deadline_missed") then
          let x : WriterW := { name := n, id := w.writers.length + 1, part := pg, tname := tn, reliable := rel, strength := st,
                               exclusive := ex, keepLast := h, lifespan := ls, maxBlocking := mb, dl := { period := dl },
                               listens := (look "listener" kv).isSome }
          (iterate (rematch { w with writers := w.writers ++ [x] }), "ok *")
        else (w, "bad-op")
      | _, _ => (w, "bad-op")
    | _, _, _, _, _, _, _, _ => (w, "bad-op")
  | "reader" :: rest =>
    let (pl, kv) := splitKv rest
    match pl, (look "reliability" kv).bind rel?, dur? ((look "deadline" kv).getD "inf"),
        ((look "tbf" kv).getD "0").toNat?, own? (look "ownership" kv) with
    | [n, g, t], some rel, some dl, some sep, some ex =>
      match partOfGroup w g, topicInfo w t with
      | some pg, some (pt, tn) =>
        if nameFree w n && pg == pt && w.now == 0 && look "history" kv == some "keep_all"
            && onlyKeys ["reliability", "history", "deadline", "tbf", "ownership", "listener"] kv
            && (look "listener" kv == none || look "listener" kv == some "requested_deadline_missed") then
          let r : ReaderW := { name := n, part := pg, tname := tn, reliable := rel, exclusive := ex, minSep := sep,
                               dl := { period := dl }, listens := (look "listener" kv).isSome }
          (iterate (rematch { w with readers := w.readers ++ [r] }), "ok *")
        else (w, "bad-op")
      | _, _ => (w, "bad-op")
    | _, _, _, _, _ => (w, "bad-op")
  | ["drop-if", "ACKNACK", "user"] => ({ w with acksDropped := true }, "ok")
  | "write" :: n :: k :: v :: rest =>
    let ts? : Option Int := match rest with
      | [] => some w.now
      | [t] => match t.splitOn "=" with
        | ["ts", x] => (x.toNat?).map (fun n => (n : Int))
        | _ => none
      | _ => none
    match findWriter w n, k.toInt?, v.toInt?, ts? with
    | some x, some k, some v, some ts =>
      if !w.peersAlive then (w, "bad-op")
      else if blocks w x k then
        match x.maxBlocking with
        | none => (w, "bad-op")
        | some mb =>
          let w := setWriter { w with timedOut := false, wrote := true } { x with pending := some (w.now + mb) }
          let w := runBlocked FUEL (iterate w)
          (w, if w.timedOut then "err:Timeout" else "bad-op")
      else (iterate (doWrite { w with wrote := true } x k v ts), "ok")
    | _, _, _, _ => (w, "bad-op")
  | ["advance", ns] =>
    match ns.toNat? with
    | some dt =>
      -- lease expiry is modelled for idle worlds only (all discovered-participant stamps are those of time 0)
      if w.wrote && decide (w.now + dt ≥ LEASE - 1000000000) then (w, "bad-op")
      else (runUntil FUEL w (w.now + dt), "ok")
    | none => (w, "bad-op")
  | ["jump", ns] =>
    match ns.toNat? with
    | some dt => if decide (w.now + dt ≥ LEASE - 1000000000) then (w, "bad-op") else (jump w dt, "ok")
    | none => (w, "bad-op")
  | ["timers"] => ({ w with sleeps := [] }, showSleeps w.sleeps)
  | ["log"] => ({ w with log := [] }, showLog (sortWithinInstant w.log))
  | ["now"] => (w, s!"ok {w.now}")
  | ["status", n, "offered_deadline_missed"] =>
    match findWriter w n with
    | some x =>
      let w := iterate w
      match findWriter w n with
      | some x' =>
        (w, s!"ok total={x'.dl.total} last={match x'.dl.last with | some k => showKey k | none => "none"}")
      | none => (w, s!"ok total={x.dl.total}")
    | none => (w, "bad-op")
  | [op, n] =>
    if op == "read" || op == "take" then
      match findReader w n with
      | some r =>
        let w := if op == "take" then setReader w { r with samples := [] } else w
        (iterate w, showSamples r.samples)
      | none => (w, "bad-op")
    else (w, "bad-op")
  | _ => (w, "bad-op")

end DustVerif.Driver.WorkerEngine
