import DustVerif.Model.Idl
import DustVerif.Driver.Gen
/-! Engine `gen`, IDL part (C41):
      idl <i> SPEC          -> ok | ERR | PANIC | RUSTC   (outcome of `compile_idl` + rustc on its output)
      ty  <i> <j> SPEC      -> `T <A::B::Name> <description>` of the j-th declared type, `-` if there is none -/
namespace DustVerif.Driver.GenEngine
open DustVerif.Derive DustVerif.Idl DustVerif.Driver

def base? : String → Option Base
  | "short" => some .short | "int16" => some .int16 | "long" => some .long | "int32" => some .int32
  | "longlong" => some .longlong | "int64" => some .int64 | "ushort" => some .ushort | "uint16" => some .uint16
  | "ulong" => some .ulong | "uint32" => some .uint32 | "ulonglong" => some .ulonglong | "uint64" => some .uint64
  | "int8" => some .int8 | "uint8" => some .uint8 | "float" => some .float | "double" => some .double
  | "char" => some .char | "wchar" => some .wchar | "boolean" => some .boolean | "octet" => some .octet
  | _ => none

def atoms? : List Sexp → Option (List String)
  | [] => some []
  | .atom a :: r => (atoms? r).map (a :: ·)
  | _ => none

partial def typeSpec? : Sexp → Option TypeSpec
  | .atom a => (base? a).map TypeSpec.base
  | .list [.atom "string", .atom n] => (optNat? n).map TypeSpec.str
  | .list [.atom "wstring", .atom n] => (optNat? n).map TypeSpec.wstr
  | .list [.atom "seq", t, .atom n] => do
    let t ← typeSpec? t
    let n ← optNat? n
    pure (.seq t n)
  | .list (.atom "name" :: .atom a :: segs) => do
    let a ← b? a
    let segs ← atoms? segs
    if segs.isEmpty then none else pure (.name a segs)
  | _ => none

def splitColon (s : String) : String × String :=
  match s.splitOn ":" with
  | [a] => (a, "")
  | a :: r => (a, String.intercalate ":" r)
  | [] => ("", "")

def mann? (s : String) : Option MAnn :=
  if s == "key" then some .key
  else if s == "optional" then some .optional
  else match splitColon s with
    | ("id", n) => n.toNat?.map MAnn.id
    | ("o", n) => some (.other n)
    | _ => none

def sann? (s : String) : Option SAnn :=
  match s with
  | "final" => some (.ext .final)
  | "appendable" => some (.ext .appendable)
  | "mutable" => some (.ext .mutable)
  | _ => match splitColon s with
    | ("o", n) => some (.other n)
    | _ => none

def mapOpt {α β} (f : α → Option β) : List α → Option (List β)
  | [] => some []
  | x :: r => match f x, mapOpt f r with
    | some y, some ys => some (y :: ys)
    | _, _ => none

def declr? : Sexp → Option Declr
  | .list (.atom n :: dims) => do
    let ds ← atoms? dims
    let ds ← nats? ds
    pure { name := n, dims := ds }
  | _ => none

def label? : Sexp → Option Label
  | .atom "default" => some .dflt
  | .atom n => n.toNat?.map Label.int
  | _ => none

def member? : Sexp → Option Member
  | .list [.atom "m", .list anns, t, .list decls] => do
    let anns ← atoms? anns
    let anns ← mapOpt mann? anns
    let t ← typeSpec? t
    let decls ← mapOpt declr? decls
    pure { anns := anns, ty := t, decls := decls }
  | _ => none

def case? : Sexp → Option Case
  | .list [.atom "case", .list labels, t, d] => do
    let labels ← mapOpt label? labels
    let t ← typeSpec? t
    let d ← declr? d
    pure { labels := labels, ty := t, decl := d }
  | _ => none

def enumerator? : Sexp → Option (String × Option Nat)
  | .list [.atom n, .atom v] => (optNat? v).map (fun v => (n, v))
  | _ => none

mutual
partial def def? : Sexp → Option Def
  | .list (.atom "module" :: .atom n :: ds) => (defs? ds).map (Def.module n)
  | .list [.atom "struct", .atom n, .list anns, .list ms] => do
    let anns ← atoms? anns
    let anns ← mapOpt sann? anns
    let ms ← mapOpt member? ms
    pure (.struct { name := n, anns := anns, members := ms })
  | .list [.atom "enum", .atom n, .atom bits, .list es] => do
    let bits ← optNat? bits
    let es ← mapOpt enumerator? es
    pure (.enum { name := n, bitBound := bits, enumerators := es })
  | .list [.atom "union", .atom n, .list anns, .atom disc, .list cs] => do
    let anns ← atoms? anns
    let disc ← base? disc
    let cs ← mapOpt case? cs
    pure (.union { name := n, anns := anns, disc := disc, cases := cs })
  | .list [.atom "typedef", t, .list ds] => do
    let t ← typeSpec? t
    let ds ← mapOpt declr? ds
    pure (.typedef t ds)
  | .list [.atom "const", .atom n, t, .atom text] => do
    let t ← typeSpec? t
    pure (.const { name := n, ty := t, text := text })
  | _ => none
partial def defs? : List Sexp → Option Defs
  | [] => some .nil
  | d :: r => do
    let d ← def? d
    let r ← defs? r
    pure (.cons d r)
end

def outcomeStr : Outcome → String
  | .ok => "ok" | .err => "ERR" | .panic => "PANIC" | .rustc => "RUSTC"

/-- outside the modelled subset: a float / double / char / boolean discriminator (the grammar or rustc reject them for
    reasons not modelled), empty structures of the AST that the grammar cannot express -/
def discOk : Base → Bool
  | .float | .double | .char | .wchar | .boolean => false
  | _ => true

def isNil : Defs → Bool
  | .nil => true
  | _ => false

mutual
partial def inSubset : Def → Bool
  | .module _ ds => inSubsetDefs ds && !(isNil ds)
  | .union u => discOk u.disc && !u.cases.isEmpty && u.cases.all (fun c => !c.labels.isEmpty)
  | .enum e => !e.enumerators.isEmpty
  | .struct s => s.members.all (fun m => !m.decls.isEmpty)
  | .typedef _ ds => !ds.isEmpty
  | .const _ => true
partial def inSubsetDefs : Defs → Bool
  | .nil => true
  | .cons d r => inSubset d && inSubsetDefs r
end

def parseSpec (line : String) (skip : Nat) : Option Defs :=
  match parseAll (dropToks skip line.toList) with
  | some [.list ds] => match defs? ds with
    | some ds => if inSubsetDefs ds && !(match ds with | .nil => true | _ => false) then some ds else none
    | none => none
  | _ => none

def stepIdl (line : String) : String :=
  match toks line with
  | "idl" :: _ :: _ =>
    match parseSpec line 2 with
    | some ds => outcomeStr (outcome ds)
    | none => "bad-op"
  | "ty" :: _ :: j :: _ =>
    match parseSpec line 3, j.toNat? with
    | some ds, some j =>
      match (types ds)[j]? with
      | some (p, t) => "T " ++ String.intercalate "::" p ++ " " ++ descStr (describe t)
      | none => "-"
    | _, _ => "bad-op"
  | _ => "bad-op"

def step (line : String) : String :=
  match toks line with
  | "decl" :: _ => stepDerive line
  | "val" :: _ => stepDerive line
  | "idl" :: _ => stepIdl line
  | "ty" :: _ => stepIdl line
  | _ => "bad-op"

end DustVerif.Driver.GenEngine
