import DustVerif.Model.SpdpWorld
import DustVerif.Driver.Util
/-! Engine `spdp` (C17): predicts the answers of the `dsim` interpreter for the scenario sub-language of vlib/spdp_common.py:
      config announce=<ns> | config tag=<t|->          participant <name> [domain=<d>]
      hold DATA from=<index> times=<n>                  drop-next <n> DATA from=<name>        drop-if from=<name>
      spdp-forge <source index> <to> [id=<n>] [domain=<d>|none] [lease=<ns>]
      ignore <name> <name|#index>      delete <name>    advance <ns>     now      discovered <name> participants
    Anything else answers `bad-op`. -/
namespace DustVerif.Driver.SpdpEngine
open DustVerif.Spdp DustVerif.SpdpWorld DustVerif.Driver

structure DSt where
  w : World
  names : List (String × Nat)

def DSt.init : DSt :=
  { w := World.init
    names := [] }

def hexDigit (n : Nat) : Char := if n < 10 then Char.ofNat (48 + n) else Char.ofNat (87 + n)
def hex2 (n : Nat) : String := String.ofList [hexDigit (n / 16 % 16), hexDigit (n % 16)]
def handleHex (i : Nat) : String :=
  "b1b2b3b4a1a2a3a4" ++ hex2 (i % 256) ++ hex2 (i / 2 ^ 8 % 256) ++ hex2 (i / 2 ^ 16 % 256) ++ hex2 (i / 2 ^ 24 % 256) ++ "000001c1"

def kvOf (t : String) : Option (String × String) :=
  match t.splitOn "=" with
  | [a, b] => some (a, b)
  | _ => none

def look (s : DSt) (n : String) : Option Nat := (s.names.find? (fun x => x.1 == n)).map (·.2)

/-- name or decimal creation index -/
def lookIdx (s : DSt) (n : String) : Option Nat :=
  match look s n with
  | some i => some i
  | none => n.toNat?

def keyLt (a b : Nat) : Bool :=
  -- order of the hex strings: bytes of the little-endian index
  let ka := [a % 256, a / 256 % 256, a / 65536 % 256, a / 16777216 % 256]
  let kb := [b % 256, b / 256 % 256, b / 65536 % 256, b / 16777216 % 256]
  decide (ka < kb)

def insertKey (k : Nat) : List Nat → List Nat
  | [] => [k]
  | x :: xs => if keyLt k x then k :: x :: xs else x :: insertKey k xs
def sortKeys (l : List Nat) : List Nat := l.foldl (fun acc k => insertKey k acc) []

def bad (s : DSt) : DSt × String := (s, "bad-op")

def alivePart (s : DSt) (i : Nat) : Option Part :=
  match getPart s.w i with
  | some p => if p.alive then some p else none
  | none => none

structure Forge where
  id : Option Nat
  domain : Option (Option Nat)
  lease : Option Nat

def forgeOpts : Forge → List String → Option Forge
  | f, [] => some f
  | f, t :: ts => match kvOf t with
    | some ("id", v) => v.toNat?.bind (fun n => forgeOpts { f with id := some n } ts)
    | some ("domain", v) => if v == "none" then forgeOpts { f with domain := some none } ts
                            else v.toNat?.bind (fun n => forgeOpts { f with domain := some (some n) } ts)
    | some ("lease", v) => v.toNat?.bind (fun n => forgeOpts { f with lease := some n } ts)
    | _ => none

def step (s : DSt) (line : String) : DSt × String :=
  match toks line with
  | ["reset"] => (DSt.init, "ok")
  | [] => (s, "ok")
  | ["config", opt] =>
    match kvOf opt with
    | some ("announce", v) => match v.toNat? with
      | some n => if n == 0 then bad s else ({ s with w := { s.w with cfgInterval := n } }, "ok")
      | none => bad s
    | some ("tag", v) => ({ s with w := { s.w with cfgTag := if v == "-" then "" else v } }, "ok")
    | _ => bad s
  | "participant" :: n :: opts =>
    if (look s n).isSome || n.toNat?.isSome then bad s
    else
      let dom : Option Nat := match opts with
        | [] => some 0
        | [o] => match kvOf o with
          | some ("domain", v) => v.toNat?
          | _ => none
        | _ => none
      match dom with
      | some d =>
        let (w', i) := createPart s.w d
        ({ s with w := w', names := s.names ++ [(n, i)] }, s!"ok {handleHex i}")
      | none => bad s
  | ["hold", "DATA", f, t] =>
    match kvOf f, kvOf t with
    | some ("from", i), some ("times", n) => match i.toNat?, n.toNat? with
      | some i, some n => if i < s.w.parts.length then bad s else ({ s with w := { s.w with holds := s.w.holds ++ [(i, n)] } }, "ok")
      | _, _ => bad s
    | _, _ => bad s
  | ["drop-next", n, "DATA", f] =>
    match n.toNat?, kvOf f with
    | some n, some ("from", p) => match look s p with
      | some i => ({ s with w := addDrop s.w i n }, "ok")
      | none => bad s
    | _, _ => bad s
  | ["drop-if", f] =>
    match kvOf f with
    | some ("from", p) => match look s p with
      | some i => ({ s with w := muteP s.w i }, "ok")
      | none => bad s
    | _ => bad s
  | "spdp-forge" :: src :: to :: opts =>
    match src.toNat?, look s to, forgeOpts ⟨none, none, none⟩ opts with
    | some si, some ti, some f =>
      match getPart s.w si, alivePart s ti with
      | some sp, some _ =>
        if !s.w.held.contains si then bad s
        else
          let d : Data := ⟨f.id.getD si, (f.domain.getD (some sp.domain)), sp.tag, f.lease.getD LEASE⟩
          ({ s with w := forge s.w ti d }, "ok *")
      | _, _ => bad s
    | _, _, _ => bad s
  | ["ignore", p, o] =>
    let h : Option Nat := if o.startsWith "#" then (o.drop 1).toNat? else look s o
    match look s p, h with
    | some i, some h => match alivePart s i with
      | some _ => match ignoreP s.w i h with
        | some w' => ({ s with w := w' }, "ok")
        | none => (s, "err:NotEnabled")
      | none => bad s
    | _, _ => bad s
  | ["delete", p] =>
    match look s p with
    | some i => match alivePart s i with
      | some _ => ({ s with w := deletePart s.w i }, "ok")
      | none => bad s
    | none => bad s
  | ["advance", d] =>
    match d.toNat? with
    | some d => match advanceTo ADVANCE_FUEL s.w (s.w.now + d) with
      | some w' => ({ s with w := w' }, "ok")
      | none => bad s
    | none => bad s
  | ["now"] => (s, s!"ok {s.w.now}")
  | ["discovered", p, "participants"] =>
    match look s p with
    | some i => match alivePart s i with
      | some pt =>
        let ks := sortKeys (keys pt.st.list)
        (s, joinSp (["ok", toString ks.length] ++ ks.map handleHex))
      | none => bad s
    | none => bad s
  | t :: _ => if t.startsWith "#" then (s, "ok") else bad s

end DustVerif.Driver.SpdpEngine
