//! Engine `fuzzdg` (C06): the `dsim` scenario interpreter behind the canonicalising front end `dsimwrap`.
#[path = "../dsimwrap.rs"]
mod dsimwrap;
fn main() {
    dsimwrap::main()
}
