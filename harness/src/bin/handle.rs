//! Harness side of the `handle` engine (C11 end to end: writer handle = reader handle, with and without key hash in the
//! message): the engine's Rust side IS the `dsim` scenario interpreter; this binary only exists so that `vlib.core`
//! finds a harness binary under the engine's name. It replaces itself by the `dsim` binary next to it.
use std::os::unix::process::CommandExt;
fn main() {
    let me = std::env::current_exe().expect("current_exe");
    let dsim = me.parent().expect("bin dir").join("dsim");
    let err = std::process::Command::new(dsim).args(std::env::args().skip(1)).exec();
    eprintln!("cannot exec dsim: {err}");
    std::process::exit(127);
}
