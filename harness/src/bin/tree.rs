//! Harness side of the `tree` engine (C35, C36, C28): the engine's Rust side IS the `dsim` scenario interpreter; this
//! binary only exists so that `vlib.core` finds a harness binary under the engine's name. It replaces itself by
//! the `dsim` binary next to it (same arguments, same stdin/stdout).
use std::os::unix::process::CommandExt;
fn main() {
    let me = std::env::current_exe().expect("current_exe");
    let dsim = me.parent().expect("bin dir").join("dsim");
    let err = std::process::Command::new(dsim).args(std::env::args().skip(1)).exec();
    eprintln!("cannot exec dsim: {err}");
    std::process::exit(127);
}
