//! Engine `matchset` (C16): the scenario runs on the deterministic simulator — this binary starts the sibling `dsim`
//! supervisor (one fresh process per case) — and the answers of two ops are put into canonical form:
//!   `log`        -> the callback entries sorted (the order of callbacks of different entities inside one op is scheduling detail)
//!                   and without their `t=` field
//!   `trace show` -> `ok P<from>/<writer entity id>><port|->` …: the sorted set of destinations of the DATA / DATA_FRAG /
//!                   HEARTBEAT / GAP submessages of USER writers (entity kind 02/03) recorded since `trace on`
//! Everything else is passed through unchanged.
use std::io::{Read, Write};
use std::process::{Command, Stdio};

fn canon(line: &str, o: &str) -> String {
    let t: Vec<&str> = line.split_whitespace().collect();
    if t.first() == Some(&"log") && o.starts_with("ok ") {
        // `t=<ns>` is dropped: the instant of a callback caused by a lease expiry depends on the phase of the SPDP timer
        let mut parts: Vec<String> = o.split(" | ").map(|e| e.split(' ').filter(|x| !x.starts_with("t=")).collect::<Vec<_>>().join(" ")).collect();
        let head = parts.remove(0);
        parts.sort();
        let mut v = vec![head];
        v.extend(parts);
        return v.join(" | ");
    }
    if t.len() == 2 && t[0] == "trace" && t[1] == "show" && o.starts_with("ok ") {
        let mut ds: Vec<String> = vec![];
        for p in o.split(" | ").skip(1) {
            let mut from = None;
            let mut to: Option<&str> = None;
            let mut ws: Vec<&str> = vec![];
            for tok in p.split_whitespace() {
                if let Some(x) = tok.strip_prefix("from=") {
                    from = Some(x);
                } else if let Some(x) = tok.strip_prefix("to=") {
                    to = Some(x);
                } else {
                    for k in ["DATA(w=", "DATA_FRAG(w=", "HEARTBEAT(w=", "GAP(w="] {
                        if let Some(x) = tok.strip_prefix(k) {
                            if x.len() >= 8 && (&x[6..8] == "02" || &x[6..8] == "03") {
                                ws.push(&x[..8]);
                            }
                        }
                    }
                }
            }
            let (Some(from), Some(to)) = (from, to) else { continue };
            let ports: Vec<&str> = if to.is_empty() { vec!["-"] } else { to.split(',').collect() };
            for w in ws {
                for port in &ports {
                    ds.push(format!("P{from}/{w}>{port}"));
                }
            }
        }
        ds.sort();
        ds.dedup();
        let mut s = String::from("ok");
        for d in ds {
            s.push(' ');
            s.push_str(&d);
        }
        return s;
    }
    o.to_string()
}

fn main() {
    let mut input = String::new();
    std::io::stdin().read_to_string(&mut input).unwrap();
    let exe = std::env::current_exe().unwrap();
    let dsim = exe.parent().unwrap().join("dsim");
    let mut child = Command::new(dsim).stdin(Stdio::piped()).stdout(Stdio::piped()).spawn().expect("start dsim");
    let mut cin = child.stdin.take().unwrap();
    let data = input.clone();
    let feeder = std::thread::spawn(move || {
        cin.write_all(data.as_bytes()).ok();
    });
    let mut out = String::new();
    child.stdout.take().unwrap().read_to_string(&mut out).unwrap();
    feeder.join().ok();
    let status = child.wait().unwrap();
    let stdout = std::io::stdout();
    let mut w = std::io::BufWriter::new(stdout.lock());
    for (l, o) in input.lines().zip(out.lines()) {
        writeln!(w, "{}", canon(l, o)).unwrap();
    }
    w.flush().unwrap();
    if !status.success() {
        std::process::exit(status.code().unwrap_or(1));
    }
}
