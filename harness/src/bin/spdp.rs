//! Engine `spdp` (C17): the scenario runs on the deterministic simulator — this binary starts the sibling `dsim` supervisor
//! (one fresh process per case) and passes the answers through; the only canonicalisation: the answer `ok #<datagram id>` of
//! `spdp-forge` becomes `ok *` (datagram numbers are not part of the property; the Lean driver answers `ok *` too).
use std::io::{Read, Write};
use std::process::{Command, Stdio};

fn canon(line: &str, o: &str) -> String {
    if line.split_whitespace().next() == Some("spdp-forge") && o.starts_with("ok #") {
        return "ok *".to_string();
    }
    o.to_string()
}

fn main() {
    let mut input = String::new();
    std::io::stdin().read_to_string(&mut input).unwrap();
    let exe = std::env::current_exe().unwrap();
    let dsim = exe.parent().unwrap().join("dsim");
    let mut child = Command::new(dsim).stdin(Stdio::piped()).stdout(Stdio::piped()).spawn().expect("start dsim");
    let mut cin = child.stdin.take().unwrap();
    let data = input.clone();
    let feeder = std::thread::spawn(move || {
        cin.write_all(data.as_bytes()).ok();
    });
    let mut out = String::new();
    child.stdout.take().unwrap().read_to_string(&mut out).unwrap();
    feeder.join().ok();
    let status = child.wait().unwrap();
    let stdout = std::io::stdout();
    let mut w = std::io::BufWriter::new(stdout.lock());
    for (l, o) in input.lines().zip(out.lines()) {
        writeln!(w, "{}", canon(l, o)).unwrap();
    }
    w.flush().unwrap();
    if !status.success() {
        std::process::exit(status.code().unwrap_or(1));
    }
}
