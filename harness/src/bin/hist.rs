//! Engine `hist`: reader history cache (C18-C25). Drives the real UserDefinedDataReader /
//! DataReaderEntity through the cfg-guarded hook re-exports.
use dust_dds::infrastructure::{
    instance::InstanceHandle,
    qos::DataReaderQos,
    qos_policy::{
        DestinationOrderQosPolicyKind, HistoryQosPolicyKind, Length, OwnershipQosPolicyKind,
    },
    sample_info::{InstanceStateKind, SampleStateKind, ViewStateKind},
    status::SampleRejectedStatusKind,
    time::{Duration, DurationKind, Time},
    error::DdsError,
};
use dust_dds::rtps::stateful_reader::RtpsStatefulReader;
use dust_dds::transport::types::{ChangeKind, Guid, ReliabilityKind, EntityId};
use dust_dds::verif_hooks::*;
use dvh::{handle16, unhandle16, hex, unhex};
use std::sync::Arc;

struct St { r: Option<UserDefinedDataReader> }

fn t_of(ns: u64) -> Time { Time::new((ns / 1_000_000_000) as i32, (ns % 1_000_000_000) as u32) }
fn ns_of(t: Time) -> u64 { t.sec() as u64 * 1_000_000_000 + t.nanosec() as u64 }
fn opt_len(s: &str) -> Length { if s == "-" { Length::Unlimited } else { Length::Limited(s.parse().unwrap()) } }
fn kv<'a>(t: &'a [&'a str], k: &str) -> &'a str {
    for x in t { if let Some((a, b)) = x.split_once('=') { if a == k { return b; } } }
    panic!("missing {k}")
}
fn ss_mask(m: u32) -> Vec<SampleStateKind> { let mut v = vec![]; if m & 1 != 0 { v.push(SampleStateKind::Read) } if m & 2 != 0 { v.push(SampleStateKind::NotRead) } v }
fn vs_mask(m: u32) -> Vec<ViewStateKind> { let mut v = vec![]; if m & 1 != 0 { v.push(ViewStateKind::New) } if m & 2 != 0 { v.push(ViewStateKind::NotNew) } v }
fn is_mask(m: u32) -> Vec<InstanceStateKind> { let mut v = vec![]; if m & 1 != 0 { v.push(InstanceStateKind::Alive) } if m & 2 != 0 { v.push(InstanceStateKind::NotAliveDisposed) } if m & 4 != 0 { v.push(InstanceStateKind::NotAliveNoWriters) } v }
fn err_s(e: &DdsError) -> &'static str {
    match e {
        DdsError::NoData => "err:NoData", DdsError::BadParameter => "err:BadParameter",
        DdsError::NotEnabled => "err:NotEnabled", DdsError::PreconditionNotMet(_) => "err:PreconditionNotMet",
        DdsError::Error(_) => "err:Error", _ => "err:Other",
    }
}
fn show(res: Result<SampleList, DdsError>) -> String {
    match res {
        Err(e) => err_s(&e).to_string(),
        Ok(l) => l.iter().map(|(d, i)| format!("{}/{}/{}/{}/{}/{}/{}/{}/{}/{}/{}/{}/{}",
            hex(d),
            match i.sample_state { SampleStateKind::Read => "R", SampleStateKind::NotRead => "N" },
            match i.view_state { ViewStateKind::New => "new", ViewStateKind::NotNew => "old" },
            match i.instance_state { InstanceStateKind::Alive => "A", InstanceStateKind::NotAliveDisposed => "D", InstanceStateKind::NotAliveNoWriters => "W" },
            i.disposed_generation_count, i.no_writers_generation_count, i.sample_rank, i.generation_rank, i.absolute_generation_rank,
            match i.source_timestamp { None => "-".to_string(), Some(t) => ns_of(t).to_string() },
            unhandle16(&<[u8;16]>::from(i.instance_handle)), unhandle16(&<[u8;16]>::from(i.publication_handle)),
            if i.valid_data { 1 } else { 0 })).collect::<Vec<_>>().join(" "),
    }
}
fn kind_of(s: &str) -> ChangeKind { match s { "A" => ChangeKind::Alive, "F" => ChangeKind::AliveFiltered, "D" => ChangeKind::NotAliveDisposed, "U" => ChangeKind::NotAliveUnregistered, "DU" => ChangeKind::NotAliveDisposedUnregistered, _ => panic!() } }
fn kind_s(k: ChangeKind) -> &'static str { match k { ChangeKind::Alive => "A", ChangeKind::AliveFiltered => "F", ChangeKind::NotAliveDisposed => "D", ChangeKind::NotAliveUnregistered => "U", ChangeKind::NotAliveDisposedUnregistered => "DU" } }
fn opt_h(s: &str) -> Option<InstanceHandle> { if s == "-" { None } else { Some(InstanceHandle::new(handle16(s.parse().unwrap()))) } }

fn step(st: &mut St, t: &[&str]) -> String {
    match t {
        ["qos", rest @ ..] => {
            let mut q = DataReaderQos::const_default();
            let d = kv(rest, "depth");
            q.history.kind = if d == "all" { HistoryQosPolicyKind::KeepAll } else { HistoryQosPolicyKind::KeepLast(d.parse().unwrap()) };
            q.resource_limits.max_samples = opt_len(kv(rest, "ms"));
            q.resource_limits.max_instances = opt_len(kv(rest, "mi"));
            q.resource_limits.max_samples_per_instance = opt_len(kv(rest, "mspi"));
            q.destination_order.kind = if kv(rest, "order") == "src" { DestinationOrderQosPolicyKind::BySourceTimestamp } else { DestinationOrderQosPolicyKind::ByReceptionTimestamp };
            q.ownership.kind = if kv(rest, "own") == "excl" { OwnershipQosPolicyKind::Exclusive } else { OwnershipQosPolicyKind::Shared };
            let ms = kv(rest, "minsep");
            q.time_based_filter.minimum_separation = if ms == "inf" { DurationKind::Infinite } else { let n: u64 = ms.parse().unwrap(); DurationKind::Finite(Duration::new((n / 1_000_000_000) as i32, (n % 1_000_000_000) as u32)) };
            let guid = Guid::new([1; 12], EntityId::new([0, 0, 1], 0x07));
            let mut r = UserDefinedDataReader::new(InstanceHandle::new([9; 16]), q, "T".to_string(), None, StatusMask::default(), RtpsStatefulReader::new(guid, ReliabilityKind::BestEffort));
            r.enabled = kv(rest, "enabled") == "1";
            st.r = Some(r);
            "ok".into()
        }
        ["pub", w, s] => { st.r.as_mut().unwrap().add_matched_publication(publication_builtin_topic_data(handle16(w.parse().unwrap()), s.parse().unwrap())); "ok".into() }
        ["unpub", w] => { st.r.as_mut().unwrap().remove_matched_publication(&InstanceHandle::new(handle16(w.parse().unwrap()))); "ok".into() }
        ["add", w, inst, kind, sts, rts, data] => {
            let r = st.r.as_mut().unwrap();
            let wg = handle16(w.parse().unwrap());
            let guid = Guid::from(wg);
            let sts = if *sts == "-" { None } else { Some(t_of(sts.parse().unwrap())) };
            let res = r.add_reader_change(guid, Arc::from(unhex(data)), kind_of(kind), handle16(inst.parse().unwrap()), sts, t_of(rts.parse().unwrap()));
            match res {
                Ok(AddChangeResult::Added) => "added".into(),
                Ok(AddChangeResult::NotAdded) => "notadded".into(),
                Ok(AddChangeResult::Rejected(h, k)) => {
                    r.increment_sample_rejected_status(h, k);
                    format!("rejected {} {}", unhandle16(&<[u8;16]>::from(h)), rej_s(k))
                }
                Err(_) => "error".into(),
            }
        }
        [op @ ("read" | "take"), max, ss, vs, is, inst] => {
            let r = st.r.as_mut().unwrap();
            let (ss, vs, is) = (ss_mask(ss.parse().unwrap()), vs_mask(vs.parse().unwrap()), is_mask(is.parse().unwrap()));
            let h = opt_h(inst);
            let res = if *op == "read" { r.read(max.parse().unwrap(), &ss, &vs, &is, &h) } else { r.take(max.parse().unwrap(), &ss, &vs, &is, &h) };
            show(res)
        }
        [op @ ("readni" | "takeni"), max, prev, ss, vs, is] => {
            let r = st.r.as_mut().unwrap();
            let (ss, vs, is) = (ss_mask(ss.parse().unwrap()), vs_mask(vs.parse().unwrap()), is_mask(is.parse().unwrap()));
            let h = opt_h(prev);
            let res = if *op == "readni" { r.read_next_instance(max.parse().unwrap(), &h, &ss, &vs, &is) } else { r.take_next_instance(max.parse().unwrap(), &h, &ss, &vs, &is) };
            show(res)
        }
        ["rejstatus"] => {
            let s = st.r.as_mut().unwrap().get_sample_rejected_status();
            format!("{} {} {} {}", s.total_count, s.total_count_change, rej_s(s.last_reason), unhandle16(&<[u8;16]>::from(s.last_instance_handle)))
        }
        ["dump"] => {
            let r = st.r.as_ref().unwrap();
            let mut v: Vec<String> = r.sample_list.iter().map(|s| format!("{}:{}:{}:{}:{}:{}:{}:{}",
                unhandle16(&<[u8;16]>::from(s.instance_handle)), kind_s(s.kind), unhandle16(&s.writer_guid),
                match s.source_timestamp { None => "-".to_string(), Some(t) => ns_of(t).to_string() },
                if s.sample_state == SampleStateKind::Read { "R" } else { "N" }, s.disposed_generation_count, s.no_writers_generation_count, hex(&s.data_value))).collect();
            v.push("|".into());
            v.extend(r.instances.iter().map(|i| { let (vs, is, d, n) = i.verif_state(); format!("{}:{}:{}:{}:{}", unhandle16(&<[u8;16]>::from(*i.handle())),
                match vs { ViewStateKind::New => "new", ViewStateKind::NotNew => "old" },
                match is { InstanceStateKind::Alive => "A", InstanceStateKind::NotAliveDisposed => "D", InstanceStateKind::NotAliveNoWriters => "W" }, d, n) }));
            v.push("|".into());
            v.extend(r.instance_ownership.iter().map(|o| format!("{}:{}:{}", unhandle16(&<[u8;16]>::from(o.instance_handle)), unhandle16(&o.owner_handle), ns_of(o.last_received_time))));
            v.join(" ")
        }
        _ => "bad-op".into(),
    }
}
fn rej_s(k: SampleRejectedStatusKind) -> &'static str { match k { SampleRejectedStatusKind::NotRejected => "none", SampleRejectedStatusKind::RejectedByInstancesLimit => "instances", SampleRejectedStatusKind::RejectedBySamplesLimit => "samples", SampleRejectedStatusKind::RejectedBySamplesPerInstanceLimit => "spi" } }

fn main() { dvh::run_stateful(|| St { r: None }, step); }
