//! Engine `time`: C14 (time/duration conversions and arithmetic), C38 (fragment size range).
//! Public API only.
use dust_dds::infrastructure::time::{Duration, Time};
use dust_dds::rtps_udp_transport::udp_transport::RtpsUdpTransportParticipantFactory;

fn p_i32(s: &str) -> i32 { s.parse().unwrap() }
fn p_u32(s: &str) -> u32 { s.parse().unwrap() }

fn step(t: &[&str]) -> String {
    match t {
        ["fragseq", rest @ ..] => {
            let mut f = RtpsUdpTransportParticipantFactory::default();
            let mut outs = vec![];
            for n in rest {
                let n: usize = n.parse().unwrap();
                let ok = f.set_fragment_size(n).is_ok();
                outs.push(format!("{}:{}", if ok { "ok" } else { "bad" }, f.fragment_size()));
            }
            outs.push(format!("final:{}", f.fragment_size()));
            outs.join(" ")
        }
        ["dur_new", s, n] => {
            let d = Duration::new(p_i32(s), p_u32(n));
            format!("{} {}", d.sec(), d.nanosec())
        }
        ["dur_rt_beh", s, n] => {
            let d = Duration::new(p_i32(s), p_u32(n));
            let w = dust_dds::rtps::behavior_types::Duration::from(d);
            let d2 = Duration::from(w);
            format!("{} {}", d2.sec(), d2.nanosec())
        }
        ["dur_rt_msg", s, n] => {
            let d = Duration::new(p_i32(s), p_u32(n));
            let w = dust_dds::rtps_messages::types::Time::from(d);
            let d2 = Duration::from(w);
            format!("{} {}", d2.sec(), d2.nanosec())
        }
        ["time_rt", s, n] => {
            let t0 = Time::new(p_i32(s), p_u32(n));
            let tt = dust_dds::transport::types::Time::from(t0);
            let w = dust_dds::rtps_messages::types::Time::from(tt);
            let tt2 = dust_dds::transport::types::Time::from(w);
            let t2 = Time::from(tt2);
            format!("{} {}", t2.sec(), t2.nanosec())
        }
        ["frac", n] => {
            // through the public conversion: Duration(0, n) -> behavior Duration -> Duration
            let d = Duration::new(0, p_u32(n));
            let w = dust_dds::rtps::behavior_types::Duration::from(d);
            let d2 = Duration::from(w);
            format!("{} {}", w.fraction(), d2.nanosec())
        }
        [op, s1, n1, s2, n2, s3, n3] => {
            let a = Duration::new(p_i32(s1), p_u32(n1));
            let b = Duration::new(p_i32(s2), p_u32(n2));
            let d = Duration::new(p_i32(s3), p_u32(n3));
            let (x, y) = match *op {
                "mono_add" => (a + d, b + d),
                "mono_sub" => (a - d, b - d),
                "mono_addr" => (a + b, a + d),
                _ => return "bad-op".into(),
            };
            format!("{} {} {} {}", x.sec(), x.nanosec(), y.sec(), y.nanosec())
        }
        [op, s1, n1, s2, n2] => {
            let (s1, n1, s2, n2) = (p_i32(s1), p_u32(n1), p_i32(s2), p_u32(n2));
            match *op {
                "dur_add" => { let r = Duration::new(s1, n1) + Duration::new(s2, n2); format!("{} {}", r.sec(), r.nanosec()) }
                "dur_sub" => { let r = Duration::new(s1, n1) - Duration::new(s2, n2); format!("{} {}", r.sec(), r.nanosec()) }
                "time_add" => { let r = Time::new(s1, n1) + Duration::new(s2, n2); format!("{} {}", r.sec(), r.nanosec()) }
                "time_sub" => { let r = Time::new(s1, n1) - Time::new(s2, n2); format!("{} {}", r.sec(), r.nanosec()) }
                _ => "bad-op".into(),
            }
        }
        _ => "bad-op".into(),
    }
}

fn main() {
    let args: Vec<String> = std::env::args().collect();
    if args.len() > 1 && args[1] == "sweep" {
        // complete enumeration of the nanosecond domain [0, 10^9): oracle only
        let mut bad = 0u64; let mut first = None;
        for ns in 0..1_000_000_000u32 {
            let d = Duration::new(7, ns);
            let w = dust_dds::rtps::behavior_types::Duration::from(d);
            let d2 = Duration::from(w);
            let m = dust_dds::rtps_messages::types::Time::from(d);
            let d3 = Duration::from(m);
            if d2 != d || d3 != d { bad += 1; if first.is_none() { first = Some(ns); } }
        }
        println!("sweep bad={} first={:?}", bad, first);
        return;
    }
    dvh::run_stateless(step);
}
