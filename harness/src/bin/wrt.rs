//! Harness side of the `wrt` engine (C27, C29, writer half of C19): the engine's Rust side IS the `dsim` scenario
//! interpreter (real dust-dds behind the public async API in virtual time); this binary only exists so that
//! `vlib.core` finds a harness binary under the engine's name (`--replay`, `harness_bin("wrt")`). It replaces itself
//! by the `dsim` binary next to it (same arguments, same stdin/stdout).
use std::os::unix::process::CommandExt;
fn main() {
    let me = std::env::current_exe().expect("current_exe");
    let dsim = me.parent().expect("bin dir").join("dsim");
    let err = std::process::Command::new(dsim).args(std::env::args().skip(1)).exec();
    eprintln!("cannot exec dsim: {err}");
    std::process::exit(127);
}
