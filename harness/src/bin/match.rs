//! Engine `match`: request/offered QoS compatibility (C15) and QoS consistency / immutability rules (C37).
//! Drives the real private functions through cfg(dust_dds_verif) wrappers.
use dust_dds::infrastructure::{
    error::DdsError,
    instance::InstanceHandle,
    qos::{DataReaderQos, DataWriterQos, PublisherQos, SubscriberQos, TopicQos},
    qos_policy::*,
    time::{Duration, DurationKind},
};
use dust_dds::rtps::stateful_reader::RtpsStatefulReader;
use dust_dds::transport::types::{EntityId, Guid, ReliabilityKind};
use dust_dds::verif_hooks::*;

fn kv<'a>(t: &'a [&'a str], k: &str) -> &'a str {
    for x in t { if let Some((a, b)) = x.split_once('=') { if a == k { return b; } } }
    panic!("missing {k}")
}
fn dur(s: &str) -> DurationKind {
    if s == "inf" { return DurationKind::Infinite; }
    let (a, b) = s.split_once(':').unwrap();
    DurationKind::Finite(Duration::new(a.parse().unwrap(), b.parse().unwrap()))
}
fn len(s: &str) -> Length { if s == "-" { Length::Unlimited } else { Length::Limited(s.parse().unwrap()) } }
fn repr(s: &str) -> Vec<u16> { if s == "-" { vec![] } else { s.split(',').map(|x| x.parse().unwrap()).collect() } }
fn durability(s: &str) -> DurabilityQosPolicyKind { match s { "0" => DurabilityQosPolicyKind::Volatile, "1" => DurabilityQosPolicyKind::TransientLocal, "2" => DurabilityQosPolicyKind::Transient, "3" => DurabilityQosPolicyKind::Persistent, _ => panic!() } }
fn scope(s: &str) -> PresentationQosPolicyAccessScopeKind { match s { "0" => PresentationQosPolicyAccessScopeKind::Instance, "1" => PresentationQosPolicyAccessScopeKind::Topic, _ => panic!() } }
fn livk(s: &str) -> LivelinessQosPolicyKind { match s { "0" => LivelinessQosPolicyKind::Automatic, "1" => LivelinessQosPolicyKind::ManualByParticipant, "2" => LivelinessQosPolicyKind::ManualByTopic, _ => panic!() } }
fn rel(s: &str) -> ReliabilityQosPolicyKind { match s { "0" => ReliabilityQosPolicyKind::BestEffort, "1" => ReliabilityQosPolicyKind::Reliable, _ => panic!() } }
fn dord(s: &str) -> DestinationOrderQosPolicyKind { match s { "0" => DestinationOrderQosPolicyKind::ByReceptionTimestamp, "1" => DestinationOrderQosPolicyKind::BySourceTimestamp, _ => panic!() } }
fn own(s: &str) -> OwnershipQosPolicyKind { match s { "0" => OwnershipQosPolicyKind::Shared, "1" => OwnershipQosPolicyKind::Exclusive, _ => panic!() } }
fn pres(t: &[&str]) -> PresentationQosPolicy {
    PresentationQosPolicy { access_scope: scope(kv(t, "scope")), coherent_access: kv(t, "coh") == "1", ordered_access: kv(t, "ord") == "1" }
}

/// RxO part of a writer (+ publisher)
fn end_writer(t: &[&str]) -> (DataWriterQos, PublisherQos) {
    let mut q = DataWriterQos::const_default();
    q.durability.kind = durability(kv(t, "dur"));
    q.deadline.period = dur(kv(t, "dl"));
    q.latency_budget.duration = dur(kv(t, "lat"));
    q.liveliness = LivelinessQosPolicy { kind: livk(kv(t, "livk")), lease_duration: dur(kv(t, "lease")) };
    q.reliability.kind = rel(kv(t, "rel"));
    q.destination_order.kind = dord(kv(t, "do"));
    q.ownership.kind = own(kv(t, "own"));
    q.representation.value = repr(kv(t, "repr"));
    let mut p = PublisherQos::const_default();
    p.presentation = pres(t);
    (q, p)
}
fn end_reader(t: &[&str]) -> (DataReaderQos, SubscriberQos) {
    let mut q = DataReaderQos::const_default();
    q.durability.kind = durability(kv(t, "dur"));
    q.deadline.period = dur(kv(t, "dl"));
    q.latency_budget.duration = dur(kv(t, "lat"));
    q.liveliness = LivelinessQosPolicy { kind: livk(kv(t, "livk")), lease_duration: dur(kv(t, "lease")) };
    q.reliability.kind = rel(kv(t, "rel"));
    q.destination_order.kind = dord(kv(t, "do"));
    q.ownership.kind = own(kv(t, "own"));
    q.representation.value = repr(kv(t, "repr"));
    let mut s = SubscriberQos::const_default();
    s.presentation = pres(t);
    (q, s)
}
fn ids(v: Vec<QosPolicyId>) -> String { if v.is_empty() { "-".into() } else { v.iter().map(|x| x.to_string()).collect::<Vec<_>>().join(",") } }

fn history(s: &str) -> HistoryQosPolicy { HistoryQosPolicy { kind: if s == "all" { HistoryQosPolicyKind::KeepAll } else { HistoryQosPolicyKind::KeepLast(s.parse().unwrap()) } } }
fn limits(t: &[&str]) -> ResourceLimitsQosPolicy {
    ResourceLimitsQosPolicy { max_samples: len(kv(t, "ms")), max_instances: len(kv(t, "mi")), max_samples_per_instance: len(kv(t, "mspi")) }
}
fn ent_writer(t: &[&str]) -> DataWriterQos {
    let mut q = DataWriterQos::const_default();
    q.durability.kind = durability(kv(t, "dur"));
    q.liveliness = LivelinessQosPolicy { kind: livk(kv(t, "livk")), lease_duration: dur(kv(t, "lease")) };
    q.reliability = ReliabilityQosPolicy { kind: rel(kv(t, "rel")), max_blocking_time: dur(kv(t, "mbt")) };
    q.destination_order.kind = dord(kv(t, "do"));
    q.history = history(kv(t, "depth"));
    q.resource_limits = limits(t);
    q.ownership.kind = own(kv(t, "own"));
    q.deadline.period = dur(kv(t, "dl"));
    q.representation.value = repr(kv(t, "repr"));
    q.user_data.value = kv(t, "ud").as_bytes().to_vec();
    q
}
fn ent_reader(t: &[&str]) -> DataReaderQos {
    let mut q = DataReaderQos::const_default();
    q.durability.kind = durability(kv(t, "dur"));
    q.liveliness = LivelinessQosPolicy { kind: livk(kv(t, "livk")), lease_duration: dur(kv(t, "lease")) };
    q.reliability = ReliabilityQosPolicy { kind: rel(kv(t, "rel")), max_blocking_time: dur(kv(t, "mbt")) };
    q.destination_order.kind = dord(kv(t, "do"));
    q.history = history(kv(t, "depth"));
    q.resource_limits = limits(t);
    q.ownership.kind = own(kv(t, "own"));
    q.deadline.period = dur(kv(t, "dl"));
    q.time_based_filter.minimum_separation = dur(kv(t, "minsep"));
    q.representation.value = repr(kv(t, "repr"));
    q.user_data.value = kv(t, "ud").as_bytes().to_vec();
    q
}
fn ent_topic(t: &[&str]) -> TopicQos {
    let mut q = TopicQos::const_default();
    q.history = history(kv(t, "depth"));
    q.resource_limits = limits(t);
    q
}
fn res(r: Result<(), DdsError>) -> String {
    match r { Ok(()) => "ok".into(), Err(DdsError::InconsistentPolicy) => "InconsistentPolicy".into(), Err(DdsError::ImmutablePolicy) => "ImmutablePolicy".into(), Err(e) => format!("err:{:?}", e) }
}
fn split_bar<'a>(t: &'a [&'a str]) -> (&'a [&'a str], &'a [&'a str]) {
    let i = t.iter().position(|x| *x == "|").expect("bar");
    (&t[..i], &t[i + 1..])
}

fn step(t: &[&str]) -> String {
    match t {
        ["rxo", rest @ ..] => {
            let (a, b) = split_bar(rest);
            let (wq, pq) = end_writer(a);
            let (rq, sq) = end_reader(b);
            // writer side: the writer looks at the reader's announcement
            let sub = subscription_builtin_topic_data_from_qos([2; 16], &rq, &sq);
            let w = verif_get_discovered_reader_incompatible_qos_policy_list(&wq, &sub, &pq);
            // reader side: the reader entity looks at the writer's announcement
            let publ = publication_builtin_topic_data_from_qos([1; 16], &wq, &pq);
            let guid = Guid::new([1; 12], EntityId::new([0, 0, 1], 0x07));
            let dr = DataReaderEntity::new(InstanceHandle::new([9; 16]), rq, "T".to_string(), RtpsStatefulReader::new(guid, ReliabilityKind::BestEffort));
            let r = verif_get_discovered_writer_incompatible_qos_policy_list(&dr, &publ, &sq);
            format!("W:{} R:{}", ids(w), ids(r))
        }
        // C15 partition part: ONE (pattern, name) test of the inline partition matching (`%e` = the empty string)
        ["glob", pat, name] => {
            let e = |x: &str| if x == "%e" { String::new() } else { x.to_string() };
            match verif_partition_pattern_is_match(&e(pat), &e(name)) {
                Some(true) => "1".into(),
                Some(false) => "0".into(),
                None => "invalid".into(),
            }
        }
        ["wcons", rest @ ..] => res(ent_writer(rest).verif_is_consistent()),
        ["rcons", rest @ ..] => res(ent_reader(rest).verif_is_consistent()),
        ["tcons", rest @ ..] => res(ent_topic(rest).verif_is_consistent()),
        ["wimm", rest @ ..] => { let (a, b) = split_bar(rest); res(ent_writer(a).verif_check_immutability(&ent_writer(b))) }
        ["rimm", rest @ ..] => { let (a, b) = split_bar(rest); res(ent_reader(a).verif_check_immutability(&ent_reader(b))) }
        _ => "bad-op".into(),
    }
}

fn main() { dvh::run_stateless(step); }
