//! Engine `gen` (C40 derive macro, C41 IDL compiler): the implementation under test is a proc-macro / a code generator, so
//! the real "harness binary" is a GENERATED CRATE (vlib/gen_common.py writes it under .build/gencrates/ and builds it into
//! this target dir as `gen_derive` / `gen_idl`). During a check run the Python side builds it once and talks to it directly.
//! This launcher exists for `./check Cxx --replay <file>`: it hands the op lines to `vlib.gen_common launch`, which
//! regenerates the crate from the ASTs in the op lines alone, compiles it against the repo checkout and runs it.
use std::io::{Read, Write};
use std::process::{Command, Stdio};

fn main() {
    let mut input = String::new();
    std::io::stdin().read_to_string(&mut input).unwrap();
    let verif = std::path::Path::new(env!("CARGO_MANIFEST_DIR")).parent().unwrap().to_path_buf();
    let mut child = Command::new("python3")
        .args(["-m", "vlib.gen_common", "launch"])
        .current_dir(&verif)
        .stdin(Stdio::piped())
        .stdout(Stdio::piped())
        .spawn()
        .expect("python3");
    child.stdin.take().unwrap().write_all(input.as_bytes()).unwrap();
    let out = child.wait_with_output().unwrap();
    std::io::stdout().write_all(&out.stdout).unwrap();
}
