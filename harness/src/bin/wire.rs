//! Engine `wire`: RTPS message codec (C08 round trip, C07 decoder totality - RTPS part).
//! Public (doc-hidden) API only: `dust_dds::rtps_messages::*`, `dust_dds::transport::types::*`.
//!
//! ops (one line in, one line out):
//!   enc <msg-spec>      -> hex of RtpsMessageWrite::new(header, submessages).buffer()
//!   dec <hex>           -> `ok <rendering>` | `err:<kind>` of RtpsMessageRead::try_from
//!   <op>@<letters>      -> same as <op>; the letters (5 = D5 fix, e = D-wire-3, a = D-wire-4, m = D-wire-2) tell the
//!                          model which repairs the tree under test contains (no suffix = tree of the first delivery)
//!   decx <hex> <msg-spec> -> same as dec; the spec (the message the bytes were made from) is carried for the oracle only
//!   rt  <msg-spec>      -> `<hex> <dec output of that hex>`
//!   sub <sub-spec>      -> hex of one submessage written alone (write_submessage_into_bytes_vec)
//! A panic in the real code prints `PANIC`; an op whose peak live heap exceeds
//! 64 MiB + 64 x input bytes prints `ALLOC-LIMIT`.
//!
//! msg-spec  := H:<version 2B hex>:<vendor 2B hex>:<prefix 12B hex> { <sub-spec> }
//! sub-spec  := DATA,<q><d><k><n>,<reader 4B>,<writer 4B>,<sn>,<qos>,<bytes>
//!            | DFRAG,<q><k><n>,<reader>,<writer>,<sn>,<fragStart>,<fragsInSub>,<fragSize>,<dataSize>,<qos>,<bytes>
//!            | GAP,<reader>,<writer>,<gapStart>,<snset>
//!            | HB,<f><l>,<reader>,<writer>,<first>,<last>,<count>
//!            | ACK,<f>,<reader>,<writer>,<snset>,<count>
//!            | NFRAG,<reader>,<writer>,<sn>,<fnset>,<count>
//!            | HBFRAG,<reader>,<writer>,<sn>,<lastFrag>,<count>
//!            | IDST,<prefix> | ISRC,<version>,<vendor>,<prefix>
//!            | IREPLY,<m>,<locs>,<locs> | ITS,<inv>,<sec>,<frac> | PAD
//! qos   := - | <pid>:<bytes>{;<pid>:<bytes>}      bytes := - | hex | #<n>:<b> (n bytes, byte i = (b+i)%256)
//! snset := <base>/<members>   members := - | m{;m}   (input: goes through SequenceNumberSet::new)
//! locs  := - | <kind>:<port>:<addr 16B hex>{;...}
//! rendering: same syntax, except sets: <base>/<numBits>/<8 bitmap words hex, '.'-separated>/<members via set()>
//!            (members = `!` if the accessor `set()` itself panics).
use dust_dds::rtps_messages::{
    overall_structure::{
        write_submessage_into_bytes_vec, RtpsMessageHeader, RtpsMessageRead, RtpsMessageWrite,
        RtpsSubmessageReadKind, Submessage,
    },
    error::RtpsMessageError,
    submessage_elements::{
        Data, FragmentNumberSet, LocatorList, Parameter, ParameterList, SequenceNumberSet,
        SerializedDataFragment,
    },
    submessages::{
        ack_nack::AckNackSubmessage, data::DataSubmessage, data_frag::DataFragSubmessage,
        gap::GapSubmessage, heartbeat::HeartbeatSubmessage,
        heartbeat_frag::HeartbeatFragSubmessage, info_destination::InfoDestinationSubmessage,
        info_reply::InfoReplySubmessage, info_source::InfoSourceSubmessage,
        info_timestamp::InfoTimestampSubmessage, nack_frag::NackFragSubmessage, pad::PadSubmessage,
    },
    types::Time,
};
use dust_dds::transport::types::{EntityId, Locator, ProtocolVersion};
use dvh::hex;
use std::alloc::{GlobalAlloc, Layout, System};
use std::sync::atomic::{AtomicUsize, Ordering};

// ---------------------------------------------------------------- counting allocator
struct Counting;
static LIVE: AtomicUsize = AtomicUsize::new(0);
static PEAK: AtomicUsize = AtomicUsize::new(0);
static HARD: AtomicUsize = AtomicUsize::new(usize::MAX);

unsafe impl GlobalAlloc for Counting {
    unsafe fn alloc(&self, l: Layout) -> *mut u8 {
        // a single request above the hard cap is refused (-> handle_alloc_error -> abort, reported
        // as CRASH by the runner); everything else is counted and judged after the op
        if l.size() > HARD.load(Ordering::Relaxed) {
            return std::ptr::null_mut();
        }
        let p = unsafe { System.alloc(l) };
        if !p.is_null() {
            let live = LIVE.fetch_add(l.size(), Ordering::Relaxed) + l.size();
            PEAK.fetch_max(live, Ordering::Relaxed);
        }
        p
    }
    unsafe fn dealloc(&self, p: *mut u8, l: Layout) {
        LIVE.fetch_sub(l.size(), Ordering::Relaxed);
        unsafe { System.dealloc(p, l) }
    }
    unsafe fn realloc(&self, p: *mut u8, l: Layout, new: usize) -> *mut u8 {
        if new > HARD.load(Ordering::Relaxed) {
            return std::ptr::null_mut();
        }
        let q = unsafe { System.realloc(p, l, new) };
        if !q.is_null() {
            if new >= l.size() {
                let live = LIVE.fetch_add(new - l.size(), Ordering::Relaxed) + (new - l.size());
                PEAK.fetch_max(live, Ordering::Relaxed);
            } else {
                LIVE.fetch_sub(l.size() - new, Ordering::Relaxed);
            }
        }
        q
    }
}
#[global_allocator]
static A: Counting = Counting;

// ---------------------------------------------------------------- parsing
type R<T> = Result<T, ()>;

fn unhex(s: &str) -> R<Vec<u8>> {
    if s == "-" { return Ok(vec![]); }
    if s.len() % 2 != 0 || !s.bytes().all(|c| c.is_ascii_digit() || (b'a'..=b'f').contains(&c)) { return Err(()); }
    Ok((0..s.len() / 2).map(|i| u8::from_str_radix(&s[2 * i..2 * i + 2], 16).unwrap()).collect())
}
fn bytes(s: &str) -> R<Vec<u8>> {
    if let Some(r) = s.strip_prefix('#') {
        let (n, b) = r.split_once(':').ok_or(())?;
        let n: usize = n.parse().map_err(|_| ())?;
        let b: usize = b.parse().map_err(|_| ())?;
        if n > (1 << 24) { return Err(()); }
        return Ok((0..n).map(|i| ((b + i) % 256) as u8).collect());
    }
    unhex(s)
}
fn fixed<const N: usize>(s: &str) -> R<[u8; N]> {
    let v = unhex(s)?;
    <[u8; N]>::try_from(v.as_slice()).map_err(|_| ())
}
fn num<T: std::str::FromStr>(s: &str) -> R<T> { s.parse().map_err(|_| ()) }
fn flags(s: &str, n: usize) -> R<Vec<bool>> {
    if s.len() != n || !s.bytes().all(|c| c == b'0' || c == b'1') { return Err(()); }
    Ok(s.bytes().map(|c| c == b'1').collect())
}
fn eid(s: &str) -> R<EntityId> { let b = fixed::<4>(s)?; Ok(EntityId::new([b[0], b[1], b[2]], b[3])) }
fn list<T>(s: &str, f: impl Fn(&str) -> R<T>) -> R<Vec<T>> {
    if s == "-" { return Ok(vec![]); }
    s.split(';').map(|x| f(x)).collect()
}
fn qos(s: &str) -> R<ParameterList> {
    Ok(ParameterList::new(list(s, |p| {
        let (pid, v) = p.split_once(':').ok_or(())?;
        Ok(Parameter::new(num::<i16>(pid)?, bytes(v)?.into()))
    })?))
}
fn split_set(s: &str) -> R<(&str, &str)> { s.split_once('/').ok_or(()) }
fn locs(s: &str) -> R<LocatorList> {
    Ok(LocatorList::new(list(s, |l| {
        let p: Vec<&str> = l.split(':').collect();
        if p.len() != 3 { return Err(()); }
        Ok(Locator::new(num::<i32>(p[0])?, num::<u32>(p[1])?, fixed::<16>(p[2])?))
    })?))
}
fn header(s: &str) -> R<RtpsMessageHeader> {
    let p: Vec<&str> = s.split(':').collect();
    if p.len() != 4 || p[0] != "H" { return Err(()); }
    let v = fixed::<2>(p[1])?;
    Ok(RtpsMessageHeader::new(ProtocolVersion::new(v[0], v[1]), fixed::<2>(p[2])?, fixed::<12>(p[3])?))
}

/// builds one submessage with the real constructors (may panic: SequenceNumberSet::new etc.)
fn submessage(s: &str) -> R<Box<dyn Submessage + Send>> {
    let f: Vec<&str> = s.split(',').collect();
    Ok(match f.as_slice() {
        ["DATA", fl, r, w, sn, q, p] => {
            let fl = flags(fl, 4)?;
            Box::new(DataSubmessage::new(fl[0], fl[1], fl[2], fl[3], eid(r)?, eid(w)?, num::<i64>(sn)?, qos(q)?,
                Data::new(bytes(p)?.into())))
        }
        ["DFRAG", fl, r, w, sn, fs, fis, fsz, ds, q, p] => {
            let fl = flags(fl, 3)?;
            // the fragment is a sub-range of a larger buffer, as the writer builds it
            let payload = bytes(p)?;
            let mut whole = vec![0xEE_u8];
            whole.extend_from_slice(&payload);
            whole.push(0xEE);
            let frag = SerializedDataFragment::new(Data::new(whole.into()), 1..1 + payload.len());
            Box::new(DataFragSubmessage::new(fl[0], fl[2], fl[1], eid(r)?, eid(w)?, num::<i64>(sn)?, num::<u32>(fs)?,
                num::<u16>(fis)?, num::<u16>(fsz)?, num::<u32>(ds)?, qos(q)?, frag))
        }
        ["GAP", r, w, start, set] => {
            let (b, m) = split_set(set)?;
            let (r, w, start, b, m) = (eid(r)?, eid(w)?, num::<i64>(start)?, num::<i64>(b)?, list(m, num::<i64>)?);
            Box::new(GapSubmessage::new(r, w, start, SequenceNumberSet::new(b, m)))
        }
        ["HB", fl, r, w, first, last, count] => {
            let fl = flags(fl, 2)?;
            Box::new(HeartbeatSubmessage::new(fl[0], fl[1], eid(r)?, eid(w)?, num::<i64>(first)?, num::<i64>(last)?, num::<i32>(count)?))
        }
        ["ACK", fl, r, w, set, count] => {
            let fl = flags(fl, 1)?;
            let (b, m) = split_set(set)?;
            let (r, w, b, m, c) = (eid(r)?, eid(w)?, num::<i64>(b)?, list(m, num::<i64>)?, num::<i32>(count)?);
            Box::new(AckNackSubmessage::new(fl[0], r, w, SequenceNumberSet::new(b, m), c))
        }
        ["NFRAG", r, w, sn, set, count] => {
            let (b, m) = split_set(set)?;
            let (r, w, sn, b, m, c) = (eid(r)?, eid(w)?, num::<i64>(sn)?, num::<u32>(b)?, list(m, num::<u32>)?, num::<i32>(count)?);
            Box::new(NackFragSubmessage::new(r, w, sn, FragmentNumberSet::new(b, m), c))
        }
        ["HBFRAG", r, w, sn, last, count] =>
            Box::new(HeartbeatFragSubmessage::_new(eid(r)?, eid(w)?, num::<i64>(sn)?, num::<u32>(last)?, num::<i32>(count)?)),
        ["IDST", p] => Box::new(InfoDestinationSubmessage::new(fixed::<12>(p)?)),
        ["ISRC", v, ven, p] => {
            let v = fixed::<2>(v)?;
            Box::new(InfoSourceSubmessage::_new(ProtocolVersion::new(v[0], v[1]), fixed::<2>(ven)?, fixed::<12>(p)?))
        }
        ["IREPLY", m, u, mc] => { let m = flags(m, 1)?; Box::new(InfoReplySubmessage::_new(m[0], locs(u)?, locs(mc)?)) }
        ["ITS", inv, sec, frac] => { let i = flags(inv, 1)?; Box::new(InfoTimestampSubmessage::new(i[0], Time::new(num::<u32>(sec)?, num::<u32>(frac)?))) }
        ["PAD"] => Box::new(PadSubmessage::new()),
        _ => return Err(()),
    })
}

fn encode(t: &[&str]) -> R<Vec<u8>> {
    let (h, subs) = t.split_first().ok_or(())?;
    let h = header(h)?;
    // parse every token first so that `bad-op` does not depend on constructor panics
    let subs: Vec<Box<dyn Submessage + Send>> = subs.iter().map(|s| submessage(s)).collect::<R<_>>()?;
    let refs: Vec<&(dyn Submessage + Send)> = subs.iter().map(|b| &**b).collect();
    Ok(RtpsMessageWrite::new(&h, &refs).buffer().to_vec())
}

// ---------------------------------------------------------------- rendering
fn b(x: bool) -> char { if x { '1' } else { '0' } }
fn eid_s(e: EntityId) -> String { let k = e.entity_key(); hex(&[k[0], k[1], k[2], e.entity_kind()]) }
fn qos_s(q: &ParameterList) -> String {
    if q.parameter().is_empty() { return "-".into(); }
    q.parameter().iter().map(|p| format!("{}:{}", p.parameter_id(), hex(p.value()))).collect::<Vec<_>>().join(";")
}
/// private fields `num_bits` and `bitmap` are taken from the derived Debug output
fn set_fields(dbg: &str) -> (String, String) {
    let nb = dbg.split("num_bits: ").nth(1).unwrap().split(|c: char| !c.is_ascii_digit()).next().unwrap().to_string();
    let bm = dbg.split("bitmap: [").nth(1).unwrap().split(']').next().unwrap();
    let words: Vec<String> = bm.split(',').map(|w| format!("{:08x}", w.trim().parse::<i32>().unwrap() as u32)).collect();
    (nb, words.join("."))
}
fn members_s<T: ToString>(f: impl FnOnce() -> Vec<T> + std::panic::UnwindSafe) -> String {
    match std::panic::catch_unwind(f) {
        Err(_) => "!".into(),
        Ok(v) if v.is_empty() => "-".into(),
        Ok(v) => v.iter().map(|x| x.to_string()).collect::<Vec<_>>().join(";"),
    }
}
fn snset_s(s: &SequenceNumberSet) -> String {
    let (nb, words) = set_fields(&format!("{:?}", s));
    let s2 = s.clone();
    format!("{}/{}/{}/{}", s.base(), nb, words, members_s(move || s2.set().collect::<Vec<i64>>()))
}
fn fnset_s(s: &FragmentNumberSet) -> String {
    let (nb, words) = set_fields(&format!("{:?}", s));
    let s2 = s.clone();
    format!("{}/{}/{}/{}", s.base(), nb, words, members_s(move || s2.set().collect::<Vec<u32>>()))
}
fn locs_s(l: &LocatorList) -> String {
    if l.value().is_empty() { return "-".into(); }
    l.value().iter().map(|x| format!("{}:{}:{}", x.kind(), x.port(), hex(&x.address()))).collect::<Vec<_>>().join(";")
}
fn sub_s(s: &RtpsSubmessageReadKind) -> String {
    use RtpsSubmessageReadKind::*;
    match s {
        Data(d) => format!("DATA,{}{}{}{},{},{},{},{},{}", b(d._inline_qos_flag()), b(d._data_flag()), b(d._key_flag()),
            b(d._non_standard_payload_flag()), eid_s(d.reader_id()), eid_s(d.writer_id()), d.writer_sn(), qos_s(d.inline_qos()),
            hex(d.serialized_payload().as_ref())),
        DataFrag(d) => format!("DFRAG,{}{}{},{},{},{},{},{},{},{},{},{}", b(d.inline_qos_flag()), b(d.key_flag()),
            b(d._non_standard_payload_flag()), eid_s(d.reader_id()), eid_s(d.writer_id()), d.writer_sn(), d.fragment_starting_num(),
            d.fragments_in_submessage(), d.fragment_size(), d.data_size(), qos_s(d.inline_qos()), hex(d.serialized_payload().as_ref())),
        Gap(g) => format!("GAP,{},{},{},{}", eid_s(g._reader_id()), eid_s(g.writer_id()), g.gap_start(), snset_s(g.gap_list())),
        Heartbeat(h) => format!("HB,{}{},{},{},{},{},{}", b(h.final_flag()), b(h.liveliness_flag()), eid_s(h._reader_id()),
            eid_s(h.writer_id()), h.first_sn(), h.last_sn(), h.count()),
        AckNack(a) => format!("ACK,{},{},{},{},{}", b(a._final_flag()), eid_s(*a.reader_id()), eid_s(*a.writer_id()),
            snset_s(a.reader_sn_state()), a.count()),
        NackFrag(n) => format!("NFRAG,{},{},{},{},{}", eid_s(n.reader_id()), eid_s(n._writer_id()), n.writer_sn(),
            fnset_s(n.fragment_number_state()), n.count()),
        HeartbeatFrag(h) => format!("HBFRAG,{},{},{},{},{}", eid_s(h._reader_id()), eid_s(h.writer_id()), h._writer_sn(),
            h._last_fragment_num(), h.count()),
        InfoDestination(i) => format!("IDST,{}", hex(&i.guid_prefix())),
        InfoSource(i) => format!("ISRC,{},{},{}", hex(&[i.protocol_version()._major(), i.protocol_version()._minor()]),
            hex(&i.vendor_id()), hex(&i.guid_prefix())),
        InfoReply(i) => format!("IREPLY,{},{},{}", b(i._multicast_flag()), locs_s(i._unicast_locator_list()), locs_s(i._multicast_locator_list())),
        InfoTimestamp(i) => format!("ITS,{},{},{}", b(i.invalidate_flag()), i.timestamp().seconds(), i.timestamp().fraction()),
        Pad(_) => "PAD".into(),
    }
}
fn decode_s(bytes: &[u8]) -> String {
    match RtpsMessageRead::try_from(bytes) {
        Err(e) => format!("err:{}", match e {
            RtpsMessageError::Io => "Io", RtpsMessageError::InvalidData => "InvalidData",
            RtpsMessageError::NotEnoughData => "NotEnoughData", RtpsMessageError::UnknownMessage => "UnknownMessage" }),
        Ok(m) => {
            let h = m.header();
            let mut out = format!("ok H:{}:{}:{}", hex(&[h.version()._major(), h.version()._minor()]), hex(&h.vendor_id()), hex(&h.guid_prefix()));
            for s in m.submessages() { out.push(' '); out.push_str(&sub_s(s)); }
            out
        }
    }
}

fn step(t: &[&str]) -> String {
    // `op@<letters>`: the letters tell the MODEL which repairs the tree under test contains; the real code is what it is
    let Some((first, rest)) = t.split_first() else { return "bad-op".into() };
    let mut parts = first.split('@');
    let op = parts.next().unwrap_or("");
    if let Some(l) = parts.next() { if !l.chars().all(|c| "5eam".contains(c)) { return "bad-op".into(); } }
    if parts.next().is_some() { return "bad-op".into(); }
    match (op, rest) {
        ("enc", rest) => match encode(rest) { Ok(v) => hex(&v), Err(()) => "bad-op".into() },
        ("rt", rest) => match encode(rest) { Ok(v) => format!("{} {}", hex(&v), decode_s(&v)), Err(()) => "bad-op".into() },
        ("sub", [s]) => match submessage(s) { Ok(sm) => hex(&write_submessage_into_bytes_vec(&*sm)), Err(()) => "bad-op".into() },
        ("dec", [h]) | ("decx", [h, ..]) => match unhex(h) { Ok(v) => decode_s(&v), Err(()) => "bad-op".into() },
        _ => "bad-op".into(),
    }
}

fn guarded(t: &[&str]) -> String {
    let input: usize = t.iter().map(|x| x.len()).sum::<usize>() / 2;
    let base = LIVE.load(Ordering::Relaxed);
    PEAK.store(base, Ordering::Relaxed);
    let limit = (64usize << 20) + 64 * input;
    HARD.store(4 * limit, Ordering::Relaxed);
    let r = std::panic::catch_unwind(|| step(t));
    HARD.store(usize::MAX, Ordering::Relaxed);
    let peak = PEAK.load(Ordering::Relaxed).saturating_sub(base);
    match r {
        _ if peak > limit => "ALLOC-LIMIT".into(),
        Ok(s) => s,
        Err(_) => "PANIC".into(),
    }
}

fn main() {
    let args: Vec<String> = std::env::args().collect();
    if args.len() > 2 && args[1] == "peak" {
        // diagnostic: peak live heap of decoding one message (hex) - used for the notes, not by the check
        let v = unhex(&args[2]).unwrap();
        let base = LIVE.load(Ordering::Relaxed);
        PEAK.store(base, Ordering::Relaxed);
        let r = RtpsMessageRead::try_from(v.as_slice());
        let peak = PEAK.load(Ordering::Relaxed) - base;
        println!("input={} peak={} subs={}", v.len(), peak, r.map(|m| m.submessages().len()).unwrap_or(0));
        return;
    }
    dvh::run_stateless(guarded);
}
