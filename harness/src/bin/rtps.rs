//! Engine `rtps`: the RTPS endpoint state machines (C01, C02, C05; protocol parts of C03/C04).
//! Owns a real `RtpsStatefulWriter` and a real `RtpsStatefulReader`; every datagram either of them
//! emits is captured, kept in an in-flight list and decoded with `RtpsMessageRead` into the canonical
//! structured form that the Lean model prints too. The adversary ops deliver / drop / duplicate any
//! in-flight datagram. Public (doc-hidden) API only; the GAP / HEARTBEAT glue of
//! `dcps_domain_participant/communication_methods.rs` (private module) is transcribed below in
//! `reader_receive` (guarded by a source-text check in vlib/rtps_common.py).
use dust_dds::infrastructure::time::Time;
use dust_dds::rtps::message_receiver::MessageReceiver;
use dust_dds::rtps::stateful_reader::RtpsStatefulReader;
use dust_dds::rtps::stateful_writer::RtpsStatefulWriter;
use dust_dds::rtps::writer_proxy::RtpsWriterProxy;
use dust_dds::rtps_messages::overall_structure::{RtpsMessageRead, RtpsSubmessageReadKind};
use dust_dds::rtps_messages::submessages::data_frag::DataFragSubmessage;
use dust_dds::runtime::Clock;
use dust_dds::transport::interface::WriteMessage;
use dust_dds::transport::types::{
    CacheChange, ChangeKind, DurabilityKind, EntityId, Guid, Locator, ReaderProxy, ReliabilityKind,
    WriterProxy, ENTITYID_UNKNOWN,
};
use dvh::hex;
use std::cell::{Cell, RefCell};
use std::sync::Arc;

const W_PREFIX: [u8; 12] = [1; 12];
const R_PREFIX: [u8; 12] = [2; 12];
fn w_guid() -> Guid { Guid::new(W_PREFIX, EntityId::new([0, 0, 1], 0x02)) }
fn r_guid() -> Guid { Guid::new(R_PREFIX, EntityId::new([0, 0, 2], 0x07)) }

struct Cap(RefCell<Vec<Vec<u8>>>);
impl WriteMessage for Cap {
    fn write_message(&self, buf: &[u8], _locators: &[Locator]) { self.0.borrow_mut().push(buf.to_vec()); }
}
impl Cap { fn new() -> Self { Cap(RefCell::new(vec![])) } fn take(&self) -> Vec<Vec<u8>> { std::mem::take(&mut *self.0.borrow_mut()) } }

struct Clk(Cell<u64>);
impl Clock for Clk {
    fn now(&self) -> Time { let ms = self.0.get(); Time::new((ms / 1000) as i32, ((ms % 1000) * 1_000_000) as u32) }
}

/// The as-is GAP glue loops `irrelevant_change_set` over the range; the D2/D8 repair replaces the loop by the
/// inherent method `irrelevant_change_range_set`. Inherent methods win method resolution, so this fallback is
/// only used on a tree without the repair — the harness compiles against both.
trait RangeSetFallback { fn irrelevant_change_range_set(&mut self, first: i64, last: i64); }
impl RangeSetFallback for RtpsWriterProxy {
    fn irrelevant_change_range_set(&mut self, first: i64, last: i64) {
        for seq_num in first..=last { self.irrelevant_change_set(seq_num) }
    }
}

struct St {
    w: Option<RtpsStatefulWriter>,
    r: Option<RtpsStatefulReader>,
    rel: ReliabilityKind,
    dur: DurabilityKind,
    f: usize,
    net: Vec<(bool, Vec<u8>)>, // (to_reader, datagram)
    clk: Clk,
    last_sn: i64,
}
fn init() -> St {
    St { w: None, r: None, rel: ReliabilityKind::Reliable, dur: DurabilityKind::Volatile, f: 0, net: vec![], clk: Clk(Cell::new(1000)), last_sn: 0 }
}

// ---------------------------------------------------------------- payloads
fn pattern(len: usize, seed: usize) -> Vec<u8> {
    (0..len).map(|i| ((seed + i * 7 + (i / 256) * 11 + (i / 65536) * 13) % 256) as u8).collect()
}
fn pspec(s: &str) -> Option<Vec<u8>> {
    if let Some(h) = s.strip_prefix('x') {
        if h == "-" { return Some(vec![]); }
        if h.len() % 2 != 0 || !h.bytes().all(|c| c.is_ascii_hexdigit()) { return None; }
        Some(dvh::unhex(h))
    } else if let Some(p) = s.strip_prefix('p') {
        let (a, b) = p.split_once('.')?;
        Some(pattern(a.parse().ok()?, b.parse().ok()?))
    } else { None }
}
fn fnv(b: &[u8]) -> u32 { let mut h: u32 = 2166136261; for x in b { h = (h ^ *x as u32).wrapping_mul(16777619); } h }
fn show_payload(b: &[u8]) -> String { if b.len() <= 32 { hex(b) } else { format!("L{}.{:08x}", b.len(), fnv(b)) } }

// ---------------------------------------------------------------- canonical form of datagrams
fn csv<T: ToString>(it: impl Iterator<Item = T>) -> String {
    let v: Vec<String> = it.map(|x| x.to_string()).collect();
    if v.is_empty() { "-".into() } else { v.join(",") }
}
fn show_frag(d: &DataFragSubmessage) -> String {
    format!("{}:{}:{}:{}:{}", d.fragment_starting_num(), d.fragments_in_submessage(), d.fragment_size(), d.data_size(),
        show_payload(d.serialized_payload().as_ref()))
}
fn show_dgram(to_reader: bool, bytes: &[u8]) -> String {
    let tag = if to_reader { "W" } else { "R" };
    let Ok(m) = RtpsMessageRead::try_from(bytes) else { return format!("{tag}[undecodable]") };
    let mut v = vec![];
    for s in m.submessages() {
        v.push(match s {
            RtpsSubmessageReadKind::InfoDestination(_) => "dst".to_string(),
            RtpsSubmessageReadKind::InfoTimestamp(t) => if t.invalidate_flag() { "ts-".into() } else { "ts+".into() },
            RtpsSubmessageReadKind::Data(d) => format!("data:{}:{}", d.writer_sn(), show_payload(d.serialized_payload().as_ref())),
            RtpsSubmessageReadKind::DataFrag(d) => format!("frag:{}:{}", d.writer_sn(), show_frag(d)),
            RtpsSubmessageReadKind::Gap(g) => format!("gap:{}:{}:{}", g.gap_start(), g.gap_list().base(), csv(g.gap_list().set())),
            RtpsSubmessageReadKind::Heartbeat(h) => format!("hb:{}:{}:{}:{}:{}", h.first_sn(), h.last_sn(), h.count(),
                if h.final_flag() { "F" } else { "f" }, if h.liveliness_flag() { "L" } else { "l" }),
            RtpsSubmessageReadKind::AckNack(a) => format!("an:{}:{}:{}:{}", a.reader_sn_state().base(), csv(a.reader_sn_state().set()), a.count(),
                if a._final_flag() { "F" } else { "f" }),
            RtpsSubmessageReadKind::NackFrag(n) => format!("nf:{}:{}:{}:{}", n.writer_sn(), n.fragment_number_state().base(),
                csv(n.fragment_number_state().set()), n.count()),
            _ => "other".to_string(),
        });
    }
    format!("{tag}[{}]", v.join("+"))
}

// ---------------------------------------------------------------- receive paths
/// Transcription of DcpsDomainParticipant::handle_data for one user-defined reader
/// (communication_methods.rs:405-527, handle_gap_submessage :563, handle_heartbeat_submessage :595).
fn reader_receive(r: &mut RtpsStatefulReader, bytes: &[u8], out: &Cap) {
    if let Ok(rtps_message) = RtpsMessageRead::try_from(bytes) {
        let mut message_receiver = MessageReceiver::new(&rtps_message);
        while let Some(submessage) = message_receiver.next() {
            match submessage {
                RtpsSubmessageReadKind::Data(data_submessage) => r.on_data_submessage(
                    data_submessage, message_receiver.source_guid_prefix(), message_receiver.source_timestamp()),
                RtpsSubmessageReadKind::DataFrag(data_frag_submessage) => r.on_data_frag_submessage(
                    data_frag_submessage, message_receiver.source_guid_prefix(), message_receiver.source_timestamp()),
                RtpsSubmessageReadKind::Gap(gap_submessage) => {
                    let writer_guid = Guid::new(message_receiver.source_guid_prefix(), gap_submessage.writer_id());
                    if let Some(writer_proxy) = r.matched_writer_lookup(writer_guid) {
                        // as-is: for seq_num in gap_start..base { irrelevant_change_set(seq_num) }
                        // D2 repair: if base > gap_start { irrelevant_change_range_set(gap_start, base - 1) }
                        if gap_submessage.gap_list().base() > gap_submessage.gap_start() {
                            writer_proxy.irrelevant_change_range_set(gap_submessage.gap_start(), gap_submessage.gap_list().base() - 1);
                        }
                        for seq_num in gap_submessage.gap_list().set() {
                            writer_proxy.irrelevant_change_set(seq_num)
                        }
                    }
                }
                RtpsSubmessageReadKind::Heartbeat(heartbeat_submessage) => {
                    let writer_guid = Guid::new(message_receiver.source_guid_prefix(), heartbeat_submessage.writer_id());
                    let reader_guid = r.guid();
                    if let Some(writer_proxy) = r.matched_writer_lookup(writer_guid) {
                        if writer_proxy.last_received_heartbeat_count() < heartbeat_submessage.count() {
                            writer_proxy.set_last_received_heartbeat_count(heartbeat_submessage.count());
                            writer_proxy.missing_changes_update(heartbeat_submessage.last_sn());
                            writer_proxy.lost_changes_update(heartbeat_submessage.first_sn());
                            let must_send_acknacks = !heartbeat_submessage.final_flag()
                                || (!heartbeat_submessage.liveliness_flag() && writer_proxy.missing_changes().count() > 0);
                            writer_proxy.set_must_send_acknacks(must_send_acknacks);
                            writer_proxy.write_message(&reader_guid, out);
                        }
                    }
                }
                _ => (),
            }
        }
    }
}

fn writer_receive(w: &mut RtpsStatefulWriter, bytes: &[u8], out: &Cap, clk: &Clk) {
    if let Ok(rtps_message) = RtpsMessageRead::try_from(bytes) {
        let mut message_receiver = MessageReceiver::new(&rtps_message);
        while let Some(submessage) = message_receiver.next() {
            match submessage {
                RtpsSubmessageReadKind::AckNack(a) => { w.on_acknack_submessage_received(a, message_receiver.source_guid_prefix(), out, clk); }
                RtpsSubmessageReadKind::NackFrag(n) => w.on_nack_frag_submessage_received(n, message_receiver.source_guid_prefix(), out),
                _ => (),
            }
        }
    }
}

// ---------------------------------------------------------------- steps
fn cache_s(st: &mut St) -> String {
    match st.r.as_mut() {
        None => "-".into(),
        Some(r) => {
            let v: Vec<String> = r.changes_mut().iter().map(|c| format!("{}={}", c.sequence_number, show_payload(&c.data_value))).collect();
            if v.is_empty() { "-".into() } else { v.join(" ") }
        }
    }
}
fn finish(st: &mut St, emitted: Vec<(bool, Vec<u8>)>) -> String {
    let e: Vec<String> = emitted.iter().map(|(d, b)| show_dgram(*d, b)).collect();
    st.net.extend(emitted);
    format!("{} | {}", if e.is_empty() { "-".to_string() } else { e.join(" ") }, cache_s(st))
}
fn deliver_at(st: &mut St, i: usize) -> Vec<(bool, Vec<u8>)> {
    let (to_reader, bytes) = st.net.remove(i);
    let cap = Cap::new();
    if to_reader {
        if let Some(r) = st.r.as_mut() { reader_receive(r, &bytes, &cap); }
        cap.take().into_iter().map(|b| (false, b)).collect()
    } else {
        if let Some(w) = st.w.as_mut() { writer_receive(w, &bytes, &cap, &st.clk); }
        cap.take().into_iter().map(|b| (true, b)).collect()
    }
}

fn step(st: &mut St, t: &[&str]) -> String {
    match t {
        ["cfg", ..] => {
            // which GAP glue this binary was compiled with, probed on a fresh proxy
            let mut wp = RtpsWriterProxy::new(w_guid(), &[], &[], ENTITYID_UNKNOWN, ReliabilityKind::Reliable);
            wp.irrelevant_change_range_set(5, 5);
            format!("ok d2={}", if wp.available_changes_max() == 0 { 1 } else { 0 })
        }
        ["init", rel, dur, f] => {
            let rel = match *rel { "rel" => ReliabilityKind::Reliable, "be" => ReliabilityKind::BestEffort, _ => return "bad-op".into() };
            let dur = match *dur { "vol" => DurabilityKind::Volatile, "tl" => DurabilityKind::TransientLocal, _ => return "bad-op".into() };
            let Ok(f) = f.parse::<usize>() else { return "bad-op".into() };
            if f == 0 { return "bad-op".into(); }
            *st = init();
            st.rel = rel; st.dur = dur; st.f = f;
            st.w = Some(RtpsStatefulWriter::new(w_guid(), f));
            st.r = Some(RtpsStatefulReader::new(r_guid(), rel));
            "ok".into()
        }
        ["match"] => {
            let (Some(w), Some(r)) = (st.w.as_mut(), st.r.as_mut()) else { return "bad-op".into() };
            w.add_matched_reader(ReaderProxy { remote_reader_guid: r_guid(), remote_group_entity_id: ENTITYID_UNKNOWN,
                reliability_kind: st.rel, durability_kind: st.dur, unicast_locator_list: vec![], multicast_locator_list: vec![], expects_inline_qos: false });
            r.add_matched_writer(&WriterProxy { remote_writer_guid: w_guid(), remote_group_entity_id: ENTITYID_UNKNOWN,
                reliability_kind: st.rel, durability_kind: st.dur, unicast_locator_list: vec![], multicast_locator_list: vec![] });
            finish(st, vec![])
        }
        ["write", p] => {
            let Some(data) = pspec(p) else { return "bad-op".into() };
            if st.w.is_none() { return "bad-op".into(); }
            st.last_sn += 1;
            let cap = Cap::new();
            let cc = CacheChange { kind: ChangeKind::Alive, writer_guid: w_guid(), sequence_number: st.last_sn, source_timestamp: None,
                instance_handle: None, data_value: Arc::from(data) };
            st.w.as_mut().unwrap().add_change(cc, &cap, &st.clk);
            let e = cap.take().into_iter().map(|b| (true, b)).collect();
            finish(st, e)
        }
        ["remove", sn] => {
            let Ok(sn) = sn.parse::<i64>() else { return "bad-op".into() };
            let Some(w) = st.w.as_mut() else { return "bad-op".into() };
            w.remove_change(sn);
            finish(st, vec![])
        }
        ["tick", ms] => {
            let Ok(ms) = ms.parse::<u64>() else { return "bad-op".into() };
            let Some(w) = st.w.as_mut() else { return "bad-op".into() };
            st.clk.0.set(st.clk.0.get() + ms);
            let cap = Cap::new();
            w.write_message(&cap, &st.clk);
            let e = cap.take().into_iter().map(|b| (true, b)).collect();
            finish(st, e)
        }
        [op @ ("deliver" | "drop" | "dup"), i] => {
            let Ok(i) = i.parse::<usize>() else { return "bad-op".into() };
            if st.w.is_none() { return "bad-op".into(); }
            if st.net.is_empty() { return format!("empty | {}", cache_s(st)); }
            let i = i % st.net.len();
            match *op {
                "deliver" => { let e = deliver_at(st, i); finish(st, e) }
                "drop" => { st.net.remove(i); finish(st, vec![]) }
                _ => { let x = st.net[i].clone(); st.net.push(x); finish(st, vec![]) }
            }
        }
        // a HEARTBEAT that carries the matched writer's GUID but was never sent by it (any first / last / count / flags)
        ["forgehb", first, last, count, fin, lv] => {
            let (Ok(first), Ok(last), Ok(count)) = (first.parse::<i64>(), last.parse::<i64>(), count.parse::<i32>()) else { return "bad-op".into() };
            let fin = match *fin { "F" => true, "f" => false, _ => return "bad-op".into() };
            let lv = match *lv { "L" => true, "l" => false, _ => return "bad-op".into() };
            if st.r.is_none() { return "bad-op".into(); }
            let mut b: Vec<u8> = vec![b'R', b'T', b'P', b'S', 2, 4, 1, 20];
            b.extend_from_slice(&W_PREFIX);
            b.extend_from_slice(&[0x07, 0x01 | if fin { 0x02 } else { 0 } | if lv { 0x04 } else { 0 }, 28, 0]);
            b.extend_from_slice(&[0, 0, 2, 0x07, 0, 0, 1, 0x02]);
            for sn in [first, last] {
                b.extend_from_slice(&((sn >> 32) as i32).to_le_bytes());
                b.extend_from_slice(&(sn as u32).to_le_bytes());
            }
            b.extend_from_slice(&count.to_le_bytes());
            let cap = Cap::new();
            reader_receive(st.r.as_mut().unwrap(), &b, &cap);
            let e = cap.take().into_iter().map(|b| (false, b)).collect();
            finish(st, e)
        }
        // a GAP under the matched writer's GUID that the writer never sent: start, base and the offsets (ascending) of the set bits
        ["forgegap", start, base, offs] => {
            let (Ok(start), Ok(base)) = (start.parse::<i64>(), base.parse::<i64>()) else { return "bad-op".into() };
            let mut bits: Vec<u32> = vec![];
            if *offs != "-" {
                for x in offs.split(',') { let Ok(o) = x.parse::<u32>() else { return "bad-op".into() }; if o > 255 { return "bad-op".into(); } bits.push(o); }
            }
            if st.r.is_none() { return "bad-op".into(); }
            let num_bits = bits.iter().map(|o| o + 1).max().unwrap_or(0);
            let m = num_bits.div_ceil(32) as usize;
            let mut words = vec![0u32; m];
            for o in &bits { words[(*o / 32) as usize] |= 1 << (31 - *o % 32); }
            let mut b: Vec<u8> = vec![b'R', b'T', b'P', b'S', 2, 4, 1, 20];
            b.extend_from_slice(&W_PREFIX);
            b.extend_from_slice(&[0x08, 0x01]);
            b.extend_from_slice(&((28 + 4 * m) as u16).to_le_bytes());
            b.extend_from_slice(&[0, 0, 2, 0x07, 0, 0, 1, 0x02]);
            for sn in [start, base] {
                b.extend_from_slice(&((sn >> 32) as i32).to_le_bytes());
                b.extend_from_slice(&(sn as u32).to_le_bytes());
            }
            b.extend_from_slice(&num_bits.to_le_bytes());
            for w in words { b.extend_from_slice(&w.to_le_bytes()); }
            let cap = Cap::new();
            reader_receive(st.r.as_mut().unwrap(), &b, &cap);
            let e = cap.take().into_iter().map(|b| (false, b)).collect();
            finish(st, e)
        }
        ["flush"] => {
            if st.w.is_none() { return "bad-op".into(); }
            let mut all = vec![];
            let mut fuel = 4096;
            while !st.net.is_empty() && fuel > 0 {
                fuel -= 1;
                let e = deliver_at(st, 0);
                all.extend(e.iter().map(|(d, b)| show_dgram(*d, b)));
                st.net.extend(e);
            }
            format!("{}{} | {}", if all.is_empty() { "-".to_string() } else { all.join(" ") }, if st.net.is_empty() { "" } else { " flush-limit" }, cache_s(st))
        }
        // ---------------- protocol parts of C03 / C04
        ["acked", sn] => {
            let Ok(sn) = sn.parse::<i64>() else { return "bad-op".into() };
            let Some(w) = st.w.as_ref() else { return "bad-op".into() };
            format!("{}", w.is_change_acknowledged(sn))
        }
        ["histrecv"] => {
            let Some(r) = st.r.as_ref() else { return "bad-op".into() };
            format!("{}", r.is_historical_data_received())
        }
        ["net"] => {
            let v: Vec<String> = st.net.iter().map(|(d, b)| show_dgram(*d, b)).collect();
            if v.is_empty() { "-".into() } else { v.join(" ") }
        }
        // ---------------- pure ops (C05)
        ["frags", p, f] => {
            let Some(data) = pspec(p) else { return "bad-op".into() };
            let Ok(f) = f.parse::<usize>() else { return "bad-op".into() };
            if f == 0 { return "bad-op".into(); }
            let cc = CacheChange { kind: ChangeKind::Alive, writer_guid: w_guid(), sequence_number: 1, source_timestamp: None, instance_handle: None, data_value: Arc::from(data) };
            let n = cc.data_value.len().div_ceil(f); // stateful_writer.rs:196, :353, :454, :588
            let mut v = vec![n.to_string()];
            for k in 0..n {
                v.push(show_frag(&cc.as_data_frag_submessage(ENTITYID_UNKNOWN, w_guid().entity_id(), f, k)));
            }
            v.join(" ")
        }
        ["reasm", f, pa, pb, toks @ ..] => {
            let (Some(a), Some(b)) = (pspec(pa), pspec(pb)) else { return "bad-op".into() };
            let Ok(f) = f.parse::<usize>() else { return "bad-op".into() };
            if f == 0 { return "bad-op".into(); }
            let mk = |sn: i64, d: &Vec<u8>| CacheChange { kind: ChangeKind::Alive, writer_guid: w_guid(), sequence_number: sn, source_timestamp: None, instance_handle: None, data_value: Arc::from(d.clone()) };
            let (ca, cb) = (mk(1, &a), mk(2, &b));
            let mut wp = RtpsWriterProxy::new(w_guid(), &[], &[], ENTITYID_UNKNOWN, ReliabilityKind::Reliable);
            for tk in toks {
                let (c, k) = if let Some(k) = tk.strip_prefix('a') { (&ca, k) } else if let Some(k) = tk.strip_prefix('b') { (&cb, k) } else { return "bad-op".into() };
                let Ok(k) = k.parse::<usize>() else { return "bad-op".into() };
                if k >= c.data_value.len().div_ceil(f) { return "bad-op".into(); }
                wp.push_data_frag(c.as_data_frag_submessage(ENTITYID_UNKNOWN, w_guid().entity_id(), f, k));
            }
            let show = |x: Option<dust_dds::rtps_messages::submessages::data::DataSubmessage>| match x { None => "none".to_string(), Some(d) => show_payload(d.serialized_payload().as_ref()) };
            let r1 = show(wp.reconstruct_data_from_frag(1));
            let r2 = show(wp.reconstruct_data_from_frag(2));
            let r1b = show(wp.reconstruct_data_from_frag(1));
            format!("r1={} r2={} again={}", r1, r2, r1b)
        }
        _ => "bad-op".into(),
    }
}

fn main() { dvh::run_stateful(init, step); }
