//! Engine `plist`: the parameter-list codec of the four discovery records (C13, parameter-list part of C07).
//! Real `into_bytes` / `from_bytes` through the cfg(dust_dds_verif) mirror structs of verif_hooks.rs.
//!
//!   enc <kind> <field=value ...>   -> hex of the real into_bytes()
//!   dec <kind> <hex>               -> `ok <field=value ...>` | `err:<CdrError>` | PANIC | ALLOC-LIMIT
//!   timk <min14hex> <minsize> <cmp14hex> <cmpsize> -> hex of the XCDR2-LE value of such a TypeInformation
//!   kind ∈ participant | publication | subscription | topic ; tokens `fix=…` are ignored (they tell the model
//!   which repair patches the tree carries).
use dust_dds::infrastructure::qos_policy::*;
use dust_dds::infrastructure::time::{Duration, DurationKind};
use dust_dds::transport::types::Locator;
use dust_dds::verif_hooks::*;
use dust_dds::xtypes::type_object::{
    TypeIdentifier, TypeIdentifierWithDependencies, TypeIdentifierWithSize, TypeInformation,
};

/// hex / unhex of long buffers (the shared helpers format octet by octet)
fn hex(b: &[u8]) -> String {
    if b.is_empty() { return "-".into(); }
    const D: &[u8; 16] = b"0123456789abcdef";
    let mut s = Vec::with_capacity(b.len() * 2);
    for x in b { s.push(D[(x >> 4) as usize]); s.push(D[(x & 15) as usize]); }
    String::from_utf8(s).unwrap()
}
fn unhex(s: &str) -> Vec<u8> {
    if s == "-" { return vec![]; }
    let n = |c: u8| -> u8 { match c { b'0'..=b'9' => c - b'0', b'a'..=b'f' => c - b'a' + 10, _ => panic!("hex") } };
    let b = s.as_bytes();
    assert!(b.len() % 2 == 0);
    (0..b.len() / 2).map(|i| n(b[2 * i]) * 16 + n(b[2 * i + 1])).collect()
}
use std::alloc::{GlobalAlloc, Layout, System};
use std::io::Write;

/// single allocation requests above this size are refused: the op prints ALLOC-LIMIT and the process ends
const ALLOC_LIMIT: usize = 1 << 28;

struct Limiting;
unsafe impl GlobalAlloc for Limiting {
    unsafe fn alloc(&self, l: Layout) -> *mut u8 {
        if l.size() > ALLOC_LIMIT { over_limit(); }
        unsafe { System.alloc(l) }
    }
    unsafe fn dealloc(&self, p: *mut u8, l: Layout) { unsafe { System.dealloc(p, l) } }
    unsafe fn realloc(&self, p: *mut u8, l: Layout, n: usize) -> *mut u8 {
        if n > ALLOC_LIMIT { over_limit(); }
        unsafe { System.realloc(p, l, n) }
    }
}
#[global_allocator]
static A: Limiting = Limiting;

fn over_limit() -> ! {
    use std::os::fd::FromRawFd;
    // every finished line has been flushed already; write the verdict for the current op and stop
    let mut f = std::mem::ManuallyDrop::new(unsafe { std::fs::File::from_raw_fd(1) });
    let _ = f.write_all(b"ALLOC-LIMIT\n");
    unsafe { libc_exit() }
}
unsafe fn libc_exit() -> ! {
    unsafe extern "C" { fn _exit(code: i32) -> !; }
    unsafe { _exit(0) }
}

// ---------------------------------------------------------------- parsing of field values
fn kvs<'a>(t: &'a [&'a str]) -> Vec<(&'a str, &'a str)> {
    t.iter().filter_map(|x| x.split_once('=')).collect()
}
fn get<'a>(m: &[(&'a str, &'a str)], k: &str) -> Option<&'a str> {
    m.iter().find(|(a, _)| *a == k).map(|(_, b)| *b)
}
fn arr<const N: usize>(s: &str) -> [u8; N] {
    let v = unhex(s);
    assert!(v.len() == N && s.len() == 2 * N);
    let mut a = [0u8; N];
    a.copy_from_slice(&v);
    a
}
fn string(s: &str) -> String { String::from_utf8(unhex(s)).expect("utf8") }
fn dur(s: &str) -> Duration {
    let (a, b) = s.split_once(':').unwrap();
    verif_duration_raw(a.parse().unwrap(), b.parse().unwrap())
}
fn durk(s: &str) -> DurationKind {
    let d = dur(s);
    if d.sec() == 0x7fffffff && d.nanosec() == 0xffffffff { DurationKind::Infinite } else { DurationKind::Finite(d) }
}
fn loc(s: &str) -> Locator {
    let p: Vec<&str> = s.split(':').collect();
    assert!(p.len() == 3);
    Locator::new(p[0].parse().unwrap(), p[1].parse().unwrap(), arr::<16>(p[2]))
}
fn locs(s: &str) -> Vec<Locator> { if s == "-" { vec![] } else { s.split(',').map(loc).collect() } }
fn strs(s: &str) -> Vec<String> {
    if s == "-" { vec![] } else { s.split(',').map(|x| { assert!(x.starts_with('s')); string(if x.len() == 1 { "-" } else { &x[1..] }) }).collect() }
}
fn u16s(s: &str) -> Vec<u16> { if s == "-" { vec![] } else { s.split(',').map(|x| x.parse().unwrap()).collect() } }
fn boolean(s: &str) -> bool { match s { "0" => false, "1" => true, _ => panic!("bool") } }
fn parts(s: &str) -> Vec<&str> { s.split(',').collect() }
fn durability(s: &str) -> DurabilityQosPolicy {
    DurabilityQosPolicy { kind: match s { "0" => DurabilityQosPolicyKind::Volatile, "1" => DurabilityQosPolicyKind::TransientLocal, "2" => DurabilityQosPolicyKind::Transient, "3" => DurabilityQosPolicyKind::Persistent, _ => panic!() } }
}
fn liveliness(s: &str) -> LivelinessQosPolicy {
    let p = parts(s);
    LivelinessQosPolicy { kind: match p[0] { "0" => LivelinessQosPolicyKind::Automatic, "1" => LivelinessQosPolicyKind::ManualByParticipant, "2" => LivelinessQosPolicyKind::ManualByTopic, _ => panic!() }, lease_duration: durk(p[1]) }
}
fn reliability(s: &str) -> ReliabilityQosPolicy {
    let p = parts(s);
    ReliabilityQosPolicy { kind: match p[0] { "1" => ReliabilityQosPolicyKind::BestEffort, "2" => ReliabilityQosPolicyKind::Reliable, _ => panic!() }, max_blocking_time: durk(p[1]) }
}
fn ownership(s: &str) -> OwnershipQosPolicy {
    OwnershipQosPolicy { kind: match s { "0" => OwnershipQosPolicyKind::Shared, "1" => OwnershipQosPolicyKind::Exclusive, _ => panic!() } }
}
fn dest_order(s: &str) -> DestinationOrderQosPolicy {
    DestinationOrderQosPolicy { kind: match s { "0" => DestinationOrderQosPolicyKind::ByReceptionTimestamp, "1" => DestinationOrderQosPolicyKind::BySourceTimestamp, _ => panic!() } }
}
fn presentation(s: &str) -> PresentationQosPolicy {
    let p = parts(s);
    PresentationQosPolicy { access_scope: match p[0] { "0" => PresentationQosPolicyAccessScopeKind::Instance, "1" => PresentationQosPolicyAccessScopeKind::Topic, _ => panic!() }, coherent_access: boolean(p[1]), ordered_access: boolean(p[2]) }
}
fn history(s: &str) -> HistoryQosPolicy {
    let p = parts(s);
    let depth: i32 = p[1].parse().unwrap();
    HistoryQosPolicy { kind: match p[0] { "0" => HistoryQosPolicyKind::KeepLast(depth as u32), "1" => HistoryQosPolicyKind::KeepAll, _ => panic!() } }
}
fn limits(s: &str) -> ResourceLimitsQosPolicy {
    let p = parts(s);
    let f = |x: &str| -> Length { Length::from(x.parse::<i32>().unwrap()) };
    ResourceLimitsQosPolicy { max_samples: f(p[0]), max_instances: f(p[1]), max_samples_per_instance: f(p[2]) }
}
fn type_consistency(s: &str) -> TypeConsistencyEnforcementQosPolicy {
    let p = parts(s);
    TypeConsistencyEnforcementQosPolicy {
        kind: match p[0] { "0" => TypeConsistencyKind::DisallowTypeCoercion, "1" => TypeConsistencyKind::AllowTypeCoercion, _ => panic!() },
        ignore_sequence_bounds: boolean(p[1]), ignore_string_bounds: boolean(p[2]), ignore_member_names: boolean(p[3]),
        prevent_type_widening: boolean(p[4]), force_type_validation: boolean(p[5]),
    }
}
fn type_info(s: &str) -> Option<TypeInformation> {
    if s == "-" { None } else { Some(verif_type_information_from_xcdr2_le(&unhex(s)).expect("ti")) }
}

// ---------------------------------------------------------------- rendering
fn r_str(s: &str) -> String { hex(s.as_bytes()) }
fn r_dur(d: &Duration) -> String { format!("{}:{}", d.sec(), d.nanosec()) }
fn r_durk(d: &DurationKind) -> String {
    match d { DurationKind::Infinite => "2147483647:4294967295".into(), DurationKind::Finite(d) => r_dur(d) }
}
fn r_loc(l: &Locator) -> String { format!("{}:{}:{}", l.kind(), l.port(), hex(&l.address())) }
fn r_locs(l: &[Locator]) -> String { if l.is_empty() { "-".into() } else { l.iter().map(r_loc).collect::<Vec<_>>().join(",") } }
fn r_strs(l: &[String]) -> String {
    if l.is_empty() { "-".into() } else { l.iter().map(|s| if s.is_empty() { "s".to_string() } else { format!("s{}", hex(s.as_bytes())) }).collect::<Vec<_>>().join(",") }
}
fn r_u16s(l: &[u16]) -> String { if l.is_empty() { "-".into() } else { l.iter().map(|x| x.to_string()).collect::<Vec<_>>().join(",") } }
fn r_b(b: bool) -> &'static str { if b { "1" } else { "0" } }
fn r_liv(l: &LivelinessQosPolicy) -> String { format!("{},{}", l.kind as i32, r_durk(&l.lease_duration)) }
fn r_rel(l: &ReliabilityQosPolicy) -> String { format!("{},{}", l.kind as i32, r_durk(&l.max_blocking_time)) }
fn r_pres(p: &PresentationQosPolicy) -> String { format!("{},{},{}", p.access_scope as i32, r_b(p.coherent_access), r_b(p.ordered_access)) }
fn r_hist(h: &HistoryQosPolicy) -> String {
    match h.kind { HistoryQosPolicyKind::KeepLast(d) => format!("0,{}", d as i32), HistoryQosPolicyKind::KeepAll => "1,-1".into() }
}
fn r_lim(l: &ResourceLimitsQosPolicy) -> String {
    format!("{},{},{}", i32::from(l.max_samples), i32::from(l.max_instances), i32::from(l.max_samples_per_instance))
}
fn r_tce(t: &TypeConsistencyEnforcementQosPolicy) -> String {
    format!("{},{},{},{},{},{}", t.kind as i32, r_b(t.ignore_sequence_bounds), r_b(t.ignore_string_bounds), r_b(t.ignore_member_names), r_b(t.prevent_type_widening), r_b(t.force_type_validation))
}
fn r_ti(t: &Option<TypeInformation>) -> String {
    match t {
        None => "-".into(),
        Some(t) => {
            let mut b = verif_type_information_to_xcdr2_le(t.clone());
            while b.len() % 4 != 0 { b.push(0); }
            hex(&b)
        }
    }
}

// ---------------------------------------------------------------- records
fn participant(m: &[(&str, &str)]) -> VerifParticipant {
    let key: [u8; 16] = get(m, "key").map(arr::<16>).unwrap_or([0; 16]);
    let mut gp = [0u8; 12];
    gp.copy_from_slice(&key[..12]);
    VerifParticipant {
        key,
        user_data: get(m, "ud").map(unhex).unwrap_or_default(),
        domain_id: match get(m, "did") { None | Some("-") => None, Some(x) => Some(x.parse().unwrap()) },
        domain_tag: get(m, "tag").map(string).unwrap_or_default(),
        protocol_version: get(m, "pv").map(arr::<2>).unwrap_or([2, 4]),
        guid_prefix: get(m, "gp").map(arr::<12>).unwrap_or(gp),
        vendor_id: get(m, "vid").map(arr::<2>).unwrap_or([0, 0]),
        expects_inline_qos: get(m, "eiq").map(boolean).unwrap_or(false),
        metatraffic_unicast_locator_list: get(m, "mul").map(locs).unwrap_or_default(),
        metatraffic_multicast_locator_list: get(m, "mml").map(locs).unwrap_or_default(),
        default_unicast_locator_list: get(m, "dul").map(locs).unwrap_or_default(),
        default_multicast_locator_list: get(m, "dml").map(locs).unwrap_or_default(),
        available_builtin_endpoints: get(m, "bes").map(|x| x.parse().unwrap()).unwrap_or(0),
        manual_liveliness_count: get(m, "mlc").map(|x| x.parse().unwrap()).unwrap_or(0),
        builtin_endpoint_qos: get(m, "beq").map(|x| x.parse().unwrap()).unwrap_or(0),
        lease_duration: get(m, "lease").map(dur).unwrap_or(verif_duration_raw(100, 0)),
    }
}
fn r_participant(p: &VerifParticipant) -> String {
    format!("key={} ud={} did={} tag={} pv={} gp={} vid={} eiq={} mul={} mml={} dul={} dml={} bes={} mlc={} beq={} lease={}",
        hex(&p.key), hex(&p.user_data), p.domain_id.map(|x| x.to_string()).unwrap_or("-".into()), r_str(&p.domain_tag),
        hex(&p.protocol_version), hex(&p.guid_prefix), hex(&p.vendor_id), r_b(p.expects_inline_qos),
        r_locs(&p.metatraffic_unicast_locator_list), r_locs(&p.metatraffic_multicast_locator_list),
        r_locs(&p.default_unicast_locator_list), r_locs(&p.default_multicast_locator_list),
        p.available_builtin_endpoints, p.manual_liveliness_count, p.builtin_endpoint_qos, r_dur(&p.lease_duration))
}

fn publication(m: &[(&str, &str)]) -> VerifWriter {
    let key: [u8; 16] = get(m, "key").map(arr::<16>).unwrap_or([0; 16]);
    VerifWriter {
        key,
        participant_key: get(m, "pkey").map(arr::<16>).unwrap_or([0; 16]),
        topic_name: get(m, "tn").map(string).unwrap_or_default(),
        type_name: get(m, "ty").map(string).unwrap_or_default(),
        type_information: get(m, "ti").and_then(type_info),
        durability: get(m, "dur").map(durability).unwrap_or_default(),
        deadline: DeadlineQosPolicy { period: get(m, "dl").map(durk).unwrap_or(DurationKind::Infinite) },
        latency_budget: LatencyBudgetQosPolicy { duration: get(m, "lb").map(durk).unwrap_or(DurationKind::Finite(verif_duration_raw(0, 0))) },
        liveliness: get(m, "liv").map(liveliness).unwrap_or_default(),
        reliability: get(m, "rel").map(reliability).unwrap_or(reliability("2,0:100000000")),
        lifespan: LifespanQosPolicy { duration: get(m, "ls").map(durk).unwrap_or(DurationKind::Infinite) },
        user_data: UserDataQosPolicy { value: get(m, "ud").map(unhex).unwrap_or_default() },
        ownership: get(m, "own").map(ownership).unwrap_or_default(),
        ownership_strength: OwnershipStrengthQosPolicy { value: get(m, "ost").map(|x| x.parse().unwrap()).unwrap_or(0) },
        destination_order: get(m, "dord").map(dest_order).unwrap_or_default(),
        presentation: get(m, "pres").map(presentation).unwrap_or_default(),
        partition: PartitionQosPolicy { name: get(m, "part").map(strs).unwrap_or_default() },
        topic_data: TopicDataQosPolicy { value: get(m, "td").map(unhex).unwrap_or_default() },
        group_data: GroupDataQosPolicy { value: get(m, "gd").map(unhex).unwrap_or_default() },
        representation: DataRepresentationQosPolicy { value: get(m, "repr").map(u16s).unwrap_or_default() },
        remote_writer_guid: get(m, "rwg").map(arr::<16>).unwrap_or(key),
        remote_group_entity_id: get(m, "geid").map(arr::<4>).unwrap_or([0; 4]),
        unicast_locator_list: get(m, "ul").map(locs).unwrap_or_default(),
        multicast_locator_list: get(m, "ml").map(locs).unwrap_or_default(),
    }
}
fn r_publication(w: &VerifWriter) -> String {
    format!("key={} pkey={} tn={} ty={} ti={} dur={} dl={} lb={} liv={} rel={} ls={} ud={} own={} ost={} dord={} pres={} part={} td={} gd={} repr={} rwg={} geid={} ul={} ml={}",
        hex(&w.key), hex(&w.participant_key), r_str(&w.topic_name), r_str(&w.type_name), r_ti(&w.type_information),
        w.durability.kind as i32, r_durk(&w.deadline.period), r_durk(&w.latency_budget.duration), r_liv(&w.liveliness),
        r_rel(&w.reliability), r_durk(&w.lifespan.duration), hex(&w.user_data.value), w.ownership.kind as i32,
        w.ownership_strength.value, w.destination_order.kind as i32, r_pres(&w.presentation), r_strs(&w.partition.name),
        hex(&w.topic_data.value), hex(&w.group_data.value), r_u16s(&w.representation.value), hex(&w.remote_writer_guid),
        hex(&w.remote_group_entity_id), r_locs(&w.unicast_locator_list), r_locs(&w.multicast_locator_list))
}

fn subscription(m: &[(&str, &str)]) -> VerifReader {
    let key: [u8; 16] = get(m, "key").map(arr::<16>).unwrap_or([0; 16]);
    VerifReader {
        key,
        participant_key: get(m, "pkey").map(arr::<16>).unwrap_or([0; 16]),
        topic_name: get(m, "tn").map(string).unwrap_or_default(),
        type_name: get(m, "ty").map(string).unwrap_or_default(),
        type_information: get(m, "ti").and_then(type_info),
        durability: get(m, "dur").map(durability).unwrap_or_default(),
        deadline: DeadlineQosPolicy { period: get(m, "dl").map(durk).unwrap_or(DurationKind::Infinite) },
        latency_budget: LatencyBudgetQosPolicy { duration: get(m, "lb").map(durk).unwrap_or(DurationKind::Finite(verif_duration_raw(0, 0))) },
        liveliness: get(m, "liv").map(liveliness).unwrap_or_default(),
        reliability: get(m, "rel").map(reliability).unwrap_or(reliability("1,0:100000000")),
        ownership: get(m, "own").map(ownership).unwrap_or_default(),
        destination_order: get(m, "dord").map(dest_order).unwrap_or_default(),
        user_data: UserDataQosPolicy { value: get(m, "ud").map(unhex).unwrap_or_default() },
        time_based_filter: TimeBasedFilterQosPolicy { minimum_separation: get(m, "tbf").map(durk).unwrap_or(DurationKind::Finite(verif_duration_raw(0, 0))) },
        presentation: get(m, "pres").map(presentation).unwrap_or_default(),
        partition: PartitionQosPolicy { name: get(m, "part").map(strs).unwrap_or_default() },
        topic_data: TopicDataQosPolicy { value: get(m, "td").map(unhex).unwrap_or_default() },
        group_data: GroupDataQosPolicy { value: get(m, "gd").map(unhex).unwrap_or_default() },
        representation: DataRepresentationQosPolicy { value: get(m, "repr").map(u16s).unwrap_or_default() },
        type_consistency: get(m, "tce").map(type_consistency).unwrap_or_default(),
        remote_reader_guid: get(m, "rrg").map(arr::<16>).unwrap_or(key),
        remote_group_entity_id: get(m, "geid").map(arr::<4>).unwrap_or([0; 4]),
        unicast_locator_list: get(m, "ul").map(locs).unwrap_or_default(),
        multicast_locator_list: get(m, "ml").map(locs).unwrap_or_default(),
        expects_inline_qos: get(m, "eiq").map(boolean).unwrap_or(false),
    }
}
fn r_subscription(w: &VerifReader) -> String {
    format!("key={} pkey={} tn={} ty={} ti={} dur={} dl={} lb={} liv={} rel={} own={} dord={} ud={} tbf={} pres={} part={} td={} gd={} repr={} tce={} rrg={} geid={} ul={} ml={} eiq={}",
        hex(&w.key), hex(&w.participant_key), r_str(&w.topic_name), r_str(&w.type_name), r_ti(&w.type_information),
        w.durability.kind as i32, r_durk(&w.deadline.period), r_durk(&w.latency_budget.duration), r_liv(&w.liveliness),
        r_rel(&w.reliability), w.ownership.kind as i32, w.destination_order.kind as i32, hex(&w.user_data.value),
        r_durk(&w.time_based_filter.minimum_separation), r_pres(&w.presentation), r_strs(&w.partition.name),
        hex(&w.topic_data.value), hex(&w.group_data.value), r_u16s(&w.representation.value), r_tce(&w.type_consistency),
        hex(&w.remote_reader_guid), hex(&w.remote_group_entity_id), r_locs(&w.unicast_locator_list),
        r_locs(&w.multicast_locator_list), r_b(w.expects_inline_qos))
}

fn topic(m: &[(&str, &str)]) -> VerifTopic {
    VerifTopic {
        key: get(m, "key").map(arr::<16>).unwrap_or([0; 16]),
        name: get(m, "tn").map(string).unwrap_or_default(),
        type_name: get(m, "ty").map(string).unwrap_or_default(),
        type_information: get(m, "ti").and_then(type_info),
        durability: get(m, "dur").map(durability).unwrap_or_default(),
        deadline: DeadlineQosPolicy { period: get(m, "dl").map(durk).unwrap_or(DurationKind::Infinite) },
        latency_budget: LatencyBudgetQosPolicy { duration: get(m, "lb").map(durk).unwrap_or(DurationKind::Finite(verif_duration_raw(0, 0))) },
        liveliness: get(m, "liv").map(liveliness).unwrap_or_default(),
        reliability: get(m, "rel").map(reliability).unwrap_or(reliability("1,0:100000000")),
        transport_priority: TransportPriorityQosPolicy { value: get(m, "tp").map(|x| x.parse().unwrap()).unwrap_or(0) },
        lifespan: LifespanQosPolicy { duration: get(m, "ls").map(durk).unwrap_or(DurationKind::Infinite) },
        destination_order: get(m, "dord").map(dest_order).unwrap_or_default(),
        history: get(m, "hist").map(history).unwrap_or_default(),
        resource_limits: get(m, "rl").map(limits).unwrap_or_default(),
        ownership: get(m, "own").map(ownership).unwrap_or_default(),
        topic_data: TopicDataQosPolicy { value: get(m, "td").map(unhex).unwrap_or_default() },
        representation: DataRepresentationQosPolicy { value: get(m, "repr").map(u16s).unwrap_or_default() },
    }
}
fn r_topic(w: &VerifTopic) -> String {
    format!("key={} tn={} ty={} ti={} dur={} dl={} lb={} liv={} rel={} tp={} ls={} dord={} hist={} rl={} own={} td={} repr={}",
        hex(&w.key), r_str(&w.name), r_str(&w.type_name), r_ti(&w.type_information), w.durability.kind as i32,
        r_durk(&w.deadline.period), r_durk(&w.latency_budget.duration), r_liv(&w.liveliness), r_rel(&w.reliability),
        w.transport_priority.value, r_durk(&w.lifespan.duration), w.destination_order.kind as i32, r_hist(&w.history),
        r_lim(&w.resource_limits), w.ownership.kind as i32, hex(&w.topic_data.value), r_u16s(&w.representation.value))
}

fn r_err(e: CdrError) -> String {
    match e {
        CdrError::InvalidData => "err:InvalidData".into(),
        CdrError::PidNotFound(p) => format!("err:PidNotFound({})", p),
        CdrError::NotEnoughData => "err:NotEnoughData".into(),
        CdrError::Unsupported(r) => format!("err:Unsupported({})", hex(&r)),
        CdrError::XTypes(x) => format!("err:X:{:?}", x),
    }
}

fn step(t: &[&str]) -> String {
    match t {
        ["enc", kind, rest @ ..] => {
            let m = kvs(rest);
            let b = match *kind {
                "participant" => participant(&m).into_real().into_bytes(),
                "publication" => publication(&m).into_real().into_bytes(),
                "subscription" => subscription(&m).into_real().into_bytes(),
                "topic" => topic(&m).into_real().into_bytes(),
                _ => return "bad-op".into(),
            };
            hex(&b)
        }
        ["dec", kind, h, ..] => {
            let b = unhex(h);
            match *kind {
                "participant" => match SpdpDiscoveredParticipantData::from_bytes(&b) { Ok(d) => format!("ok {}", r_participant(&VerifParticipant::from_real(&d))), Err(e) => r_err(e) },
                "publication" => match DiscoveredWriterData::from_bytes(&b) { Ok(d) => format!("ok {}", r_publication(&VerifWriter::from_real(&d))), Err(e) => r_err(e) },
                "subscription" => match DiscoveredReaderData::from_bytes(&b) { Ok(d) => format!("ok {}", r_subscription(&VerifReader::from_real(&d))), Err(e) => r_err(e) },
                "topic" => match DiscoveredTopicData::from_bytes(&b) { Ok(d) => format!("ok {}", r_topic(&VerifTopic::from_real(&d))), Err(e) => r_err(e) },
                _ => "bad-op".into(),
            }
        }
        ["timk", a, an, b, bn] => {
            let ti = TypeInformation {
                minimal: TypeIdentifierWithDependencies {
                    typeid_with_size: TypeIdentifierWithSize { type_id: TypeIdentifier::EkMinimal { equivalence_hash: arr::<14>(a) }, typeobject_serialized_size: an.parse().unwrap() },
                    dependent_typeid_count: 0,
                    dependent_typeids: vec![],
                },
                complete: TypeIdentifierWithDependencies {
                    typeid_with_size: TypeIdentifierWithSize { type_id: TypeIdentifier::EkComplete { equivalence_hash: arr::<14>(b) }, typeobject_serialized_size: bn.parse().unwrap() },
                    dependent_typeid_count: 0,
                    dependent_typeids: vec![],
                },
            };
            hex(&verif_type_information_to_xcdr2_le(ti))
        }
        _ => "bad-op".into(),
    }
}

fn main() {
    std::panic::set_hook(Box::new(|_| {}));
    let stdin = std::io::stdin();
    use std::io::BufRead;
    for line in stdin.lock().lines() {
        let line = line.unwrap();
        let toks: Vec<&str> = line.split_whitespace().collect();
        let s = if toks == ["reset"] { "ok".to_string() } else {
            match std::panic::catch_unwind(|| step(&toks)) { Ok(s) => s, Err(_) => "PANIC".to_string() }
        };
        // one write + flush per line and no held lock: the allocator hook may have to write the verdict itself
        let mut o = std::io::stdout().lock();
        o.write_all(s.as_bytes()).unwrap();
        o.write_all(b"\n").unwrap();
        o.flush().unwrap();
    }
}
