//! Engine `cond` (C32): 4 REAL `DcpsStatusCondition`s and the REAL `WaitSetAsync::wait` future.
//! The harness plays the DCPS worker: it owns the mail channel the `StatusConditionAsync` handles write to,
//! and a `wstep w` processes the one mail call `w` is blocked on exactly as `dcps_mail_handler.rs:1032-1044`
//! does (method call on the condition, reply through the one-shot), then polls the `wait` future of `w` by hand.
//! Wakers count per call id; `add` / `enable` print the calls whose waker was woken by the notification.
use dust_dds::dds_async::condition::StatusConditionAsync;
use dust_dds::dds_async::domain_participant_factory::DcpsChannel;
use dust_dds::dds_async::wait_set::{ConditionAsync, WaitSetAsync};
use dust_dds::infrastructure::error::{DdsError, DdsResult};
use dust_dds::infrastructure::instance::InstanceHandle;
use dust_dds::infrastructure::status::StatusKind;
use dust_dds::verif_hooks::*;
use dvh::{handle16, unhandle16};
use std::collections::HashMap;
use std::future::Future;
use std::pin::Pin;
use std::sync::{Arc, Mutex};
use std::task::{Context, Poll, Wake, Waker};

const NCOND: usize = 4;
static CH: DcpsChannel = DcpsChannel::new();

struct IdWake {
    id: u64,
    log: Arc<Mutex<Vec<u64>>>,
}
impl Wake for IdWake {
    fn wake(self: Arc<Self>) {
        self.wake_by_ref()
    }
    fn wake_by_ref(self: &Arc<Self>) {
        self.log.lock().unwrap().push(self.id)
    }
}

type WaitFut = Pin<Box<dyn Future<Output = DdsResult<Vec<ConditionAsync>>>>>;

struct Call {
    fut: Option<WaitFut>,
    mail: Option<StatusConditionMail>,
    seen_register: bool,
    result: Option<String>,
}

struct St {
    conds: Vec<DcpsStatusCondition>,
    calls: HashMap<u64, Call>,
    log: Arc<Mutex<Vec<u64>>>,
}

fn kind(k: u64) -> StatusKind {
    match k {
        0 => StatusKind::InconsistentTopic,
        1 => StatusKind::OfferedDeadlineMissed,
        2 => StatusKind::RequestedDeadlineMissed,
        3 => StatusKind::OfferedIncompatibleQos,
        4 => StatusKind::RequestedIncompatibleQos,
        5 => StatusKind::SampleLost,
        6 => StatusKind::SampleRejected,
        7 => StatusKind::DataOnReaders,
        8 => StatusKind::DataAvailable,
        9 => StatusKind::LivelinessLost,
        10 => StatusKind::LivelinessChanged,
        11 => StatusKind::PublicationMatched,
        12 => StatusKind::SubscriptionMatched,
        _ => panic!("kind"),
    }
}

fn entity(c: usize) -> StatusConditionEntity {
    StatusConditionEntity::Topic {
        participant_handle: InstanceHandle::new(handle16(0)),
        topic_handle: InstanceHandle::new(handle16(c as u32)),
    }
}
fn index(e: &StatusConditionEntity) -> usize {
    match e {
        StatusConditionEntity::Topic { topic_handle, .. } => unhandle16(&<[u8; 16]>::from(*topic_handle)) as usize,
        _ => panic!("entity"),
    }
}

fn drain_channel() -> Vec<DcpsMail> {
    let mut v = vec![];
    while let Ok(m) = CH.try_receive() {
        v.push(m);
    }
    v
}

fn init() -> St {
    drain_channel();
    St {
        conds: (0..NCOND).map(|_| DcpsStatusCondition::default()).collect(),
        calls: HashMap::new(),
        log: Arc::new(Mutex::new(Vec::new())),
    }
}

fn b01(b: bool) -> &'static str {
    if b { "1" } else { "0" }
}

impl St {
    fn waker(&self, id: u64) -> Waker {
        Waker::from(Arc::new(IdWake { id, log: self.log.clone() }))
    }
    fn wakes(&self) -> String {
        let mut l = std::mem::take(&mut *self.log.lock().unwrap());
        l.sort();
        if l.is_empty() { "-".to_string() } else { l.iter().map(|x| x.to_string()).collect::<Vec<_>>().join(",") }
    }
    /// poll the wait future of call `w`, collect the mail it sent, return the phase string
    fn poll_call(&mut self, w: u64) -> String {
        let waker = self.waker(w);
        let mut cx = Context::from_waker(&waker);
        let call = self.calls.get_mut(&w).unwrap();
        let r = call.fut.as_mut().unwrap().as_mut().poll(&mut cx);
        match r {
            Poll::Ready(res) => {
                call.fut = None;
                let s = match res {
                    Ok(l) => {
                        let ids: Vec<String> = l
                            .iter()
                            .map(|c| match c {
                                ConditionAsync::StatusCondition(sc) => index(sc.verif_entity()).to_string(),
                            })
                            .collect();
                        format!("done {}", if ids.is_empty() { "-".to_string() } else { ids.join(",") })
                    }
                    Err(DdsError::PreconditionNotMet(_)) => "err-precondition".to_string(),
                    Err(_) => "err-other".to_string(),
                };
                call.result = Some(s.clone());
                s
            }
            Poll::Pending => {
                let mut mails = drain_channel();
                if mails.len() > 1 {
                    return "bad-mails".to_string();
                }
                match mails.pop() {
                    None => "waiting".to_string(),
                    Some(DcpsMail::StatusCondition(m)) => {
                        let s = match &m {
                            StatusConditionMail::GetStatusConditionTriggerValue { entity, .. } => {
                                format!("{} {}", if call.seen_register { "collecting" } else { "checking" }, index(entity))
                            }
                            StatusConditionMail::RegisterNotification { entity, .. } => {
                                call.seen_register = true;
                                format!("registering {}", index(entity))
                            }
                            _ => "bad-mail".to_string(),
                        };
                        call.mail = Some(m);
                        s
                    }
                    Some(_) => "bad-mail".to_string(),
                }
            }
        }
    }
}

fn noop_block<T>(f: impl Future<Output = T>) -> T {
    // futures that never suspend (attach_condition)
    struct Noop;
    impl Wake for Noop {
        fn wake(self: Arc<Self>) {}
    }
    let waker = Waker::from(Arc::new(Noop));
    let mut cx = Context::from_waker(&waker);
    let mut f = std::pin::pin!(f);
    match f.as_mut().poll(&mut cx) {
        Poll::Ready(v) => v,
        Poll::Pending => panic!("attach suspended"),
    }
}

fn step(st: &mut St, t: &[&str]) -> String {
    st.log.lock().unwrap().clear();
    let num = |s: &str| s.parse::<u64>().ok();
    match t {
        ["add", c, k] => {
            let (Some(c), Some(k)) = (num(c), num(k)) else { return "bad-op".into() };
            if c as usize >= NCOND || k >= 13 { return "bad-op".into() }
            st.conds[c as usize].add_communication_state(kind(k));
            format!("t={} wake={}", b01(st.conds[c as usize].get_trigger_value()), st.wakes())
        }
        ["remove", c, k] => {
            let (Some(c), Some(k)) = (num(c), num(k)) else { return "bad-op".into() };
            if c as usize >= NCOND || k >= 13 { return "bad-op".into() }
            st.conds[c as usize].remove_communication_state(kind(k));
            format!("t={}", b01(st.conds[c as usize].get_trigger_value()))
        }
        ["enable", c, m] => {
            let (Some(c), Some(m)) = (num(c), num(m)) else { return "bad-op".into() };
            if c as usize >= NCOND || m >= 8192 { return "bad-op".into() }
            let kinds: Vec<StatusKind> = (0..13).filter(|b| m & (1 << b) != 0).map(kind).collect();
            st.conds[c as usize].set_enabled_statuses(kinds.iter().collect());
            format!("t={} wake={}", b01(st.conds[c as usize].get_trigger_value()), st.wakes())
        }
        ["trig", c] => {
            let Some(c) = num(c) else { return "bad-op".into() };
            if c as usize >= NCOND { return "bad-op".into() }
            format!("t={}", b01(st.conds[c as usize].get_trigger_value()))
        }
        ["start", w, cs] => {
            let Some(w) = num(w) else { return "bad-op".into() };
            if w >= 100 { return "bad-op".into() }
            let mut list = vec![];
            if *cs != "-" {
                for x in cs.split(',') {
                    match num(x) {
                        Some(c) if (c as usize) < NCOND => list.push(c as usize),
                        _ => return "bad-op".into(),
                    }
                }
                if list.len() > 8 { return "bad-op".into() }
            }
            if st.calls.contains_key(&w) {
                return "gone".into();
            }
            let mut ws = WaitSetAsync::new();
            for c in list {
                let cond = ConditionAsync::StatusCondition(status_condition_async(CH.sender(), entity(c)));
                noop_block(ws.attach_condition(cond)).unwrap();
            }
            let fut: WaitFut = Box::pin(async move { ws.wait().await });
            st.calls.insert(w, Call { fut: Some(fut), mail: None, seen_register: false, result: None });
            st.poll_call(w)
        }
        ["wstep", w] => {
            let Some(w) = num(w) else { return "bad-op".into() };
            if w >= 100 { return "bad-op".into() }
            let Some(call) = st.calls.get_mut(&w) else { return "gone".into() };
            if call.fut.is_none() {
                return "gone".into();
            }
            let tq = match call.mail.take() {
                Some(StatusConditionMail::GetStatusConditionTriggerValue { entity, reply_sender }) => {
                    let v = st.conds[index(&entity)].get_trigger_value();
                    reply_sender.send(Ok(v));
                    b01(v)
                }
                Some(StatusConditionMail::RegisterNotification { entity, notification_sender, reply_sender }) => {
                    let i = index(&entity);
                    st.conds[i].register_notification(notification_sender);
                    reply_sender.send(Ok(()));
                    b01(st.conds[i].get_trigger_value())
                }
                Some(_) => return "bad-mail".into(),
                None => "-",
            };
            let p = st.poll_call(w);
            format!("{p} t={tq}")
        }
        _ => "bad-op".into(),
    }
}

fn main() {
    dvh::run_stateful(init, step);
}
