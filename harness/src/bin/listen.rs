//! Alias binary of the engine `listen`: the Rust side of this engine is the deterministic simulator. `exec`s the `dsim`
//! binary that lies next to it (same arguments, same stdin/stdout), so that `harness_bin("listen")`, `ctx.differential("listen", ..)`
//! and `./check Cxx --replay` find a binary named after the engine. The answers are those of `dsim` (see notes/dsim.md); the
//! property modules compare them with the model after the canonicalisation documented in vlib/listen_common.py.
use std::os::unix::process::CommandExt;

fn main() {
    let me = std::env::current_exe().expect("current_exe");
    let dsim = me.with_file_name("dsim");
    let err = std::process::Command::new(dsim).args(std::env::args_os().skip(1)).exec();
    eprintln!("cannot exec dsim: {err}");
    std::process::exit(127);
}
