//! `dsim` scenario interpreter: a line-oriented language over the async public API of dust-dds, executed inside the
//! deterministic simulator `dvh::dsim` (virtual time, in-memory faulty network). Reference: notes/dsim.md.
//!
//! Process model: dust-dds allows ONE factory per process, so every case (= the lines after a `reset`) runs in a
//! fresh child process. Without arguments this binary is the SUPERVISOR: it reads all of stdin, splits it into cases
//! at `reset` lines, runs the cases in a pool of child processes (`dsim --child`, `DSIM_JOBS` at a time, default 16)
//! and prints the outputs in input order — one line per input line, so it plugs into `vlib.core.run_cases`
//! unchanged. `dsim --child` is the interpreter proper (also usable interactively).
#![allow(clippy::too_many_arguments, clippy::type_complexity)]
use std::{
    collections::BTreeMap,
    io::{BufRead, Write},
    sync::{Arc, Mutex},
};

use dust_dds::{
    dds_async::{
        condition::StatusConditionAsync,
        content_filtered_topic::ContentFilteredTopicAsync,
        data_reader::DataReaderAsync,
        data_reader_listener::DataReaderListener,
        data_writer::DataWriterAsync,
        data_writer_listener::DataWriterListener,
        domain_participant::DomainParticipantAsync,
        domain_participant_listener::DomainParticipantListener,
        publisher::PublisherAsync,
        publisher_listener::PublisherListener,
        subscriber::SubscriberAsync,
        subscriber_listener::SubscriberListener,
        topic::TopicAsync,
        topic_description::TopicDescriptionAsync,
        topic_listener::TopicListener,
        wait_set::{ConditionAsync, WaitSetAsync},
    },
    infrastructure::{
        error::{DdsError, DdsResult},
        instance::InstanceHandle,
        qos::{DataReaderQos, DataWriterQos, DomainParticipantFactoryQos, DomainParticipantQos, PublisherQos, QosKind, SubscriberQos, TopicQos},
        qos_policy::*,
        sample_info::{InstanceStateKind, Sample, SampleStateKind, ViewStateKind},
        status::*,
        time::{Duration, DurationKind, Time},
        type_support::DdsType,
    },
    xtypes::type_support::TypeSupport,
};
use dvh::dsim::{self as sim, Stop};

// ------------------------------------------------------------------------------------------------ test types

#[derive(Clone, Debug, PartialEq, DdsType)]
struct KeyedI32 {
    #[dust_dds(key)]
    id: i32,
    value: i32,
}
#[derive(Clone, Debug, PartialEq, DdsType)]
struct KeyedBytes {
    #[dust_dds(key)]
    id: i32,
    value: Vec<u8>,
}
#[derive(Clone, Debug, PartialEq, DdsType)]
struct KeylessI32 {
    value: i32,
}
#[derive(Clone, Debug, PartialEq, DdsType)]
struct KeylessBytes {
    value: Vec<u8>,
}
/// the key is NOT the first member (C11: a reader that hashes "the first members" instead of the key members is wrong here)
#[derive(Clone, Debug, PartialEq, DdsType)]
struct BytesThenKey {
    value: Vec<u8>,
    #[dust_dds(key)]
    id: i32,
}
/// two key members of different width around a bytes payload; scenario id `k` means a = k, b = `kk_b(k)`
#[derive(Clone, Debug, PartialEq, DdsType)]
struct TwoKeys {
    #[dust_dds(key)]
    a: i32,
    value: Vec<u8>,
    #[dust_dds(key)]
    b: i16,
}
/// second key member of `TwoKeys` for scenario id `k` (a function of the id, so that key equality = id equality)
fn kk_b(k: i32) -> i16 {
    (k.wrapping_mul(3).rem_euclid(1000) + 1) as i16
}

/// bytes value syntax: hex, `-` (empty) or `len:<n>[:<seed>]` (byte i = (seed + 7 i) mod 251)
fn parse_bytes(v: &str) -> Result<Vec<u8>, String> {
    if let Some(rest) = v.strip_prefix("len:") {
        let mut it = rest.split(':');
        let n: usize = it.next().unwrap_or("").parse().map_err(|_| "bad len".to_string())?;
        let seed: usize = it.next().map(|s| s.parse().map_err(|_| "bad seed".to_string())).transpose()?.unwrap_or(0);
        return Ok((0..n).map(|i| ((seed + 7 * i) % 251) as u8).collect());
    }
    if v == "-" {
        return Ok(vec![]);
    }
    if v.len() % 2 != 0 || !v.bytes().all(|c| c.is_ascii_hexdigit()) {
        return Err("bad hex".into());
    }
    Ok(dvh::unhex(v))
}
fn show_bytes(b: &[u8]) -> String {
    if b.len() > 16 {
        let seed = b[0] as usize;
        if b.iter().enumerate().all(|(i, x)| *x as usize == (seed + 7 * i) % 251) {
            return format!("len:{}:{}", b.len(), seed);
        }
    }
    dvh::hex(b)
}

trait TT: TypeSupport + Clone + Send + 'static {
    const KEYED: bool;
    const TYPE_NAME: &'static str;
    fn make(id: i32, v: &str) -> Result<Self, String>;
    fn show(&self) -> String;
    /// the instance handle a sample with scenario id `id` must have: the key members in declaration order, each
    /// big-endian at its natural alignment, zero padded to 16 bytes (XTypes 7.6.8 for keys of at most 16 bytes);
    /// all zero for a keyless type
    fn expected_handle(id: i32) -> [u8; 16] {
        let mut a = [0u8; 16];
        if Self::KEYED {
            a[0..4].copy_from_slice(&id.to_be_bytes());
        }
        a
    }
}
impl TT for KeyedI32 {
    const KEYED: bool = true;
    const TYPE_NAME: &'static str = "KeyedI32";
    fn make(id: i32, v: &str) -> Result<Self, String> {
        Ok(KeyedI32 { id, value: v.parse().map_err(|_| "bad value".to_string())? })
    }
    fn show(&self) -> String {
        format!("{}:{}", self.id, self.value)
    }
}
impl TT for KeyedBytes {
    const KEYED: bool = true;
    const TYPE_NAME: &'static str = "KeyedBytes";
    fn make(id: i32, v: &str) -> Result<Self, String> {
        Ok(KeyedBytes { id, value: parse_bytes(v)? })
    }
    fn show(&self) -> String {
        format!("{}:{}", self.id, show_bytes(&self.value))
    }
}
impl TT for KeylessI32 {
    const KEYED: bool = false;
    const TYPE_NAME: &'static str = "KeylessI32";
    fn make(_id: i32, v: &str) -> Result<Self, String> {
        Ok(KeylessI32 { value: v.parse().map_err(|_| "bad value".to_string())? })
    }
    fn show(&self) -> String {
        format!("-:{}", self.value)
    }
}
impl TT for BytesThenKey {
    const KEYED: bool = true;
    const TYPE_NAME: &'static str = "BytesThenKey";
    fn make(id: i32, v: &str) -> Result<Self, String> {
        Ok(BytesThenKey { value: parse_bytes(v)?, id })
    }
    fn show(&self) -> String {
        format!("{}:{}", self.id, show_bytes(&self.value))
    }
}
impl TT for TwoKeys {
    const KEYED: bool = true;
    const TYPE_NAME: &'static str = "TwoKeys";
    fn make(id: i32, v: &str) -> Result<Self, String> {
        Ok(TwoKeys { a: id, value: parse_bytes(v)?, b: kk_b(id) })
    }
    fn show(&self) -> String {
        // `<a>:<value>`; a second key member that is not `kk_b(a)` is shown explicitly
        if self.b == kk_b(self.a) {
            format!("{}:{}", self.a, show_bytes(&self.value))
        } else {
            format!("{}+{}:{}", self.a, self.b, show_bytes(&self.value))
        }
    }
    fn expected_handle(id: i32) -> [u8; 16] {
        let mut a = [0u8; 16];
        a[0..4].copy_from_slice(&id.to_be_bytes());
        a[4..6].copy_from_slice(&kk_b(id).to_be_bytes());
        a
    }
}
impl TT for KeylessBytes {
    const KEYED: bool = false;
    const TYPE_NAME: &'static str = "KeylessBytes";
    fn make(_id: i32, v: &str) -> Result<Self, String> {
        Ok(KeylessBytes { value: parse_bytes(v)? })
    }
    fn show(&self) -> String {
        format!("-:{}", show_bytes(&self.value))
    }
}

#[derive(Clone, Copy, PartialEq, Eq, Debug)]
enum Ty {
    Ki,
    Kb,
    Ni,
    Nb,
    Bk,
    Kk,
}
impl Ty {
    fn parse(s: &str) -> Option<Ty> {
        match s {
            "ki" => Some(Ty::Ki),
            "kb" => Some(Ty::Kb),
            "ni" => Some(Ty::Ni),
            "nb" => Some(Ty::Nb),
            "bk" => Some(Ty::Bk),
            "kk" => Some(Ty::Kk),
            _ => None,
        }
    }
    fn keyed(self) -> bool {
        matches!(self, Ty::Ki | Ty::Kb | Ty::Bk | Ty::Kk)
    }
}

#[derive(Clone)]
enum W {
    Ki(DataWriterAsync<KeyedI32>),
    Kb(DataWriterAsync<KeyedBytes>),
    Ni(DataWriterAsync<KeylessI32>),
    Nb(DataWriterAsync<KeylessBytes>),
    Bk(DataWriterAsync<BytesThenKey>),
    Kk(DataWriterAsync<TwoKeys>),
}
#[derive(Clone)]
enum R {
    Ki(DataReaderAsync<KeyedI32>),
    Kb(DataReaderAsync<KeyedBytes>),
    Ni(DataReaderAsync<KeylessI32>),
    Nb(DataReaderAsync<KeylessBytes>),
    Bk(DataReaderAsync<BytesThenKey>),
    Kk(DataReaderAsync<TwoKeys>),
}
macro_rules! each_w {
    ($w:expr, $d:ident => $body:expr) => {
        match $w {
            W::Ki($d) => $body,
            W::Kb($d) => $body,
            W::Ni($d) => $body,
            W::Nb($d) => $body,
            W::Bk($d) => $body,
            W::Kk($d) => $body,
        }
    };
}
macro_rules! each_r {
    ($r:expr, $d:ident => $body:expr) => {
        match $r {
            R::Ki($d) => $body,
            R::Kb($d) => $body,
            R::Ni($d) => $body,
            R::Nb($d) => $body,
            R::Bk($d) => $body,
            R::Kk($d) => $body,
        }
    };
}

#[derive(Clone)]
enum Ent {
    Participant(DomainParticipantAsync, usize),
    Publisher(PublisherAsync),
    Subscriber(SubscriberAsync),
    Topic(TopicAsync, Ty),
    Cft(ContentFilteredTopicAsync, Ty),
    Writer(W),
    Reader(R),
}
impl Ent {
    fn kind(&self) -> &'static str {
        match self {
            Ent::Participant(..) => "participant",
            Ent::Publisher(_) => "publisher",
            Ent::Subscriber(_) => "subscriber",
            Ent::Topic(..) => "topic",
            Ent::Cft(..) => "cft",
            Ent::Writer(_) => "writer",
            Ent::Reader(_) => "reader",
        }
    }
}

// ------------------------------------------------------------------------------------------------ canonical printing

fn hx(h: &InstanceHandle) -> String {
    let b: &[u8; 16] = h.as_ref();
    b.iter().map(|x| format!("{:02x}", x)).collect()
}
fn parse_handle(s: &str) -> Result<InstanceHandle, String> {
    if let Some(inner) = s.strip_prefix("h(").and_then(|x| x.strip_suffix(')')) {
        let id: i32 = inner.parse().map_err(|_| "bad handle".to_string())?;
        return Ok(key_handle(id));
    }
    if s.len() != 32 || !s.bytes().all(|c| c.is_ascii_hexdigit()) {
        return Err("bad handle".into());
    }
    let v = dvh::unhex(s);
    let mut a = [0u8; 16];
    a.copy_from_slice(&v);
    Ok(InstanceHandle::new(a))
}
/// expected instance handle of key `id` (C12: big-endian key bytes, zero padded)
fn key_handle(id: i32) -> InstanceHandle {
    let mut a = [0u8; 16];
    a[0..4].copy_from_slice(&id.to_be_bytes());
    InstanceHandle::new(a)
}
/// symbolic instance handle: `h(<id>)` when the 16 bytes are EXACTLY the expected key hash of scenario id `<id>` for
/// this type (`TT::expected_handle`; the id is read from the first key member), `h(nokey)` for the all-zero handle
/// of a keyless type, raw hex otherwise
fn show_ih<T: TT>(h: &InstanceHandle) -> String {
    let b: &[u8; 16] = h.as_ref();
    if !T::KEYED {
        return if b.iter().all(|x| *x == 0) { "h(nokey)".into() } else { hx(h) };
    }
    let id = i32::from_be_bytes([b[0], b[1], b[2], b[3]]);
    if *b == T::expected_handle(id) {
        format!("h({id})")
    } else {
        hx(h)
    }
}
fn err_name(e: &DdsError) -> String {
    let k = match e {
        DdsError::Error(_) => "Error",
        DdsError::Unsupported => "Unsupported",
        DdsError::BadParameter => "BadParameter",
        DdsError::PreconditionNotMet(_) => "PreconditionNotMet",
        DdsError::OutOfResources => "OutOfResources",
        DdsError::NotEnabled => "NotEnabled",
        DdsError::ImmutablePolicy => "ImmutablePolicy",
        DdsError::InconsistentPolicy => "InconsistentPolicy",
        DdsError::AlreadyDeleted => "AlreadyDeleted",
        DdsError::Timeout => "Timeout",
        DdsError::NoData => "NoData",
        DdsError::IllegalOperation => "IllegalOperation",
    };
    format!("err:{k}")
}
fn ns_of(t: Time) -> i128 {
    t.sec() as i128 * 1_000_000_000 + t.nanosec() as i128 - sim::EPOCH_NS as i128
}
fn time_at(ns_since_epoch: i128) -> Time {
    let abs = ns_since_epoch + sim::EPOCH_NS as i128;
    Time::new(abs.div_euclid(1_000_000_000) as i32, abs.rem_euclid(1_000_000_000) as u32)
}
fn dur(ns: u64) -> Duration {
    Duration::new((ns / 1_000_000_000) as i32, (ns % 1_000_000_000) as u32)
}
fn parse_dk(v: &str) -> Result<DurationKind, String> {
    if v == "inf" {
        Ok(DurationKind::Infinite)
    } else {
        Ok(DurationKind::Finite(dur(v.parse::<u64>().map_err(|_| format!("bad duration {v}"))?)))
    }
}
fn show_dk(d: &DurationKind) -> String {
    match d {
        DurationKind::Infinite => "inf".into(),
        DurationKind::Finite(d) => (d.sec() as i128 * 1_000_000_000 + d.nanosec() as i128).to_string(),
    }
}
fn parse_len(v: &str) -> Result<Length, String> {
    if v == "inf" {
        Ok(Length::Unlimited)
    } else {
        Ok(Length::Limited(v.parse::<i32>().map_err(|_| format!("bad length {v}"))?))
    }
}
fn show_len(l: &Length) -> String {
    match l {
        Length::Unlimited => "inf".into(),
        Length::Limited(n) => n.to_string(),
    }
}
fn parse_bool(v: &str) -> Result<bool, String> {
    match v {
        "0" => Ok(false),
        "1" => Ok(true),
        _ => Err(format!("bad bool {v}")),
    }
}

// ------------------------------------------------------------------------------------------------ QoS tokens

type Kv<'a> = Vec<(&'a str, &'a str)>;

/// split `k=v` tokens from the rest
fn split_kv<'a>(toks: &[&'a str]) -> (Vec<&'a str>, Kv<'a>) {
    let mut plain = vec![];
    let mut kv = vec![];
    for t in toks {
        match t.split_once('=') {
            Some((k, v)) => kv.push((k, v)),
            None => plain.push(*t),
        }
    }
    (plain, kv)
}
fn take_kv<'a>(kv: &mut Kv<'a>, key: &str) -> Option<&'a str> {
    let i = kv.iter().position(|(k, _)| *k == key)?;
    Some(kv.remove(i).1)
}

macro_rules! common_policy {
    ($q:expr, $k:expr, $v:expr) => {
        match $k {
            "durability" => {
                $q.durability.kind = match $v {
                    "volatile" => DurabilityQosPolicyKind::Volatile,
                    "transient_local" => DurabilityQosPolicyKind::TransientLocal,
                    "transient" => DurabilityQosPolicyKind::Transient,
                    "persistent" => DurabilityQosPolicyKind::Persistent,
                    _ => return Err(format!("bad durability {}", $v)),
                };
                true
            }
            "deadline" => {
                $q.deadline.period = parse_dk($v)?;
                true
            }
            "latency" => {
                $q.latency_budget.duration = parse_dk($v)?;
                true
            }
            "liveliness" => {
                $q.liveliness.kind = match $v {
                    "automatic" => LivelinessQosPolicyKind::Automatic,
                    "manual_participant" => LivelinessQosPolicyKind::ManualByParticipant,
                    "manual_topic" => LivelinessQosPolicyKind::ManualByTopic,
                    _ => return Err(format!("bad liveliness {}", $v)),
                };
                true
            }
            "lease" => {
                $q.liveliness.lease_duration = parse_dk($v)?;
                true
            }
            "reliability" => {
                $q.reliability.kind = match $v {
                    "reliable" => ReliabilityQosPolicyKind::Reliable,
                    "best_effort" => ReliabilityQosPolicyKind::BestEffort,
                    _ => return Err(format!("bad reliability {}", $v)),
                };
                true
            }
            "max_blocking" => {
                $q.reliability.max_blocking_time = parse_dk($v)?;
                true
            }
            "order" => {
                $q.destination_order.kind = match $v {
                    "reception" => DestinationOrderQosPolicyKind::ByReceptionTimestamp,
                    "source" => DestinationOrderQosPolicyKind::BySourceTimestamp,
                    _ => return Err(format!("bad order {}", $v)),
                };
                true
            }
            "history" => {
                $q.history.kind = if $v == "keep_all" {
                    HistoryQosPolicyKind::KeepAll
                } else if let Some(n) = $v.strip_prefix("keep_last:") {
                    HistoryQosPolicyKind::KeepLast(n.parse().map_err(|_| format!("bad depth {}", n))?)
                } else {
                    return Err(format!("bad history {}", $v));
                };
                true
            }
            "max_samples" => {
                $q.resource_limits.max_samples = parse_len($v)?;
                true
            }
            "max_instances" => {
                $q.resource_limits.max_instances = parse_len($v)?;
                true
            }
            "max_spi" => {
                $q.resource_limits.max_samples_per_instance = parse_len($v)?;
                true
            }
            "ownership" => {
                $q.ownership.kind = match $v {
                    "shared" => OwnershipQosPolicyKind::Shared,
                    "exclusive" => OwnershipQosPolicyKind::Exclusive,
                    _ => return Err(format!("bad ownership {}", $v)),
                };
                true
            }
            "repr" => {
                $q.representation.value = match $v {
                    "-" => vec![],
                    "xcdr1" => vec![XCDR_DATA_REPRESENTATION],
                    "xcdr2" => vec![XCDR2_DATA_REPRESENTATION],
                    "xcdr1,xcdr2" => vec![XCDR_DATA_REPRESENTATION, XCDR2_DATA_REPRESENTATION],
                    "xcdr2,xcdr1" => vec![XCDR2_DATA_REPRESENTATION, XCDR_DATA_REPRESENTATION],
                    _ => return Err(format!("bad repr {}", $v)),
                };
                true
            }
            _ => false,
        }
    };
}

fn apply_writer_qos(q: &mut DataWriterQos, kv: &Kv) -> Result<(), String> {
    for (k, v) in kv {
        let (k, v) = (*k, *v);
        if common_policy!(q, k, v) {
            continue;
        }
        match k {
            "transport_priority" => q.transport_priority.value = v.parse().map_err(|_| "bad int".to_string())?,
            "lifespan" => q.lifespan.duration = parse_dk(v)?,
            "user_data" => q.user_data.value = parse_bytes(v)?,
            "strength" => q.ownership_strength.value = v.parse().map_err(|_| "bad int".to_string())?,
            "autodispose" => q.writer_data_lifecycle.autodispose_unregistered_instances = parse_bool(v)?,
            _ => return Err(format!("unknown writer qos key {k}")),
        }
    }
    Ok(())
}
fn apply_reader_qos(q: &mut DataReaderQos, kv: &Kv) -> Result<(), String> {
    for (k, v) in kv {
        let (k, v) = (*k, *v);
        if common_policy!(q, k, v) {
            continue;
        }
        match k {
            "user_data" => q.user_data.value = parse_bytes(v)?,
            "tbf" => q.time_based_filter.minimum_separation = parse_dk(v)?,
            "autopurge_nowriter" => q.reader_data_lifecycle.autopurge_nowriter_samples_delay = parse_dk(v)?,
            "autopurge_disposed" => q.reader_data_lifecycle.autopurge_disposed_samples_delay = parse_dk(v)?,
            _ => return Err(format!("unknown reader qos key {k}")),
        }
    }
    Ok(())
}
fn apply_topic_qos(q: &mut TopicQos, kv: &Kv) -> Result<(), String> {
    for (k, v) in kv {
        let (k, v) = (*k, *v);
        if common_policy!(q, k, v) {
            continue;
        }
        match k {
            "topic_data" => q.topic_data.value = parse_bytes(v)?,
            "transport_priority" => q.transport_priority.value = v.parse().map_err(|_| "bad int".to_string())?,
            "lifespan" => q.lifespan.duration = parse_dk(v)?,
            _ => return Err(format!("unknown topic qos key {k}")),
        }
    }
    Ok(())
}
fn parse_partition(v: &str) -> Vec<String> {
    if v == "-" {
        vec![]
    } else {
        v.split(',').map(|s| if s == "%e" { String::new() } else { s.to_string() }).collect()
    }
}
fn show_partition(p: &[String]) -> String {
    if p.is_empty() {
        "-".into()
    } else {
        p.iter().map(|s| if s.is_empty() { "%e".to_string() } else { s.clone() }).collect::<Vec<_>>().join(",")
    }
}
fn apply_presentation(p: &mut PresentationQosPolicy, v: &str) -> Result<(), String> {
    // presentation=<instance|topic>:<coherent 0|1>:<ordered 0|1>
    let parts: Vec<&str> = v.split(':').collect();
    if parts.len() != 3 {
        return Err("bad presentation".into());
    }
    p.access_scope = match parts[0] {
        "instance" => PresentationQosPolicyAccessScopeKind::Instance,
        "topic" => PresentationQosPolicyAccessScopeKind::Topic,
        _ => return Err("bad presentation scope".into()),
    };
    p.coherent_access = parse_bool(parts[1])?;
    p.ordered_access = parse_bool(parts[2])?;
    Ok(())
}
fn show_presentation(p: &PresentationQosPolicy) -> String {
    format!(
        "{}:{}:{}",
        match p.access_scope {
            PresentationQosPolicyAccessScopeKind::Instance => "instance",
            PresentationQosPolicyAccessScopeKind::Topic => "topic",
        },
        p.coherent_access as u8,
        p.ordered_access as u8
    )
}
fn apply_publisher_qos(q: &mut PublisherQos, kv: &Kv) -> Result<(), String> {
    for (k, v) in kv {
        match *k {
            "partition" => q.partition.name = parse_partition(v),
            "autoenable" => q.entity_factory.autoenable_created_entities = parse_bool(v)?,
            "group_data" => q.group_data.value = parse_bytes(v)?,
            "presentation" => apply_presentation(&mut q.presentation, v)?,
            _ => return Err(format!("unknown publisher qos key {k}")),
        }
    }
    Ok(())
}
fn apply_subscriber_qos(q: &mut SubscriberQos, kv: &Kv) -> Result<(), String> {
    for (k, v) in kv {
        match *k {
            "partition" => q.partition.name = parse_partition(v),
            "autoenable" => q.entity_factory.autoenable_created_entities = parse_bool(v)?,
            "group_data" => q.group_data.value = parse_bytes(v)?,
            "presentation" => apply_presentation(&mut q.presentation, v)?,
            _ => return Err(format!("unknown subscriber qos key {k}")),
        }
    }
    Ok(())
}
fn apply_participant_qos(q: &mut DomainParticipantQos, kv: &Kv) -> Result<(), String> {
    for (k, v) in kv {
        match *k {
            "autoenable" => q.entity_factory.autoenable_created_entities = parse_bool(v)?,
            "user_data" => q.user_data.value = parse_bytes(v)?,
            _ => return Err(format!("unknown participant qos key {k}")),
        }
    }
    Ok(())
}

macro_rules! show_common {
    ($q:expr) => {
        format!(
            "durability={} deadline={} latency={} liveliness={} lease={} reliability={} max_blocking={} order={} history={} max_samples={} max_instances={} max_spi={} ownership={} repr={}",
            match $q.durability.kind {
                DurabilityQosPolicyKind::Volatile => "volatile",
                DurabilityQosPolicyKind::TransientLocal => "transient_local",
                DurabilityQosPolicyKind::Transient => "transient",
                DurabilityQosPolicyKind::Persistent => "persistent",
            },
            show_dk(&$q.deadline.period),
            show_dk(&$q.latency_budget.duration),
            match $q.liveliness.kind {
                LivelinessQosPolicyKind::Automatic => "automatic",
                LivelinessQosPolicyKind::ManualByParticipant => "manual_participant",
                LivelinessQosPolicyKind::ManualByTopic => "manual_topic",
            },
            show_dk(&$q.liveliness.lease_duration),
            match $q.reliability.kind {
                ReliabilityQosPolicyKind::Reliable => "reliable",
                ReliabilityQosPolicyKind::BestEffort => "best_effort",
            },
            show_dk(&$q.reliability.max_blocking_time),
            match $q.destination_order.kind {
                DestinationOrderQosPolicyKind::ByReceptionTimestamp => "reception",
                DestinationOrderQosPolicyKind::BySourceTimestamp => "source",
            },
            match $q.history.kind {
                HistoryQosPolicyKind::KeepAll => "keep_all".to_string(),
                HistoryQosPolicyKind::KeepLast(n) => format!("keep_last:{n}"),
            },
            show_len(&$q.resource_limits.max_samples),
            show_len(&$q.resource_limits.max_instances),
            show_len(&$q.resource_limits.max_samples_per_instance),
            match $q.ownership.kind {
                OwnershipQosPolicyKind::Shared => "shared",
                OwnershipQosPolicyKind::Exclusive => "exclusive",
            },
            if $q.representation.value.is_empty() {
                "-".to_string()
            } else {
                $q.representation.value.iter().map(|x| if *x == XCDR_DATA_REPRESENTATION { "xcdr1".to_string() } else if *x == XCDR2_DATA_REPRESENTATION { "xcdr2".to_string() } else { x.to_string() }).collect::<Vec<_>>().join(",")
            }
        )
    };
}
fn show_writer_qos(q: &DataWriterQos) -> String {
    format!(
        "{} transport_priority={} lifespan={} user_data={} strength={} autodispose={}",
        show_common!(q),
        q.transport_priority.value,
        show_dk(&q.lifespan.duration),
        dvh::hex(&q.user_data.value),
        q.ownership_strength.value,
        q.writer_data_lifecycle.autodispose_unregistered_instances as u8
    )
}
fn show_reader_qos(q: &DataReaderQos) -> String {
    format!(
        "{} user_data={} tbf={} autopurge_nowriter={} autopurge_disposed={}",
        show_common!(q),
        dvh::hex(&q.user_data.value),
        show_dk(&q.time_based_filter.minimum_separation),
        show_dk(&q.reader_data_lifecycle.autopurge_nowriter_samples_delay),
        show_dk(&q.reader_data_lifecycle.autopurge_disposed_samples_delay)
    )
}
fn show_topic_qos(q: &TopicQos) -> String {
    format!("{} topic_data={} transport_priority={} lifespan={}", show_common!(q), dvh::hex(&q.topic_data.value), q.transport_priority.value, show_dk(&q.lifespan.duration))
}
fn show_publisher_qos(q: &PublisherQos) -> String {
    format!("partition={} autoenable={} group_data={} presentation={}", show_partition(&q.partition.name), q.entity_factory.autoenable_created_entities as u8, dvh::hex(&q.group_data.value), show_presentation(&q.presentation))
}
fn show_subscriber_qos(q: &SubscriberQos) -> String {
    format!("partition={} autoenable={} group_data={} presentation={}", show_partition(&q.partition.name), q.entity_factory.autoenable_created_entities as u8, dvh::hex(&q.group_data.value), show_presentation(&q.presentation))
}
fn show_participant_qos(q: &DomainParticipantQos) -> String {
    format!("autoenable={} user_data={}", q.entity_factory.autoenable_created_entities as u8, dvh::hex(&q.user_data.value))
}

fn parse_status_mask(v: &str) -> Result<Vec<StatusKind>, String> {
    const ALL: [(&str, StatusKind); 13] = [
        ("inconsistent_topic", StatusKind::InconsistentTopic),
        ("offered_deadline_missed", StatusKind::OfferedDeadlineMissed),
        ("requested_deadline_missed", StatusKind::RequestedDeadlineMissed),
        ("offered_incompatible_qos", StatusKind::OfferedIncompatibleQos),
        ("requested_incompatible_qos", StatusKind::RequestedIncompatibleQos),
        ("sample_lost", StatusKind::SampleLost),
        ("sample_rejected", StatusKind::SampleRejected),
        ("data_on_readers", StatusKind::DataOnReaders),
        ("data_available", StatusKind::DataAvailable),
        ("liveliness_lost", StatusKind::LivelinessLost),
        ("liveliness_changed", StatusKind::LivelinessChanged),
        ("publication_matched", StatusKind::PublicationMatched),
        ("subscription_matched", StatusKind::SubscriptionMatched),
    ];
    match v {
        "none" | "-" => Ok(vec![]),
        "all" => Ok(ALL.iter().map(|x| x.1).collect()),
        _ => v.split(',').map(|t| ALL.iter().find(|x| x.0 == t).map(|x| x.1).ok_or(format!("bad status {t}"))).collect(),
    }
}
fn status_name(k: StatusKind) -> &'static str {
    match k {
        StatusKind::InconsistentTopic => "inconsistent_topic",
        StatusKind::OfferedDeadlineMissed => "offered_deadline_missed",
        StatusKind::RequestedDeadlineMissed => "requested_deadline_missed",
        StatusKind::OfferedIncompatibleQos => "offered_incompatible_qos",
        StatusKind::RequestedIncompatibleQos => "requested_incompatible_qos",
        StatusKind::SampleLost => "sample_lost",
        StatusKind::SampleRejected => "sample_rejected",
        StatusKind::DataOnReaders => "data_on_readers",
        StatusKind::DataAvailable => "data_available",
        StatusKind::LivelinessLost => "liveliness_lost",
        StatusKind::LivelinessChanged => "liveliness_changed",
        StatusKind::PublicationMatched => "publication_matched",
        StatusKind::SubscriptionMatched => "subscription_matched",
    }
}

// ------------------------------------------------------------------------------------------------ recording listeners

type Log = Arc<Mutex<Vec<String>>>;

fn st_pm(s: &PublicationMatchedStatus) -> String {
    format!("total={} dtotal={} current={} dcurrent={} last={}", s.total_count, s.total_count_change, s.current_count, s.current_count_change, hx(&s.last_subscription_handle))
}
fn st_sm(s: &SubscriptionMatchedStatus) -> String {
    format!("total={} dtotal={} current={} dcurrent={} last={}", s.total_count, s.total_count_change, s.current_count, s.current_count_change, hx(&s.last_publication_handle))
}
fn st_odm(s: &OfferedDeadlineMissedStatus) -> String {
    format!("total={} dtotal={} last={}", s.total_count, s.total_count_change, hx(&s.last_instance_handle))
}
fn st_rdm(s: &RequestedDeadlineMissedStatus) -> String {
    format!("total={} dtotal={} last={}", s.total_count, s.total_count_change, hx(&s.last_instance_handle))
}
fn st_policies(p: &[QosPolicyCount]) -> String {
    let mut v: Vec<String> = p.iter().map(|x| format!("{}:{}", x.policy_id, x.count)).collect();
    v.sort();
    if v.is_empty() {
        "-".into()
    } else {
        v.join(",")
    }
}
fn st_oiq(s: &OfferedIncompatibleQosStatus) -> String {
    format!("total={} dtotal={} last_policy={} policies={}", s.total_count, s.total_count_change, s.last_policy_id, st_policies(&s.policies))
}
fn st_riq(s: &RequestedIncompatibleQosStatus) -> String {
    format!("total={} dtotal={} last_policy={} policies={}", s.total_count, s.total_count_change, s.last_policy_id, st_policies(&s.policies))
}
fn st_sl(s: &SampleLostStatus) -> String {
    format!("total={} dtotal={}", s.total_count, s.total_count_change)
}
fn st_sr(s: &SampleRejectedStatus) -> String {
    let why = match s.last_reason {
        SampleRejectedStatusKind::NotRejected => "none",
        SampleRejectedStatusKind::RejectedByInstancesLimit => "instances",
        SampleRejectedStatusKind::RejectedBySamplesLimit => "samples",
        SampleRejectedStatusKind::RejectedBySamplesPerInstanceLimit => "spi",
    };
    format!("total={} dtotal={} reason={} last={}", s.total_count, s.total_count_change, why, hx(&s.last_instance_handle))
}
fn st_lc(s: &LivelinessChangedStatus) -> String {
    format!("alive={} not_alive={} dalive={} dnot_alive={} last={}", s.alive_count, s.not_alive_count, s.alive_count_change, s.not_alive_count_change, hx(&s.last_publication_handle))
}
fn st_ll(s: &LivelinessLostStatus) -> String {
    format!("total={} dtotal={}", s.total_count, s.total_count_change)
}
fn st_it(s: &InconsistentTopicStatus) -> String {
    format!("total={} dtotal={}", s.total_count, s.total_count_change)
}

/// one recording listener type for every entity kind: each callback appends
/// `<listener owner>.<callback> t=<virtual ns> src=<handle of the entity the callback is about> <status fields>`
#[derive(Clone)]
struct Rec {
    owner: String,
    log: Log,
}
impl Rec {
    fn rec(&self, cb: &str, src: String, detail: String) -> core::future::Ready<()> {
        let t = sim::with(|w| w.now_ns) - sim::EPOCH_NS;
        let line = format!("{}.{} t={} src={}{}{}", self.owner, cb, t, src, if detail.is_empty() { "" } else { " " }, detail);
        self.log.lock().unwrap().push(line);
        core::future::ready(())
    }
}
impl<T: 'static> DataWriterListener<T> for Rec {
    fn on_liveliness_lost(&mut self, w: DataWriterAsync<T>, s: LivelinessLostStatus) -> impl Future<Output = ()> + Send {
        self.rec("on_liveliness_lost", hx(&w.get_instance_handle()), st_ll(&s))
    }
    fn on_offered_deadline_missed(&mut self, w: DataWriterAsync<T>, s: OfferedDeadlineMissedStatus) -> impl Future<Output = ()> + Send {
        self.rec("on_offered_deadline_missed", hx(&w.get_instance_handle()), st_odm(&s))
    }
    fn on_offered_incompatible_qos(&mut self, w: DataWriterAsync<T>, s: OfferedIncompatibleQosStatus) -> impl Future<Output = ()> + Send {
        self.rec("on_offered_incompatible_qos", hx(&w.get_instance_handle()), st_oiq(&s))
    }
    fn on_publication_matched(&mut self, w: DataWriterAsync<T>, s: PublicationMatchedStatus) -> impl Future<Output = ()> + Send {
        self.rec("on_publication_matched", hx(&w.get_instance_handle()), st_pm(&s))
    }
}
impl<T: 'static> DataReaderListener<T> for Rec {
    fn on_data_available(&mut self, r: DataReaderAsync<T>) -> impl Future<Output = ()> + Send {
        self.rec("on_data_available", hx(&r.get_instance_handle()), String::new())
    }
    fn on_sample_rejected(&mut self, r: DataReaderAsync<T>, s: SampleRejectedStatus) -> impl Future<Output = ()> + Send {
        self.rec("on_sample_rejected", hx(&r.get_instance_handle()), st_sr(&s))
    }
    fn on_liveliness_changed(&mut self, r: DataReaderAsync<T>, s: LivelinessChangedStatus) -> impl Future<Output = ()> + Send {
        self.rec("on_liveliness_changed", hx(&r.get_instance_handle()), st_lc(&s))
    }
    fn on_requested_deadline_missed(&mut self, r: DataReaderAsync<T>, s: RequestedDeadlineMissedStatus) -> impl Future<Output = ()> + Send {
        self.rec("on_requested_deadline_missed", hx(&r.get_instance_handle()), st_rdm(&s))
    }
    fn on_requested_incompatible_qos(&mut self, r: DataReaderAsync<T>, s: RequestedIncompatibleQosStatus) -> impl Future<Output = ()> + Send {
        self.rec("on_requested_incompatible_qos", hx(&r.get_instance_handle()), st_riq(&s))
    }
    fn on_subscription_matched(&mut self, r: DataReaderAsync<T>, s: SubscriptionMatchedStatus) -> impl Future<Output = ()> + Send {
        self.rec("on_subscription_matched", hx(&r.get_instance_handle()), st_sm(&s))
    }
    fn on_sample_lost(&mut self, r: DataReaderAsync<T>, s: SampleLostStatus) -> impl Future<Output = ()> + Send {
        self.rec("on_sample_lost", hx(&r.get_instance_handle()), st_sl(&s))
    }
}
impl PublisherListener for Rec {
    fn on_liveliness_lost(&mut self, w: DataWriterAsync<()>, s: LivelinessLostStatus) -> impl Future<Output = ()> + Send {
        self.rec("on_liveliness_lost", hx(&w.get_instance_handle()), st_ll(&s))
    }
    fn on_offered_deadline_missed(&mut self, w: DataWriterAsync<()>, s: OfferedDeadlineMissedStatus) -> impl Future<Output = ()> + Send {
        self.rec("on_offered_deadline_missed", hx(&w.get_instance_handle()), st_odm(&s))
    }
    fn on_offered_incompatible_qos(&mut self, w: DataWriterAsync<()>, s: OfferedIncompatibleQosStatus) -> impl Future<Output = ()> + Send {
        self.rec("on_offered_incompatible_qos", hx(&w.get_instance_handle()), st_oiq(&s))
    }
    fn on_publication_matched(&mut self, w: DataWriterAsync<()>, s: PublicationMatchedStatus) -> impl Future<Output = ()> + Send {
        self.rec("on_publication_matched", hx(&w.get_instance_handle()), st_pm(&s))
    }
}
impl SubscriberListener for Rec {
    fn on_data_on_readers(&mut self, s: SubscriberAsync) -> impl Future<Output = ()> + Send {
        self.rec("on_data_on_readers", hx(&s.get_instance_handle()), String::new())
    }
    fn on_data_available(&mut self, r: DataReaderAsync<()>) -> impl Future<Output = ()> + Send {
        self.rec("on_data_available", hx(&r.get_instance_handle()), String::new())
    }
    fn on_sample_rejected(&mut self, r: DataReaderAsync<()>, s: SampleRejectedStatus) -> impl Future<Output = ()> + Send {
        self.rec("on_sample_rejected", hx(&r.get_instance_handle()), st_sr(&s))
    }
    fn on_liveliness_changed(&mut self, r: DataReaderAsync<()>, s: LivelinessChangedStatus) -> impl Future<Output = ()> + Send {
        self.rec("on_liveliness_changed", hx(&r.get_instance_handle()), st_lc(&s))
    }
    fn on_requested_deadline_missed(&mut self, r: DataReaderAsync<()>, s: RequestedDeadlineMissedStatus) -> impl Future<Output = ()> + Send {
        self.rec("on_requested_deadline_missed", hx(&r.get_instance_handle()), st_rdm(&s))
    }
    fn on_requested_incompatible_qos(&mut self, r: DataReaderAsync<()>, s: RequestedIncompatibleQosStatus) -> impl Future<Output = ()> + Send {
        self.rec("on_requested_incompatible_qos", hx(&r.get_instance_handle()), st_riq(&s))
    }
    fn on_subscription_matched(&mut self, r: DataReaderAsync<()>, s: SubscriptionMatchedStatus) -> impl Future<Output = ()> + Send {
        self.rec("on_subscription_matched", hx(&r.get_instance_handle()), st_sm(&s))
    }
    fn on_sample_lost(&mut self, r: DataReaderAsync<()>, s: SampleLostStatus) -> impl Future<Output = ()> + Send {
        self.rec("on_sample_lost", hx(&r.get_instance_handle()), st_sl(&s))
    }
}
impl TopicListener for Rec {
    fn on_inconsistent_topic(&mut self, t: TopicAsync, s: InconsistentTopicStatus) -> impl Future<Output = ()> + Send {
        self.rec("on_inconsistent_topic", hx(&t.get_instance_handle()), st_it(&s))
    }
}
impl DomainParticipantListener for Rec {
    fn on_inconsistent_topic(&mut self, t: TopicAsync, s: InconsistentTopicStatus) -> impl Future<Output = ()> + Send {
        self.rec("on_inconsistent_topic", hx(&t.get_instance_handle()), st_it(&s))
    }
    fn on_liveliness_lost(&mut self, w: DataWriterAsync<()>, s: LivelinessLostStatus) -> impl Future<Output = ()> + Send {
        self.rec("on_liveliness_lost", hx(&w.get_instance_handle()), st_ll(&s))
    }
    fn on_offered_deadline_missed(&mut self, w: DataWriterAsync<()>, s: OfferedDeadlineMissedStatus) -> impl Future<Output = ()> + Send {
        self.rec("on_offered_deadline_missed", hx(&w.get_instance_handle()), st_odm(&s))
    }
    fn on_offered_incompatible_qos(&mut self, w: DataWriterAsync<()>, s: OfferedIncompatibleQosStatus) -> impl Future<Output = ()> + Send {
        self.rec("on_offered_incompatible_qos", hx(&w.get_instance_handle()), st_oiq(&s))
    }
    fn on_sample_lost(&mut self, r: DataReaderAsync<()>, s: SampleLostStatus) -> impl Future<Output = ()> + Send {
        self.rec("on_sample_lost", hx(&r.get_instance_handle()), st_sl(&s))
    }
    fn on_data_available(&mut self, r: DataReaderAsync<()>) -> impl Future<Output = ()> + Send {
        self.rec("on_data_available", hx(&r.get_instance_handle()), String::new())
    }
    fn on_sample_rejected(&mut self, r: DataReaderAsync<()>, s: SampleRejectedStatus) -> impl Future<Output = ()> + Send {
        self.rec("on_sample_rejected", hx(&r.get_instance_handle()), st_sr(&s))
    }
    fn on_liveliness_changed(&mut self, r: DataReaderAsync<()>, s: LivelinessChangedStatus) -> impl Future<Output = ()> + Send {
        self.rec("on_liveliness_changed", hx(&r.get_instance_handle()), st_lc(&s))
    }
    fn on_requested_deadline_missed(&mut self, r: DataReaderAsync<()>, s: RequestedDeadlineMissedStatus) -> impl Future<Output = ()> + Send {
        self.rec("on_requested_deadline_missed", hx(&r.get_instance_handle()), st_rdm(&s))
    }
    fn on_requested_incompatible_qos(&mut self, r: DataReaderAsync<()>, s: RequestedIncompatibleQosStatus) -> impl Future<Output = ()> + Send {
        self.rec("on_requested_incompatible_qos", hx(&r.get_instance_handle()), st_riq(&s))
    }
    fn on_publication_matched(&mut self, w: DataWriterAsync<()>, s: PublicationMatchedStatus) -> impl Future<Output = ()> + Send {
        self.rec("on_publication_matched", hx(&w.get_instance_handle()), st_pm(&s))
    }
    fn on_subscription_matched(&mut self, r: DataReaderAsync<()>, s: SubscriptionMatchedStatus) -> impl Future<Output = ()> + Send {
        self.rec("on_subscription_matched", hx(&r.get_instance_handle()), st_sm(&s))
    }
}
use std::future::Future;

// ------------------------------------------------------------------------------------------------ interpreter

enum Fail {
    /// malformed / unsupported op line
    Bad(String),
    /// the simulator gave up (step budget or nothing left that could wake the call)
    Stop(Stop),
}
impl From<String> for Fail {
    fn from(s: String) -> Self {
        Fail::Bad(s)
    }
}
impl From<&str> for Fail {
    fn from(s: &str) -> Self {
        Fail::Bad(s.to_string())
    }
}
type Res = Result<String, Fail>;

fn blk<T>(f: impl Future<Output = T>) -> Result<T, Fail> {
    sim::block(f).map_err(Fail::Stop)
}
fn ok_or_err<T>(r: DdsResult<T>, show: impl FnOnce(T) -> String) -> String {
    match r {
        Ok(v) => {
            let s = show(v);
            if s.is_empty() {
                "ok".into()
            } else {
                format!("ok {s}")
            }
        }
        Err(e) => err_name(&e),
    }
}
fn unit(r: DdsResult<()>) -> String {
    ok_or_err(r, |_| String::new())
}

struct Interp {
    factory: &'static sim::Factory,
    ents: BTreeMap<String, Ent>,
    log: Log,
    n_participants: usize,
    wall_start: std::time::Instant,
}

impl Interp {
    fn new() -> Self {
        let mut cfg = sim::SimConfig::default();
        if let Ok(v) = std::env::var("DSIM_STEP_BUDGET") {
            if let Ok(n) = v.parse() {
                cfg.step_budget = n;
            }
        }
        Interp { factory: sim::init(cfg), ents: BTreeMap::new(), log: Arc::new(Mutex::new(vec![])), n_participants: 0, wall_start: std::time::Instant::now() }
    }

    fn ent(&self, name: &str) -> Result<Ent, Fail> {
        self.ents.get(name).cloned().ok_or_else(|| Fail::Bad(format!("unknown entity {name}")))
    }
    fn participant(&self, name: &str) -> Result<(DomainParticipantAsync, usize), Fail> {
        match self.ent(name)? {
            Ent::Participant(p, i) => Ok((p, i)),
            _ => Err(Fail::Bad(format!("{name} is not a participant"))),
        }
    }
    fn publisher(&self, name: &str) -> Result<PublisherAsync, Fail> {
        match self.ent(name)? {
            Ent::Publisher(p) => Ok(p),
            _ => Err(Fail::Bad(format!("{name} is not a publisher"))),
        }
    }
    fn subscriber(&self, name: &str) -> Result<SubscriberAsync, Fail> {
        match self.ent(name)? {
            Ent::Subscriber(p) => Ok(p),
            _ => Err(Fail::Bad(format!("{name} is not a subscriber"))),
        }
    }
    fn topic(&self, name: &str) -> Result<(TopicAsync, Ty), Fail> {
        match self.ent(name)? {
            Ent::Topic(t, ty) => Ok((t, ty)),
            _ => Err(Fail::Bad(format!("{name} is not a topic"))),
        }
    }
    fn writer(&self, name: &str) -> Result<W, Fail> {
        match self.ent(name)? {
            Ent::Writer(w) => Ok(w),
            _ => Err(Fail::Bad(format!("{name} is not a writer"))),
        }
    }
    fn reader(&self, name: &str) -> Result<R, Fail> {
        match self.ent(name)? {
            Ent::Reader(r) => Ok(r),
            _ => Err(Fail::Bad(format!("{name} is not a reader"))),
        }
    }
    /// `listener=<mask>` option -> (listener, mask)
    fn listener_opt(&self, owner: &str, kv: &mut Kv) -> Result<(Option<Rec>, Vec<StatusKind>), Fail> {
        match take_kv(kv, "listener") {
            Some(m) => Ok((Some(Rec { owner: owner.to_string(), log: self.log.clone() }), parse_status_mask(m)?)),
            None => Ok((None, vec![])),
        }
    }

    // ---------------------------------------------------------------- creation

    fn op_participant(&mut self, toks: &[&str]) -> Res {
        let (plain, mut kv) = split_kv(toks);
        let [name] = plain[..] else { return Err("usage: participant <name> [domain=<d>] [qos] [listener=<mask>]".into()) };
        let domain: i32 = take_kv(&mut kv, "domain").map(|v| v.parse().map_err(|_| "bad domain".to_string())).transpose()?.unwrap_or(0);
        let (l, mask) = self.listener_opt(name, &mut kv)?;
        let qos = if kv.is_empty() {
            QosKind::Default
        } else {
            let mut q = DomainParticipantQos::default();
            apply_participant_qos(&mut q, &kv)?;
            QosKind::Specific(q)
        };
        let index = self.n_participants;
        self.n_participants += 1; // the transport is asked for a participant on every call, successful or not
        let f = self.factory;
        let r = blk(async move { f.create_participant(domain, qos, l, &mask).await })?;
        Ok(match r {
            Ok(p) => {
                let h = p.get_instance_handle();
                self.ents.insert(name.to_string(), Ent::Participant(p, index));
                format!("ok {}", hx(&h))
            }
            Err(e) => err_name(&e),
        })
    }

    fn op_publisher(&mut self, toks: &[&str]) -> Res {
        let (plain, mut kv) = split_kv(toks);
        let [name, parent] = plain[..] else { return Err("usage: publisher <name> <participant> [qos] [listener=<mask>]".into()) };
        let (p, _) = self.participant(parent)?;
        let (l, mask) = self.listener_opt(name, &mut kv)?;
        let qos = if kv.is_empty() {
            QosKind::Default
        } else {
            let mut q = PublisherQos::default();
            apply_publisher_qos(&mut q, &kv)?;
            QosKind::Specific(q)
        };
        let r = blk(async move { p.create_publisher(qos, l, &mask).await })?;
        Ok(match r {
            Ok(x) => {
                let h = x.get_instance_handle();
                self.ents.insert(name.to_string(), Ent::Publisher(x));
                format!("ok {}", hx(&h))
            }
            Err(e) => err_name(&e),
        })
    }

    fn op_subscriber(&mut self, toks: &[&str]) -> Res {
        let (plain, mut kv) = split_kv(toks);
        let [name, parent] = plain[..] else { return Err("usage: subscriber <name> <participant> [qos] [listener=<mask>]".into()) };
        let (p, _) = self.participant(parent)?;
        let (l, mask) = self.listener_opt(name, &mut kv)?;
        let qos = if kv.is_empty() {
            QosKind::Default
        } else {
            let mut q = SubscriberQos::default();
            apply_subscriber_qos(&mut q, &kv)?;
            QosKind::Specific(q)
        };
        let r = blk(async move { p.create_subscriber(qos, l, &mask).await })?;
        Ok(match r {
            Ok(x) => {
                let h = x.get_instance_handle();
                self.ents.insert(name.to_string(), Ent::Subscriber(x));
                format!("ok {}", hx(&h))
            }
            Err(e) => err_name(&e),
        })
    }

    fn op_topic(&mut self, toks: &[&str]) -> Res {
        let (plain, mut kv) = split_kv(toks);
        let [name, parent, topic_name, ty] = plain[..] else { return Err("usage: topic <name> <participant> <topic_name> <ki|kb|ni|nb|bk|kk> [qos] [listener=<mask>]".into()) };
        let (p, _) = self.participant(parent)?;
        let ty = Ty::parse(ty).ok_or("bad type (ki|kb|ni|nb|bk|kk)")?;
        let (l, mask) = self.listener_opt(name, &mut kv)?;
        let qos = if kv.is_empty() {
            QosKind::Default
        } else {
            let mut q = TopicQos::default();
            apply_topic_qos(&mut q, &kv)?;
            QosKind::Specific(q)
        };
        let tn = topic_name.to_string();
        let r = blk(async move {
            match ty {
                Ty::Ki => p.create_topic::<KeyedI32>(&tn, KeyedI32::TYPE_NAME, qos, l, &mask).await,
                Ty::Kb => p.create_topic::<KeyedBytes>(&tn, KeyedBytes::TYPE_NAME, qos, l, &mask).await,
                Ty::Ni => p.create_topic::<KeylessI32>(&tn, KeylessI32::TYPE_NAME, qos, l, &mask).await,
                Ty::Nb => p.create_topic::<KeylessBytes>(&tn, KeylessBytes::TYPE_NAME, qos, l, &mask).await,
                Ty::Bk => p.create_topic::<BytesThenKey>(&tn, BytesThenKey::TYPE_NAME, qos, l, &mask).await,
                Ty::Kk => p.create_topic::<TwoKeys>(&tn, TwoKeys::TYPE_NAME, qos, l, &mask).await,
            }
        })?;
        Ok(match r {
            Ok(x) => {
                let h = x.get_instance_handle();
                self.ents.insert(name.to_string(), Ent::Topic(x, ty));
                format!("ok {}", hx(&h))
            }
            Err(e) => err_name(&e),
        })
    }

    /// `find-topic <name> <participant> <topic name> <ki|kb|ni|nb|bk|kk> [timeout ns]`: `DomainParticipantAsync::find_topic`
    /// (a topic of that name created locally, or discovered from another participant — then a local Topic entity is
    /// created for it); waits at most the timeout in virtual time (default 100 ms). Answers `ok <handle>` and binds
    /// `<name>` like `topic`, or `err:<Kind>` (`err:Timeout` when nothing of that name is known in time).
    fn op_find_topic(&mut self, toks: &[&str]) -> Res {
        let (name, parent, topic_name, ty, timeout) = match toks {
            [n, p, t, ty] => (*n, *p, *t, *ty, 100_000_000u64),
            [n, p, t, ty, to] => (*n, *p, *t, *ty, to.parse::<u64>().map_err(|_| "bad timeout".to_string())?),
            _ => return Err("usage: find-topic <name> <participant> <topic_name> <ki|kb|ni|nb|bk|kk> [timeout ns]".into()),
        };
        let (p, _) = self.participant(parent)?;
        let ty = Ty::parse(ty).ok_or("bad type (ki|kb|ni|nb|bk|kk)")?;
        let tn = topic_name.to_string();
        let d = dur(timeout);
        let r = blk(async move {
            match ty {
                Ty::Ki => p.find_topic::<KeyedI32>(&tn, d).await,
                Ty::Kb => p.find_topic::<KeyedBytes>(&tn, d).await,
                Ty::Ni => p.find_topic::<KeylessI32>(&tn, d).await,
                Ty::Nb => p.find_topic::<KeylessBytes>(&tn, d).await,
                Ty::Bk => p.find_topic::<BytesThenKey>(&tn, d).await,
                Ty::Kk => p.find_topic::<TwoKeys>(&tn, d).await,
            }
        })?;
        Ok(match r {
            Ok(x) => {
                let h = x.get_instance_handle();
                self.ents.insert(name.to_string(), Ent::Topic(x, ty));
                format!("ok {}", hx(&h))
            }
            Err(e) => err_name(&e),
        })
    }

    /// `cft <name> <participant> <related topic> <cft_name> <params a,b|-> <expression ...>`
    fn op_cft(&mut self, toks: &[&str]) -> Res {
        if toks.len() < 6 {
            return Err("usage: cft <name> <participant> <topic> <cft_name> <params|-> <expression...>".into());
        }
        let (p, _) = self.participant(toks[1])?;
        let (t, ty) = self.topic(toks[2])?;
        let cft_name = toks[3].to_string();
        let params: Vec<String> = if toks[4] == "-" { vec![] } else { toks[4].split(',').map(|s| s.to_string()).collect() };
        let expr = toks[5..].join(" ");
        let r = blk(async move { p.create_contentfilteredtopic(&cft_name, &t, expr, params).await })?;
        Ok(match r {
            Ok(x) => {
                self.ents.insert(toks[0].to_string(), Ent::Cft(x, ty));
                "ok".into()
            }
            Err(e) => err_name(&e),
        })
    }

    fn op_writer(&mut self, toks: &[&str]) -> Res {
        let (plain, mut kv) = split_kv(toks);
        let [name, parent, topic] = plain[..] else { return Err("usage: writer <name> <publisher> <topic> [qos] [listener=<mask>]".into()) };
        let p = self.publisher(parent)?;
        let (t, ty) = self.topic(topic)?;
        let (l, mask) = self.listener_opt(name, &mut kv)?;
        let qos = if kv.is_empty() {
            QosKind::Default
        } else {
            let mut q = DataWriterQos::default();
            apply_writer_qos(&mut q, &kv)?;
            QosKind::Specific(q)
        };
        let r: DdsResult<W> = blk(async move {
            Ok(match ty {
                Ty::Ki => W::Ki(p.create_datawriter::<KeyedI32>(&t, qos, l, &mask).await?),
                Ty::Kb => W::Kb(p.create_datawriter::<KeyedBytes>(&t, qos, l, &mask).await?),
                Ty::Ni => W::Ni(p.create_datawriter::<KeylessI32>(&t, qos, l, &mask).await?),
                Ty::Nb => W::Nb(p.create_datawriter::<KeylessBytes>(&t, qos, l, &mask).await?),
                Ty::Bk => W::Bk(p.create_datawriter::<BytesThenKey>(&t, qos, l, &mask).await?),
                Ty::Kk => W::Kk(p.create_datawriter::<TwoKeys>(&t, qos, l, &mask).await?),
            })
        })?;
        Ok(match r {
            Ok(w) => {
                let h = each_w!(&w, d => d.get_instance_handle());
                self.ents.insert(name.to_string(), Ent::Writer(w));
                format!("ok {}", hx(&h))
            }
            Err(e) => err_name(&e),
        })
    }

    fn op_reader(&mut self, toks: &[&str]) -> Res {
        let (plain, mut kv) = split_kv(toks);
        let [name, parent, topic] = plain[..] else { return Err("usage: reader <name> <subscriber> <topic|cft> [qos] [listener=<mask>]".into()) };
        let s = self.subscriber(parent)?;
        let (l, mask) = self.listener_opt(name, &mut kv)?;
        let qos = if kv.is_empty() {
            QosKind::Default
        } else {
            let mut q = DataReaderQos::default();
            apply_reader_qos(&mut q, &kv)?;
            QosKind::Specific(q)
        };
        let te = self.ent(topic)?;
        let r: DdsResult<R> = blk(async move {
            macro_rules! mk {
                ($t:expr, $ty:expr) => {
                    match $ty {
                        Ty::Ki => R::Ki(s.create_datareader::<KeyedI32>($t, qos, l, &mask).await?),
                        Ty::Kb => R::Kb(s.create_datareader::<KeyedBytes>($t, qos, l, &mask).await?),
                        Ty::Ni => R::Ni(s.create_datareader::<KeylessI32>($t, qos, l, &mask).await?),
                        Ty::Nb => R::Nb(s.create_datareader::<KeylessBytes>($t, qos, l, &mask).await?),
                        Ty::Bk => R::Bk(s.create_datareader::<BytesThenKey>($t, qos, l, &mask).await?),
                        Ty::Kk => R::Kk(s.create_datareader::<TwoKeys>($t, qos, l, &mask).await?),
                    }
                };
            }
            Ok(match &te {
                Ent::Topic(t, ty) => mk!(t, *ty),
                Ent::Cft(t, ty) => mk!(t, *ty),
                _ => return Err(DdsError::Error("not-a-topic".into())),
            })
        })?;
        Ok(match r {
            Ok(x) => {
                let h = each_r!(&x, d => d.get_instance_handle());
                self.ents.insert(name.to_string(), Ent::Reader(x));
                format!("ok {}", hx(&h))
            }
            Err(DdsError::Error(m)) if m == "not-a-topic" => return Err(format!("{topic} is not a topic").into()),
            Err(e) => err_name(&e),
        })
    }

    // ---------------------------------------------------------------- deletion / life cycle

    /// `delete <name>` (through the natural parent) or `delete-from <parent> <name>` (explicit parent object)
    fn op_delete(&mut self, parent: Option<&str>, name: &str) -> Res {
        let e = self.ent(name)?;
        let f = self.factory;
        let r = match e {
            Ent::Participant(p, _) => {
                if parent.is_some() {
                    return Err("a participant is deleted by the factory: use `delete`".into());
                }
                blk(async move { f.delete_participant(&p).await })?
            }
            Ent::Publisher(x) => {
                let p = match parent {
                    Some(n) => self.participant(n)?.0,
                    None => x.get_participant(),
                };
                blk(async move { p.delete_publisher(&x).await })?
            }
            Ent::Subscriber(x) => {
                let p = match parent {
                    Some(n) => self.participant(n)?.0,
                    None => x.get_participant(),
                };
                blk(async move { p.delete_subscriber(&x).await })?
            }
            Ent::Topic(x, _) => {
                let p = match parent {
                    Some(n) => self.participant(n)?.0,
                    None => x.get_participant(),
                };
                blk(async move { p.delete_topic(&x).await })?
            }
            Ent::Cft(x, _) => {
                let p = match parent {
                    Some(n) => self.participant(n)?.0,
                    None => x.get_participant(),
                };
                blk(async move { p.delete_contentfilteredtopic(&x).await })?
            }
            Ent::Writer(w) => {
                let p = match parent {
                    Some(n) => self.publisher(n)?,
                    None => each_w!(&w, d => d.get_publisher()),
                };
                blk(async move { each_w!(&w, d => p.delete_datawriter(d).await) })?
            }
            Ent::Reader(r) => {
                let s = match parent {
                    Some(n) => self.subscriber(n)?,
                    None => each_r!(&r, d => d.get_subscriber()),
                };
                blk(async move { each_r!(&r, d => s.delete_datareader(d).await) })?
            }
        };
        Ok(unit(r))
    }

    fn op_delete_contained(&mut self, name: &str) -> Res {
        match self.ent(name)? {
            Ent::Participant(p, _) => Ok(unit(blk(async move { p.delete_contained_entities().await })?)),
            // PublisherAsync/SubscriberAsync::delete_contained_entities are `todo!()` at the pinned commit
            _ => Ok("unsupported".into()),
        }
    }

    fn op_enable(&mut self, name: &str) -> Res {
        let r = match self.ent(name)? {
            Ent::Participant(p, _) => blk(async move { p.enable().await })?,
            Ent::Topic(t, _) => blk(async move { t.enable().await })?,
            Ent::Writer(w) => blk(async move { each_w!(&w, d => d.enable().await) })?,
            Ent::Reader(r) => blk(async move { each_r!(&r, d => d.enable().await) })?,
            // PublisherAsync/SubscriberAsync::enable are `todo!()`
            _ => return Ok("unsupported".into()),
        };
        Ok(unit(r))
    }

    fn op_handle(&mut self, name: &str) -> Res {
        let h = match self.ent(name)? {
            Ent::Participant(p, _) => p.get_instance_handle(),
            Ent::Publisher(p) => p.get_instance_handle(),
            Ent::Subscriber(s) => s.get_instance_handle(),
            Ent::Topic(t, _) => t.get_instance_handle(),
            Ent::Cft(..) => return Ok("unsupported".into()),
            Ent::Writer(w) => each_w!(&w, d => d.get_instance_handle()),
            Ent::Reader(r) => each_r!(&r, d => d.get_instance_handle()),
        };
        Ok(format!("ok {}", hx(&h)))
    }

    /// get_qos of any entity; `full` prints the canonical QoS, otherwise only ok/err (a cheap liveness probe)
    fn op_get_qos(&mut self, name: &str, full: bool) -> Res {
        let s = match self.ent(name)? {
            Ent::Participant(p, _) => ok_or_err(blk(async move { p.get_qos().await })?, |q| show_participant_qos(&q)),
            Ent::Publisher(p) => ok_or_err(blk(async move { p.get_qos().await })?, |q| show_publisher_qos(&q)),
            Ent::Subscriber(p) => ok_or_err(blk(async move { p.get_qos().await })?, |q| show_subscriber_qos(&q)),
            Ent::Topic(t, _) => ok_or_err(blk(async move { t.get_qos().await })?, |q| show_topic_qos(&q)),
            Ent::Cft(..) => return Ok("unsupported".into()),
            Ent::Writer(w) => ok_or_err(blk(async move { each_w!(&w, d => d.get_qos().await) })?, |q| show_writer_qos(&q)),
            Ent::Reader(r) => ok_or_err(blk(async move { each_r!(&r, d => d.get_qos().await) })?, |q| show_reader_qos(&q)),
        };
        Ok(if !full && s.starts_with("ok") { "ok".into() } else { s })
    }

    /// `set-qos <name> default | k=v ...` (tokens modify the entity's CURRENT qos, so immutable policies stay as they are)
    fn op_set_qos(&mut self, toks: &[&str]) -> Res {
        let (plain, kv) = split_kv(toks);
        let (name, default) = match plain[..] {
            [n] => (n, false),
            [n, "default"] => (n, true),
            _ => return Err("usage: set-qos <name> default | k=v ...".into()),
        };
        macro_rules! setq {
            ($e:expr, $apply:ident) => {{
                let e = $e;
                if default {
                    unit(blk(async move { e.set_qos(QosKind::Default).await })?)
                } else {
                    let e2 = e.clone();
                    match blk(async move { e2.get_qos().await })? {
                        Err(x) => err_name(&x),
                        Ok(mut q) => {
                            $apply(&mut q, &kv)?;
                            unit(blk(async move { e.set_qos(QosKind::Specific(q)).await })?)
                        }
                    }
                }
            }};
        }
        Ok(match self.ent(name)? {
            Ent::Participant(p, _) => setq!(p, apply_participant_qos),
            Ent::Publisher(p) => setq!(p, apply_publisher_qos),
            Ent::Subscriber(p) => setq!(p, apply_subscriber_qos),
            Ent::Topic(t, _) => setq!(t, apply_topic_qos),
            Ent::Cft(..) => "unsupported".into(),
            Ent::Writer(W::Ki(d)) => setq!(d, apply_writer_qos),
            Ent::Writer(W::Kb(d)) => setq!(d, apply_writer_qos),
            Ent::Writer(W::Ni(d)) => setq!(d, apply_writer_qos),
            Ent::Writer(W::Nb(d)) => setq!(d, apply_writer_qos),
            Ent::Writer(W::Bk(d)) => setq!(d, apply_writer_qos),
            Ent::Writer(W::Kk(d)) => setq!(d, apply_writer_qos),
            Ent::Reader(R::Ki(d)) => setq!(d, apply_reader_qos),
            Ent::Reader(R::Kb(d)) => setq!(d, apply_reader_qos),
            Ent::Reader(R::Ni(d)) => setq!(d, apply_reader_qos),
            Ent::Reader(R::Nb(d)) => setq!(d, apply_reader_qos),
            Ent::Reader(R::Bk(d)) => setq!(d, apply_reader_qos),
            Ent::Reader(R::Kk(d)) => setq!(d, apply_reader_qos),
        })
    }

    /// `listeners <entity> <mask|none> [off]`: install the recording listener (or remove it with `off`)
    fn op_listeners(&mut self, toks: &[&str]) -> Res {
        let (name, mask, off) = match toks {
            [n, m] => (*n, parse_status_mask(m)?, false),
            [n, m, "off"] => (*n, parse_status_mask(m)?, true),
            _ => return Err("usage: listeners <entity> <mask> [off]".into()),
        };
        let l = if off { None } else { Some(Rec { owner: name.to_string(), log: self.log.clone() }) };
        let r = match self.ent(name)? {
            Ent::Participant(p, _) => blk(async move { p.set_listener(l, &mask).await })?,
            Ent::Publisher(p) => blk(async move { p.set_listener(l, &mask).await })?,
            Ent::Subscriber(p) => blk(async move { p.set_listener(l, &mask).await })?,
            // TopicAsync::set_listener is `todo!()`: give the listener at creation (`listener=<mask>`)
            Ent::Topic(..) | Ent::Cft(..) => return Ok("unsupported".into()),
            Ent::Writer(w) => blk(async move { each_w!(&w, d => d.set_listener(l, &mask).await) })?,
            Ent::Reader(r) => blk(async move { each_r!(&r, d => d.set_listener(l, &mask).await) })?,
        };
        Ok(unit(r))
    }
}

// ------------------------------------------------------------------------------------------------ data ops

fn parse_ss(v: &str) -> Result<Vec<SampleStateKind>, String> {
    match v {
        "any" => Ok(vec![SampleStateKind::Read, SampleStateKind::NotRead]),
        "read" => Ok(vec![SampleStateKind::Read]),
        "not_read" => Ok(vec![SampleStateKind::NotRead]),
        "none" => Ok(vec![]),
        _ => Err(format!("bad sample state mask {v}")),
    }
}
fn parse_vs(v: &str) -> Result<Vec<ViewStateKind>, String> {
    match v {
        "any" => Ok(vec![ViewStateKind::New, ViewStateKind::NotNew]),
        "new" => Ok(vec![ViewStateKind::New]),
        "not_new" => Ok(vec![ViewStateKind::NotNew]),
        "none" => Ok(vec![]),
        _ => Err(format!("bad view state mask {v}")),
    }
}
fn parse_is(v: &str) -> Result<Vec<InstanceStateKind>, String> {
    if v == "any" {
        return Ok(vec![InstanceStateKind::Alive, InstanceStateKind::NotAliveDisposed, InstanceStateKind::NotAliveNoWriters]);
    }
    if v == "none" {
        return Ok(vec![]);
    }
    v.split(',')
        .map(|t| match t {
            "alive" => Ok(InstanceStateKind::Alive),
            "disposed" => Ok(InstanceStateKind::NotAliveDisposed),
            "no_writers" => Ok(InstanceStateKind::NotAliveNoWriters),
            _ => Err(format!("bad instance state {t}")),
        })
        .collect()
}

/// `data/R|N/new|old/A|D|W/dgc/nwgc/srank/grank/agrank/ts/instance/publication/valid`
fn show_sample<T: TT>(s: &Sample<T>) -> String {
    let i = &s.sample_info;
    format!(
        "{}/{}/{}/{}/{}/{}/{}/{}/{}/{}/{}/{}/{}",
        s.data.as_ref().map(|d| d.show()).unwrap_or("-".into()),
        match i.sample_state {
            SampleStateKind::Read => "R",
            SampleStateKind::NotRead => "N",
        },
        match i.view_state {
            ViewStateKind::New => "new",
            ViewStateKind::NotNew => "old",
        },
        match i.instance_state {
            InstanceStateKind::Alive => "A",
            InstanceStateKind::NotAliveDisposed => "D",
            InstanceStateKind::NotAliveNoWriters => "W",
        },
        i.disposed_generation_count,
        i.no_writers_generation_count,
        i.sample_rank,
        i.generation_rank,
        i.absolute_generation_rank,
        i.source_timestamp.map(|t| ns_of(t).to_string()).unwrap_or("-".into()),
        show_ih::<T>(&i.instance_handle),
        hx(&i.publication_handle),
        i.valid_data as u8
    )
}
fn show_samples<T: TT>(r: DdsResult<Vec<Sample<T>>>) -> String {
    ok_or_err(r, |v| format!("{} {}", v.len(), v.iter().map(show_sample).collect::<Vec<_>>().join(" ")).trim_end().to_string())
}

struct ReadArgs {
    max: i32,
    ss: Vec<SampleStateKind>,
    vs: Vec<ViewStateKind>,
    is: Vec<InstanceStateKind>,
}
fn read_args(kv: &mut Kv) -> Result<ReadArgs, Fail> {
    let a = ReadArgs {
        max: take_kv(kv, "max").map(|v| v.parse().map_err(|_| "bad max".to_string())).transpose()?.unwrap_or(i32::MAX),
        ss: parse_ss(take_kv(kv, "ss").unwrap_or("any"))?,
        vs: parse_vs(take_kv(kv, "vs").unwrap_or("any"))?,
        is: parse_is(take_kv(kv, "is").unwrap_or("any"))?,
    };
    Ok(a)
}

#[derive(Clone, Copy, PartialEq)]
enum ReadOp {
    Read,
    Take,
    ReadNextSample,
    TakeNextSample,
    ReadInstance,
    TakeInstance,
    ReadNextInstance,
    TakeNextInstance,
}

/// instance argument of read-instance / read-next-instance: a scenario id or explicit handle bytes
#[derive(Clone, Copy)]
enum HandleArg {
    Id(i32),
    Raw(InstanceHandle),
}

async fn do_read<T: TT>(d: &DataReaderAsync<T>, op: ReadOp, a: &ReadArgs, h: Option<HandleArg>) -> String {
    // a scenario id stands for the handle this reader's TYPE gives that id
    let h = h.map(|x| match x {
        HandleArg::Id(id) => InstanceHandle::new(T::expected_handle(id)),
        HandleArg::Raw(h) => h,
    });
    match op {
        ReadOp::Read => show_samples(d.read(a.max, &a.ss, &a.vs, &a.is).await),
        ReadOp::Take => show_samples(d.take(a.max, &a.ss, &a.vs, &a.is).await),
        ReadOp::ReadNextSample => show_samples(d.read_next_sample().await.map(|s| vec![s])),
        ReadOp::TakeNextSample => show_samples(d.take_next_sample().await.map(|s| vec![s])),
        ReadOp::ReadInstance => show_samples(d.read_instance(a.max, h.unwrap(), &a.ss, &a.vs, &a.is).await),
        ReadOp::TakeInstance => show_samples(d.take_instance(a.max, h.unwrap(), &a.ss, &a.vs, &a.is).await),
        ReadOp::ReadNextInstance => show_samples(d.read_next_instance(a.max, h, &a.ss, &a.vs, &a.is).await),
        ReadOp::TakeNextInstance => show_samples(d.take_next_instance(a.max, h, &a.ss, &a.vs, &a.is).await),
    }
}

#[derive(Clone, Copy, PartialEq)]
enum WriteOp {
    Write,
    Dispose,
    Unregister,
    Register,
    Lookup,
}

async fn do_write<T: TT>(d: &DataWriterAsync<T>, op: WriteOp, id: i32, val: &str, ts: Option<Time>, h: Option<InstanceHandle>) -> Result<String, String> {
    let sample = T::make(id, val)?;
    let show_opt = |r: DdsResult<Option<InstanceHandle>>| ok_or_err(r, |o| o.map(|h| show_ih::<T>(&h)).unwrap_or("none".into()));
    Ok(match (op, ts) {
        (WriteOp::Write, None) => unit(d.write(sample, h).await),
        (WriteOp::Write, Some(t)) => unit(d.write_w_timestamp(sample, h, t).await),
        (WriteOp::Dispose, None) => unit(d.dispose(sample, h).await),
        (WriteOp::Dispose, Some(t)) => unit(d.dispose_w_timestamp(sample, h, t).await),
        (WriteOp::Unregister, None) => unit(d.unregister_instance(sample, h).await),
        (WriteOp::Unregister, Some(t)) => unit(d.unregister_instance_w_timestamp(sample, h, t).await),
        (WriteOp::Register, None) => show_opt(d.register_instance(sample).await),
        (WriteOp::Register, Some(t)) => show_opt(d.register_instance_w_timestamp(sample, t).await),
        (WriteOp::Lookup, _) => show_opt(d.lookup_instance(sample).await),
    })
}

impl Interp {
    /// `write <w> <id> <value> [ts=<ns>] [handle=<h>]`, `dispose|unregister|register|lookup <w> <id> [ts=] [handle=]`
    fn op_write(&mut self, op: WriteOp, toks: &[&str]) -> Res {
        let (plain, mut kv) = split_kv(toks);
        let (name, id, val) = match (op, &plain[..]) {
            (WriteOp::Write, [n, id, v]) => (*n, *id, *v),
            (WriteOp::Write, _) => return Err("usage: write <writer> <id> <value> [ts=<ns>] [handle=<h>]".into()),
            (_, [n, id]) => (*n, *id, "0"),
            (_, [n, id, v]) => (*n, *id, *v),
            _ => return Err("usage: <op> <writer> <id> [value] [ts=<ns>] [handle=<h>]".into()),
        };
        let id: i32 = id.parse().map_err(|_| "bad id".to_string())?;
        let ts = take_kv(&mut kv, "ts").map(|v| v.parse::<i128>().map(time_at).map_err(|_| "bad ts".to_string())).transpose()?;
        let h = take_kv(&mut kv, "handle").map(parse_handle).transpose()?;
        if !kv.is_empty() {
            return Err(format!("unknown option {}", kv[0].0).into());
        }
        let w = self.writer(name)?;
        let val = if matches!(w, W::Kb(_) | W::Nb(_) | W::Bk(_) | W::Kk(_)) && val == "0" && op != WriteOp::Write { "-" } else { val };
        let r = blk(async move { each_w!(&w, d => do_write(d, op, id, val, ts, h).await) })?;
        Ok(r?)
    }

    /// `read|take <r> [max=] [ss=] [vs=] [is=]`, `read-next-sample <r>`, `read-instance <r> <id|h(..)|hex>`,
    /// `read-next-instance <r> <prev id|handle|->`
    fn op_read(&mut self, op: ReadOp, toks: &[&str]) -> Res {
        let (plain, mut kv) = split_kv(toks);
        let a = read_args(&mut kv)?;
        if !kv.is_empty() {
            return Err(format!("unknown option {}", kv[0].0).into());
        }
        let parse_h = |s: &str| -> Result<HandleArg, String> {
            match s.parse::<i32>() {
                Ok(id) => Ok(HandleArg::Id(id)),
                Err(_) => parse_handle(s).map(HandleArg::Raw),
            }
        };
        let (name, h) = match (op, &plain[..]) {
            (ReadOp::ReadInstance | ReadOp::TakeInstance, [n, h]) => (*n, Some(parse_h(h)?)),
            (ReadOp::ReadNextInstance | ReadOp::TakeNextInstance, [n, h]) => (*n, if *h == "-" { None } else { Some(parse_h(h)?) }),
            (ReadOp::Read | ReadOp::Take | ReadOp::ReadNextSample | ReadOp::TakeNextSample, [n]) => (*n, None),
            _ => return Err("bad read arguments".into()),
        };
        let r = self.reader(name)?;
        Ok(blk(async move { each_r!(&r, d => do_read(d, op, &a, h).await) })?)
    }

    /// `wait-ack <writer> <max_wait_ns>` -> ok | pending | err ; `wait-hist <reader> <max_wait_ns>`
    fn op_wait(&mut self, what: &str, name: &str, max_ns: &str) -> Res {
        let max: u64 = max_ns.parse().map_err(|_| "bad duration".to_string())?;
        let r = match what {
            "wait-ack" => {
                let w = self.writer(name)?;
                sim::block_for(async move { each_w!(&w, d => d.wait_for_acknowledgments().await) }, max).map_err(Fail::Stop)?
            }
            _ => {
                let r = self.reader(name)?;
                sim::block_for(async move { each_r!(&r, d => d.wait_for_historical_data().await) }, max).map_err(Fail::Stop)?
            }
        };
        Ok(match r {
            None => "pending".into(),
            Some(r) => unit(r),
        })
    }

    /// `status <entity> <kind>`: only getters that are implemented at the pinned commit
    fn op_status(&mut self, name: &str, kind: &str) -> Res {
        let e = self.ent(name)?;
        Ok(match (e, kind) {
            (Ent::Writer(w), "publication_matched") => ok_or_err(blk(async move { each_w!(&w, d => d.get_publication_matched_status().await) })?, |s| st_pm(&s)),
            (Ent::Writer(w), "offered_deadline_missed") => ok_or_err(blk(async move { each_w!(&w, d => d.get_offered_deadline_missed_status().await) })?, |s| st_odm(&s)),
            (Ent::Reader(r), "subscription_matched") => ok_or_err(blk(async move { each_r!(&r, d => d.get_subscription_matched_status().await) })?, |s| st_sm(&s)),
            (Ent::Topic(t, _), "inconsistent_topic") => ok_or_err(blk(async move { t.get_inconsistent_topic_status().await })?, |s| st_it(&s)),
            // every other status getter is `todo!()` in the async API (DESIGN 3.3): observe through listeners instead
            _ => "unsupported".into(),
        })
    }

    /// `matched <writer|reader>` -> sorted handles of matched remote endpoints; `discovered <participant> participants|topics`
    fn op_matched(&mut self, name: &str) -> Res {
        let show = |mut v: Vec<InstanceHandle>| {
            let mut s: Vec<String> = v.drain(..).map(|h| hx(&h)).collect();
            s.sort();
            format!("{} {}", s.len(), s.join(" ")).trim_end().to_string()
        };
        Ok(match self.ent(name)? {
            Ent::Writer(w) => ok_or_err(blk(async move { each_w!(&w, d => d.get_matched_subscriptions().await) })?, show),
            Ent::Reader(r) => ok_or_err(blk(async move { each_r!(&r, d => d.get_matched_publications().await) })?, show),
            _ => return Err("matched: writer or reader expected".into()),
        })
    }
    fn op_discovered(&mut self, name: &str, what: &str) -> Res {
        let (p, _) = self.participant(name)?;
        let show = |mut v: Vec<InstanceHandle>| {
            let mut s: Vec<String> = v.drain(..).map(|h| hx(&h)).collect();
            s.sort();
            format!("{} {}", s.len(), s.join(" ")).trim_end().to_string()
        };
        Ok(match what {
            "participants" => ok_or_err(blk(async move { p.get_discovered_participants().await })?, show),
            "topics" => ok_or_err(blk(async move { p.get_discovered_topics().await })?, show),
            _ => return Err("discovered <participant> participants|topics".into()),
        })
    }

    fn condition(&self, name: &str) -> Result<StatusConditionAsync, Fail> {
        Ok(match self.ent(name)? {
            Ent::Writer(w) => each_w!(&w, d => d.get_statuscondition()),
            Ent::Reader(r) => each_r!(&r, d => d.get_statuscondition()),
            Ent::Topic(t, _) => t.get_statuscondition(),
            Ent::Subscriber(s) => s.get_statuscondition(),
            _ => return Err(format!("{name} has no status condition in the async API").into()),
        })
    }
    /// `trigger <entity>`, `enabled-statuses <entity> [mask]`, `wait <max_ns> <entity>...`
    fn op_trigger(&mut self, name: &str) -> Res {
        let c = self.condition(name)?;
        Ok(ok_or_err(blk(async move { c.get_trigger_value().await })?, |b| (b as u8).to_string()))
    }
    fn op_enabled_statuses(&mut self, toks: &[&str]) -> Res {
        match toks {
            [name] => {
                let c = self.condition(name)?;
                let r = blk(async move { c.get_enabled_statuses().await.map(|i| i.into_iter().collect::<Vec<_>>()) })?;
                Ok(ok_or_err(r, |v| {
                    let mut s: Vec<&str> = v.into_iter().map(status_name).collect();
                    s.sort();
                    if s.is_empty() {
                        "none".into()
                    } else {
                        s.join(",")
                    }
                }))
            }
            [name, mask] => {
                let c = self.condition(name)?;
                let m = parse_status_mask(mask)?;
                Ok(unit(blk(async move { c.set_enabled_statuses(&m).await })?))
            }
            _ => Err("usage: enabled-statuses <entity> [mask]".into()),
        }
    }
    fn op_waitset(&mut self, toks: &[&str]) -> Res {
        if toks.len() < 2 {
            return Err("usage: wait <max_ns> <entity>...".into());
        }
        let max: u64 = toks[0].parse().map_err(|_| "bad duration".to_string())?;
        let conds: Vec<StatusConditionAsync> = toks[1..].iter().map(|n| self.condition(n)).collect::<Result<_, _>>()?;
        let n = conds.len();
        let r = sim::block_for(
            async move {
                let mut ws = WaitSetAsync::new();
                for c in conds {
                    ws.attach_condition(ConditionAsync::StatusCondition(c)).await?;
                }
                ws.wait().await
            },
            max,
        )
        .map_err(Fail::Stop)?;
        let _ = n;
        Ok(match r {
            None => "pending".into(),
            Some(r) => ok_or_err(r, |v| v.len().to_string()),
        })
    }
}

// ------------------------------------------------------------------------------------------------ world ops

impl Interp {
    /// resolve `from=<participant name>` / `to=<name>` tokens to transport indices, then parse the pattern
    fn pattern(&self, toks: &[&str]) -> Result<sim::Pattern, Fail> {
        let mut owned: Vec<String> = vec![];
        for t in toks {
            if let Some((k, v)) = t.split_once('=') {
                if (k == "from" || k == "to") && v.parse::<usize>().is_err() {
                    let (_, i) = self.participant(v)?;
                    owned.push(format!("{k}={i}"));
                    continue;
                }
            }
            owned.push(t.to_string());
        }
        let refs: Vec<&str> = owned.iter().map(|s| s.as_str()).collect();
        Ok(sim::Pattern::parse(&refs)?)
    }

    fn op_fault(&mut self, op: &str, toks: &[&str]) -> Res {
        let (plain, mut kv) = split_kv(toks);
        let times = take_kv(&mut kv, "times").map(|v| v.parse::<u32>().map_err(|_| "bad times".to_string())).transpose()?;
        let mut rest: Vec<String> = plain.iter().map(|s| s.to_string()).collect();
        rest.extend(kv.iter().map(|(k, v)| format!("{k}={v}")));
        let mut rest_refs: Vec<&str> = rest.iter().map(|s| s.as_str()).collect();
        // `<op>-next <n> [pattern]`: leading count
        let mut count = None;
        if op.ends_with("-next") {
            if let Some(n) = rest_refs.first().and_then(|s| s.parse::<u32>().ok()) {
                count = Some(n);
                rest_refs.remove(0);
            } else {
                count = Some(1);
            }
        }
        let pattern = self.pattern(&rest_refs)?;
        let (action, remaining) = match op {
            "drop-next" => (sim::Action::Drop, count),
            "drop-if" => (sim::Action::Drop, times),
            "dup-next" => (sim::Action::Duplicate, count),
            "dup-if" => (sim::Action::Duplicate, times),
            "hold" => (sim::Action::Hold, times),
            // a coalesce consumes two datagrams, a reorder two as well (the second one only triggers the swap)
            "coalesce-next" => (sim::Action::Coalesce, count.map(|n| 2 * n)),
            "reorder-next" => (sim::Action::Reorder, count),
            _ => return Err(format!("unknown fault directive {op}").into()),
        };
        sim::with(|w| w.rules.push(sim::Rule { action, pattern, remaining }));
        Ok("ok".into())
    }

    fn op_release(&mut self, toks: &[&str]) -> Res {
        let ids: Vec<u64> = toks.iter().map(|t| t.trim_start_matches('#').parse().map_err(|_| "bad datagram id".to_string())).collect::<Result<_, _>>()?;
        let n = sim::with(|w| w.release(if ids.is_empty() { None } else { Some(&ids) }));
        sim::settle().map_err(Fail::Stop)?;
        Ok(format!("ok {n}"))
    }

    fn op_inflight(&mut self) -> Res {
        let lines: Vec<String> = sim::with(|w| {
            let mut v: Vec<String> = w.inflight.iter().map(|d| format!("{} queued", w.show(d))).collect();
            v.extend(w.held.iter().map(|d| format!("{} held", w.show(d))));
            v
        });
        Ok(format!("ok {}{}{}", lines.len(), if lines.is_empty() { "" } else { " | " }, lines.join(" | ")))
    }

    fn op_trace(&mut self, arg: &str) -> Res {
        match arg {
            "on" => {
                sim::with(|w| w.trace = Some(vec![]));
                Ok("ok".into())
            }
            "off" => {
                sim::with(|w| w.trace = None);
                Ok("ok".into())
            }
            "show" => {
                let lines = sim::with(|w| w.trace.as_mut().map(std::mem::take).unwrap_or_default());
                Ok(format!("ok {}{}{}", lines.len(), if lines.is_empty() { "" } else { " | " }, lines.join(" | ")))
            }
            _ => Err("usage: trace on|off|show".into()),
        }
    }

    /// `inject <from participant> <to participant> meta|user <hex datagram>`
    fn op_inject(&mut self, toks: &[&str]) -> Res {
        let [from, to, which, hexs] = toks[..] else { return Err("usage: inject <from> <to> meta|user <hex>".into()) };
        let (_, fi) = self.participant(from)?;
        let (_, ti) = self.participant(to)?;
        let buf = parse_bytes(hexs)?;
        let id = sim::with(|w| {
            let (m, u) = w.ports_of(ti).unwrap_or((0, 0));
            w.inject(fi, buf, &[if which == "meta" { m } else { u }])
        });
        sim::settle().map_err(Fail::Stop)?;
        Ok(format!("ok #{id}"))
    }

    fn op_config(&mut self, toks: &[&str]) -> Res {
        let (_, kv) = split_kv(toks);
        for (k, v) in kv {
            match k {
                "frag" => {
                    let n: usize = v.parse().map_err(|_| "bad frag".to_string())?;
                    sim::with(|w| w.frag_size = n)
                }
                "budget" => {
                    let n: u64 = v.parse().map_err(|_| "bad budget".to_string())?;
                    sim::with(|w| w.step_budget = n)
                }
                "announce" | "tag" => {
                    use dust_dds::dds_async::configuration::DustDdsConfigurationBuilder;
                    let f = self.factory;
                    let (k, v) = (k.to_string(), v.to_string());
                    let r: Result<(), String> = blk(async move {
                        let mut c = f.get_mut_configuration().await;
                        let b = DustDdsConfigurationBuilder::new().domain_tag(c.domain_tag().to_string()).participant_announcement_interval(c.participant_announcement_interval());
                        let b = if k == "tag" {
                            b.domain_tag(if v == "-" { String::new() } else { v })
                        } else {
                            b.participant_announcement_interval(core::time::Duration::from_nanos(v.parse().map_err(|_| "bad announce".to_string())?))
                        };
                        *c = b.build().map_err(|_| "bad configuration".to_string())?;
                        Ok(())
                    })?;
                    r?
                }
                _ => return Err(format!("unknown config key {k}").into()),
            }
        }
        Ok("ok".into())
    }

    fn op_factory_qos(&mut self, toks: &[&str]) -> Res {
        let (_, kv) = split_kv(toks);
        let f = self.factory;
        if kv.is_empty() {
            return Ok(ok_or_err(blk(async move { f.get_qos().await })?, |q| format!("autoenable={}", q.entity_factory.autoenable_created_entities as u8)));
        }
        let mut q = DomainParticipantFactoryQos::default();
        for (k, v) in kv {
            match k {
                "autoenable" => q.entity_factory.autoenable_created_entities = parse_bool(v)?,
                _ => return Err(format!("unknown factory qos key {k}").into()),
            }
        }
        Ok(unit(blk(async move { f.set_qos(QosKind::Specific(q)).await })?))
    }

    // ---- BEGIN ext w2b (C17): `ignore <participant> <other participant | #creation index>` and
    // `spdp-forge <source participant index> <to participant> [id=<n>] [domain=<d>|none] [lease=<ns>]`:
    // a copy of the most recent HELD SPDP announcement of the source participant (get one with `hold DATA from=<index> times=1`
    // before creating the source on another domain) is patched — GUID prefix instance id (RTPS header and PID_PARTICIPANT_GUID),
    // PID_DOMAIN_ID (`none` = parameter made unrecognisable), PID_PARTICIPANT_LEASE_DURATION — and delivered to the
    // metatraffic unicast port of <to>, bypassing the fault rules.
    fn op_ignore_w2b(&mut self, name: &str, other: &str) -> Res {
        let (p, _) = self.participant(name)?;
        let h = if let Some(i) = other.strip_prefix('#') {
            let i: u32 = i.parse().map_err(|_| "bad index".to_string())?;
            let b = i.to_le_bytes();
            InstanceHandle::new([0xb1, 0xb2, 0xb3, 0xb4, 0xa1, 0xa2, 0xa3, 0xa4, b[0], b[1], b[2], b[3], 0, 0, 1, 0xc1])
        } else {
            self.participant(other)?.0.get_instance_handle()
        };
        Ok(unit(blk(async move { p.ignore_participant(h).await })?))
    }
    fn op_spdp_forge_w2b(&mut self, toks: &[&str]) -> Res {
        let (plain, kv) = split_kv(toks);
        let [src, to] = plain[..] else { return Err("usage: spdp-forge <source index> <to> [id=] [domain=] [lease=]".into()) };
        let src: usize = src.parse().map_err(|_| "bad source index".to_string())?;
        let (_, ti) = self.participant(to)?;
        let mut buf = sim::with(|w| w.held.iter().rev().find(|d| d.from == src && d.buf.len() > 48 && d.buf[20] == 0x09 && d.buf[32] == 0x15).map(|d| d.buf.clone()))
            .ok_or("no held SPDP announcement of that participant")?;
        // RTPS header (20) + INFO_TS (12) + DATA header (4) + extraFlags/octetsToInlineQos (4) + ids and sn (16) + encapsulation (4)
        // RTPS header (20) + INFO_TS (12) + DATA header (4) + extraFlags/octetsToInlineQos (4) + ids and sn (16),
        // then the inline QoS parameter list (flag Q; holds PID_KEY_HASH), then encapsulation (4) + the parameter list
        let scan = |buf: &[u8], mut o: usize| -> (Vec<(u16, usize, usize)>, usize) {
            let mut params = vec![];
            while o + 4 <= buf.len() {
                let pid = u16::from_le_bytes([buf[o], buf[o + 1]]);
                let len = u16::from_le_bytes([buf[o + 2], buf[o + 3]]) as usize;
                o += 4;
                if pid == 1 {
                    break;
                }
                params.push((pid, o - 4, len));
                o += len;
            }
            (params, o)
        };
        let mut o = 20 + 12 + 4 + 4 + 16;
        let mut inline: Vec<(u16, usize, usize)> = vec![];
        if buf[33] & 0x02 != 0 {
            (inline, o) = scan(&buf, o);
        }
        let (params, _) = scan(&buf, o + 4);
        let at = |pid: u16| params.iter().find(|x| x.0 == pid).map(|x| (x.1, x.2));
        for (k, v) in kv {
            match k {
                "id" => {
                    let n: u32 = v.parse().map_err(|_| "bad id".to_string())?;
                    buf[16..20].copy_from_slice(&n.to_le_bytes());
                    let (o, _) = at(0x0050).ok_or("no PID_PARTICIPANT_GUID")?;
                    buf[o + 4 + 8..o + 4 + 12].copy_from_slice(&n.to_le_bytes());
                    if let Some(x) = inline.iter().find(|x| x.0 == 0x0070) {
                        buf[x.1 + 4 + 8..x.1 + 4 + 12].copy_from_slice(&n.to_le_bytes());
                    }
                }
                "domain" => {
                    let (o, _) = at(0x000f).ok_or("no PID_DOMAIN_ID")?;
                    if v == "none" {
                        buf[o..o + 2].copy_from_slice(&0x3f0fu16.to_le_bytes());
                    } else {
                        let d: u32 = v.parse().map_err(|_| "bad domain".to_string())?;
                        buf[o + 4..o + 8].copy_from_slice(&d.to_le_bytes());
                    }
                }
                "lease" => {
                    let ns: u64 = v.parse().map_err(|_| "bad lease".to_string())?;
                    let (o, len) = at(0x0002).ok_or("no PID_PARTICIPANT_LEASE_DURATION")?;
                    if len != 8 {
                        return Err("unexpected lease parameter length".into());
                    }
                    buf[o + 4..o + 8].copy_from_slice(&((ns / 1_000_000_000) as i32).to_le_bytes());
                    buf[o + 8..o + 12].copy_from_slice(&((ns % 1_000_000_000) as u32).to_le_bytes());
                }
                _ => return Err(format!("unknown spdp-forge key {k}").into()),
            }
        }
        let id = sim::with(|w| {
            let (m, _) = w.ports_of(ti).unwrap_or((0, 0));
            w.inject(src, buf, &[m])
        });
        sim::settle().map_err(Fail::Stop)?;
        Ok(format!("ok #{id}"))
    }
    // ---- END ext w2b

    // ---------------------------------------------------------------- dispatcher

    fn exec(&mut self, toks: &[&str]) -> Res {
        let Some((&op, args)) = toks.split_first() else { return Ok("ok".into()) };
        if op.starts_with('#') {
            return Ok("ok".into());
        }
        match (op, args) {
            ("ignore", [n, o]) => self.op_ignore_w2b(n, o), // ext w2b
            ("spdp-forge", a) => self.op_spdp_forge_w2b(a), // ext w2b
            ("config", a) => self.op_config(a),
            ("factory-qos", a) => self.op_factory_qos(a),
            ("participant", a) => self.op_participant(a),
            ("publisher", a) => self.op_publisher(a),
            ("subscriber", a) => self.op_subscriber(a),
            ("topic", a) => self.op_topic(a),
            ("find-topic", a) => self.op_find_topic(a),
            ("cft", a) => self.op_cft(a),
            ("writer", a) => self.op_writer(a),
            ("reader", a) => self.op_reader(a),
            ("delete", [n]) => self.op_delete(None, n),
            ("delete-from", [p, n]) => self.op_delete(Some(p), n),
            ("delete-contained", [n]) => self.op_delete_contained(n),
            ("enable", [n]) => self.op_enable(n),
            ("handle", [n]) => self.op_handle(n),
            ("probe", [n]) => self.op_get_qos(n, false),
            ("get-qos", [n]) => self.op_get_qos(n, true),
            ("set-qos", a) => self.op_set_qos(a),
            ("listeners", a) => self.op_listeners(a),
            ("log", []) => {
                let l = std::mem::take(&mut *self.log.lock().unwrap());
                Ok(format!("ok {}{}{}", l.len(), if l.is_empty() { "" } else { " | " }, l.join(" | ")))
            }
            ("write", a) => self.op_write(WriteOp::Write, a),
            ("dispose", a) => self.op_write(WriteOp::Dispose, a),
            ("unregister", a) => self.op_write(WriteOp::Unregister, a),
            ("register", a) => self.op_write(WriteOp::Register, a),
            ("lookup", a) => self.op_write(WriteOp::Lookup, a),
            ("read", a) => self.op_read(ReadOp::Read, a),
            ("take", a) => self.op_read(ReadOp::Take, a),
            ("read-next-sample", a) => self.op_read(ReadOp::ReadNextSample, a),
            ("take-next-sample", a) => self.op_read(ReadOp::TakeNextSample, a),
            ("read-instance", a) => self.op_read(ReadOp::ReadInstance, a),
            ("take-instance", a) => self.op_read(ReadOp::TakeInstance, a),
            ("read-next-instance", a) => self.op_read(ReadOp::ReadNextInstance, a),
            ("take-next-instance", a) => self.op_read(ReadOp::TakeNextInstance, a),
            ("wait-ack", [n, d]) | ("wait-hist", [n, d]) => self.op_wait(op, n, d),
            ("status", [n, k]) => self.op_status(n, k),
            ("matched", [n]) => self.op_matched(n),
            ("discovered", [n, w]) => self.op_discovered(n, w),
            ("trigger", [n]) => self.op_trigger(n),
            ("enabled-statuses", a) => self.op_enabled_statuses(a),
            ("wait", a) => self.op_waitset(a),
            ("advance", [ns]) => {
                let ns: u64 = ns.parse().map_err(|_| "bad duration".to_string())?;
                sim::advance(ns).map_err(Fail::Stop)?;
                Ok("ok".into())
            }
            ("jump", [ns]) => {
                let ns: u64 = ns.parse().map_err(|_| "bad duration".to_string())?;
                sim::jump(ns).map_err(Fail::Stop)?;
                Ok("ok".into())
            }
            ("settle", []) => {
                sim::settle().map_err(Fail::Stop)?;
                Ok("ok".into())
            }
            ("now", []) => Ok(format!("ok {}", sim::with(|w| w.now_ns) - sim::EPOCH_NS)),
            ("drop-next" | "drop-if" | "dup-next" | "dup-if" | "hold" | "coalesce-next" | "reorder-next", a) => self.op_fault(op, a),
            ("hold-off", []) => {
                sim::with(|w| w.rules.retain(|r| r.action != sim::Action::Hold));
                Ok("ok".into())
            }
            ("clear-faults", []) => {
                sim::with(|w| w.rules.clear());
                Ok("ok".into())
            }
            ("release", a) => self.op_release(a),
            ("drop-held", []) => Ok(format!("ok {}", sim::with(|w| std::mem::take(&mut w.held).len()))),
            ("inflight", []) => self.op_inflight(),
            ("trace", [a]) => self.op_trace(a),
            ("inject", a) => self.op_inject(a),
            ("x-w2d", a) => self.op_ext_w2d(a), // ext w2d (single dispatch line)
            ("x-w2d-inject", a) => self.op_ext3_w2d(a), // ext3 w2d (single dispatch line)
            ("late-release", [ns]) => self.op_late_release(ns), // ext w2c (single dispatch line)
            // several API calls in flight (C11 "several writers blocked at once"): tagged variants of w2c's pair
            ("write-bg", a) if a.iter().any(|t| t.starts_with("tag=")) => self.op_bg_tagged(a),
            ("join", [tag]) => self.op_join_tagged(tag),
            ("write-bg", a) | ("join", a) => self.op_bg(op, a), // ext2 w2c (single dispatch line)
            ("timers", []) => {
                let v = sim::with(|w| std::mem::take(&mut w.timer_requests));
                Ok(format!("ok {} {}", v.len(), v.iter().map(|(t, d)| format!("{}:{}", t - sim::EPOCH_NS, d)).collect::<Vec<_>>().join(" ")).trim_end().to_string())
            }
            ("stats", []) => Ok(sim::with(|w| format!("ok sent={} delivered={} held={} steps={}", w.sent_count, w.delivered_count, w.held.len(), w.steps))),
            ("ports", [n]) => {
                let (_, i) = self.participant(n)?;
                let (m, u) = sim::with(|w| w.ports_of(i)).ok_or("no such transport participant")?;
                Ok(format!("ok index={i} meta={m} user={u}"))
            }
            _ => Err(format!("unknown op or wrong number of arguments: {op}").into()),
        }
    }
}

/// outcome of one primitive op, after looking at the simulator's panic record
struct Outcome {
    text: String,
    /// the factory worker died: nothing in this process can work any more
    dead: bool,
}

fn run_primitive(it: &mut Interp, toks: &[&str]) -> Outcome {
    sim::reset_steps();
    let before = sim::with(|w| w.task_panics.len());
    let r = std::panic::catch_unwind(std::panic::AssertUnwindSafe(|| it.exec(toks)));
    let after = sim::with(|w| w.task_panics.len());
    let dead = sim::worker_dead();
    let text = if after > before {
        // a spawned task (worker, listener, receive) panicked while this op ran
        "PANIC".to_string()
    } else {
        match r {
            Err(_) => "PANIC".to_string(), // the calling future itself panicked (e.g. a todo!() getter)
            Ok(Ok(s)) => s,
            Ok(Err(Fail::Bad(m))) => {
                // the reason goes to stderr (visible with `dsim --child`); the canonical answer is just `bad-op`
                eprintln!("bad-op: {m}");
                "bad-op".to_string()
            }
            Ok(Err(Fail::Stop(_))) => "HANG".to_string(),
        }
    };
    Outcome { text, dead }
}

/// `repeat <n> <op...> [; <op...>]*` with `%i` replaced by the iteration index; results joined by `;`
fn run_line(it: &mut Interp, line: &str, poisoned: &mut bool) -> String {
    let toks: Vec<&str> = line.split_whitespace().collect();
    if *poisoned {
        return "POISONED".into();
    }
    if toks.first() == Some(&"repeat") {
        let Some(n) = toks.get(1).and_then(|s| s.parse::<usize>().ok()) else { return "bad-op".into() };
        let body: Vec<Vec<&str>> = toks[2..].split(|t| *t == ";").map(|s| s.to_vec()).filter(|s| !s.is_empty()).collect();
        if body.is_empty() || body.iter().any(|b| b[0] == "repeat") {
            return "bad-op".into();
        }
        let mut out: Vec<String> = vec![];
        'outer: for i in 0..n {
            for b in &body {
                let sub: Vec<String> = b.iter().map(|t| t.replace("%i", &i.to_string())).collect();
                let refs: Vec<&str> = sub.iter().map(|s| s.as_str()).collect();
                let o = run_primitive(it, &refs);
                let stop = o.dead || o.text == "HANG";
                out.push(o.text);
                if stop {
                    *poisoned = true;
                    break 'outer;
                }
            }
        }
        return out.join(";");
    }
    let o = run_primitive(it, &toks);
    if o.dead || o.text == "HANG" {
        // a dead worker or an exhausted step budget leaves the world in an undefined state
        *poisoned = true;
    }
    o.text
}

fn child_main() {
    std::panic::set_hook(Box::new(|_| {}));
    let mut it = Interp::new();
    let stdin = std::io::stdin();
    let stdout = std::io::stdout();
    let mut out = stdout.lock();
    let mut poisoned = false;
    for line in stdin.lock().lines() {
        let Ok(line) = line else { break };
        let r = if line.trim() == "reset" { "bad-op reset inside a child: one world per process".to_string() } else { run_line(&mut it, &line, &mut poisoned) };
        let _ = writeln!(out, "{}", r);
        let _ = out.flush();
    }
    let _ = it.wall_start;
    // leak everything: destructors of a half-dead world are of no interest
    std::process::exit(0);
}

// ---- BEGIN ext w2c
impl Interp {
    /// `late-release <ns>`: the late-timer situation WITH traffic (needed to replay D34). The clock jumps by <ns>
    /// without waking the timers that became due, the held datagrams are queued and delivered at the new time (so
    /// their mails reach the worker before it looks at its overdue timer: `select_future` polls the mail channel
    /// first), then every due timer fires as in `jump`. Answer `ok <number of released datagrams>`. With nothing
    /// held it is exactly `jump <ns>`.
    fn op_late_release(&mut self, ns: &str) -> Res {
        let ns: u64 = ns.parse().map_err(|_| "bad duration".to_string())?;
        sim::settle().map_err(Fail::Stop)?;
        let n = sim::with(|w| {
            w.now_ns = w.now_ns.saturating_add(ns);
            w.release(None)
        });
        sim::jump(0).map_err(Fail::Stop)?;
        Ok(format!("ok {n}"))
    }
}
// ---- END ext w2c

// ---- BEGIN ext w2d (C26: arbitrary groupings of real datagrams; a test type with a STRING member) ----
// `x-w2d merge-held <k1> <k2> ...` : the held datagrams (send order) are cut into consecutive groups of k1, k2, ...
//        datagrams (what is left over goes out one by one); each group becomes ONE RTPS message
//        (`first ++ others[20..]`, the generalisation of the pair-wise `coalesce-next`) sent to the locators of its
//        first member; groups whose members differ in source or locators are not merged. Answer `ok <datagrams queued>`.
// `x-w2d s-topic <name> <participant> <topic name> [topic qos]`, `x-w2d s-writer <name> <publisher> <topic> [qos]`,
// `x-w2d s-reader <name> <subscriber> <topic|cft> [qos]`, `x-w2d s-write <writer> <id> <string>`,
// `x-w2d s-dispose <writer> <id>`, `x-w2d s-take <reader>` : the same as topic/writer/reader/write/dispose/take for the type
//        `KeyedStr {#[key] id: i32, name: String}` (string token `%e` = empty string, `\s` = a blank; `x-w2d s-cft` = `cft` with
//        the same escape in the parameters and the expression). The topic is entered in the
//        entity table (so `cft`, `delete`, `handle` work on it); writers/readers of this type live in a table of their own.
#[derive(Clone, Debug, PartialEq, DdsType)]
struct KeyedStr {
    #[dust_dds(key)]
    id: i32,
    name: String,
}
impl TT for KeyedStr {
    const KEYED: bool = true;
    const TYPE_NAME: &'static str = "KeyedStr";
    fn make(id: i32, v: &str) -> Result<Self, String> {
        Ok(KeyedStr { id, name: if v == "%e" { String::new() } else { w2d_unesc(v) } })
    }
    fn show(&self) -> String {
        format!("{}:{}", self.id, if self.name.is_empty() { "%e".to_string() } else { w2d_esc(&self.name) })
    }
}
/// `\s` stands for a blank inside string values, filter parameters and filter expressions (op lines are blank-separated)
fn w2d_unesc(s: &str) -> String {
    s.replace("\\s", " ")
}
fn w2d_esc(s: &str) -> String {
    s.replace(' ', "\\s")
}
#[derive(Clone)]
enum SEnt {
    W(DataWriterAsync<KeyedStr>),
    R(DataReaderAsync<KeyedStr>),
}
thread_local! {
    static S_ENTS: std::cell::RefCell<BTreeMap<String, SEnt>> = std::cell::RefCell::new(BTreeMap::new());
}
impl Interp {
    fn op_ext_w2d(&mut self, toks: &[&str]) -> Res {
        let Some((&sub, args)) = toks.split_first() else { return Err("usage: x-w2d <sub-op> ...".into()) };
        match sub {
            "merge-held" => {
                let sizes: Vec<usize> = args.iter().map(|t| t.parse::<usize>().map_err(|_| "bad group size".to_string())).collect::<Result<_, _>>()?;
                if sizes.iter().any(|k| *k == 0) {
                    return Err("group size 0".into());
                }
                let n = sim::with(|w| {
                    let mut held = std::mem::take(&mut w.held);
                    held.sort_by_key(|d| d.id);
                    let mut groups: Vec<Vec<sim::Datagram>> = vec![];
                    let mut it = held.into_iter();
                    for k in sizes.iter().copied().chain(std::iter::repeat(1)) {
                        let g: Vec<sim::Datagram> = it.by_ref().take(k).collect();
                        if g.is_empty() {
                            break;
                        }
                        groups.push(g);
                    }
                    let mut n = 0;
                    for g in groups {
                        let same = g.iter().all(|d| d.from == g[0].from && d.locators == g[0].locators && d.buf.len() >= 20);
                        let ports = |d: &sim::Datagram| d.locators.iter().map(|l| l.port()).collect::<Vec<u32>>();
                        if same {
                            let mut buf = g[0].buf.clone();
                            for d in &g[1..] {
                                buf.extend_from_slice(&d.buf[20..]);
                            }
                            w.inject(g[0].from, buf, &ports(&g[0]));
                            n += 1;
                        } else {
                            for d in &g {
                                w.inject(d.from, d.buf.clone(), &ports(d));
                                n += 1;
                            }
                        }
                    }
                    n
                });
                sim::settle().map_err(Fail::Stop)?;
                Ok(format!("ok {n}"))
            }
            "s-cft" => {
                // `x-w2d s-cft <name> <participant> <topic> <cft_name> <params|-> <expression...>`: the stock `cft` with `\s` = blank
                // inside the parameters and the expression (so that values with leading / trailing blanks can be written)
                if args.len() < 6 {
                    return Err("usage: x-w2d s-cft <name> <participant> <topic> <cft_name> <params|-> <expression...>".into());
                }
                let (p, _) = self.participant(args[1])?;
                let (t, ty) = self.topic(args[2])?;
                let cft_name = args[3].to_string();
                let params: Vec<String> = if args[4] == "-" { vec![] } else { args[4].split(',').map(w2d_unesc).collect() };
                let expr = w2d_unesc(&args[5..].join(" "));
                let r = blk(async move { p.create_contentfilteredtopic(&cft_name, &t, expr, params).await })?;
                Ok(match r {
                    Ok(x) => {
                        self.ents.insert(args[0].to_string(), Ent::Cft(x, ty));
                        "ok".into()
                    }
                    Err(e) => err_name(&e),
                })
            }
            "s-topic" => {
                let (plain, kv) = split_kv(args);
                let [name, parent, topic_name] = plain[..] else { return Err("usage: x-w2d s-topic <name> <participant> <topic_name> [qos]".into()) };
                let (p, _) = self.participant(parent)?;
                let qos = if kv.is_empty() {
                    QosKind::Default
                } else {
                    let mut q = TopicQos::default();
                    apply_topic_qos(&mut q, &kv)?;
                    QosKind::Specific(q)
                };
                let tn = topic_name.to_string();
                let r = blk(async move { p.create_topic::<KeyedStr>(&tn, KeyedStr::TYPE_NAME, qos, None::<Rec>, &[]).await })?;
                Ok(match r {
                    Ok(x) => {
                        let h = x.get_instance_handle();
                        // the `Ty` tag is only used by the ops that create typed writers/readers; `s-writer`/`s-reader` ignore it
                        self.ents.insert(name.to_string(), Ent::Topic(x, Ty::Ki));
                        format!("ok {}", hx(&h))
                    }
                    Err(e) => err_name(&e),
                })
            }
            "s-writer" => {
                let (plain, kv) = split_kv(args);
                let [name, parent, topic] = plain[..] else { return Err("usage: x-w2d s-writer <name> <publisher> <topic> [qos]".into()) };
                let p = self.publisher(parent)?;
                let (t, _) = self.topic(topic)?;
                let qos = if kv.is_empty() {
                    QosKind::Default
                } else {
                    let mut q = DataWriterQos::default();
                    apply_writer_qos(&mut q, &kv)?;
                    QosKind::Specific(q)
                };
                let r = blk(async move { p.create_datawriter::<KeyedStr>(&t, qos, None::<Rec>, &[]).await })?;
                Ok(match r {
                    Ok(w) => {
                        let h = w.get_instance_handle();
                        S_ENTS.with(|m| m.borrow_mut().insert(name.to_string(), SEnt::W(w)));
                        format!("ok {}", hx(&h))
                    }
                    Err(e) => err_name(&e),
                })
            }
            "s-reader" => {
                let (plain, kv) = split_kv(args);
                let [name, parent, topic] = plain[..] else { return Err("usage: x-w2d s-reader <name> <subscriber> <topic|cft> [qos]".into()) };
                let s = self.subscriber(parent)?;
                let qos = if kv.is_empty() {
                    QosKind::Default
                } else {
                    let mut q = DataReaderQos::default();
                    apply_reader_qos(&mut q, &kv)?;
                    QosKind::Specific(q)
                };
                let te = self.ent(topic)?;
                let r: DdsResult<DataReaderAsync<KeyedStr>> = blk(async move {
                    match &te {
                        Ent::Topic(t, _) => s.create_datareader::<KeyedStr>(t, qos, None::<Rec>, &[]).await,
                        Ent::Cft(t, _) => s.create_datareader::<KeyedStr>(t, qos, None::<Rec>, &[]).await,
                        _ => Err(DdsError::Error("not-a-topic".into())),
                    }
                })?;
                Ok(match r {
                    Ok(x) => {
                        let h = x.get_instance_handle();
                        S_ENTS.with(|m| m.borrow_mut().insert(name.to_string(), SEnt::R(x)));
                        format!("ok {}", hx(&h))
                    }
                    Err(DdsError::Error(m)) if m == "not-a-topic" => return Err(format!("{topic} is not a topic").into()),
                    Err(e) => err_name(&e),
                })
            }
            "s-write" => {
                let [name, id, val] = args[..] else { return Err("usage: x-w2d s-write <writer> <id> <string>".into()) };
                let id: i32 = id.parse().map_err(|_| "bad id".to_string())?;
                let Some(SEnt::W(w)) = S_ENTS.with(|m| m.borrow().get(name).cloned()) else { return Err(format!("{name} is not a string writer").into()) };
                let val = val.to_string();
                let r = blk(async move { do_write(&w, WriteOp::Write, id, &val, None, None).await })?;
                Ok(r?)
            }
            "s-dispose" => {
                let [name, id] = args[..] else { return Err("usage: x-w2d s-dispose <writer> <id>".into()) };
                let id: i32 = id.parse().map_err(|_| "bad id".to_string())?;
                let Some(SEnt::W(w)) = S_ENTS.with(|m| m.borrow().get(name).cloned()) else { return Err(format!("{name} is not a string writer").into()) };
                let r = blk(async move { do_write(&w, WriteOp::Dispose, id, "%e", None, None).await })?;
                Ok(r?)
            }
            "s-take" => {
                let [name] = args[..] else { return Err("usage: x-w2d s-take <reader>".into()) };
                let Some(SEnt::R(r)) = S_ENTS.with(|m| m.borrow().get(name).cloned()) else { return Err(format!("{name} is not a string reader").into()) };
                let a = ReadArgs { max: i32::MAX, ss: parse_ss("any")?, vs: parse_vs("any")?, is: parse_is("any")? };
                Ok(blk(async move { do_read(&r, ReadOp::Take, &a, None).await })?)
            }
            _ => Err(format!("unknown x-w2d sub-op {sub}").into()),
        }
    }
}
// ---- END ext w2d ----

// ---- BEGIN ext3 w2d (C06: allocation observation) ----
// A counting global allocator (current / peak heap of this process, optional hard limit) and the op
// `x-w2d-inject <from> <to> meta|user <hex>`: exactly `inject`, but when the environment variable
// DSIM_ALLOC_CHECK=<c>:<d>:<limit> is set (bytes; e.g. 64:1048576:2147483648) the heap is observed while the datagram is
// delivered and processed: an allocation that would take the heap above <limit> fails (the process aborts as it does
// when the system refuses memory -> the supervisor answers CRASH), and when the peak heap grew by more than
// <c> * datagram length + <d> during the op the answer is `ALLOC <growth>` instead of `ok #id`.
// Without the variable the op is `inject` and the allocator only counts (two relaxed atomic operations per call).
mod w2d_alloc {
    use std::alloc::{GlobalAlloc, Layout, System};
    use std::sync::atomic::{AtomicUsize, Ordering::Relaxed};
    pub static CUR: AtomicUsize = AtomicUsize::new(0);
    pub static PEAK: AtomicUsize = AtomicUsize::new(0);
    pub static LIMIT: AtomicUsize = AtomicUsize::new(usize::MAX);
    pub struct Counting;
    fn take(n: usize) -> bool {
        let now = CUR.fetch_add(n, Relaxed).saturating_add(n);
        if now > LIMIT.load(Relaxed) {
            CUR.fetch_sub(n, Relaxed);
            return false;
        }
        PEAK.fetch_max(now, Relaxed);
        true
    }
    unsafe impl GlobalAlloc for Counting {
        unsafe fn alloc(&self, l: Layout) -> *mut u8 {
            if !take(l.size()) {
                return core::ptr::null_mut();
            }
            unsafe { System.alloc(l) }
        }
        unsafe fn alloc_zeroed(&self, l: Layout) -> *mut u8 {
            if !take(l.size()) {
                return core::ptr::null_mut();
            }
            unsafe { System.alloc_zeroed(l) }
        }
        unsafe fn dealloc(&self, p: *mut u8, l: Layout) {
            CUR.fetch_sub(l.size(), Relaxed);
            unsafe { System.dealloc(p, l) }
        }
        unsafe fn realloc(&self, p: *mut u8, l: Layout, new_size: usize) -> *mut u8 {
            if new_size > l.size() {
                if !take(new_size - l.size()) {
                    return core::ptr::null_mut();
                }
            } else {
                CUR.fetch_sub(l.size() - new_size, Relaxed);
            }
            unsafe { System.realloc(p, l, new_size) }
        }
    }
}
#[global_allocator]
static W2D_ALLOC: w2d_alloc::Counting = w2d_alloc::Counting;
impl Interp {
    fn op_ext3_w2d(&mut self, toks: &[&str]) -> Res {
        use std::sync::atomic::Ordering::Relaxed;
        let Ok(cfg) = std::env::var("DSIM_ALLOC_CHECK") else { return self.op_inject(toks) };
        let mut it = cfg.split(':').map(|x| x.parse::<usize>().ok());
        let c = it.next().flatten().unwrap_or(64);
        let d = it.next().flatten().unwrap_or(1 << 20);
        let limit = it.next().flatten().unwrap_or(2 << 30);
        let len = toks.get(3).map(|h| h.len() / 2).unwrap_or(0);
        let start = w2d_alloc::CUR.load(Relaxed);
        w2d_alloc::PEAK.store(start, Relaxed);
        w2d_alloc::LIMIT.store(limit, Relaxed);
        let r = self.op_inject(toks);
        w2d_alloc::LIMIT.store(usize::MAX, Relaxed);
        let growth = w2d_alloc::PEAK.load(Relaxed).saturating_sub(start);
        if std::env::var("DSIM_ALLOC_DEBUG").is_ok() {
            eprintln!("x-w2d-inject: datagram {len} bytes, peak heap growth {growth} bytes");
        }
        let r = r?;
        Ok(if growth > c.saturating_mul(len).saturating_add(d) { format!("ALLOC {growth}") } else { r })
    }
}
// ---- END ext3 w2d ----

// Tagged background writes: ANY number of writes in flight at once (w2c's `write-bg` / `join` allow one).
//   `write-bg <w> <id> <value> tag=<t> [ts=<ns>]`  starts the write like `write`, settles at the current virtual time and
//        leaves the call pending under the tag `<t>` if it was not answered; answer `ok`.
//   `join <t>`                                     waits (virtual time passes) for the answer of that call and prints it
//        (`ok` / `err:<Kind>`); `bad-op` when no call with that tag is outstanding.
thread_local! {
    static BG_TAGGED: std::cell::RefCell<Vec<(String, BgFuture)>> = const { std::cell::RefCell::new(Vec::new()) };
}
impl Interp {
    fn op_bg_tagged(&mut self, toks: &[&str]) -> Res {
        let (plain, mut kv) = split_kv(toks);
        let [name, id, val] = plain[..] else { return Err("usage: write-bg <writer> <id> <value> tag=<t> [ts=<ns>]".into()) };
        let id: i32 = id.parse().map_err(|_| "bad id".to_string())?;
        let tag = take_kv(&mut kv, "tag").ok_or("tag= missing")?.to_string();
        let ts = take_kv(&mut kv, "ts").map(|v| v.parse::<i128>().map(time_at).map_err(|_| "bad ts".to_string())).transpose()?;
        if !kv.is_empty() {
            return Err(format!("unknown option {}", kv[0].0).into());
        }
        if BG_TAGGED.with(|c| c.borrow().iter().any(|(t, _)| *t == tag)) {
            return Err(format!("a background call with tag {tag} is already outstanding").into());
        }
        let w = self.writer(name)?;
        let val = val.to_string();
        let mut fut: BgFuture = Box::pin(async move { each_w!(&w, d => do_write(d, WriteOp::Write, id, &val, ts, None).await) });
        let flag = Arc::new(BgFlag(std::sync::atomic::AtomicBool::new(true)));
        let waker = std::task::Waker::from(flag.clone());
        let mut cx = std::task::Context::from_waker(&waker);
        let mut done: Option<Result<String, String>> = None;
        // poll whenever the call was woken (each poll may send the next mail), settle in between, never advance time
        while flag.0.swap(false, std::sync::atomic::Ordering::SeqCst) {
            if let std::task::Poll::Ready(v) = fut.as_mut().poll(&mut cx) {
                done = Some(v);
                break;
            }
            sim::settle().map_err(Fail::Stop)?;
        }
        sim::settle().map_err(Fail::Stop)?;
        let fut: BgFuture = match done {
            Some(v) => Box::pin(async move { v }), // answered at once: keep the answer for `join`
            None => fut,
        };
        BG_TAGGED.with(|c| c.borrow_mut().push((tag, fut)));
        Ok("ok".into())
    }

    fn op_join_tagged(&mut self, tag: &str) -> Res {
        let fut = BG_TAGGED.with(|c| {
            let mut v = c.borrow_mut();
            v.iter().position(|(t, _)| t == tag).map(|i| v.remove(i).1)
        });
        let Some(fut) = fut else { return Err(format!("no call with tag {tag} is outstanding").into()) };
        Ok(blk(fut)??)
    }
}

// ---- BEGIN ext2 w2c
// Two API calls in flight (needed for "the instance of a BLOCKED write is unregistered", C27): the scenario
// language runs one call at a time because `write` blocks the driver until it is answered.
//   `write-bg <w> <id> <value> [ts=<ns>]`  starts the write exactly like `write` (same mails), lets the world settle at
//        the CURRENT virtual time and leaves the call pending if it was not answered; answer `ok`. Only one at a time.
//   `join`                                  waits (virtual time passes) for the answer of that call and prints it:
//        `ok` / `err:<Kind>`; `bad-op` when no call is outstanding.
// API futures are not Send, so the pending future lives in a thread-local of the driver thread.
type BgFuture = std::pin::Pin<Box<dyn Future<Output = Result<String, String>>>>;
thread_local! {
    static BG_CALL: std::cell::RefCell<Option<BgFuture>> = const { std::cell::RefCell::new(None) };
}
struct BgFlag(std::sync::atomic::AtomicBool);
impl std::task::Wake for BgFlag {
    fn wake(self: Arc<Self>) {
        self.0.store(true, std::sync::atomic::Ordering::SeqCst);
    }
}
impl Interp {
    fn op_bg(&mut self, op: &str, toks: &[&str]) -> Res {
        if op == "join" {
            if !toks.is_empty() {
                return Err("usage: join".into());
            }
            let Some(fut) = BG_CALL.with(|c| c.borrow_mut().take()) else { return Err("no call is outstanding".into()) };
            return Ok(blk(fut)??);
        }
        if BG_CALL.with(|c| c.borrow().is_some()) {
            return Err("a background call is already outstanding".into());
        }
        let (plain, mut kv) = split_kv(toks);
        let [name, id, val] = plain[..] else { return Err("usage: write-bg <writer> <id> <value> [ts=<ns>]".into()) };
        let id: i32 = id.parse().map_err(|_| "bad id".to_string())?;
        let ts = take_kv(&mut kv, "ts").map(|v| v.parse::<i128>().map(time_at).map_err(|_| "bad ts".to_string())).transpose()?;
        if !kv.is_empty() {
            return Err(format!("unknown option {}", kv[0].0).into());
        }
        let w = self.writer(name)?;
        let val = val.to_string();
        let mut fut: BgFuture = Box::pin(async move { each_w!(&w, d => do_write(d, WriteOp::Write, id, &val, ts, None).await) });
        let flag = Arc::new(BgFlag(std::sync::atomic::AtomicBool::new(true)));
        let waker = std::task::Waker::from(flag.clone());
        let mut cx = std::task::Context::from_waker(&waker);
        let mut done: Option<Result<String, String>> = None;
        // poll whenever the call was woken (each poll may send the next mail), settle in between, never advance time
        while flag.0.swap(false, std::sync::atomic::Ordering::SeqCst) {
            if let std::task::Poll::Ready(v) = fut.as_mut().poll(&mut cx) {
                done = Some(v);
                break;
            }
            sim::settle().map_err(Fail::Stop)?;
        }
        sim::settle().map_err(Fail::Stop)?;
        match done {
            // answered at once: keep the answer for `join`
            Some(v) => BG_CALL.with(|c| *c.borrow_mut() = Some(Box::pin(async move { v }))),
            None => BG_CALL.with(|c| *c.borrow_mut() = Some(fut)),
        }
        Ok("ok".into())
    }
}
// ---- END ext2 w2c

// ------------------------------------------------------------------------------------------------ supervisor

/// run one case in a fresh child; always returns exactly `lines.len()` output lines
fn run_case(exe: &std::path::Path, lines: &[String], timeout: std::time::Duration) -> Vec<String> {
    use std::process::{Command, Stdio};
    if lines.is_empty() {
        return vec![];
    }
    let mut child = match Command::new(exe).arg("--child").stdin(Stdio::piped()).stdout(Stdio::piped()).stderr(Stdio::null()).spawn() {
        Ok(c) => c,
        Err(e) => return lines.iter().map(|_| format!("CRASH spawn failed: {e}")).collect(),
    };
    let mut stdin = child.stdin.take().unwrap();
    let stdout = child.stdout.take().unwrap();
    let input = lines.join("\n") + "\n";
    let feeder = std::thread::spawn(move || {
        let _ = stdin.write_all(input.as_bytes());
    });
    let (tx, rx) = std::sync::mpsc::channel::<String>();
    let reader = std::thread::spawn(move || {
        for l in std::io::BufReader::new(stdout).lines() {
            match l {
                Ok(l) => {
                    if tx.send(l).is_err() {
                        break;
                    }
                }
                Err(_) => break,
            }
        }
    });
    let deadline = std::time::Instant::now() + timeout;
    let mut out: Vec<String> = vec![];
    let mut why = "CRASH";
    while out.len() < lines.len() {
        let left = deadline.saturating_duration_since(std::time::Instant::now());
        match rx.recv_timeout(left) {
            Ok(l) => out.push(l),
            Err(std::sync::mpsc::RecvTimeoutError::Timeout) => {
                why = "HANG";
                break;
            }
            Err(std::sync::mpsc::RecvTimeoutError::Disconnected) => break,
        }
    }
    let _ = child.kill();
    let _ = child.wait();
    let _ = feeder.join();
    let _ = reader.join();
    if out.len() < lines.len() {
        // the op that was running when the child died / was killed, then the rest
        out.push(why.to_string());
        while out.len() < lines.len() {
            out.push("POISONED".to_string());
        }
    }
    out
}

fn supervisor_main() {
    let exe = std::env::current_exe().expect("current_exe");
    let jobs: usize = std::env::var("DSIM_JOBS").ok().and_then(|v| v.parse().ok()).unwrap_or(16).max(1);
    let timeout = std::time::Duration::from_millis(std::env::var("DSIM_CASE_TIMEOUT_MS").ok().and_then(|v| v.parse().ok()).unwrap_or(60_000));
    let all: Vec<String> = std::io::stdin().lock().lines().map_while(Result::ok).collect();
    // cases: a `reset` line starts a new case and is answered `ok` by the supervisor itself
    let mut cases: Vec<(bool, Vec<String>)> = vec![(false, vec![])];
    for l in all {
        if l.trim() == "reset" {
            cases.push((true, vec![]));
        } else {
            cases.last_mut().unwrap().1.push(l);
        }
    }
    let cases = Arc::new(cases);
    let results: Arc<Mutex<Vec<Option<Vec<String>>>>> = Arc::new(Mutex::new(vec![None; cases.len()]));
    let next = Arc::new(std::sync::atomic::AtomicUsize::new(0));
    let mut threads = vec![];
    for _ in 0..jobs.min(cases.len()) {
        let (cases, results, next, exe) = (cases.clone(), results.clone(), next.clone(), exe.clone());
        threads.push(std::thread::spawn(move || loop {
            let i = next.fetch_add(1, std::sync::atomic::Ordering::SeqCst);
            if i >= cases.len() {
                break;
            }
            let r = run_case(&exe, &cases[i].1, timeout);
            results.lock().unwrap()[i] = Some(r);
        }));
    }
    for t in threads {
        let _ = t.join();
    }
    let stdout = std::io::stdout();
    let mut out = std::io::BufWriter::new(stdout.lock());
    let results = results.lock().unwrap();
    for (i, (has_reset, _)) in cases.iter().enumerate() {
        if *has_reset {
            let _ = writeln!(out, "ok");
        }
        for l in results[i].as_ref().unwrap() {
            let _ = writeln!(out, "{}", l);
        }
    }
}

fn main() {
    if std::env::args().any(|a| a == "--child" || a == "-i") {
        child_main()
    } else {
        supervisor_main()
    }
}
