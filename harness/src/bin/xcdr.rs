//! Engine `xcdr`: XCDR1/XCDR2 serializer and deserializer of user samples (C09, C10, XCDR part of C07).
//! Types and values are built with the public `DynamicTypeBuilderFactory` / `DynamicDataFactory` /
//! `DynamicData::set_value`; the (de)serializer entry points come from the cfg-guarded re-exports
//! in `dust_dds::verif_hooks`.
//!
//! Line protocol (tokens separated by one blank; `<ty>`/`<val>` grammar below; bytes as hex, `-` = empty):
//!   ser <1|2> <le|be> <ty> <val>      -> ok <hex> | err <E> | PANIC
//!   de  <ty> <hex>                    -> ok <val> | err <E> | PANIC | ALLOC-LIMIT      (hex = whole payload incl. the
//!                                                                                     4-byte encapsulation header)
//!   rt  <1|2> <le|be> <ty> <val>      -> <ser result> | <de of the bytes> | <de without the recorded padding> | <de with one byte less>
//!   cmp <1|2> <le|be> <ty> <val> <hex1> <hex2> -> <ser result> | <de of hex1> | <de of hex2>
//!   asg <reader ty> <writer ty>       -> asg <0|1>                                                   (C39)
//!   evo <1|2> <le|be> <writer ty> <val> <reader ty> -> asg <0|1> | <de result of the writer's bytes with the reader type>
//!   typed <1|2> <a1-a2|a2-a1|a2-a2|m1-m2|m2-m1>  -> dynamic <ok|err E> | typed <Some(..)|None>  (derived types EvoA1.., D49)
//!   kh <ty> <val>                     -> ok <32 hex digits: instance handle> | err <E> | PANIC          (C11, C12)
//!   khrt <1|2> <le|be> <ty> <val>     -> <writer handle> | <handle from the decoded sample> | <handle from the decoded key-only payload>
//!   sizeof                            -> sizes of the element types `Vec::with_capacity` is called with
//! <ty>  ::= b | y | u8 | i8 | c8 | i16 | u16 | i32 | u32 | f32 | i64 | u64 | f64            primitives
//!         | s                                                                            string (unbounded)
//!         | Q(<ty>) | Q<bound>(<ty>)                                                       sequence
//!         | A<n>(<ty>)                                                                     one-dimensional array
//!         | S<F|A|M>{<id><flags>:<ty>,...}          flags: o optional, k key, m must-understand   structure
//!         | E<i8|i16|i32>[<label>,...]              enumeration (labels as signed decimals; may be empty)
//! <val> ::= <decimal bit pattern> | x<hex of the UTF-8 bytes> | [<val>,...] | {<val or _>,...}   (`_` = member absent)
//!
//! The binary is its own supervisor: the parent forwards every line to a worker child and prints the
//! worker's answer; if the worker dies on a line (allocation above the limit -> exit code 77, abort,
//! stack overflow) the parent prints `ALLOC-LIMIT` / `ABORT` for that line and starts a new worker.
use dust_dds::verif_hooks::{
    KeyHolderData, KeyHolderType, get_instance_handle_from_dynamic_data, get_instance_handle_from_key_holder_data,
    deserialize_top_level_type, serialize_cdr1_be, serialize_cdr1_le, serialize_cdr2_be, serialize_cdr2_le,
};
use dust_dds::xtypes::{
    data_storage::DataStorage,
    dynamic_type::{
        DynamicData, DynamicDataFactory, DynamicType, DynamicTypeBuilderFactory, ExtensibilityKind, MemberDescriptor,
        TryConstructKind, TypeDescriptor, TypeKind,
    },
    error::XTypesError,
    type_object::CompleteTypeObject,
};
use dust_dds::infrastructure::type_support::DdsType;
use dust_dds::xtypes::type_support::TypeSupport;
use dvh::{hex, unhex};

// ---- C39 / D49: the typed view of a sample written with an older / newer version of the type
#[derive(Clone, Debug, PartialEq, DdsType)]
#[dust_dds(extensibility = "appendable")]
struct EvoA1 { a: u8 }
#[derive(Clone, Debug, PartialEq, DdsType)]
#[dust_dds(extensibility = "appendable")]
struct EvoA2 { a: u8, b: u32 }
#[derive(Clone, Debug, PartialEq, DdsType)]
#[dust_dds(extensibility = "mutable")]
struct EvoM1 { #[dust_dds(id = 0)] a: u8, #[dust_dds(id = 2)] c: u16 }
#[derive(Clone, Debug, PartialEq, DdsType)]
#[dust_dds(extensibility = "mutable")]
struct EvoM2 { #[dust_dds(id = 2)] c: u16, #[dust_dds(id = 5)] d: u32, #[dust_dds(id = 0)] a: u8 }
/// serialize `w` (XCDR1 / XCDR2 little-endian), decode with the type of `R`, build the typed sample
trait ShowV { fn show(&self) -> String; }
impl ShowV for EvoA1 { fn show(&self) -> String { format!("{{{}}}", self.a) } }
impl ShowV for EvoA2 { fn show(&self) -> String { format!("{{{},{}}}", self.a, self.b) } }
impl ShowV for EvoM1 { fn show(&self) -> String { format!("{{{},{}}}", self.a, self.c) } }
impl ShowV for EvoM2 { fn show(&self) -> String { format!("{{{},{},{}}}", self.c, self.d, self.a) } }
fn typed<W: TypeSupport, R: TypeSupport + ShowV>(ver: &str, w: W) -> String {
    let d = w.create_dynamic_sample();
    let b = match ver { "1" => serialize_cdr1_le(&d), _ => serialize_cdr2_le(&d) };
    let b = match b { Ok(b) => b, Err(e) => return err_s(&e).to_string() };
    match deserialize_top_level_type(R::get_type(), &b) {
        Ok(mut dd) => match R::create_sample(&mut dd) { Some(r) => format!("dynamic ok | typed Some({})", r.show()), None => "dynamic ok | typed None".into() },
        Err(e) => format!("dynamic {} | typed -", err_s(&e)),
    }
}
use std::alloc::{GlobalAlloc, Layout, System};
use std::io::{BufRead, BufReader, Write};

// ------------------------------------------------------------------ allocation limit
/// A single allocation request above this many bytes terminates the worker with exit code 77.
const ALLOC_LIMIT: usize = 1 << 24;
/// the limit is enforced in the worker only (the supervisor just forwards lines)
static LIMIT_ON: std::sync::atomic::AtomicBool = std::sync::atomic::AtomicBool::new(false);
fn over(n: usize) -> bool { n > ALLOC_LIMIT && LIMIT_ON.load(std::sync::atomic::Ordering::Relaxed) }
struct Limited;
unsafe impl GlobalAlloc for Limited {
    unsafe fn alloc(&self, l: Layout) -> *mut u8 {
        if over(l.size()) { std::process::exit(77); }
        unsafe { System.alloc(l) }
    }
    unsafe fn dealloc(&self, p: *mut u8, l: Layout) { unsafe { System.dealloc(p, l) } }
    unsafe fn realloc(&self, p: *mut u8, l: Layout, n: usize) -> *mut u8 {
        if over(n) { std::process::exit(77); }
        unsafe { System.realloc(p, l, n) }
    }
    unsafe fn alloc_zeroed(&self, l: Layout) -> *mut u8 {
        if over(l.size()) { std::process::exit(77); }
        unsafe { System.alloc_zeroed(l) }
    }
}
#[global_allocator]
static GLOBAL: Limited = Limited;

// ------------------------------------------------------------------ type / value AST
#[derive(Clone, Copy, PartialEq, Debug)]
enum P { Bool, Byte, U8, I8, C8, I16, U16, I32, U32, F32, I64, U64, F64 }
#[derive(Clone, Debug)]
enum T {
    Prim(P),
    Str,
    Seq(Box<T>, u32),
    Arr(Box<T>, u32),
    Struct(ExtensibilityKind, Vec<M>),
    /// holder, literals, extensibility of the enumeration type (no influence on the encoding)
    Enum(P, Vec<i32>, ExtensibilityKind),
    /// wide string (STRING16); values are lists of UTF-16 code units
    WStr,
    /// extensibility, discriminator type, branches
    Union(ExtensibilityKind, P, Vec<B>),
}
#[derive(Clone, Debug)]
struct B { id: u32, labels: Vec<i32>, dflt: bool, t: T }
#[derive(Clone, Debug)]
struct M { id: u32, opt: bool, key: bool, mu: bool, t: T }
#[derive(Clone, Debug)]
enum V { N(u64), S(Vec<u8>), L(Vec<V>), R(Vec<Option<V>>), /** union: discriminator, (branch id, value) */ U(u64, Option<(u32, Box<V>)>) }

struct Px<'a> { s: &'a [u8], i: usize }
impl<'a> Px<'a> {
    fn peek(&self) -> Option<u8> { self.s.get(self.i).copied() }
    fn eat(&mut self, c: u8) -> Option<()> { if self.peek() == Some(c) { self.i += 1; Some(()) } else { None } }
    fn num(&mut self) -> Option<u64> {
        let st = self.i;
        while self.peek().map_or(false, |c| c.is_ascii_digit()) { self.i += 1; }
        if st == self.i { return None; }
        std::str::from_utf8(&self.s[st..self.i]).ok()?.parse().ok()
    }
    fn snum(&mut self) -> Option<i64> {
        let neg = self.eat(b'-').is_some();
        let n = self.num()? as i64;
        Some(if neg { -n } else { n })
    }
    fn starts(&mut self, w: &str) -> bool {
        if self.s[self.i..].starts_with(w.as_bytes()) { self.i += w.len(); true } else { false }
    }
    fn prim(&mut self) -> Option<P> {
        for (w, p) in [("i16", P::I16), ("u16", P::U16), ("i32", P::I32), ("u32", P::U32), ("f32", P::F32),
                       ("i64", P::I64), ("u64", P::U64), ("f64", P::F64), ("u8", P::U8), ("i8", P::I8), ("c8", P::C8),
                       ("b", P::Bool), ("y", P::Byte)] {
            if self.starts(w) { return Some(p); }
        }
        None
    }
    fn ty(&mut self) -> Option<T> {
        match self.peek()? {
            b's' => { self.i += 1; Some(T::Str) }
            b'w' => { self.i += 1; Some(T::WStr) }
            b'U' => {
                // U<F|A|M><disc prim>{<id>[d][<label>,..]:<ty>,...}
                self.i += 1;
                let ext = match self.peek()? { b'F' => ExtensibilityKind::Final, b'A' => ExtensibilityKind::Appendable, b'M' => ExtensibilityKind::Mutable, _ => return None };
                self.i += 1;
                let disc = self.prim()?;
                self.eat(b'{')?;
                let mut bs = vec![];
                if self.eat(b'}').is_some() { return Some(T::Union(ext, disc, bs)); }
                loop {
                    let id = self.num()? as u32;
                    let dflt = self.eat(b'd').is_some();
                    let mut labels = vec![];
                    if self.eat(b'[').is_some() && self.eat(b']').is_none() {
                        loop {
                            labels.push(self.snum()? as i32);
                            if self.eat(b',').is_some() { continue; }
                            self.eat(b']')?;
                            break;
                        }
                    }
                    self.eat(b':')?;
                    let t = self.ty()?;
                    bs.push(B { id, labels, dflt, t });
                    if self.eat(b',').is_some() { continue; }
                    self.eat(b'}')?;
                    return Some(T::Union(ext, disc, bs));
                }
            }
            b'Q' => {
                self.i += 1;
                let bound = if self.peek() == Some(b'(') { 0 } else { self.num()? as u32 };
                self.eat(b'(')?; let e = self.ty()?; self.eat(b')')?;
                Some(T::Seq(Box::new(e), bound))
            }
            b'A' => {
                self.i += 1;
                let n = self.num()? as u32;
                self.eat(b'(')?; let e = self.ty()?; self.eat(b')')?;
                Some(T::Arr(Box::new(e), n))
            }
            b'S' => {
                self.i += 1;
                let ext = match self.peek()? { b'F' => ExtensibilityKind::Final, b'A' => ExtensibilityKind::Appendable, b'M' => ExtensibilityKind::Mutable, _ => return None };
                self.i += 1;
                self.eat(b'{')?;
                let mut ms = vec![];
                if self.eat(b'}').is_some() { return Some(T::Struct(ext, ms)); }
                loop {
                    let id = self.num()? as u32;
                    let (mut opt, mut key, mut mu) = (false, false, false);
                    loop {
                        match self.peek()? { b'o' => opt = true, b'k' => key = true, b'm' => mu = true, _ => break }
                        self.i += 1;
                    }
                    self.eat(b':')?;
                    let t = self.ty()?;
                    ms.push(M { id, opt, key, mu, t });
                    if self.eat(b',').is_some() { continue; }
                    self.eat(b'}')?;
                    return Some(T::Struct(ext, ms));
                }
            }
            b'E' => {
                self.i += 1;
                let h = self.prim()?;
                if !matches!(h, P::I8 | P::I16 | P::I32) { return None; }
                let ext = if self.eat(b'a').is_some() { ExtensibilityKind::Appendable }
                          else if self.eat(b'm').is_some() { ExtensibilityKind::Mutable } else { ExtensibilityKind::Final };
                self.eat(b'[')?;
                let mut ls = vec![];
                if self.eat(b']').is_some() { return Some(T::Enum(h, ls, ext)); }
                loop {
                    ls.push(self.snum()? as i32);
                    if self.eat(b',').is_some() { continue; }
                    self.eat(b']')?;
                    return Some(T::Enum(h, ls, ext));
                }
            }
            _ => self.prim().map(T::Prim),
        }
    }
    fn val(&mut self) -> Option<V> {
        match self.peek()? {
            b'x' => {
                self.i += 1;
                let st = self.i;
                while self.peek().map_or(false, |c| c.is_ascii_hexdigit()) { self.i += 1; }
                let h = std::str::from_utf8(&self.s[st..self.i]).ok()?;
                if h.len() % 2 != 0 { return None; }
                Some(V::S(unhex(if h.is_empty() { "-" } else { h })))
            }
            b'[' => {
                self.i += 1;
                let mut vs = vec![];
                if self.eat(b']').is_some() { return Some(V::L(vs)); }
                loop {
                    vs.push(self.val()?);
                    if self.eat(b',').is_some() { continue; }
                    self.eat(b']')?;
                    return Some(V::L(vs));
                }
            }
            b'<' => {
                // union value: <disc> or <disc,branch id:value>
                self.i += 1;
                let d = self.num()?;
                if self.eat(b'>').is_some() { return Some(V::U(d, None)); }
                self.eat(b',')?;
                let id = self.num()? as u32;
                self.eat(b':')?;
                let v = self.val()?;
                self.eat(b'>')?;
                Some(V::U(d, Some((id, Box::new(v)))))
            }
            b'{' => {
                self.i += 1;
                let mut vs = vec![];
                if self.eat(b'}').is_some() { return Some(V::R(vs)); }
                loop {
                    if self.eat(b'_').is_some() { vs.push(None) } else { vs.push(Some(self.val()?)) }
                    if self.eat(b',').is_some() { continue; }
                    self.eat(b'}')?;
                    return Some(V::R(vs));
                }
            }
            _ => self.num().map(V::N),
        }
    }
}
fn parse_ty(s: &str) -> Option<T> { let mut p = Px { s: s.as_bytes(), i: 0 }; let t = p.ty()?; if p.i == s.len() { Some(t) } else { None } }
fn parse_val(s: &str) -> Option<V> { let mut p = Px { s: s.as_bytes(), i: 0 }; let v = p.val()?; if p.i == s.len() { Some(v) } else { None } }

// ------------------------------------------------------------------ building the real types / values
fn kind_of(p: P) -> TypeKind {
    match p {
        P::Bool => TypeKind::BOOLEAN, P::Byte => TypeKind::BYTE, P::U8 => TypeKind::UINT8, P::I8 => TypeKind::INT8,
        P::C8 => TypeKind::CHAR8, P::I16 => TypeKind::INT16, P::U16 => TypeKind::UINT16, P::I32 => TypeKind::INT32,
        P::U32 => TypeKind::UINT32, P::F32 => TypeKind::FLOAT32, P::I64 => TypeKind::INT64, P::U64 => TypeKind::UINT64,
        P::F64 => TypeKind::FLOAT64,
    }
}
fn descriptor(kind: TypeKind, ext: ExtensibilityKind, disc: Option<DynamicType<'static>>) -> TypeDescriptor {
    TypeDescriptor { kind, name: "T", base_type: None, discriminator_type: disc, bound: &[], element_type: None,
                     key_element_type: None, extensibility_kind: ext, is_nested: false }
}
fn member(name: &'static str, id: u32, index: u32, t: DynamicType<'static>, label: &'static [i32], m: Option<&M>) -> MemberDescriptor {
    MemberDescriptor {
        name, id, r#type: t, default_value: None, index, label, try_construct_kind: TryConstructKind::Discard,
        is_key: m.map_or(false, |m| m.key), is_optional: m.map_or(false, |m| m.opt),
        is_must_understand: m.map_or(false, |m| m.mu), is_shared: false, is_default_label: false, is_external: false,
    }
}
fn build_ty(t: &T) -> DynamicType<'static> {
    match t {
        T::Prim(p) => DynamicTypeBuilderFactory::get_primitive_type(kind_of(*p)),
        T::Str => DynamicTypeBuilderFactory::create_string_type(u32::MAX).build(),
        T::WStr => DynamicTypeBuilderFactory::create_wstring_type(u32::MAX).build(),
        T::Union(ext, disc, bs) => {
            // as `derive(TypeSupport)` builds a union: member 0 is the discriminator (id 0, must-understand)
            let dt = DynamicTypeBuilderFactory::get_primitive_type(kind_of(*disc));
            let mut b = DynamicTypeBuilderFactory::create_type(descriptor(TypeKind::UNION, *ext, Some(dt)));
            let mut dm = member("discriminator", 0, 0, dt, &[], None);
            dm.is_must_understand = true;
            b.add_member(dm).unwrap();
            for (i, br) in bs.iter().enumerate() {
                let name: &'static str = format!("m{}", br.id).leak();
                let mut md = member(name, br.id, i as u32 + 1, build_ty(&br.t), br.labels.clone().leak(), None);
                md.is_default_label = br.dflt;
                b.add_member(md).unwrap();
            }
            b.build()
        }
        T::Seq(e, b) => DynamicTypeBuilderFactory::create_sequence_type(build_ty(e), if *b == 0 { u32::MAX } else { *b }).build(),
        T::Arr(e, n) => DynamicTypeBuilderFactory::create_array_type(build_ty(e), vec![*n].leak()).build(),
        T::Struct(ext, ms) => {
            let mut b = DynamicTypeBuilderFactory::create_type(descriptor(TypeKind::STRUCTURE, *ext, None));
            for (i, m) in ms.iter().enumerate() {
                let name: &'static str = format!("m{}", m.id).leak();   // the name is a function of the id (C39)
                b.add_member(member(name, m.id, i as u32, build_ty(&m.t), &[], Some(m))).unwrap();
            }
            b.build()
        }
        T::Enum(h, labels, ext) => {
            let holder = DynamicTypeBuilderFactory::get_primitive_type(kind_of(*h));
            let mut b = DynamicTypeBuilderFactory::create_type(descriptor(TypeKind::ENUM, *ext, Some(holder)));
            for (i, l) in labels.iter().enumerate() {
                let name: &'static str = format!("L{}", i).leak();
                b.add_member(member(name, i as u32, i as u32, holder, vec![*l].leak(), None)).unwrap();
            }
            b.build()
        }
    }
}
fn prim_storage(p: P, n: u64) -> Option<DataStorage> {
    Some(match p {
        P::Bool => DataStorage::Boolean(match n { 0 => false, 1 => true, _ => return None }),
        P::Byte | P::U8 => DataStorage::UInt8(u8::try_from(n).ok()?),
        P::I8 => DataStorage::Int8(u8::try_from(n).ok()? as i8),
        P::C8 => DataStorage::Char8(char::from(u8::try_from(n).ok()?)),
        P::I16 => DataStorage::Int16(u16::try_from(n).ok()? as i16),
        P::U16 => DataStorage::UInt16(u16::try_from(n).ok()?),
        P::I32 => DataStorage::Int32(u32::try_from(n).ok()? as i32),
        P::U32 => DataStorage::UInt32(u32::try_from(n).ok()?),
        P::F32 => DataStorage::Float32(f32::from_bits(u32::try_from(n).ok()?)),
        P::I64 => DataStorage::Int64(n as i64),
        P::U64 => DataStorage::UInt64(n),
        P::F64 => DataStorage::Float64(f64::from_bits(n)),
    })
}
fn nums(vs: &[V]) -> Option<Vec<u64>> { vs.iter().map(|v| if let V::N(n) = v { Some(*n) } else { None }).collect() }
fn prim_seq_storage(p: P, vs: &[V]) -> Option<DataStorage> {
    let ns = nums(vs)?;
    macro_rules! conv { ($f:expr) => { ns.iter().map(|&n| $f(n)).collect::<Option<Vec<_>>>()? } }
    Some(match p {
        P::Bool => DataStorage::SequenceBoolean(conv!(|n| match n { 0 => Some(false), 1 => Some(true), _ => None })),
        P::Byte | P::U8 => DataStorage::SequenceUInt8(conv!(|n| u8::try_from(n).ok())),
        P::I8 => DataStorage::SequenceInt8(conv!(|n| u8::try_from(n).ok().map(|x| x as i8))),
        P::C8 => DataStorage::SequenceChar8(conv!(|n| u8::try_from(n).ok().map(char::from))),
        P::I16 => DataStorage::SequenceInt16(conv!(|n| u16::try_from(n).ok().map(|x| x as i16))),
        P::U16 => DataStorage::SequenceUInt16(conv!(|n| u16::try_from(n).ok())),
        P::I32 => DataStorage::SequenceInt32(conv!(|n| u32::try_from(n).ok().map(|x| x as i32))),
        P::U32 => DataStorage::SequenceUInt32(conv!(|n| u32::try_from(n).ok())),
        P::F32 => DataStorage::SequenceFloat32(conv!(|n| u32::try_from(n).ok().map(f32::from_bits))),
        P::I64 => DataStorage::SequenceInt64(conv!(|n| Some(n as i64))),
        P::U64 => DataStorage::SequenceUInt64(conv!(|n| Some(n))),
        P::F64 => DataStorage::SequenceFloat64(conv!(|n| Some(f64::from_bits(n)))),
    })
}
/// a complex (struct / enum) value as DynamicData
fn build_complex(t: &T, v: &V) -> Option<DynamicData<'static>> {
    let mut d = DynamicDataFactory::create_data(build_ty(t));
    match (t, v) {
        (T::Struct(_, ms), V::R(fs)) => {
            if ms.len() != fs.len() { return None; }
            for (m, f) in ms.iter().zip(fs) {
                if let Some(f) = f { d.set_value(m.id, build_storage(&m.t, f)?); }
            }
        }
        (T::Enum(h, _, _), V::N(n)) => d.set_value(0, prim_storage(*h, *n)?),
        (T::Union(_, disc, bs), V::U(dv, br)) => {
            d.set_value(0, prim_storage(*disc, *dv)?);
            if let Some((id, v)) = br {
                let b = bs.iter().find(|b| b.id == *id)?;
                if *id == 0 { return None; }
                d.set_value(*id, build_storage(&b.t, v)?);
            }
        }
        _ => return None,
    }
    Some(d)
}
/// a wide string from UTF-16 code units (unpaired surrogates are not values of `String`: bad-op)
fn wstr_of(us: &[V]) -> Option<String> {
    let units = us.iter().map(|v| if let V::N(n) = v { u16::try_from(*n).ok() } else { None }).collect::<Option<Vec<u16>>>()?;
    String::from_utf16(&units).ok()
}
fn show_wstr(s: &str) -> String { join('[', s.encode_utf16().map(|u| u.to_string()), ']') }
fn build_storage(t: &T, v: &V) -> Option<DataStorage> {
    match (t, v) {
        (T::Prim(p), V::N(n)) => prim_storage(*p, *n),
        (T::Str, V::S(b)) => Some(DataStorage::String(String::from_utf8(b.clone()).ok()?)),
        (T::WStr, V::L(us)) => Some(DataStorage::String(wstr_of(us)?)),
        (T::Seq(e, _), V::L(vs)) | (T::Arr(e, _), V::L(vs)) => match &**e {
            T::Prim(p) => prim_seq_storage(*p, vs),
            T::Str => Some(DataStorage::SequenceString(vs.iter().map(|v| if let V::S(b) = v { String::from_utf8(b.clone()).ok() } else { None }).collect::<Option<Vec<_>>>()?)),
            T::WStr => Some(DataStorage::SequenceString(vs.iter().map(|v| if let V::L(us) = v { wstr_of(us) } else { None }).collect::<Option<Vec<_>>>()?)),
            T::Struct(..) | T::Enum(..) | T::Union(..) => Some(DataStorage::SequenceComplexValue(vs.iter().map(|v| build_complex(e, v)).collect::<Option<Vec<_>>>()?)),
            // the dynamic data model has no storage for collections of collections
            T::Seq(..) | T::Arr(..) => None,
        },
        (T::Struct(..), V::R(_)) | (T::Enum(..), V::N(_)) | (T::Union(..), V::U(..)) => Some(DataStorage::ComplexValue(build_complex(t, v)?)),
        _ => None,
    }
}

// ------------------------------------------------------------------ canonical printing of decoded data
fn show_prim(s: &DataStorage) -> Option<u64> {
    Some(match s {
        DataStorage::Boolean(b) => *b as u64, DataStorage::UInt8(x) => *x as u64, DataStorage::Int8(x) => *x as u8 as u64,
        DataStorage::Char8(c) => *c as u32 as u64, DataStorage::Int16(x) => *x as u16 as u64, DataStorage::UInt16(x) => *x as u64,
        DataStorage::Int32(x) => *x as u32 as u64, DataStorage::UInt32(x) => *x as u64, DataStorage::Float32(x) => x.to_bits() as u64,
        DataStorage::Int64(x) => *x as u64, DataStorage::UInt64(x) => *x, DataStorage::Float64(x) => x.to_bits(),
        _ => return None,
    })
}
fn show_str(s: &str) -> String { let h = hex(s.as_bytes()); format!("x{}", if h == "-" { "" } else { &h }) }
fn join<I: Iterator<Item = String>>(l: char, it: I, r: char) -> String { format!("{}{}{}", l, it.collect::<Vec<_>>().join(","), r) }
fn show_complex(t: &T, d: &DynamicData) -> String {
    match t {
        T::Struct(_, ms) => join('{', ms.iter().map(|m| match d.get_value(m.id) { Ok(s) => show_storage(&m.t, s), Err(_) => "_".to_string() }), '}'),
        T::Enum(..) => match d.get_value(0) { Ok(s) => show_prim(s).map_or("?".into(), |n| n.to_string()), Err(_) => "_".into() },
        T::Union(_, _, bs) => {
            let disc = match d.get_value(0) { Ok(s) => show_prim(s).map_or("?".into(), |n| n.to_string()), Err(_) => "_".into() };
            match bs.iter().find_map(|b| d.get_value(b.id).ok().map(|s| (b, s))) {
                Some((b, s)) => format!("<{},{}:{}>", disc, b.id, show_storage(&b.t, s)),
                None => format!("<{}>", disc),
            }
        }
        _ => "?".into(),
    }
}
fn show_storage(t: &T, s: &DataStorage) -> String {
    macro_rules! seq { ($v:expr, $f:expr) => { join('[', $v.iter().map($f), ']') } }
    match (t, s) {
        (T::Prim(_), s) => show_prim(s).map_or("?".into(), |n| n.to_string()),
        (T::Str, DataStorage::String(x)) => show_str(x),
        (T::WStr, DataStorage::String(x)) => show_wstr(x),
        (T::Struct(..), DataStorage::ComplexValue(d)) | (T::Enum(..), DataStorage::ComplexValue(d))
        | (T::Union(..), DataStorage::ComplexValue(d)) => show_complex(t, d),
        (T::Seq(e, _), s) | (T::Arr(e, _), s) => match s {
            DataStorage::SequenceBoolean(v) => seq!(v, |x| (*x as u64).to_string()),
            DataStorage::SequenceUInt8(v) => seq!(v, |x| x.to_string()),
            DataStorage::SequenceInt8(v) => seq!(v, |x| (*x as u8).to_string()),
            DataStorage::SequenceChar8(v) => seq!(v, |x| (*x as u32).to_string()),
            DataStorage::SequenceInt16(v) => seq!(v, |x| (*x as u16).to_string()),
            DataStorage::SequenceUInt16(v) => seq!(v, |x| x.to_string()),
            DataStorage::SequenceInt32(v) => seq!(v, |x| (*x as u32).to_string()),
            DataStorage::SequenceUInt32(v) => seq!(v, |x| x.to_string()),
            DataStorage::SequenceFloat32(v) => seq!(v, |x| x.to_bits().to_string()),
            DataStorage::SequenceInt64(v) => seq!(v, |x| (*x as u64).to_string()),
            DataStorage::SequenceUInt64(v) => seq!(v, |x| x.to_string()),
            DataStorage::SequenceFloat64(v) => seq!(v, |x| x.to_bits().to_string()),
            DataStorage::SequenceString(v) => if matches!(**e, T::WStr) { seq!(v, |x| show_wstr(x)) } else { seq!(v, |x| show_str(x)) },
            DataStorage::SequenceComplexValue(v) => seq!(v, |x| show_complex(e, x)),
            _ => "?".into(),
        },
        _ => "?".into(),
    }
}
fn err_s(e: &XTypesError) -> &'static str {
    match e {
        XTypesError::OutOfMemory => "err OutOfMemory", XTypesError::InvalidData => "err InvalidData",
        XTypesError::InvalidType => "err InvalidType", XTypesError::PidNotFound(_) => "err PidNotFound",
        XTypesError::InvalidId(_) => "err InvalidId", XTypesError::InvalidIndex(_) => "err InvalidIndex",
        XTypesError::InvalidName => "err InvalidName", XTypesError::NotEnoughData => "err NotEnoughData",
        XTypesError::NotSupported(_) => "err NotSupported", XTypesError::IllegalOperation => "err IllegalOperation",
    }
}

// ------------------------------------------------------------------ operations
fn ser(ver: &str, end: &str, t: &T, v: &V) -> Result<Vec<u8>, String> {
    let d = build_complex(t, v).ok_or("bad-op")?;
    let r = match (ver, end) {
        ("1", "le") => serialize_cdr1_le(&d), ("1", "be") => serialize_cdr1_be(&d),
        ("2", "le") => serialize_cdr2_le(&d), ("2", "be") => serialize_cdr2_be(&d),
        _ => return Err("bad-op".into()),
    };
    r.map_err(|e| err_s(&e).to_string())
}
fn de(t: &T, bytes: &[u8]) -> String {
    match deserialize_top_level_type(build_ty(t), bytes) {
        Ok(d) => format!("ok {}", show_complex(t, &d)),
        Err(e) => err_s(&e).to_string(),
    }
}
/// supported subset: no collection of collections (`todo!()` in serializer.rs:297 / deserializer.rs:803)
fn ty_ok(t: &T) -> bool {
    match t {
        T::Seq(e, _) | T::Arr(e, _) => !matches!(**e, T::Seq(..) | T::Arr(..)) && ty_ok(e),
        T::Struct(_, ms) => ms.iter().all(|m| ty_ok(&m.t)),
        T::Union(_, _, bs) => bs.iter().all(|b| b.id != 0 && ty_ok(&b.t)),
        _ => true,
    }
}
/// member ids of the key-holder member list (same traversal as `KeyHolderType::from_dynamic_type`)
fn flat_ids(t: &T, out: &mut Vec<u32>) {
    if let T::Struct(_, ms) = t {
        for m in ms {
            if m.key { out.push(m.id) } else if matches!(m.t, T::Struct(..)) && !m.opt { flat_ids(&m.t, out) }
        }
    }
}
fn handle_s(r: Result<dust_dds::infrastructure::instance::InstanceHandle, XTypesError>) -> String {
    match r {
        Ok(h) => { let b: [u8; 16] = h.into(); format!("ok {}", hex(&b)) }
        Err(e) => err_s(&e).to_string(),
    }
}
fn top_ok(t: &T) -> bool { matches!(t, T::Struct(..)) && ty_ok(t) }

fn step(t: &[&str]) -> String {
    match t {
        ["ser", ver, end, ty, val] => {
            let (Some(ty), Some(v)) = (parse_ty(ty), parse_val(val)) else { return "bad-op".into() };
            if !top_ok(&ty) { return "bad-op".into(); }
            match ser(ver, end, &ty, &v) { Ok(b) => format!("ok {}", hex(&b)), Err(e) => e }
        }
        ["de", ty, h] => {
            let Some(ty) = parse_ty(ty) else { return "bad-op".into() };
            if !top_ok(&ty) { return "bad-op".into(); }
            de(&ty, &unhex(h))
        }
        ["rt", ver, end, ty, val] => {
            let (Some(ty), Some(v)) = (parse_ty(ty), parse_val(val)) else { return "bad-op".into() };
            if !top_ok(&ty) { return "bad-op".into(); }
            match ser(ver, end, &ty, &v) {
                Ok(b) => {
                    // decode the payload, the payload without the recorded padding, and with one byte less
                    let pad = if b.len() >= 4 { b[3] as usize } else { 0 };
                    let cut = |k: usize| b.len().saturating_sub(k);
                    let d = |n: usize| std::panic::catch_unwind(|| de(&ty, &b[..n])).unwrap_or_else(|_| "PANIC".into());
                    format!("ok {} | {} | {} | {}", hex(&b), d(b.len()), d(cut(pad)), d(cut(pad + 1)))
                }
                Err(e) => e,
            }
        }
        // C10: serialize, and decode two given payloads (specification bytes in the dust-dds and in the book dialect)
        ["cmp", ver, end, ty, val, h1, h2] => {
            let (Some(ty), Some(v)) = (parse_ty(ty), parse_val(val)) else { return "bad-op".into() };
            if !top_ok(&ty) { return "bad-op".into(); }
            let d = |h: &str| { let b = unhex(h); std::panic::catch_unwind(|| de(&ty, &b)).unwrap_or_else(|_| "PANIC".into()) };
            let s = std::panic::catch_unwind(|| ser(ver, end, &ty, &v)).unwrap_or_else(|_| Err("PANIC".into()));
            match s {
                Ok(b) => format!("ok {} | {} | {}", hex(&b), d(h1), d(h2)),
                Err(e) => format!("{} | {} | {}", e, d(h1), d(h2)),
            }
        }
        // C39: is the reader type assignable from the writer type (complete type objects of the two dynamic types)
        ["asg", tr, tw] => {
            let (Some(tr), Some(tw)) = (parse_ty(tr), parse_ty(tw)) else { return "bad-op".into() };
            if !top_ok(&tr) || !top_ok(&tw) { return "bad-op".into(); }
            let (or, ow) = (CompleteTypeObject::from(build_ty(&tr)), CompleteTypeObject::from(build_ty(&tw)));
            format!("asg {}", or.is_assignable_from(&ow) as u8)
        }
        // C39: the writer's sample decoded with the reader's type
        ["evo", ver, end, tw, val, tr] => {
            let (Some(tw), Some(v), Some(tr)) = (parse_ty(tw), parse_val(val), parse_ty(tr)) else { return "bad-op".into() };
            if !top_ok(&tr) || !top_ok(&tw) { return "bad-op".into(); }
            let (or, ow) = (CompleteTypeObject::from(build_ty(&tr)), CompleteTypeObject::from(build_ty(&tw)));
            let a = or.is_assignable_from(&ow) as u8;
            match ser(ver, end, &tw, &v) {
                Ok(b) => format!("asg {} | {}", a, std::panic::catch_unwind(|| de(&tr, &b)).unwrap_or_else(|_| "PANIC".into())),
                Err(e) => format!("asg {} | {}", a, e),
            }
        }
        // C39 / D49: fixed derived types, reader-only member in the typed sample
        ["typed", ver, pair] => match *pair {
            "a1-a2" => typed::<EvoA1, EvoA2>(ver, EvoA1 { a: 7 }),
            "a2-a1" => typed::<EvoA2, EvoA1>(ver, EvoA2 { a: 7, b: 9 }),
            "a2-a2" => typed::<EvoA2, EvoA2>(ver, EvoA2 { a: 7, b: 9 }),
            "m1-m2" => typed::<EvoM1, EvoM2>(ver, EvoM1 { a: 7, c: 5 }),
            "m2-m1" => typed::<EvoM2, EvoM1>(ver, EvoM2 { c: 5, d: 9, a: 7 }),
            _ => "bad-op".into(),
        },
        // C11 / C12: instance handle of a value (writer side computation)
        ["kh", ty, val] | ["khx", ty, val, _] => {
            let (Some(ty), Some(v)) = (parse_ty(ty), parse_val(val)) else { return "bad-op".into() };
            if !top_ok(&ty) { return "bad-op".into(); }
            let Some(d) = build_complex(&ty, &v) else { return "bad-op".into() };
            handle_s(get_instance_handle_from_dynamic_data(&d))
        }
        // C11: writer handle | reader handle from the decoded sample | reader handle from the decoded key-only payload
        // (dispose / unregister), both payloads serialized in the given representation
        ["khrt", ver, end, ty, val] => {
            let (Some(ty), Some(v)) = (parse_ty(ty), parse_val(val)) else { return "bad-op".into() };
            if !top_ok(&ty) { return "bad-op".into(); }
            let Some(d) = build_complex(&ty, &v) else { return "bad-op".into() };
            let dt = build_ty(&ty);
            let hw = handle_s(get_instance_handle_from_dynamic_data(&d));
            let serx = |x: &DynamicData| match (*ver, *end) {
                ("1", "le") => serialize_cdr1_le(x), ("1", "be") => serialize_cdr1_be(x),
                ("2", "le") => serialize_cdr2_le(x), _ => serialize_cdr2_be(x),
            };
            let alive = std::panic::catch_unwind(|| match serx(&d) {
                Err(e) => err_s(&e).to_string(),
                Ok(b) => match deserialize_top_level_type(dt, &b) {
                    Err(e) => err_s(&e).to_string(),
                    Ok(x) => handle_s(get_instance_handle_from_dynamic_data(&x)),
                },
            }).unwrap_or_else(|_| "PANIC".into());
            // (the key-only payload is exercised only when the flattened key member ids are distinct)
            let mut ids = vec![]; flat_ids(&ty, &mut ids);
            let n = ids.len(); ids.sort(); ids.dedup();
            let disposed = if ids.len() != n { "dup-ids".to_string() } else { std::panic::catch_unwind(|| {
                let mut ml = Vec::new();
                let kd = match KeyHolderData::from_dynamic_data(&d, &mut ml) { Ok(k) => k, Err(e) => return err_s(&e).to_string() };
                let b = match serx(kd.as_dynamic_data()) { Ok(b) => b, Err(e) => return err_s(&e).to_string() };
                let mut ml2 = Vec::new();
                let kt = match KeyHolderType::from_dynamic_type(&dt, &mut ml2) { Ok(k) => k, Err(e) => return err_s(&e).to_string() };
                match deserialize_top_level_type(*kt.as_dynamic_type(), &b) {
                    Err(e) => err_s(&e).to_string(),
                    Ok(x) => handle_s(get_instance_handle_from_dynamic_data(&x)),
                }
            }).unwrap_or_else(|_| "PANIC".into()) };
            format!("{} | {} | {}", hw, alive, disposed)
        }
        ["sizeof"] => format!("char={} string={} dyn={}", std::mem::size_of::<char>(), std::mem::size_of::<String>(), std::mem::size_of::<DynamicData<'static>>()),
        _ => "bad-op".into(),
    }
}

fn worker() {
    if std::env::var_os("XCDR_SHOW_PANIC").is_none() { std::panic::set_hook(Box::new(|_| {})); }
    LIMIT_ON.store(true, std::sync::atomic::Ordering::Relaxed);
    let stdin = std::io::stdin();
    let stdout = std::io::stdout();
    for line in stdin.lock().lines() {
        let line = line.unwrap();
        let toks: Vec<&str> = line.split_whitespace().collect();
        let s = if toks == ["reset"] { "ok".to_string() } else {
            std::panic::catch_unwind(|| step(&toks)).unwrap_or_else(|_| "PANIC".into())
        };
        let mut o = stdout.lock();
        writeln!(o, "{}", s).unwrap();
        o.flush().unwrap();
    }
}

fn spawn() -> (std::process::Child, std::process::ChildStdin, BufReader<std::process::ChildStdout>) {
    let exe = std::env::current_exe().unwrap();
    let mut c = std::process::Command::new(exe).arg("--worker")
        .stdin(std::process::Stdio::piped()).stdout(std::process::Stdio::piped()).stderr(std::process::Stdio::null())
        .spawn().unwrap();
    let i = c.stdin.take().unwrap();
    let o = BufReader::new(c.stdout.take().unwrap());
    (c, i, o)
}

fn main() {
    if std::env::args().nth(1).as_deref() == Some("--worker") { return worker(); }
    let stdin = std::io::stdin();
    let stdout = std::io::stdout();
    let mut out = std::io::BufWriter::new(stdout.lock());
    let (mut child, mut cin, mut cout) = spawn();
    for line in stdin.lock().lines() {
        let line = line.unwrap();
        let sent = writeln!(cin, "{}", line).and_then(|_| cin.flush()).is_ok();
        let mut ans = String::new();
        let n = if sent { cout.read_line(&mut ans).unwrap_or(0) } else { 0 };
        if n == 0 {
            let code = child.wait().ok().and_then(|s| s.code());
            writeln!(out, "{}", if code == Some(77) { "ALLOC-LIMIT" } else { "ABORT" }).unwrap();
            let (c, i, o) = spawn();
            child = c; cin = i; cout = o;
        } else {
            write!(out, "{}", ans).unwrap();
        }
    }
    drop(cin);
    let _ = child.wait();
}
