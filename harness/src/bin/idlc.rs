//! The REAL IDL compiler for engine `gen` / C41: `dust_dds_gen::compile_idl(path)`.
//! usage: idlc <file.idl>      prints `OK\n<generated Rust>` | `ERR <message>` | `PANIC <message>`
use std::path::Path;

fn main() {
    let args: Vec<String> = std::env::args().collect();
    if args.len() < 2 {
        eprintln!("usage: idlc <file.idl>");
        std::process::exit(2);
    }
    std::panic::set_hook(Box::new(|_| {}));
    let p = args[1].clone();
    let r = std::panic::catch_unwind(move || dust_dds_gen::compile_idl(Path::new(&p)));
    match r {
        Ok(Ok(rust)) => print!("OK\n{}", rust),
        Ok(Err(e)) => println!("ERR {}", e.replace('\n', " | ")),
        Err(e) => {
            let msg = e.downcast_ref::<String>().cloned().or(e.downcast_ref::<&str>().map(|s| s.to_string())).unwrap_or_default();
            println!("PANIC {}", msg.replace('\n', " | "))
        }
    }
}
