//! Engine `chan` (C34): drives the REAL one-shot / mpsc / notification channels of
//! `dds/src/dcps/channels` single-threaded. Futures are polled by hand with counting wakers
//! (`std::task::Wake`) that log the id of every `wake()`; every op prints its result and the ids
//! woken during the op. The `x.*` ops run the same channels on real threads (test of the atomicity
//! assumption only).
use dust_dds::std_runtime::executor::block_timeout;
use dust_dds::verif_hooks::*;
use std::collections::HashMap;
use std::future::Future;
use std::pin::Pin;
use std::rc::Rc;
use std::sync::{Arc, Mutex};
use std::task::{Context, Poll, Wake, Waker};

struct IdWake {
    id: u64,
    log: Arc<Mutex<Vec<u64>>>,
}
impl Wake for IdWake {
    fn wake(self: Arc<Self>) {
        self.wake_by_ref()
    }
    fn wake_by_ref(self: &Arc<Self>) {
        self.log.lock().unwrap().push(self.id)
    }
}

type BoxFut<T> = Pin<Box<dyn Future<Output = T>>>;

struct St {
    log: Arc<Mutex<Vec<u64>>>,
    o_tx: Option<OneshotSender<u64>>,
    o_rx: Option<OneshotReceiver<u64>>,
    m_tx: HashMap<u64, MpscSender<u64>>,
    m_rx: Option<Rc<MpscReceiver<u64>>>,
    m_fut: Option<BoxFut<Option<u64>>>,
    n_tx: HashMap<u64, NotificationSender>,
    n_rx: Option<NotificationReceiver>,
}

fn init() -> St {
    let (o_tx, o_rx) = oneshot::<u64>();
    let (m_tx0, m_rx) = mpsc_channel::<u64>();
    let (n_tx0, n_rx) = notification();
    let mut m_tx = HashMap::new();
    m_tx.insert(0, m_tx0);
    let mut n_tx = HashMap::new();
    n_tx.insert(0, n_tx0);
    St {
        log: Arc::new(Mutex::new(Vec::new())),
        o_tx: Some(o_tx),
        o_rx: Some(o_rx),
        m_tx,
        m_rx: Some(Rc::new(m_rx)),
        m_fut: None,
        n_tx,
        n_rx: Some(n_rx),
    }
}

impl St {
    fn waker(&self, id: u64) -> Waker {
        Waker::from(Arc::new(IdWake { id, log: self.log.clone() }))
    }
    /// ids woken since the last call, sorted
    fn wakes(&self) -> String {
        let mut l = std::mem::take(&mut *self.log.lock().unwrap());
        l.sort();
        if l.is_empty() {
            "wake=-".to_string()
        } else {
            format!("wake={}", l.iter().map(|x| x.to_string()).collect::<Vec<_>>().join(","))
        }
    }
}

fn stress_one(n: u64, seed: u64) -> String {
    // n independent one-shot channels; the sender thread sends or drops (by seed), the receiver thread blocks
    let mut s = seed;
    for i in 0..n {
        s = s.wrapping_mul(6364136223846793005).wrapping_add(1442695040888963407);
        let do_send = (s >> 33) & 1 == 1;
        let spin = (s >> 40) & 0xff;
        let (tx, rx) = oneshot::<u64>();
        let h = std::thread::spawn(move || {
            for _ in 0..spin {
                std::hint::spin_loop();
            }
            if do_send {
                tx.send(i)
            } else {
                drop(tx)
            }
        });
        let r = block_timeout(std::time::Duration::from_secs(5), rx);
        h.join().unwrap();
        match r {
            Err(_) => return format!("fail lost-wakeup iteration {i}"),
            Ok(Ok(v)) => {
                if !do_send || v != i {
                    return format!("fail wrong-value iteration {i}");
                }
            }
            Ok(Err(_)) => {
                if do_send {
                    return format!("fail lost-value iteration {i}");
                }
            }
        }
    }
    "ok".to_string()
}

fn stress_mpsc(k: u64, n: u64) -> String {
    // k sender threads send (tid, seq) n times each; the receiver checks per-sender FIFO, no loss, no duplicate
    let (tx, rx) = mpsc_channel::<u64>();
    let mut hs = vec![];
    for t in 0..k {
        let tx = tx.clone();
        hs.push(std::thread::spawn(move || {
            for q in 0..n {
                if tx.send(t * 1_000_000 + q).is_err() {
                    return false;
                }
                if q % 7 == 0 {
                    std::thread::yield_now();
                }
            }
            true
        }));
    }
    let mut next = vec![0u64; k as usize];
    for _ in 0..k * n {
        match block_timeout(std::time::Duration::from_secs(5), rx.receive()) {
            Err(_) => return "fail lost-wakeup-or-value".to_string(),
            Ok(None) => return "fail closed-with-live-senders".to_string(),
            Ok(Some(v)) => {
                let (t, q) = ((v / 1_000_000) as usize, v % 1_000_000);
                if t >= next.len() || next[t] != q {
                    return format!("fail order sender {t} got {q} expected {}", next.get(t).copied().unwrap_or(0));
                }
                next[t] += 1;
            }
        }
    }
    for h in hs {
        if !h.join().unwrap() {
            return "fail send-error".to_string();
        }
    }
    // all clones are gone with their threads; dropping the last handle must close the channel (fixes/D39.patch)
    drop(tx);
    match block_timeout(std::time::Duration::from_secs(5), rx.receive()) {
        Ok(None) => "ok".to_string(),
        Ok(Some(_)) => "fail value-after-all-received".to_string(),
        Err(_) => "fail no-disconnect".to_string(),
    }
}

fn stress_notif(n: u64) -> String {
    // the sender thread notifies n times and drops; the receiver must see >= 1 Ready, then Err, and never hang
    let (tx, rx) = notification();
    let h = std::thread::spawn(move || {
        for q in 0..n {
            tx.notify();
            if q % 5 == 0 {
                std::thread::yield_now();
            }
        }
    });
    let mut rx = rx;
    let mut readies = 0u64;
    loop {
        match block_timeout(std::time::Duration::from_secs(5), &mut rx) {
            Err(_) => return "fail lost-wakeup".to_string(),
            Ok(Ok(())) => readies += 1,
            Ok(Err(_)) => break,
        }
        if readies > n {
            return "fail more-readies-than-notifies".to_string();
        }
    }
    h.join().unwrap();
    if readies == 0 { "fail notification-lost".to_string() } else { "ok".to_string() }
}

fn poll_s<T>(r: Poll<T>, f: impl Fn(T) -> String) -> String {
    match r {
        Poll::Pending => "pending".to_string(),
        Poll::Ready(v) => f(v),
    }
}

fn num(s: &str) -> Option<u64> {
    s.parse().ok()
}

fn step(st: &mut St, t: &[&str]) -> String {
    match t {
        ["o.send", v] => {
            let Some(v) = num(v) else { return "bad-op".into() };
            match st.o_tx.take() {
                Some(tx) => {
                    tx.send(v);
                    format!("sent {}", st.wakes())
                }
                None => "gone".into(),
            }
        }
        ["o.drops"] => match st.o_tx.take() {
            Some(tx) => {
                drop(tx);
                format!("dropped {}", st.wakes())
            }
            None => "gone".into(),
        },
        ["o.poll", w] => {
            let Some(w) = num(w) else { return "bad-op".into() };
            let waker = st.waker(w);
            let mut cx = Context::from_waker(&waker);
            match st.o_rx.as_mut() {
                Some(rx) => poll_s(Pin::new(rx).poll(&mut cx), |r| match r {
                    Ok(v) => format!("ready {v}"),
                    Err(_) => "closed".to_string(),
                }),
                None => "gone".into(),
            }
        }
        ["o.dropr"] => match st.o_rx.take() {
            Some(_) => "ok".into(),
            None => "gone".into(),
        },
        ["m.send", sid, v] => {
            let (Some(sid), Some(v)) = (num(sid), num(v)) else { return "bad-op".into() };
            match st.m_tx.get(&sid) {
                Some(tx) => match tx.send(v) {
                    Ok(()) => format!("sent {}", st.wakes()),
                    Err(_) => "senderr".into(),
                },
                None => "gone".into(),
            }
        }
        ["m.clone", sid, new] => {
            let (Some(sid), Some(new)) = (num(sid), num(new)) else { return "bad-op".into() };
            if st.m_tx.contains_key(&new) {
                return "gone".into();
            }
            match st.m_tx.get(&sid) {
                Some(tx) => {
                    let c = tx.clone();
                    st.m_tx.insert(new, c);
                    "ok".into()
                }
                None => "gone".into(),
            }
        }
        ["m.drops", sid] => {
            let Some(sid) = num(sid) else { return "bad-op".into() };
            match st.m_tx.remove(&sid) {
                Some(tx) => {
                    drop(tx);
                    format!("dropped {}", st.wakes())
                }
                None => "gone".into(),
            }
        }
        ["m.poll", w] => {
            let Some(w) = num(w) else { return "bad-op".into() };
            let Some(rx) = st.m_rx.clone() else { return "gone".into() };
            let waker = st.waker(w);
            let mut cx = Context::from_waker(&waker);
            // `receive()` creates a new future per call; a pending one is kept and polled again, as `.await` does
            let mut fut = st.m_fut.take().unwrap_or_else(|| Box::pin(async move { rx.receive().await }));
            match fut.as_mut().poll(&mut cx) {
                Poll::Pending => {
                    st.m_fut = Some(fut);
                    "pending".into()
                }
                Poll::Ready(Some(v)) => format!("ready {v}"),
                Poll::Ready(None) => "closed".into(),
            }
        }
        ["m.dropr"] => {
            st.m_fut = None;
            match st.m_rx.take() {
                Some(_) => "ok".into(),
                None => "gone".into(),
            }
        }
        ["n.notify", sid] => {
            let Some(sid) = num(sid) else { return "bad-op".into() };
            match st.n_tx.get(&sid) {
                Some(tx) => {
                    tx.notify();
                    format!("notified {}", st.wakes())
                }
                None => "gone".into(),
            }
        }
        ["n.clone", sid, new] => {
            let (Some(sid), Some(new)) = (num(sid), num(new)) else { return "bad-op".into() };
            if st.n_tx.contains_key(&new) {
                return "gone".into();
            }
            match st.n_tx.get(&sid) {
                Some(tx) => {
                    let c = tx.clone();
                    st.n_tx.insert(new, c);
                    "ok".into()
                }
                None => "gone".into(),
            }
        }
        ["n.drops", sid] => {
            let Some(sid) = num(sid) else { return "bad-op".into() };
            match st.n_tx.remove(&sid) {
                Some(tx) => {
                    drop(tx);
                    format!("dropped {}", st.wakes())
                }
                None => "gone".into(),
            }
        }
        ["n.poll", w] => {
            let Some(w) = num(w) else { return "bad-op".into() };
            let waker = st.waker(w);
            let mut cx = Context::from_waker(&waker);
            match st.n_rx.as_mut() {
                Some(rx) => poll_s(Pin::new(rx).poll(&mut cx), |r| match r {
                    Ok(()) => "ready".to_string(),
                    Err(_) => "closed".to_string(),
                }),
                None => "gone".into(),
            }
        }
        ["n.dropr"] => match st.n_rx.take() {
            Some(_) => "ok".into(),
            None => "gone".into(),
        },
        ["x.one", n, seed] => match (num(n), num(seed)) {
            (Some(n), Some(seed)) if n > 0 && n <= 100000 && seed > 0 && seed <= 100000 => stress_one(n, seed),
            _ => "bad-op".into(),
        },
        ["x.mpsc", k, n] => match (num(k), num(n)) {
            (Some(k), Some(n)) if k > 0 && k <= 100000 && n > 0 && n <= 100000 => stress_mpsc(k, n),
            _ => "bad-op".into(),
        },
        ["x.notif", n] => match num(n) {
            Some(n) if n > 0 && n <= 100000 => stress_notif(n),
            _ => "bad-op".into(),
        },
        _ => "bad-op".into(),
    }
}

fn main() {
    dvh::run_stateful(init, step);
}
