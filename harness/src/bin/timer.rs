//! Engine `timer` (C42): the REAL `TimerHeap`, `Sleep::poll`, `Drop for Sleep` and the timer thread's message
//! handling, driven deterministically through the cfg(dust_dds_verif) hook `std_runtime::timer::verif`.
//! Virtual time: one unit = 1 hour of `Instant`; a virtual deadline `d` at virtual time `now` is stored as
//! `Instant::now() + (d - now) h + 30 min`, and `advance k` moves every stored deadline k hours into the past,
//! so `deadline < Instant::now()` in the code <=> `d < now` in the model, independent of the wall clock.
//! The `smoke.*` ops exercise the public API in real time with generous bounds (reported as tests).
use dust_dds::std_runtime::executor::{Executor, block_on, block_timeout};
use dust_dds::std_runtime::timer::verif::VerifTimerHeap;
use dust_dds::std_runtime::timer::{Sleep, TimerDriver, TimerMessage};
use dust_dds::runtime::{Spawner, TaskHandle};
use std::collections::{HashMap, VecDeque};
use std::future::Future;
use std::pin::Pin;
use std::sync::mpsc::{Receiver, Sender, channel};
use std::sync::{Arc, Mutex};
use std::task::{Context, Poll, Wake, Waker};
use std::time::{Duration, Instant};

const H: u64 = 3600;

struct IdWake {
    id: u64,
    log: Arc<Mutex<Vec<u64>>>,
}
impl Wake for IdWake {
    fn wake(self: Arc<Self>) {
        self.wake_by_ref()
    }
    fn wake_by_ref(self: &Arc<Self>) {
        self.log.lock().unwrap().push(self.id)
    }
}

struct St {
    now: u64,
    heap: VerifTimerHeap,
    tx: Sender<TimerMessage>,
    rx: Receiver<TimerMessage>,
    queue: VecDeque<TimerMessage>,
    sleeps: HashMap<u64, Sleep>,
    used: std::collections::HashSet<u64>,
    log: Arc<Mutex<Vec<u64>>>,
}

fn init() -> St {
    let (tx, rx) = channel();
    St {
        now: 1000,
        heap: VerifTimerHeap::new(),
        tx,
        rx,
        queue: VecDeque::new(),
        sleeps: HashMap::new(),
        used: Default::default(),
        log: Arc::new(Mutex::new(Vec::new())),
    }
}

impl St {
    fn waker(&self, id: u64) -> Waker {
        Waker::from(Arc::new(IdWake { id, log: self.log.clone() }))
    }
    /// messages the Sleep values sent since the last call move to the harness-side queue (so that they can be shifted)
    fn pump(&mut self) {
        while let Ok(m) = self.rx.try_recv() {
            self.queue.push_back(m);
        }
    }
    fn instant_of(&self, d: u64) -> Instant {
        let n = Instant::now();
        if d >= self.now {
            n + Duration::from_secs((d - self.now) * H + H / 2)
        } else {
            n.checked_sub(Duration::from_secs((self.now - d) * H - H / 2)).expect("instant range")
        }
    }
}

fn ids(l: &[u64]) -> String {
    if l.is_empty() { "-".to_string() } else { l.iter().map(|x| x.to_string()).collect::<Vec<_>>().join(",") }
}

// ------------------------------------------------------------------ real-time smoke tests (public API)
const LATE: Duration = Duration::from_secs(5);

const HANG: Duration = Duration::from_secs(10);

fn smoke_sleep(ms: u64) -> String {
    let td = TimerDriver::new();
    let start = Instant::now();
    // bounded wait so that a sleep that is never woken is reported instead of hanging the harness
    if block_timeout(HANG, td.handle().sleep(Duration::from_millis(ms))).is_err() {
        return "fail never-woken".into();
    }
    let el = start.elapsed();
    if el < Duration::from_millis(ms) {
        return format!("fail early {el:?}");
    }
    if el > Duration::from_millis(ms) + LATE {
        return format!("fail late {el:?}");
    }
    "ok".into()
}

fn smoke_sleeps(n: u64, ms: u64) -> String {
    // n concurrent sleeps of different lengths on the std executor, one shared timer thread
    let td = TimerDriver::new();
    let ex = Executor::new();
    let (tx, rx) = channel::<(u64, Duration)>();
    let mut hs = vec![];
    for i in 0..n {
        let h = td.handle();
        let tx = tx.clone();
        let want = ms * (1 + (i * 7) % n.max(1));
        hs.push(ex.handle().spawn(async move {
            let start = Instant::now();
            h.sleep(Duration::from_millis(want)).await;
            let _ = tx.send((want, start.elapsed()));
        }));
    }
    for _ in 0..n {
        match rx.recv_timeout(HANG) {
            Err(_) => return "fail never-woken".into(),
            Ok((want, el)) => {
                if el < Duration::from_millis(want) {
                    return format!("fail early {want} {el:?}");
                }
                if el > Duration::from_millis(want) + LATE {
                    return format!("fail late {want} {el:?}");
                }
            }
        }
    }
    for h in &hs {
        h.join();
    }
    "ok".into()
}

fn smoke_drop(ms: u64) -> String {
    // poll once (registers the wake with the real timer thread), drop, wait past the deadline: the waker must stay silent
    let td = TimerDriver::new();
    let log = Arc::new(Mutex::new(Vec::new()));
    let waker = Waker::from(Arc::new(IdWake { id: 1, log: log.clone() }));
    let mut cx = Context::from_waker(&waker);
    let mut s = Box::pin(td.handle().sleep(Duration::from_millis(ms)));
    if s.as_mut().poll(&mut cx).is_ready() {
        return "fail ready-at-once".into();
    }
    drop(s);
    std::thread::sleep(Duration::from_millis(ms + ms / 2 + 20));
    if log.lock().unwrap().is_empty() { "ok".into() } else { "fail woken-after-drop".into() }
}

fn smoke_block_on(v: u64) -> String {
    if block_on(async { v }) != v {
        return "fail value".into();
    }
    // block_on on a helper thread so that a lost wake-up is reported instead of hanging the harness
    let (tx, rx) = channel::<u64>();
    std::thread::spawn(move || {
        let td = TimerDriver::new();
        let h = td.handle();
        let got = block_on(async move {
            h.sleep(Duration::from_millis(2)).await;
            v + 1
        });
        let _ = tx.send(got);
    });
    match rx.recv_timeout(HANG) {
        Ok(got) if got == v + 1 => "ok".into(),
        Ok(_) => "fail value".into(),
        Err(_) => "fail never-woken".into(),
    }
}

fn smoke_timeout(dur_ms: u64, fut_ms: u64) -> String {
    let td = TimerDriver::new();
    let h = td.handle();
    let start = Instant::now();
    let r = block_timeout(Duration::from_millis(dur_ms), async move {
        h.sleep(Duration::from_millis(fut_ms)).await;
        7u64
    });
    let el = start.elapsed();
    match r {
        Ok(7) => {
            if el < Duration::from_millis(fut_ms) { format!("fail early {el:?}") } else { "ok".into() }
        }
        Ok(_) => "fail value".into(),
        Err(_) => {
            // Timeout only if the duration is exhausted, and only for a future that could not complete comfortably
            if el < Duration::from_millis(dur_ms) {
                format!("fail timeout-early {el:?}")
            } else if fut_ms * 4 + 2000 <= dur_ms {
                format!("fail timeout-although-completed {el:?}")
            } else if el > Duration::from_millis(dur_ms) + LATE {
                format!("fail late {el:?}")
            } else {
                "ok".into()
            }
        }
    }
}

/// A future that needs MANY wake-ups before it completes, all far inside the timeout: `k` sequential sleeps of `ms`.
/// Only one direction is asserted (so it cannot flake on a loaded machine): `Err(Timeout)` although less than half of
/// the duration has elapsed is a failure. block_timeout's deadline is fixed at the start; the number of wake-ups
/// before it must not matter (C42_block_timeout_no_early_timeout).
fn smoke_chain(k: u64, ms: u64, dur_ms: u64) -> String {
    let td = TimerDriver::new();
    let h = td.handle();
    let start = Instant::now();
    let r = block_timeout(Duration::from_millis(dur_ms), async move {
        for _ in 0..k {
            h.sleep(Duration::from_millis(ms)).await;
        }
        k
    });
    let el = start.elapsed();
    match r {
        Ok(v) if v == k => {
            if el < Duration::from_millis(k * ms) { format!("fail early {el:?}") } else { "ok".into() }
        }
        Ok(_) => "fail value".into(),
        Err(_) => {
            if el < Duration::from_millis(dur_ms / 2) {
                format!("fail timeout-early after {el:?} of {dur_ms} ms ({k} x {ms} ms)")
            } else {
                "ok".into() // the machine was too slow for this run to say anything
            }
        }
    }
}

/// The same with wake-ups that do not come from the timer: the future wakes itself `k` times before it is Ready.
fn smoke_yields(k: u64, dur_ms: u64) -> String {
    struct Yield(u64);
    impl Future for Yield {
        type Output = u64;
        fn poll(mut self: Pin<&mut Self>, cx: &mut Context<'_>) -> Poll<u64> {
            if self.0 == 0 {
                Poll::Ready(7)
            } else {
                self.0 -= 1;
                cx.waker().wake_by_ref();
                Poll::Pending
            }
        }
    }
    let start = Instant::now();
    match block_timeout(Duration::from_millis(dur_ms), Yield(k)) {
        Ok(7) => "ok".into(),
        Ok(_) => "fail value".into(),
        Err(_) => {
            let el = start.elapsed();
            if el < Duration::from_millis(dur_ms / 2) { format!("fail timeout-early after {el:?} of {dur_ms} ms") } else { "ok".into() }
        }
    }
}

fn step(st: &mut St, t: &[&str]) -> String {
    let num = |s: &str| s.parse::<u64>().ok();
    match t {
        ["push", id, d] => {
            let (Some(id), Some(d)) = (num(id), num(d)) else { return "bad-op".into() };
            if d > 100_000 { return "bad-op".into() }
            let at = st.instant_of(d);
            let w = st.waker(id);
            st.heap.push(id as usize, at, w);
            format!("ok len={}", st.heap.len())
        }
        ["remove", id] => {
            let Some(id) = num(id) else { return "bad-op".into() };
            st.heap.remove(id as usize);
            format!("ok len={}", st.heap.len())
        }
        ["advance", k] => {
            let Some(k) = num(k) else { return "bad-op".into() };
            if k > 10_000 { return "bad-op".into() }
            st.pump();
            let d = Duration::from_secs(k * H);
            st.heap.shift_back(d);
            for m in st.queue.iter_mut() {
                m.verif_shift_back(d);
            }
            for s in st.sleeps.values_mut() {
                s.verif_shift_back(d);
            }
            st.now += k;
            format!("ok now={}", st.now)
        }
        ["service"] => {
            st.log.lock().unwrap().clear();
            let popped = st.heap.service();
            let ord = popped.windows(2).all(|w| w[0].1 <= w[1].1);
            let mut p: Vec<u64> = popped.iter().map(|x| x.0 as u64).collect();
            p.sort();
            let mut woken = std::mem::take(&mut *st.log.lock().unwrap());
            woken.sort();
            format!(
                "woke={} ord={} len={}{}",
                ids(&p),
                if ord { 1 } else { 0 },
                st.heap.len(),
                if woken == p { "" } else { " WAKEMISMATCH" }
            )
        }
        ["next"] => match st.heap.duration_until_next_timer() {
            None => "none".into(),
            Some(d) => (d.as_secs() / H).to_string(),
        },
        ["sleep", sid, dur] => {
            let (Some(sid), Some(dur)) = (num(sid), num(dur)) else { return "bad-op".into() };
            if dur > 10_000 { return "bad-op".into() }
            if st.used.contains(&sid) {
                return "gone".into();
            }
            st.used.insert(sid);
            let s = Sleep::verif_new(sid as usize, Duration::from_secs(dur * H + H / 2), st.tx.clone());
            st.sleeps.insert(sid, s);
            "ok".into()
        }
        ["poll", sid] => {
            let Some(sid) = num(sid) else { return "bad-op".into() };
            let waker = st.waker(sid);
            let mut cx = Context::from_waker(&waker);
            let r = match st.sleeps.get_mut(&sid) {
                None => return "gone".into(),
                Some(s) => Pin::new(s).poll(&mut cx),
            };
            st.pump();
            match r {
                Poll::Ready(()) => "ready".into(),
                Poll::Pending => "pending".into(),
            }
        }
        ["drop", sid] => {
            let Some(sid) = num(sid) else { return "bad-op".into() };
            match st.sleeps.remove(&sid) {
                None => "gone".into(),
                Some(s) => {
                    drop(s);
                    st.pump();
                    "ok".into()
                }
            }
        }
        ["recv"] => {
            st.pump();
            match st.queue.pop_front() {
                None => "empty".into(),
                Some(m) => {
                    let (is_wake, id) = st.heap.apply(m);
                    format!("{} {} len={}", if is_wake { "wake" } else { "cancel" }, id, st.heap.len())
                }
            }
        }
        ["smoke.sleep", ms] => match num(ms) {
            Some(ms) if ms <= 1000 => smoke_sleep(ms),
            _ => "bad-op".into(),
        },
        ["smoke.sleeps", n, ms] => match (num(n), num(ms)) {
            (Some(n), Some(ms)) if n <= 1000 && ms <= 1000 => smoke_sleeps(n, ms),
            _ => "bad-op".into(),
        },
        ["smoke.drop", ms] => match num(ms) {
            Some(ms) if ms <= 1000 => smoke_drop(ms),
            _ => "bad-op".into(),
        },
        ["smoke.block_on", v] => match num(v) {
            Some(v) if v <= 1000 => smoke_block_on(v),
            _ => "bad-op".into(),
        },
        ["smoke.timeout", d, f] => match (num(d), num(f)) {
            (Some(d), Some(f)) if d <= 1000 && f <= 1000 => smoke_timeout(d * 10, f),
            _ => "bad-op".into(),
        },
        ["smoke.chain", k, ms, d] => match (num(k), num(ms), num(d)) {
            (Some(k), Some(ms), Some(d)) if k <= 1000 && ms <= 1000 && d <= 1000 => smoke_chain(k, ms, d * 10),
            _ => "bad-op".into(),
        },
        ["smoke.yields", k, d] => match (num(k), num(d)) {
            (Some(k), Some(d)) if k <= 1000 && d <= 1000 => smoke_yields(k, d * 10),
            _ => "bad-op".into(),
        },
        _ => "bad-op".into(),
    }
}

fn main() {
    dvh::run_stateful(init, step);
}
