//! Canonicalising front end for engines whose Rust side is the `dsim` binary (included by `bin/cfilter.rs` and
//! `bin/fuzzdg.rs` with `#[path]`). It runs the sibling executable `dsim` on the unchanged input and rewrites the
//! few answers that the Lean drivers of these engines do not predict, so that the ordinary line-by-line comparison
//! of vlib/core.py applies (and `./check --replay` works):
//!   * the answer `ok <32 hex digits>` of an entity-creating op becomes `ok *`; the handle is remembered under the
//!     entity's name, and every later occurrence of it inside an answer of the same case becomes `@<name>`;
//!   * the answer `ok #<n>` of `inject` becomes `ok #*`, and every `#<n>` inside the answers of `inflight` / `trace`
//!     becomes `#*` (datagram numbers depend on the discovery traffic).
//! Nothing else is touched; `PANIC` / `HANG` / `CRASH` / `POISONED` pass through.
use std::io::{Read, Write};
use std::process::{Command, Stdio};

fn is_handle(s: &str) -> bool {
    s.len() == 32 && s.bytes().all(|c| c.is_ascii_hexdigit())
}

pub fn main() {
    let mut input = String::new();
    std::io::stdin().read_to_string(&mut input).expect("stdin");
    let exe = std::env::current_exe().expect("current_exe");
    let dsim = exe.parent().expect("dir").join("dsim");
    let mut child = Command::new(&dsim).stdin(Stdio::piped()).stdout(Stdio::piped()).stderr(Stdio::null()).spawn().expect("spawn dsim");
    let mut stdin = child.stdin.take().unwrap();
    let data = input.clone();
    let feeder = std::thread::spawn(move || {
        let _ = stdin.write_all(data.as_bytes());
    });
    let mut output = String::new();
    child.stdout.take().unwrap().read_to_string(&mut output).expect("read dsim");
    let _ = feeder.join();
    let status = child.wait().expect("wait dsim");
    let ins: Vec<&str> = input.lines().collect();
    let outs: Vec<&str> = output.lines().collect();
    let stdout = std::io::stdout();
    let mut out = std::io::BufWriter::new(stdout.lock());
    let mut handles: Vec<(String, String)> = vec![];
    for (k, o) in outs.iter().enumerate() {
        let toks: Vec<&str> = ins.get(k).map(|l| l.split_whitespace().collect()).unwrap_or_default();
        if toks == ["reset"] {
            handles.clear();
            let _ = writeln!(out, "{o}");
            continue;
        }
        let name = match toks.as_slice() {
            ["participant" | "publisher" | "subscriber" | "topic" | "writer" | "reader", n, ..] => Some(*n),
            ["x-w2d", "s-topic" | "s-writer" | "s-reader", n, ..] => Some(*n),
            _ => None,
        };
        let ot: Vec<&str> = o.split(' ').collect();
        if let (Some(n), ["ok", h]) = (name, ot.as_slice()) {
            if is_handle(h) {
                handles.retain(|(x, _)| x != n);
                handles.push((n.to_string(), h.to_string()));
                let _ = writeln!(out, "ok *");
                continue;
            }
        }
        if matches!(toks.first(), Some(&"inject") | Some(&"x-w2d-inject")) && ot.len() == 2 && ot[0] == "ok" && ot[1].starts_with('#') {
            let _ = writeln!(out, "ok #*");
            continue;
        }
        let mut s = o.to_string();
        if matches!(toks.first(), Some(&"inflight") | Some(&"trace")) {
            // datagram numbers depend on the discovery traffic
            s = s.split(' ').map(|t| if t.len() > 1 && t.starts_with('#') && t[1..].bytes().all(|c| c.is_ascii_digit()) { "#*" } else { t }).collect::<Vec<_>>().join(" ");
        }
        for (n, h) in &handles {
            if s.contains(h.as_str()) {
                s = s.replace(h.as_str(), &format!("@{n}"));
            }
        }
        let _ = writeln!(out, "{s}");
    }
    let _ = out.flush();
    std::process::exit(if status.success() { 0 } else { 1 });
}
