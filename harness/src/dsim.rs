//! `dsim` — deterministic full-stack simulator for dust-dds, built ONLY on the public API:
//! `DomainParticipantFactoryAsync::new(runtime, app_id, host_id, transport, configuration)` with
//!
//! * [`SimRuntime`]: a `DdsRuntime` whose clock is a virtual nanosecond counter, whose `Timer::delay(d)`
//!   records the request `(now, d)` (observation point for C31) and completes when virtual time reaches
//!   `now + max(d, 1 ns)`, and whose `Spawner` queues tasks on a single-threaded run queue;
//! * [`SimNet`]: a `TransportParticipantFactory` whose `write_message(buf, locators)` turns every datagram
//!   into a numbered in-flight [`Datagram`]; a list of fault [`Rule`]s decides per datagram:
//!   deliver / drop / duplicate / hold / reorder / coalesce (= first ++ second[20..], one RTPS message);
//! * driver helpers: [`block`] (poll an API future on the driver thread while running tasks, delivering
//!   datagrams and advancing virtual time), [`advance`], [`jump`], [`run_ready`], [`deliver_all`],
//!   all under a step budget (hang guard, [`Stop::Hang`]).
//!
//! Facts this design relies on (learned from the prototype, see notes/dsim.md):
//! * one factory per process (`new` declares a function-local `static` channel) — hence ONE global world;
//! * API futures are not `Send`: they are polled by the driver thread ([`block`]), never spawned;
//! * no waker is ever invoked while the world lock is held;
//! * `delay(0)` completes at `now + 1 ns` (otherwise virtual time livelocks on the worker's zero delays);
//! * a panic inside a spawned task (e.g. the worker, D40) is caught, recorded in `World::task_panics`,
//!   the task is dropped; task 0 is the factory worker: once it is dead every API call hangs/fails.
#![allow(dead_code)]
use std::{
    collections::VecDeque,
    future::Future,
    pin::Pin,
    sync::{
        atomic::{AtomicBool, Ordering},
        Arc, Mutex,
    },
    task::{Context, Poll, Wake, Waker},
};

use dust_dds::{
    dds_async::{configuration::DustDdsConfiguration, domain_participant_factory::DomainParticipantFactoryAsync},
    infrastructure::time::Time,
    rtps_messages::overall_structure::{RtpsMessageRead, RtpsSubmessageReadKind},
    runtime::{Clock, DdsRuntime, Spawner, TaskHandle, Timer},
    transport::{
        interface::{RtpsTransportParticipant, TransportDataReceiver, TransportParticipantFactory, WriteMessage},
        types::Locator,
    },
};

/// virtual time at which every world starts (1000 s, so that "now - x" never underflows)
pub const EPOCH_NS: u64 = 1_000_000_000_000;
/// RTPS well-known ports (PB + DG*domain + offsets)
pub const PORT_BASE: u32 = 7400;
pub const DOMAIN_GAIN: u32 = 250;
const LOCATOR_KIND_UDPV4: i32 = 1;
const LOCALHOST: [u8; 16] = [0, 0, 0, 0, 0, 0, 0, 0, 0, 0, 0, 0, 127, 0, 0, 1];

// ------------------------------------------------------------------------------------------------ world

/// one datagram handed to the transport by a participant
#[derive(Clone)]
pub struct Datagram {
    /// running number (1, 2, ...) in send order; duplicates get their own number
    pub id: u64,
    /// index of the sending participant (order of `create_participant` calls on the transport)
    pub from: usize,
    pub buf: Vec<u8>,
    pub locators: Vec<Locator>,
    pub sent_ns: u64,
}

struct Endpoint {
    index: usize,
    domain: i32,
    meta_port: u32,
    user_port: u32,
    receiver: TransportDataReceiver,
    alive: bool,
}

#[derive(Clone, Copy, PartialEq, Eq, Debug)]
pub enum Action {
    Drop,
    Duplicate,
    Hold,
    /// merge this datagram with the next one that has the same source and locators
    Coalesce,
    /// deliver this datagram after the next matching one
    Reorder,
}

/// one fault rule; the first rule (in insertion order) that matches and is not exhausted decides
pub struct Rule {
    pub action: Action,
    pub pattern: Pattern,
    /// how many more datagrams the rule applies to (`None` = for ever)
    pub remaining: Option<u32>,
}

/// conjunction of simple predicates over a decoded datagram
#[derive(Default, Clone, Debug)]
pub struct Pattern {
    /// submessage kinds of which at least one must be present (empty = any)
    pub kinds: Vec<String>,
    /// Some(true): some submessage belongs to a user-defined writer; Some(false): to a built-in writer
    pub user: Option<bool>,
    pub sn: Option<i64>,
    pub frag: Option<u32>,
    pub from: Option<usize>,
    /// destination participant index (any locator of the datagram reaches it; multicast reaches all of the domain)
    pub to: Option<usize>,
}

pub struct World {
    pub now_ns: u64,
    timers: Vec<(u64, u64, Waker, Arc<AtomicBool>)>,
    timer_seq: u64,
    ready: VecDeque<Arc<Task>>,
    next_task_id: u64,
    /// ids of spawned tasks whose poll panicked (task 0 = the factory worker)
    pub task_panics: Vec<u64>,
    pub panic_messages: Vec<String>,
    /// datagrams queued for delivery (FIFO)
    pub inflight: VecDeque<Datagram>,
    /// datagrams kept back by a `Hold` rule until released
    pub held: Vec<Datagram>,
    stash_coalesce: Option<Datagram>,
    stash_reorder: Option<Datagram>,
    next_dgram_id: u64,
    endpoints: Vec<Endpoint>,
    pub rules: Vec<Rule>,
    /// `(virtual now, requested ns)` of every `Timer::delay` call since the last drain (C31 observation point)
    pub timer_requests: Vec<(u64, u64)>,
    /// when `Some`, one line per datagram sent (with its fate) is appended
    pub trace: Option<Vec<String>>,
    pub frag_size: usize,
    /// hang guard: polls + deliveries + timer firings since the last `reset_steps`
    pub steps: u64,
    pub step_budget: u64,
    pub sent_count: u64,
    pub delivered_count: u64,
}

static WORLD: Mutex<Option<World>> = Mutex::new(None);

/// run `f` on the world; never call a waker / poll a future inside `f`
pub fn with<R>(f: impl FnOnce(&mut World) -> R) -> R {
    let mut g = WORLD.lock().unwrap_or_else(|e| e.into_inner());
    f(g.as_mut().expect("dsim::init not called"))
}

/// why a driver helper stopped early
#[derive(Debug, Clone, Copy, PartialEq, Eq)]
pub enum Stop {
    /// step budget exhausted (livelock / runaway loop)
    Hang,
    /// nothing can make progress any more: no ready task, no datagram, no timer (e.g. the worker is dead)
    Deadlock,
}

// ------------------------------------------------------------------------------------------------ runtime

pub struct Task {
    id: u64,
    fut: Mutex<Option<Pin<Box<dyn Future<Output = ()> + Send>>>>,
    done: AtomicBool,
    queued: AtomicBool,
}
impl Wake for Task {
    fn wake(self: Arc<Self>) {
        if !self.done.load(Ordering::SeqCst) && !self.queued.swap(true, Ordering::SeqCst) {
            with(|w| w.ready.push_back(self.clone()));
        }
    }
}
pub struct SimTaskHandle(Arc<Task>);
impl TaskHandle for SimTaskHandle {
    fn join(&self) {}
}

#[derive(Clone)]
pub struct SimSpawner;
impl Spawner for SimSpawner {
    type TaskHandle = SimTaskHandle;
    fn spawn(&self, f: impl Future<Output = ()> + Send + 'static) -> SimTaskHandle {
        let t = with(|w| {
            let t = Arc::new(Task {
                id: w.next_task_id,
                fut: Mutex::new(Some(Box::pin(f))),
                done: AtomicBool::new(false),
                queued: AtomicBool::new(true),
            });
            w.next_task_id += 1;
            w.ready.push_back(t.clone());
            t
        });
        SimTaskHandle(t)
    }
}

#[derive(Clone)]
pub struct SimClock;
impl Clock for SimClock {
    fn now(&self) -> Time {
        let n = with(|w| w.now_ns);
        Time::new((n / 1_000_000_000) as i32, (n % 1_000_000_000) as u32)
    }
}

#[derive(Clone)]
pub struct SimTimer;
struct Sleep {
    deadline: u64,
    fired: Arc<AtomicBool>,
}
impl Drop for Sleep {
    /// a dropped delay (the worker re-arms its timer on every loop iteration) must not leave a stale wake-up behind
    fn drop(&mut self) {
        if !self.fired.load(Ordering::SeqCst) {
            let f = self.fired.clone();
            // the removed entries (they hold wakers = task references) are dropped AFTER the lock is released
            let mut removed = vec![];
            if let Ok(mut g) = WORLD.lock() {
                if let Some(w) = g.as_mut() {
                    let mut i = 0;
                    while i < w.timers.len() {
                        if Arc::ptr_eq(&w.timers[i].3, &f) {
                            removed.push(w.timers.remove(i));
                        } else {
                            i += 1;
                        }
                    }
                }
            }
            drop(removed);
        }
    }
}
impl Future for Sleep {
    type Output = ();
    fn poll(self: Pin<&mut Self>, cx: &mut Context<'_>) -> Poll<()> {
        if self.fired.load(Ordering::SeqCst) || with(|w| w.now_ns >= self.deadline) {
            return Poll::Ready(());
        }
        let (d, f, wk) = (self.deadline, self.fired.clone(), cx.waker().clone());
        with(|w| {
            w.timer_seq += 1;
            let s = w.timer_seq;
            w.timers.push((d, s, wk, f))
        });
        Poll::Pending
    }
}
impl Timer for SimTimer {
    fn delay(&mut self, d: core::time::Duration) -> impl Future<Output = ()> + Send {
        let ns = d.as_nanos().min(u64::MAX as u128) as u64;
        let deadline = with(|w| {
            let n = w.now_ns;
            w.timer_requests.push((n, ns));
            n.saturating_add(ns.max(1))
        });
        Sleep { deadline, fired: Arc::new(AtomicBool::new(false)) }
    }
}

pub struct SimRuntime;
impl DdsRuntime for SimRuntime {
    type ClockHandle = SimClock;
    type TimerHandle = SimTimer;
    type SpawnerHandle = SimSpawner;
    fn timer(&self) -> SimTimer {
        SimTimer
    }
    fn clock(&self) -> SimClock {
        SimClock
    }
    fn spawner(&self) -> SimSpawner {
        SimSpawner
    }
}

// ------------------------------------------------------------------------------------------------ network

struct SimWriter {
    from: usize,
}
impl Drop for SimWriter {
    /// the participant (and with it its transport) was deleted: stop delivering to it
    fn drop(&mut self) {
        let i = self.from;
        if let Ok(mut g) = WORLD.lock() {
            if let Some(w) = g.as_mut() {
                if let Some(e) = w.endpoints.iter_mut().find(|e| e.index == i) {
                    e.alive = false;
                }
            }
        }
    }
}
impl WriteMessage for SimWriter {
    fn write_message(&self, buf: &[u8], locators: &[Locator]) {
        let from = self.from;
        with(|w| w.send(from, buf.to_vec(), locators.to_vec()));
    }
}

pub struct SimNet;
impl TransportParticipantFactory for SimNet {
    fn create_participant(&self, domain_id: i32, receiver: TransportDataReceiver) -> RtpsTransportParticipant {
        let (index, meta_port, user_port, mcast, frag) = with(|w| {
            let index = w.endpoints.len();
            let base = PORT_BASE + DOMAIN_GAIN * (domain_id as u32);
            let meta_port = base + 10 + 2 * index as u32;
            let user_port = base + 11 + 2 * index as u32;
            w.endpoints.push(Endpoint { index, domain: domain_id, meta_port, user_port, receiver, alive: true });
            (index, meta_port, user_port, base, w.frag_size)
        });
        let mk = |port| Locator::new(LOCATOR_KIND_UDPV4, port, LOCALHOST);
        RtpsTransportParticipant {
            message_writer: Box::new(SimWriter { from: index }),
            default_unicast_locator_list: vec![mk(user_port)],
            metatraffic_unicast_locator_list: vec![mk(meta_port)],
            metatraffic_multicast_locator_list: vec![mk(mcast)],
            default_multicast_locator_list: vec![],
            fragment_size: frag,
        }
    }
}

impl World {
    fn new(frag_size: usize, step_budget: u64) -> Self {
        World {
            now_ns: EPOCH_NS,
            timers: vec![],
            timer_seq: 0,
            ready: VecDeque::new(),
            next_task_id: 0,
            task_panics: vec![],
            panic_messages: vec![],
            inflight: VecDeque::new(),
            held: vec![],
            stash_coalesce: None,
            stash_reorder: None,
            next_dgram_id: 0,
            endpoints: vec![],
            rules: vec![],
            timer_requests: vec![],
            trace: None,
            frag_size,
            steps: 0,
            step_budget,
            sent_count: 0,
            delivered_count: 0,
        }
    }

    /// participant indices a datagram addressed to `locators` reaches (in endpoint order, each once per locator)
    pub fn destinations(&self, locators: &[Locator]) -> Vec<usize> {
        let mut out = vec![];
        for l in locators {
            let p = l.port();
            for e in &self.endpoints {
                if !e.alive {
                    continue;
                }
                let mcast = PORT_BASE + DOMAIN_GAIN * (e.domain as u32);
                if p == e.meta_port || p == e.user_port || p == mcast {
                    out.push(e.index);
                }
            }
        }
        out
    }

    fn number(&mut self, from: usize, buf: Vec<u8>, locators: Vec<Locator>) -> Datagram {
        self.next_dgram_id += 1;
        Datagram { id: self.next_dgram_id, from, buf, locators, sent_ns: self.now_ns }
    }

    fn trace_line(&mut self, d: &Datagram, fate: &str) {
        if self.trace.is_some() {
            let s = format!("{} {}", self.show(d), fate);
            self.trace.as_mut().unwrap().push(s);
        }
    }

    pub fn show(&self, d: &Datagram) -> String {
        let ports: Vec<String> = d.locators.iter().map(|l| l.port().to_string()).collect();
        format!("#{} t={} from={} to={} {}", d.id, d.sent_ns - EPOCH_NS, d.from, ports.join(","), describe(&d.buf))
    }

    /// entry point of every datagram: apply the first matching fault rule
    fn send(&mut self, from: usize, buf: Vec<u8>, locators: Vec<Locator>) {
        self.sent_count += 1;
        let d = self.number(from, buf, locators);
        let mut action = None;
        let info = decode(&d.buf);
        for i in 0..self.rules.len() {
            if self.rules[i].remaining == Some(0) {
                continue;
            }
            let dests = self.destinations(&d.locators);
            if self.rules[i].pattern.matches(&d, &info, &dests) {
                if let Some(n) = self.rules[i].remaining.as_mut() {
                    *n -= 1;
                }
                action = Some(self.rules[i].action);
                break;
            }
        }
        match action {
            None => {
                self.trace_line(&d, "sent");
                self.inflight.push_back(d);
                if let Some(r) = self.stash_reorder.take() {
                    self.trace_line(&r, "reordered-after-next");
                    self.inflight.push_back(r);
                }
            }
            Some(Action::Drop) => self.trace_line(&d, "DROPPED"),
            Some(Action::Duplicate) => {
                let d2 = self.number(d.from, d.buf.clone(), d.locators.clone());
                self.trace_line(&d, "sent");
                self.trace_line(&d2, "DUPLICATE");
                self.inflight.push_back(d);
                self.inflight.push_back(d2);
            }
            Some(Action::Hold) => {
                self.trace_line(&d, "HELD");
                self.held.push(d);
            }
            Some(Action::Reorder) => {
                if let Some(r) = self.stash_reorder.take() {
                    self.inflight.push_back(d);
                    self.inflight.push_back(r);
                } else {
                    self.trace_line(&d, "REORDER-STASHED");
                    self.stash_reorder = Some(d);
                }
            }
            Some(Action::Coalesce) => match self.stash_coalesce.take() {
                Some(first) if first.from == d.from && first.locators == d.locators && d.buf.len() >= 20 => {
                    let mut buf = first.buf.clone();
                    buf.extend_from_slice(&d.buf[20..]);
                    let m = self.number(d.from, buf, d.locators.clone());
                    self.trace_line(&m, &format!("COALESCED(#{}+#{})", first.id, d.id));
                    self.inflight.push_back(m);
                }
                Some(first) => {
                    // not mergeable: the stashed one goes out alone, the new one waits for a partner
                    self.trace_line(&first, "sent");
                    self.inflight.push_back(first);
                    self.stash_coalesce = Some(d);
                }
                None => {
                    self.trace_line(&d, "COALESCE-STASHED");
                    self.stash_coalesce = Some(d);
                }
            },
        }
    }

    /// move held / stashed datagrams (all, or those with the given ids) to the delivery queue, in id order
    pub fn release(&mut self, ids: Option<&[u64]>) -> usize {
        let mut out: Vec<Datagram> = vec![];
        let mut keep = vec![];
        for d in std::mem::take(&mut self.held) {
            if ids.map_or(true, |l| l.contains(&d.id)) {
                out.push(d)
            } else {
                keep.push(d)
            }
        }
        self.held = keep;
        if ids.is_none() {
            out.extend(self.stash_coalesce.take());
            out.extend(self.stash_reorder.take());
        }
        if ids.is_none() {
            out.sort_by_key(|d| d.id);
        } else {
            // explicit ids: deliver in the order given (arbitrary reordering)
            let l = ids.unwrap();
            out.sort_by_key(|d| l.iter().position(|x| *x == d.id));
        }
        let n = out.len();
        self.inflight.extend(out);
        n
    }

    /// inject a datagram as if `from` had sent it (no fault rules applied)
    pub fn inject(&mut self, from: usize, buf: Vec<u8>, ports: &[u32]) -> u64 {
        let locs = ports.iter().map(|p| Locator::new(LOCATOR_KIND_UDPV4, *p, LOCALHOST)).collect();
        let d = self.number(from, buf, locs);
        self.trace_line(&d, "INJECTED");
        let id = d.id;
        self.inflight.push_back(d);
        id
    }

    pub fn ports_of(&self, index: usize) -> Option<(u32, u32)> {
        self.endpoints.iter().find(|e| e.index == index).map(|e| (e.meta_port, e.user_port))
    }
}

// ------------------------------------------------------------------------------------------------ decoding

/// summary of one submessage, enough for patterns and printing
#[derive(Clone, Debug, Default)]
pub struct SubInfo {
    pub kind: &'static str,
    pub user: Option<bool>,
    pub sn: Option<i64>,
    pub frag_first: Option<u32>,
    pub frag_count: Option<u32>,
    pub text: String,
}

fn is_user(kind: u8) -> bool {
    kind & 0xc0 == 0
}
fn eid(e: &dust_dds::transport::types::EntityId) -> String {
    let k = e.entity_key();
    format!("{:02x}{:02x}{:02x}{:02x}", k[0], k[1], k[2], e.entity_kind())
}

/// decode a datagram into submessage summaries; `None` when it is not a valid RTPS message (or the decoder panics)
pub fn decode(buf: &[u8]) -> Option<Vec<SubInfo>> {
    let r = std::panic::catch_unwind(|| RtpsMessageRead::try_from(buf).ok().map(|m| {
        m.submessages()
            .iter()
            .map(|s| match s {
                RtpsSubmessageReadKind::Data(d) => SubInfo {
                    kind: "DATA",
                    user: Some(is_user(d.writer_id().entity_kind())),
                    sn: Some(d.writer_sn()),
                    text: format!("DATA(w={},r={},sn={},len={})", eid(&d.writer_id()), eid(&d.reader_id()), d.writer_sn(), d.serialized_payload().len()),
                    ..Default::default()
                },
                RtpsSubmessageReadKind::DataFrag(d) => SubInfo {
                    kind: "DATA_FRAG",
                    user: Some(is_user(d.writer_id().entity_kind())),
                    sn: Some(d.writer_sn()),
                    frag_first: Some(d.fragment_starting_num()),
                    frag_count: Some(d.fragments_in_submessage() as u32),
                    text: format!("DATA_FRAG(w={},sn={},frag={}+{},fsize={},size={})", eid(&d.writer_id()), d.writer_sn(),
                        d.fragment_starting_num(), d.fragments_in_submessage(), d.fragment_size(), d.data_size()),
                },
                RtpsSubmessageReadKind::Gap(g) => SubInfo {
                    kind: "GAP",
                    user: Some(is_user(g.writer_id().entity_kind())),
                    text: format!("GAP(w={},start={},base={},set={:?})", eid(&g.writer_id()), g.gap_start(), g.gap_list().base(), g.gap_list().set().collect::<Vec<_>>()),
                    ..Default::default()
                },
                RtpsSubmessageReadKind::Heartbeat(h) => SubInfo {
                    kind: "HEARTBEAT",
                    user: Some(is_user(h.writer_id().entity_kind())),
                    text: format!("HEARTBEAT(w={},first={},last={},count={},final={})", eid(&h.writer_id()), h.first_sn(), h.last_sn(), h.count(), h.final_flag() as u8),
                    ..Default::default()
                },
                RtpsSubmessageReadKind::HeartbeatFrag(h) => SubInfo {
                    kind: "HEARTBEAT_FRAG",
                    user: Some(is_user(h.writer_id().entity_kind())),
                    text: format!("HEARTBEAT_FRAG(w={},count={})", eid(&h.writer_id()), h.count()),
                    ..Default::default()
                },
                RtpsSubmessageReadKind::AckNack(a) => SubInfo {
                    kind: "ACKNACK",
                    user: Some(is_user(a.writer_id().entity_kind())),
                    text: format!("ACKNACK(w={},r={},base={},set={:?},count={})", eid(a.writer_id()), eid(a.reader_id()), a.reader_sn_state().base(), a.reader_sn_state().set().collect::<Vec<_>>(), a.count()),
                    ..Default::default()
                },
                RtpsSubmessageReadKind::NackFrag(n) => SubInfo {
                    kind: "NACK_FRAG",
                    user: Some(is_user(n._writer_id().entity_kind())),
                    sn: Some(n.writer_sn()),
                    text: format!("NACK_FRAG(w={},sn={},base={},set={:?},count={})", eid(&n._writer_id()), n.writer_sn(), n.fragment_number_state().base(), n.fragment_number_state().set().collect::<Vec<_>>(), n.count()),
                    ..Default::default()
                },
                RtpsSubmessageReadKind::InfoDestination(_) => SubInfo { kind: "INFO_DST", text: "INFO_DST".into(), ..Default::default() },
                RtpsSubmessageReadKind::InfoTimestamp(_) => SubInfo { kind: "INFO_TS", text: "INFO_TS".into(), ..Default::default() },
                RtpsSubmessageReadKind::InfoReply(_) => SubInfo { kind: "INFO_REPLY", text: "INFO_REPLY".into(), ..Default::default() },
                RtpsSubmessageReadKind::InfoSource(_) => SubInfo { kind: "INFO_SRC", text: "INFO_SRC".into(), ..Default::default() },
                RtpsSubmessageReadKind::Pad(_) => SubInfo { kind: "PAD", text: "PAD".into(), ..Default::default() },
            })
            .collect::<Vec<_>>()
    }));
    r.ok().flatten()
}

/// one-line canonical description of a datagram
pub fn describe(buf: &[u8]) -> String {
    match decode(buf) {
        Some(v) => v.iter().map(|s| s.text.clone()).collect::<Vec<_>>().join(" "),
        None => format!("UNDECODABLE(len={})", buf.len()),
    }
}

impl Pattern {
    /// parse tokens: `DATA DATA_FRAG HEARTBEAT ACKNACK GAP NACK_FRAG HEARTBEAT_FRAG` (kinds, any-of), `user`, `builtin`,
    /// `sn=<n>`, `frag=<n>`, `from=<participant index>`, `to=<participant index>`; `any` matches everything
    pub fn parse(toks: &[&str]) -> Result<Pattern, String> {
        let mut p = Pattern::default();
        for t in toks {
            match *t {
                "any" => {}
                "user" => p.user = Some(true),
                "builtin" => p.user = Some(false),
                "DATA" | "DATA_FRAG" | "HEARTBEAT" | "ACKNACK" | "GAP" | "NACK_FRAG" | "HEARTBEAT_FRAG" | "INFO_TS" | "INFO_DST" => p.kinds.push(t.to_string()),
                _ => {
                    let (k, v) = t.split_once('=').ok_or(format!("bad pattern token {t}"))?;
                    let n: i64 = v.parse().map_err(|_| format!("bad number in {t}"))?;
                    match k {
                        "sn" => p.sn = Some(n),
                        "frag" => p.frag = Some(n as u32),
                        "from" => p.from = Some(n as usize),
                        "to" => p.to = Some(n as usize),
                        _ => return Err(format!("bad pattern key {k}")),
                    }
                }
            }
        }
        Ok(p)
    }

    pub fn matches(&self, d: &Datagram, info: &Option<Vec<SubInfo>>, dests: &[usize]) -> bool {
        if let Some(f) = self.from {
            if d.from != f {
                return false;
            }
        }
        if let Some(t) = self.to {
            if !dests.contains(&t) {
                return false;
            }
        }
        let needs_decode = !self.kinds.is_empty() || self.user.is_some() || self.sn.is_some() || self.frag.is_some();
        if !needs_decode {
            return true;
        }
        let Some(subs) = info else { return false };
        // all submessage-level predicates must hold on ONE submessage
        subs.iter().any(|s| {
            (self.kinds.is_empty() || self.kinds.iter().any(|k| k == s.kind))
                && self.user.map_or(true, |u| s.user == Some(u))
                && self.sn.map_or(true, |n| s.sn == Some(n))
                && self.frag.map_or(true, |f| match (s.frag_first, s.frag_count) {
                    (Some(a), Some(c)) => a <= f && f < a + c,
                    _ => false,
                })
        })
    }
}

// ------------------------------------------------------------------------------------------------ driver

fn count_step() -> Result<(), Stop> {
    with(|w| {
        w.steps += 1;
        if w.steps > w.step_budget {
            Err(Stop::Hang)
        } else {
            Ok(())
        }
    })
}

/// restart the hang guard (call at the start of every scenario op)
pub fn reset_steps() {
    with(|w| w.steps = 0);
}

/// poll every ready task until the run queue is empty. A panicking task is recorded and dropped.
pub fn run_ready() -> Result<(), Stop> {
    loop {
        let t = with(|w| w.ready.pop_front());
        let Some(t) = t else { return Ok(()) };
        t.queued.store(false, Ordering::SeqCst);
        if t.done.load(Ordering::SeqCst) {
            continue;
        }
        count_step()?;
        let waker = Waker::from(t.clone());
        let mut cx = Context::from_waker(&waker);
        let mut g = t.fut.lock().unwrap_or_else(|e| e.into_inner());
        if let Some(f) = g.as_mut() {
            let r = std::panic::catch_unwind(std::panic::AssertUnwindSafe(|| f.as_mut().poll(&mut cx)));
            match r {
                Ok(Poll::Ready(())) => {
                    *g = None;
                    t.done.store(true, Ordering::SeqCst);
                }
                Ok(Poll::Pending) => {}
                Err(e) => {
                    let msg = e.downcast_ref::<String>().cloned().or_else(|| e.downcast_ref::<&str>().map(|s| s.to_string())).unwrap_or_default();
                    t.done.store(true, Ordering::SeqCst);
                    // dropping the future may run destructors of half-updated state: keep it alive (leak) instead
                    std::mem::forget(g.take());
                    let id = t.id;
                    with(|w| {
                        w.task_panics.push(id);
                        w.panic_messages.push(msg)
                    });
                }
            }
        }
    }
}

/// deliver every queued datagram (FIFO), running the tasks after each one; returns how many were delivered
pub fn deliver_all() -> Result<usize, Stop> {
    let mut n = 0;
    loop {
        let m = with(|w| w.inflight.pop_front());
        let Some(d) = m else { return Ok(n) };
        count_step()?;
        n += 1;
        let receivers: Vec<TransportDataReceiver> = with(|w| {
            w.delivered_count += 1;
            let dests = w.destinations(&d.locators);
            dests.iter().filter_map(|i| w.endpoints.iter().find(|e| e.index == *i).map(|e| e.receiver.clone())).collect()
        });
        for r in receivers {
            let b = d.buf.clone();
            SimSpawner.spawn(async move {
                r.receive_message(b).await;
            });
        }
        run_ready()?;
    }
}

/// run tasks and deliver datagrams until nothing is left to do at the current virtual time
pub fn settle() -> Result<(), Stop> {
    loop {
        run_ready()?;
        if deliver_all()? == 0 && with(|w| w.ready.is_empty()) {
            return Ok(());
        }
    }
}

/// set the clock to `t` (monotone) and wake every timer that is due
fn fire_timers(t: u64) -> usize {
    let wakers: Vec<Waker> = with(|w| {
        w.now_ns = w.now_ns.max(t);
        let now = w.now_ns;
        let mut due: Vec<(u64, u64, Waker, Arc<AtomicBool>)> = vec![];
        let mut i = 0;
        while i < w.timers.len() {
            if w.timers[i].0 <= now {
                due.push(w.timers.remove(i));
            } else {
                i += 1;
            }
        }
        due.sort_by_key(|x| (x.0, x.1));
        due.into_iter()
            .map(|(_, _, wk, f)| {
                f.store(true, Ordering::SeqCst);
                wk
            })
            .collect()
    });
    let n = wakers.len();
    for wk in wakers {
        wk.wake();
    }
    n
}

fn next_timer() -> Option<u64> {
    with(|w| w.timers.iter().map(|t| t.0).min())
}

/// let `ns` of virtual time pass: time moves only when every task is idle, to the earliest timer
pub fn advance(ns: u64) -> Result<(), Stop> {
    let target = with(|w| w.now_ns.saturating_add(ns));
    loop {
        settle()?;
        match next_timer() {
            Some(d) if d <= target => {
                count_step()?;
                fire_timers(d);
            }
            _ => {
                with(|w| w.now_ns = target);
                break;
            }
        }
    }
    settle()
}

/// "late timer": the clock jumps by `ns` in ONE step, passing timer deadlines before their tasks are polled
/// (a real timer only promises not-before); then all due timers fire together
pub fn jump(ns: u64) -> Result<(), Stop> {
    settle()?;
    let target = with(|w| w.now_ns.saturating_add(ns));
    fire_timers(target);
    settle()
}

struct Flag(AtomicBool);
impl Wake for Flag {
    fn wake(self: Arc<Self>) {
        self.0.store(true, Ordering::SeqCst);
    }
}

/// Poll `f` on the driver thread until it completes, running tasks, delivering datagrams and advancing virtual
/// time (to the next timer) whenever everything is idle. `max_virtual_ns` bounds the virtual time that may pass:
/// `Ok(None)` = still pending after that long. `Err(Stop::Deadlock)` = nothing can ever wake it (dead worker).
pub fn block_for<T>(f: impl Future<Output = T>, max_virtual_ns: u64) -> Result<Option<T>, Stop> {
    let mut f = std::pin::pin!(f);
    let flag = Arc::new(Flag(AtomicBool::new(true)));
    let waker = Waker::from(flag.clone());
    let mut cx = Context::from_waker(&waker);
    let limit = with(|w| w.now_ns.saturating_add(max_virtual_ns));
    loop {
        if flag.0.swap(false, Ordering::SeqCst) {
            count_step()?;
            if let Poll::Ready(v) = f.as_mut().poll(&mut cx) {
                // leave the world quiescent so that the next op starts from a settled state
                settle()?;
                return Ok(Some(v));
            }
        }
        settle()?;
        if flag.0.load(Ordering::SeqCst) {
            continue;
        }
        match next_timer() {
            Some(d) if d <= limit => {
                count_step()?;
                fire_timers(d);
            }
            Some(_) => {
                with(|w| w.now_ns = limit);
                return Ok(None);
            }
            None => return Err(Stop::Deadlock),
        }
    }
}

/// [`block_for`] with a generous default bound (one virtual hour); pending after that counts as a hang
pub fn block<T>(f: impl Future<Output = T>) -> Result<T, Stop> {
    match block_for(f, 3_600_000_000_000)? {
        Some(v) => Ok(v),
        None => Err(Stop::Hang),
    }
}

/// true once the factory worker (task 0) has panicked: the participants of this process are dead
pub fn worker_dead() -> bool {
    with(|w| w.task_panics.contains(&0))
}

pub type Factory = DomainParticipantFactoryAsync<SimNet>;

pub struct SimConfig {
    pub frag_size: usize,
    pub step_budget: u64,
    pub app_id: [u8; 4],
    pub host_id: [u8; 4],
    pub configuration: DustDdsConfiguration,
}
impl Default for SimConfig {
    fn default() -> Self {
        SimConfig { frag_size: 1344, step_budget: 3_000_000, app_id: [0xa1, 0xa2, 0xa3, 0xa4], host_id: [0xb1, 0xb2, 0xb3, 0xb4], configuration: DustDdsConfiguration::default() }
    }
}

/// create THE world and THE factory of this process (second call panics: one factory per process)
pub fn init(cfg: SimConfig) -> &'static Factory {
    {
        let mut g = WORLD.lock().unwrap();
        assert!(g.is_none(), "dsim::init called twice: dust-dds allows one factory per process");
        *g = Some(World::new(cfg.frag_size, cfg.step_budget));
    }
    Box::leak(Box::new(DomainParticipantFactoryAsync::new(SimRuntime, cfg.app_id, cfg.host_id, SimNet, cfg.configuration)))
}
