//! Shared helpers for the correspondence harness binaries (one binary per engine).
use std::io::{BufRead, Write};

/// Run a stateless engine: one output line per input line, each op under catch_unwind.
pub fn run_stateless(f: impl Fn(&[&str]) -> String + std::panic::RefUnwindSafe) {
    std::panic::set_hook(Box::new(|_| {}));
    let stdin = std::io::stdin();
    let stdout = std::io::stdout();
    let mut out = std::io::BufWriter::new(stdout.lock());
    for line in stdin.lock().lines() {
        let line = line.unwrap();
        let toks: Vec<&str> = line.split_whitespace().collect();
        if toks == ["reset"] { writeln!(out, "ok").unwrap(); continue; }
        let r = std::panic::catch_unwind(|| f(&toks));
        match r {
            Ok(s) => writeln!(out, "{}", s).unwrap(),
            Err(_) => writeln!(out, "PANIC").unwrap(),
        }
    }
}

pub fn hex(b: &[u8]) -> String {
    let mut s = String::with_capacity(b.len() * 2);
    for x in b {
        s.push_str(&format!("{:02x}", x));
    }
    if s.is_empty() { s.push('-'); }
    s
}

pub fn unhex(s: &str) -> Vec<u8> {
    if s == "-" { return vec![]; }
    (0..s.len() / 2).map(|i| u8::from_str_radix(&s[2 * i..2 * i + 2], 16).unwrap()).collect()
}
