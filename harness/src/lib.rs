//! Shared helpers for the correspondence harness binaries (one binary per engine).
use std::io::{BufRead, Write};

/// Run a stateless engine: one output line per input line, each op under catch_unwind.
pub fn run_stateless(f: impl Fn(&[&str]) -> String + std::panic::RefUnwindSafe) {
    std::panic::set_hook(Box::new(|_| {}));
    let stdin = std::io::stdin();
    let stdout = std::io::stdout();
    let mut out = std::io::BufWriter::new(stdout.lock());
    for line in stdin.lock().lines() {
        let line = line.unwrap();
        let toks: Vec<&str> = line.split_whitespace().collect();
        if toks == ["reset"] { writeln!(out, "ok").unwrap(); continue; }
        let r = std::panic::catch_unwind(|| f(&toks));
        match r {
            Ok(s) => writeln!(out, "{}", s).unwrap(),
            Err(_) => writeln!(out, "PANIC").unwrap(),
        }
    }
}

pub fn hex(b: &[u8]) -> String {
    let mut s = String::with_capacity(b.len() * 2);
    for x in b {
        s.push_str(&format!("{:02x}", x));
    }
    if s.is_empty() { s.push('-'); }
    s
}

pub fn unhex(s: &str) -> Vec<u8> {
    if s == "-" { return vec![]; }
    (0..s.len() / 2).map(|i| u8::from_str_radix(&s[2 * i..2 * i + 2], 16).unwrap()).collect()
}

/// Run a stateful engine: `reset` re-creates the state; each op runs under catch_unwind.
/// After a panic the state is considered poisoned: every further op of the case prints `POISONED`.
pub fn run_stateful<S>(init: impl Fn() -> S, step: impl Fn(&mut S, &[&str]) -> String) {
    std::panic::set_hook(Box::new(|_| {}));
    let stdin = std::io::stdin();
    let stdout = std::io::stdout();
    let mut out = std::io::BufWriter::new(stdout.lock());
    let mut st = init();
    let mut poisoned = false;
    for line in stdin.lock().lines() {
        let line = line.unwrap();
        let toks: Vec<&str> = line.split_whitespace().collect();
        if toks == ["reset"] {
            st = init();
            poisoned = false;
            writeln!(out, "ok").unwrap();
            continue;
        }
        if poisoned {
            writeln!(out, "POISONED").unwrap();
            continue;
        }
        let r = std::panic::catch_unwind(std::panic::AssertUnwindSafe(|| step(&mut st, &toks)));
        match r {
            Ok(s) => writeln!(out, "{}", s).unwrap(),
            Err(_) => {
                poisoned = true;
                writeln!(out, "PANIC").unwrap()
            }
        }
    }
}

/// 16-byte handle for a small integer id: big-endian in bytes 0..2 would make byte order = numeric
/// order; we put the high byte first and the low byte last to exercise lexicographic comparison.
pub fn handle16(id: u32) -> [u8; 16] {
    let mut h = [0u8; 16];
    h[0] = (id >> 8) as u8;
    h[15] = (id & 0xff) as u8;
    h
}
pub fn unhandle16(h: &[u8; 16]) -> u32 {
    ((h[0] as u32) << 8) | h[15] as u32
}
pub mod dsim;
