"""RTPS datagram builder, scenario skeleton and generator of the `fuzzdg` engine (C06: no datagram can crash, hang or
exhaust a running participant).

Scenario skeleton (the sub-language Driver/Receiver.lean accepts):

    participant P1 / participant P2                 P1 = the well-behaved peer whose identity is spoofed, P2 = the victim
    topic a1 P1 A ki / topic a2 P2 A ki             attacked pair  wa (P1) -> ra (P2): P2 is attacked as a READER
    topic b1 P1 B ki / topic b2 P2 B ki             attacked pair  wb (P2) -> rb (P1): P2 is attacked as a WRITER
    topic q1 P1 Q ki / topic q2 P2 Q ki             probe pair wp (P1) -> rp (P2): never spoofed
    topic r1 P1 R ki / topic r2 P2 R ki             probe pair wq (P2) -> rq (P1): never spoofed
    publisher pub1 P1 / subscriber sub1 P1 / publisher pub2 P2 / subscriber sub2 P2
    writer wa pub1 a1 Q / reader ra sub2 a2 Q / writer wb pub2 b2 Q / reader rb sub1 b1 Q
    writer wp pub1 q1 Q / reader rp sub2 q2 Q / writer wq pub2 r2 Q / reader rq sub1 r1 Q       (Q = reliable keep_all)
    write wa <i> <v> (n times) / write wb <i> <v> (m times)        real traffic: proxies leave their initial state
    hold from=P2                                    everything the victim sends from now on is kept back (and shown)
  then repeatedly
    x-w2d-inject P1 P2 user|meta <hex>              -> `ok #*` | PANIC | HANG | CRASH | ALLOC <bytes>      (= `inject` + allocation observation)
    inflight                                        -> the victim's direct replies, decoded
    drop-held
  and finally
    clear-faults / write wp 9 9 / take rp / wait-ack wp 1000000000 / write wq 8 8 / take rq / wait-ack wq 1000000000 / probe P2
"""
import struct
from vlib.core import Case

ENGINE = "fuzzdg"
BAD = ("PANIC", "HANG", "CRASH", "POISONED")
QOS = "reliability=reliable history=keep_all"
HOST_APP = bytes.fromhex("b1b2b3b4a1a2a3a4")
I64_MIN, I64_MAX = -2**63, 2**63 - 1
U32_MAX = 2**32 - 1

# submessage ids
PAD, ACKNACK, HEARTBEAT, GAP, INFO_TS, INFO_SRC, INFO_REPLY_IP4, INFO_DST, INFO_REPLY, NACK_FRAG, HEARTBEAT_FRAG, DATA, DATA_FRAG = (
    0x01, 0x06, 0x07, 0x08, 0x09, 0x0c, 0x0d, 0x0e, 0x0f, 0x12, 0x13, 0x15, 0x16)


def prefix_of(index):
    return HOST_APP + struct.pack("<I", index)


UNKNOWN_PREFIX = bytes.fromhex("c0ffee00c0ffee00c0ffee00")
ENT_UNKNOWN = bytes(4)


def ent(hex8):
    return bytes.fromhex(hex8)


def header(prefix, version=(2, 4), vendor=(1, 20)):
    return b"RTPS" + bytes(version) + bytes(vendor) + prefix


def sub(sid, flags, body, length=None):
    """little-endian submessage; `length` overrides the octetsToNextHeader field"""
    n = len(body) if length is None else length
    return bytes([sid, flags | 1]) + struct.pack("<H", n & 0xFFFF) + body


def sn(v):
    v &= 0xFFFFFFFFFFFFFFFF
    return struct.pack("<iI", ((v >> 32) ^ 0x80000000) - 0x80000000, v & 0xFFFFFFFF)


def bitmap(num_bits, offsets, words=None):
    n = min((num_bits + 31) // 32, 9) if words is None else words      # never more than 9 words (the decoders read at most 8)
    w = [0] * max(n, 0)
    for o in offsets:
        if o // 32 < len(w):
            w[o // 32] |= 1 << (31 - o % 32)
    return b"".join(struct.pack("<I", x) for x in w)


def snset(base, num_bits, offsets, words=None):
    return sn(base) + struct.pack("<I", num_bits & U32_MAX) + bitmap(num_bits, offsets, words)


def fnset(base, num_bits, offsets, words=None):
    return struct.pack("<II", base & U32_MAX, num_bits & U32_MAX) + bitmap(num_bits, offsets, words)


def i32(v):
    return struct.pack("<i", ((v & U32_MAX) ^ 0x80000000) - 0x80000000)


def m_info_ts(sec=0, frac=0, invalidate=False):
    return sub(INFO_TS, 2 if invalidate else 0, b"" if invalidate else struct.pack("<II", sec & U32_MAX, frac & U32_MAX))


def m_info_dst(prefix):
    return sub(INFO_DST, 0, prefix)


def m_info_src(prefix, version=(2, 4), vendor=(1, 20)):
    return sub(INFO_SRC, 0, bytes(4) + bytes(version) + bytes(vendor) + prefix)


def locators(n_present, claimed=None):
    """a LocatorList: the numLocators field says `claimed` (default: the truth), `n_present` locators follow"""
    body = struct.pack("<I", (n_present if claimed is None else claimed) & U32_MAX)
    for k in range(n_present):
        body += struct.pack("<iI", 1, 7400 + k) + bytes(12) + bytes([127, 0, 0, 1])
    return body


def m_info_reply(n_locators=0, claimed=None, multicast=None, trailing=0):
    """INFO_REPLY; `multicast` = (n_present, claimed) adds the second list and sets the MulticastFlag; `trailing` extra octets"""
    body = locators(n_locators, claimed)
    if multicast is not None:
        body += locators(*multicast)
    return sub(INFO_REPLY, 2 if multicast is not None else 0, body + bytes(trailing))


def m_pad():
    return sub(PAD, 0, b"")


def m_heartbeat(reader, writer, first, last, count, final=False, liveliness=False):
    return sub(HEARTBEAT, (2 if final else 0) | (4 if liveliness else 0), reader + writer + sn(first) + sn(last) + i32(count))


def m_heartbeat_frag(reader, writer, wsn, last_frag, count):
    return sub(HEARTBEAT_FRAG, 0, reader + writer + sn(wsn) + struct.pack("<I", last_frag & U32_MAX) + i32(count))


def m_gap(reader, writer, start, base, num_bits, offsets, words=None):
    return sub(GAP, 0, reader + writer + sn(start) + snset(base, num_bits, offsets, words))


def m_acknack(reader, writer, base, num_bits, offsets, count, final=True, words=None):
    return sub(ACKNACK, 2 if final else 0, reader + writer + snset(base, num_bits, offsets, words) + i32(count))


def m_nack_frag(reader, writer, wsn, fbase, num_bits, offsets, count, words=None):
    return sub(NACK_FRAG, 0, reader + writer + sn(wsn) + fnset(fbase, num_bits, offsets, words) + i32(count))


def ki_payload(i, v):
    return bytes([0, 1, 0, 0]) + struct.pack("<ii", i, v)


def m_data(reader, writer, wsn, payload, key=False, length=None):
    flags = 0x08 if key else (0x04 if payload else 0)
    return sub(DATA, flags, struct.pack("<HH", 0, 16) + reader + writer + sn(wsn) + payload, length)


def m_data_frag(reader, writer, wsn, frag_start, frags_in_sub, frag_size, sample_size, payload, length=None):
    body = (struct.pack("<HH", 0, 28) + reader + writer + sn(wsn) + struct.pack("<IHHI", frag_start & U32_MAX, frags_in_sub & 0xFFFF,
                                                                             frag_size & 0xFFFF, sample_size & U32_MAX) + payload)
    if len(body) < 32:
        body += bytes(32 - len(body))       # the decoder wants at least 32 octets after the submessage header
    return sub(DATA_FRAG, 0, body, length)


def datagram(prefix, subs):
    return (header(prefix) + b"".join(subs)).hex()


# ----------------------------------------------------------------------------- skeleton

# entity ids inside the fixed skeleton (creation order decides the entity key; checked by the corpus)
WA, RA = "00000002", "00000007"      # wa in P1, ra in P2
WB, RB = "00000002", "00000007"      # wb in P2, rb in P1
WP, RP = "00010002", "00010007"      # wp in P1 (second writer of P1), rp in P2 (second reader of P2)
WQ, RQ = "00010002", "00010007"
SEDP_PUB_W, SEDP_PUB_R = "000003c2", "000003c7"
SEDP_SUB_W, SEDP_SUB_R = "000004c2", "000004c7"
SPDP_W, SPDP_R = "000100c2", "000100c7"
PMSG_W, PMSG_R = "000200c2", "000200c7"


def skeleton(n_a, n_b):
    l = ["participant P1", "participant P2",
         "topic a1 P1 A ki", "topic a2 P2 A ki", "topic b1 P1 B ki", "topic b2 P2 B ki", "topic q1 P1 Q ki", "topic q2 P2 Q ki",
         "topic r1 P1 R ki", "topic r2 P2 R ki",
         "publisher pub1 P1", "subscriber sub1 P1", "publisher pub2 P2", "subscriber sub2 P2",
         f"writer wa pub1 a1 {QOS}", f"reader ra sub2 a2 {QOS}", f"writer wb pub2 b2 {QOS}", f"reader rb sub1 b1 {QOS}",
         f"writer wp pub1 q1 {QOS}", f"reader rp sub2 q2 {QOS}", f"writer wq pub2 r2 {QOS}", f"reader rq sub1 r1 {QOS}"]
    l += [f"write wa {k + 1} {k + 1}" for k in range(n_a)]
    l += [f"write wb {k + 1} {k + 1}" for k in range(n_b)]
    l += ["hold from=P2"]
    return l


EPILOGUE = ["clear-faults", "write wp 9 9", "take rp", "wait-ack wp 1000000000", "write wq 8 8", "take rq", "wait-ack wq 1000000000",
            "probe P2"]


def inject(hexdg, port="user"):
    return [f"x-w2d-inject P1 P2 {port} {hexdg}", "inflight", "drop-held"]


# allocation observation of the dsim extension `x-w2d-inject`: peak heap growth of the whole simulated world while one datagram is
# delivered and processed must stay below ALLOC_C * datagram length + ALLOC_D; a single request above ALLOC_LIMIT aborts the child
ALLOC_C, ALLOC_D, ALLOC_LIMIT = 64, 1 << 18, 2 << 30
ALLOC_ENV = {"DSIM_ALLOC_CHECK": f"{ALLOC_C}:{ALLOC_D}:{ALLOC_LIMIT}"}


# ----------------------------------------------------------------------------- generator (structure-aware, boundary-biased)

P1, P2 = prefix_of(0), prefix_of(1)
SN_EDGE = [0, 1, 2, 3, 4, 5, 7, 255, 256, 257, 2**15, 2**16, 2**31, 2**32 - 1, 2**32, I64_MAX, I64_MAX - 1, I64_MAX - 255, I64_MAX - 256,
           I64_MIN, I64_MIN + 1, -1, -2]
COUNT_EDGE = [-2**31, -1, 0, 1, 2, 3, 4, 5, 6, 100, 2**15, 2**16, 2**31 - 1, 2**31 - 2]
NUMBITS_EDGE = [0, 1, 2, 31, 32, 33, 64, 255, 256]
U32_EDGE = [0, 1, 2, 3, 255, 256, 257, 300, 2**15, 2**16, 2**31, U32_MAX, U32_MAX - 1, U32_MAX - 255]
U16_EDGE = [0, 1, 2, 3, 8, 12, 255, 256, 1344, 2**15, 65535, 65534]


def pick_sn(r, near):
    c = r.below(10)
    if c < 5:
        return near + r.range(-2, 4)
    if c < 9:
        return r.choice(SN_EDGE)
    return r.range(-10, 300)


def pick_bits(r, nb):
    if nb == 0:
        return []
    k = r.choice([0, 1, 1, 2, 3, 8])
    s = set()
    for _ in range(k):
        s.add(r.choice([0, 1, nb - 1, nb // 2, r.below(nb)]))
    return sorted(x for x in s if 0 <= x < nb)


def gen_sub(r, st, builtin=False, big_ranges=False):
    """one submessage; `st` = rough view of the victim's proxies (for 'near' values): dict(na, nb, cnt)"""
    kinds = ["hb", "hb", "gap", "gap", "data", "frag", "frag", "acknack", "acknack", "nackfrag", "nackfrag", "hbfrag", "infots", "infodst",
             "infosrc", "inforeply", "pad", "unknown"]
    k = r.choice(kinds)
    st["cnt"] += 1
    if builtin:
        w_rd, r_rd = r.choice([(SEDP_PUB_W, SEDP_PUB_R), (SEDP_SUB_W, SEDP_SUB_R), (PMSG_W, PMSG_R), ("000002c2", "000002c7")])
        wa, ra, rb, wb = ent(w_rd), ent(r_rd), ent(r_rd), ent(w_rd)
    else:
        wa = ent(WA) if r.chance(5, 6) else r.choice([bytes(4), ent("000000ff"), ent("00000007")])
        ra = ent(RA) if r.chance(3, 4) else r.choice([bytes(4), ent("12345678")])
        rb = ent(RB) if r.chance(5, 6) else r.choice([bytes(4), ent("000000ff"), ent("00000002")])
        wb = ent(WB) if r.chance(4, 5) else r.choice([bytes(4), ent("12345678"), ent("00000007")])
    cnt = r.choice(COUNT_EDGE) if r.chance(1, 3) else st["cnt"] + 10
    if k == "hb":
        first = pick_sn(r, 1) if r.chance(1, 2) else 1
        last = pick_sn(r, st["na"])
        return m_heartbeat(ra, wa, first, last, cnt, final=r.chance(1, 3), liveliness=r.chance(1, 6))
    if k == "gap":
        start = pick_sn(r, st["na"] + 1)
        nb = r.choice(NUMBITS_EDGE + [257, 2**16]) if r.chance(1, 8) else r.choice(NUMBITS_EDGE)
        c = r.below(10)
        if c < 6:
            base = start + r.range(-2, 6)
        elif c < 9:
            base = start + r.choice([0, 256, 2**15, 2**16, 2**20])
        else:
            base = pick_sn(r, st["na"] + 1)
        if not big_ranges and base - start > 2**24:
            base = start + 2**20
        base = max(I64_MIN, min(I64_MAX, base))
        return m_gap(ra, wa, start, base, nb, pick_bits(r, min(nb, 256)))
    if k == "data":
        s = pick_sn(r, st["na"] + 1)
        pl = r.choice([ki_payload(5, 5), ki_payload(6, 7), b"", ki_payload(1, 1)])
        return m_data(ra, wa, s, pl)
    if k == "frag":
        s = pick_sn(r, st["na"] + 1)
        fs = r.choice(U16_EDGE) if r.chance(1, 2) else 8
        ds = r.choice(U32_EDGE + [8, 12, 16, 20, 24]) if r.chance(2, 3) else 20
        start = r.choice(U32_EDGE) if r.chance(1, 3) else r.range(0, 4)
        n = r.choice(U16_EDGE) if r.chance(1, 3) else 1
        pl = r.choice([bytes([0, 1, 0, 0, 7, 0, 0, 0]), bytes(8), bytes([1] * 4), b""])
        return m_data_frag(ra, wa, s, start, n, fs, ds, pl)
    if k == "hbfrag":
        return m_heartbeat_frag(ra, wa, pick_sn(r, st["na"]), r.choice(U32_EDGE), cnt)
    if k == "acknack":
        nb = r.choice(NUMBITS_EDGE + [257, 2**31]) if r.chance(1, 8) else r.choice(NUMBITS_EDGE)
        base = pick_sn(r, st["nb"] + 1)
        return m_acknack(rb, wb, base, nb, pick_bits(r, min(nb, 256)), cnt, final=r.chance(1, 2))
    if k == "nackfrag":
        c = r.below(12)
        nb = r.choice(NUMBITS_EDGE)
        words = None
        if c == 0:
            nb, words = r.choice([257, 300, 2**16, U32_MAX]), 8
        base = r.choice(U32_EDGE) if r.chance(1, 2) else r.range(0, 3)
        return m_nack_frag(rb, wb, pick_sn(r, st["nb"]), base, nb, pick_bits(r, min(nb, 256)), cnt, words=words)
    if k == "infots":
        return m_info_ts(r.choice(U32_EDGE), r.choice(U32_EDGE), invalidate=r.chance(1, 4))
    if k == "infodst":
        return m_info_dst(r.choice([P1, P2, UNKNOWN_PREFIX, bytes(12)]))
    if k == "infosrc":
        return m_info_src(r.choice([P1, P1, P2, UNKNOWN_PREFIX, bytes(12)]))
    if k == "inforeply":
        # the element counts are read from the wire: vary them independently of the locators actually present
        n = r.choice([0, 0, 1, 2])
        claimed = None if r.chance(1, 3) else r.choice([0, 1, 2, 3, 255, 2**15, 2**16, 2**20, 2**24, 2**31 - 1, 2**31, U32_MAX, U32_MAX - 1])
        mc = None
        if r.chance(1, 3):
            m = r.choice([0, 1, 2])
            mc = (m, None if r.chance(1, 2) else r.choice([0, 1, 3, 2**16, 2**20, 2**31, U32_MAX]))
        return m_info_reply(n, claimed, mc, trailing=r.choice([0, 0, 4]))
    if k == "pad":
        return m_pad()
    return sub(r.choice([0x02, 0x20, 0x80, 0xff]), 0, bytes(r.choice([0, 4, 8])))


def gen_case(r, big_ranges=False):
    na, nb = r.choice([0, 1, 2, 2, 3]), r.choice([0, 1, 2, 2, 3])
    mode_b = r.chance(1, 6)
    lines = skeleton(na, nb)
    if mode_b:
        lines = lines[:-1]      # no `hold`: the victim's replies reach P1
    st = {"na": na, "nb": nb, "cnt": max(na, nb)}
    for _ in range(r.range(1, 5)):
        c = r.below(20)
        prefix = P1 if c < 14 else (UNKNOWN_PREFIX if c < 17 else (P2 if c < 18 else bytes(12)))
        subs = [gen_sub(r, st, builtin=mode_b and r.chance(2, 3), big_ranges=big_ranges) for _ in range(r.choice([1, 1, 1, 2, 2, 3, 4]))]
        if c >= 14 and r.chance(1, 2):
            subs.insert(r.below(len(subs) + 1), m_info_src(P1))
        dg = datagram(prefix, subs)
        if mode_b:
            lines.append(f"x-w2d-inject P1 P2 {r.choice(['meta', 'user'])} {dg}")
        else:
            lines += inject(dg)
    return Case(lines + EPILOGUE, {"mode": "B" if mode_b else "A"})
