"""Shared generator / oracles of engine `xcdr` (XCDR1/XCDR2 serializer + deserializer; C09, C10, XCDR part of C07).

Type AST   : ("prim", name) | ("str",) | ("enum", holder, [labels][, "a"|"m"]) | ("seq", T, bound) | ("arr", T, n)
             | ("struct", ext, [(id, opt, key, mu, T), ...])           ext in "FAM"
             | ("wstr",)                                                wide string, value = list of UTF-16 code units
             | ("union", ext, disc prim, [(id, [labels], is_default, T), ...])
Value AST  : int (bit pattern) | bytes (UTF-8 of a string) | list (sequence/array/wstring) | ("rec", [value or None])
             | ("un", disc, None | (branch id, value))
Text forms : see harness/src/bin/xcdr.rs (the grammar both the harness and the Lean driver parse).
"""
import os, re, subprocess
from vlib.core import Case, model_bin, run_lines

ENGINE = "xcdr"
PRIMS = {"b": 1, "y": 1, "u8": 1, "i8": 1, "c8": 1, "i16": 2, "u16": 2, "i32": 4, "u32": 4, "f32": 4,
         "i64": 8, "u64": 8, "f64": 8}
PRIM_NAMES = list(PRIMS)
REPO_XTYPES = None


# ----------------------------------------------------------------------------- which tree are we looking at
def repo_dir():
    """the checkout the harness is built against (path dependency of harness/Cargo.toml)"""
    toml = open(os.path.join(os.path.dirname(os.path.dirname(os.path.abspath(__file__))), "harness", "Cargo.toml")).read()
    m = re.search(r'dust_dds\s*=\s*\{\s*path\s*=\s*"([^"]+)/dds"', toml)
    return m.group(1) if m else "/repo"


FIX_MARKERS = [  # (cfg bit, file, regex present iff the fix is applied)
    ("d12", "deserializer.rs", r"checked_mul\(4\)"),
    ("d13", "deserializer.rs", r"with_capacity\(length\.min\("),
    ("d45", "deserializer.rs", r"The alignment origin of the member value is the start of the value"),
    ("d46", "deserializer.rs", r"optional member of a final structure is read in place"),
    ("d47", "deserializer.rs", r"fn deserialize_delimited"),
    ("d61", "serializer.rs", r"POP\( ORIGIN \)"),
    ("d66", "deserializer.rs", r"fn check_sequence_length"),
]


def tree_cfg():
    """which of the drafted repairs are present in the source tree -> model engine name `xcdr:<bits>`"""
    base = os.path.join(repo_dir(), "dds", "src", "xtypes")
    bits = ""
    for _, f, rx in FIX_MARKERS:
        try:
            src = open(os.path.join(base, f)).read()
        except OSError:
            src = ""
        bits += "1" if re.search(rx, src) else "0"
    return bits


def model_engine():
    return "xcdr:" + tree_cfg()


# ----------------------------------------------------------------------------- text
def ty_text(t):
    k = t[0]
    if k == "prim":
        return t[1]
    if k == "str":
        return "s"
    if k == "enum":
        return f"E{t[1]}{t[3] if len(t) > 3 else ''}[{','.join(str(x) for x in t[2])}]"
    if k == "wstr":
        return "w"
    if k == "union":
        bs = ",".join(f"{i}{'d' if d else ''}{'[' + ','.join(str(x) for x in ls) + ']' if ls else ''}:{ty_text(bt)}"
                      for (i, ls, d, bt) in t[3])
        return "U" + t[1] + t[2] + "{" + bs + "}"
    if k == "seq":
        return f"Q{t[2] if t[2] else ''}({ty_text(t[1])})"
    if k == "arr":
        return f"A{t[2]}({ty_text(t[1])})"
    if k == "struct":
        ms = ",".join(f"{i}{'o' if o else ''}{'k' if ky else ''}{'m' if mu else ''}:{ty_text(mt)}" for (i, o, ky, mu, mt) in t[2])
        return "S" + t[1] + "{" + ms + "}"
    raise ValueError(t)


def val_text(v):
    if v is None:
        return "_"
    if isinstance(v, int):
        return str(v)
    if isinstance(v, (bytes, bytearray)):
        return "x" + bytes(v).hex()
    if isinstance(v, list):
        return "[" + ",".join(val_text(x) for x in v) + "]"
    if isinstance(v, tuple) and v[0] == "rec":
        return "{" + ",".join(val_text(x) for x in v[1]) + "}"
    if isinstance(v, tuple) and v[0] == "un":
        return f"<{v[1]}>" if v[2] is None else f"<{v[1]},{v[2][0]}:{val_text(v[2][1])}>"
    raise ValueError(v)


# ----------------------------------------------------------------------------- generator
class Knobs:
    """probabilities (percent) of the constructs that are outside the proved subset (each is a known finding)"""
    def __init__(self, **kw):
        self.big_id = kw.get("big_id", 0)          # member ids >= 2^14 / >= 2^16 / colliding mod 2^16
        self.c8_high = kw.get("c8_high", 0)        # CHAR8 values >= 128
        self.mut_absent_v2 = kw.get("mut_absent_v2", 0)   # absent members of *nested* mutable structs
        self.empty_struct = kw.get("empty_struct", 0)
        self.long = kw.get("long", 2)              # long strings / sequences
        self.maxlong = kw.get("maxlong", 300)              # longest string
        self.maxseq = kw.get("maxseq", 300)                # longest sequence
        self.ext = kw.get("ext", "FFAAM")
        self.optional = kw.get("optional", 25)
        self.nesting = kw.get("nesting", 4)
        self.sentinel_id = kw.get("sentinel_id", 0)        # XCDR1: member id 1 in a nested mutable struct (D67)
        self.lc5_seq = kw.get("lc5_seq", 0)                # XCDR2: wide primitive sequence in a mutable struct (D62)
        self.ver = kw.get("ver", None)                     # encoding version the type is generated for
        # follow-up 2 (all 0 by default: the case streams of the first delivery are unchanged)
        self.wstr = kw.get("wstr", 0)                      # percent of member / element types that are wide strings
        self.union = kw.get("union", 0)                    # ... that are unions
        self.enum_ext = kw.get("enum_ext", 0)              # percent of enumerations declared appendable / mutable
        self.union_ext = kw.get("union_ext", "FFFAAM")
        self.union_ids = kw.get("union_ids", 1)
        self.union_nobranch = kw.get("union_nobranch", 0)  # discriminator that selects no branch (finding U3)


def gen_prim_name(r):
    return r.choice(PRIM_NAMES)


def gen_new_construct(r, depth, kn):
    """wide string / union with the probabilities of the knobs; None (and no random number drawn) when both are 0"""
    if not (kn.wstr or kn.union):
        return None
    x = r.below(100)
    if x < kn.wstr:
        return ("wstr",)
    if x < kn.wstr + kn.union and depth > 0:
        return gen_union(r, depth - 1, kn)
    return None


def gen_elem_type(r, depth, kn):
    n = gen_new_construct(r, depth, kn)
    if n is not None:
        return n
    c = r.below(10)
    if c < 5 or depth <= 0:
        return ("prim", gen_prim_name(r))
    if c < 7:
        return ("str",)
    if c < 8:
        return gen_enum(r, kn)
    return gen_struct(r, depth - 1, kn)


def gen_enum(r, kn=None):
    e = gen_enum0(r)
    if kn is not None and kn.enum_ext and r.below(100) < kn.enum_ext:
        e = e + (r.choice("am"),)
    return e


def gen_enum0(r):
    h = r.choice(["i8", "i16", "i32"])
    if r.chance(1, 4):
        return ("enum", h, [])
    bits = 8 * PRIMS[h]
    n = r.range(1, 4)
    ls = set()
    while len(ls) < n:
        ls.add(r.choice([0, 1, 2, 3, -1, 2 ** (bits - 1) - 1, -(2 ** (bits - 1)), r.range(-100, 100)]))
    return ("enum", h, sorted(ls))


def gen_member_type(r, depth, kn):
    n = gen_new_construct(r, depth, kn)
    if n is not None:
        return n
    c = r.below(20)
    if c < 8 or depth <= 0:
        return ("prim", gen_prim_name(r))
    if c < 10:
        return ("str",)
    if c < 11:
        return gen_enum(r, kn)
    if c < 14:
        return ("seq", gen_elem_type(r, depth, kn), r.choice([0, 0, 5, 100]))
    if c < 16:
        return ("arr", gen_elem_type(r, depth, kn), r.choice([1, 2, 3, 4, 7]))
    return gen_struct(r, depth - 1, kn)


def gen_ids(r, n, kn):
    if r.below(100) < kn.big_id:
        pool = [2 ** 14 - 1, 2 ** 14, 2 ** 14 + 1, 2 ** 16 - 1, 2 ** 16, 2 ** 16 + 5, 5, 2 ** 28 - 1, 49152, 1, 0,
                70000, 2428702757]
        ids = []
        for x in r.shuffle(pool):
            if x not in ids:
                ids.append(x)
        return ids[:n] if n <= len(ids) else list(range(n))
    c = r.below(10)
    if c < 6:
        return list(range(n))
    if c < 8:
        return r.shuffle(list(range(n)))          # declaration order != id order
    ids = set()
    while len(ids) < n:
        ids.add(r.choice([0, 1, 2, 3, 7, 10, 41, 100, 255, 256, 1000, 16128, r.range(0, 16128)]))
    return r.shuffle(sorted(ids))


def gen_struct(r, depth, kn, ext=None, top=False):
    ext = ext or r.choice(kn.ext)
    n = r.range(1, 5)
    if r.below(100) < kn.empty_struct:
        n = 0
    ids = gen_ids(r, n, kn)
    if ext == "M" and kn.ver == 1 and not top and 1 in [i % 16384 for i in ids] and not (r.below(100) < kn.sentinel_id):
        ids = [i + 2 if i % 16384 <= 1 else i for i in ids]
        if len(set(ids)) != len(ids):
            ids = list(range(2, n + 2))
    ms = []
    for i in range(n):
        t = gen_member_type(r, depth, kn)
        if ext == "M" and kn.ver == 2 and t[0] == "seq" and t[1][0] == "prim" and PRIMS[t[1][1]] > 1 \
                and not (r.below(100) < kn.lc5_seq):
            t = ("seq", ("prim", r.choice(["u8", "y", "i8", "b"])), t[2])
        opt = r.below(100) < kn.optional
        ms.append((ids[i], opt, r.chance(1, 10), r.chance(1, 8), t))
    return ("struct", ext, ms)


def gen_type(r, kn=None, ext=None):
    kn = kn or Knobs()
    return gen_struct(r, kn.nesting - 1, kn, ext, top=True)


UTF8_SAMPLES = ["", "a", "ab", "abc", "abcd", "hello world", "é", "€", "\U0001F600", "a\u0000b", "߿ࠀ￿"]


def gen_string(r, kn):
    c = r.below(10)
    if c < 6:
        return r.choice(UTF8_SAMPLES).encode("utf-8")
    if c < 9:
        return bytes(r.range(32, 126) for _ in range(r.range(0, 12)))
    if r.below(100) < kn.long * 10:
        return bytes(r.range(32, 126) for _ in range(r.range(100, kn.maxlong)))
    return "".join(chr(r.choice([0x41, 0xe9, 0x20ac, 0x1F600, 0x7f, 0x80])) for _ in range(r.range(1, 6))).encode("utf-8")


def gen_prim_val(r, name, kn):
    bits = 8 * PRIMS[name]
    if name == "b":
        return r.below(2)
    if name == "c8":
        if r.below(100) < kn.c8_high:
            return r.range(128, 255)
        return r.choice([0, 65, 97, 127, r.range(0, 127)])
    c = r.below(10)
    if c < 4:
        return r.choice([0, 1, 2 ** bits - 1, 2 ** (bits - 1), 2 ** (bits - 1) - 1, 0x0102030405060708 % 2 ** bits])
    if c < 6:
        return r.range(0, 255) % 2 ** bits
    return r.range(0, 2 ** bits - 1)


def gen_len(r, kn):
    c = r.below(20)
    if c < 4:
        return 0
    if c < 16:
        return r.range(1, 5)
    if c < 19 or kn.long == 0:
        return r.range(6, 20)
    return r.range(50, min(kn.maxlong, kn.maxseq))


def gen_value(r, t, kn=None, nested_mutable=False, ver=None):
    kn = kn or Knobs()
    k = t[0]
    if k == "prim":
        return gen_prim_val(r, t[1], kn)
    if k == "str":
        return gen_string(r, kn)
    if k == "wstr":
        return gen_wstring(r, kn)
    if k == "union":
        return gen_union_value(r, t, kn, ver)
    if k == "enum":
        bits = 8 * PRIMS[t[1]]
        if t[2]:
            return r.choice(t[2]) % 2 ** bits
        return r.choice([0, 1, 2 ** bits - 1, r.range(0, 2 ** bits - 1)])
    if k == "seq":
        n = gen_len(r, kn)
        if t[1][0] == "struct" and n > 8:
            n = r.range(0, 8)
        return [gen_value(r, t[1], kn, True, ver) for _ in range(n)]
    if k == "arr":
        return [gen_value(r, t[1], kn, True, ver) for _ in range(t[2])]
    if k == "struct":
        fs = []
        for (i, opt, ky, mu, mt) in t[2]:
            absent = False
            if opt and r.chance(1, 3):
                absent = True
            if t[1] == "M" and r.chance(1, 5):
                # any member of a mutable structure may be missing; in a *nested* one this is outside the
                # proved subset for XCDR2 (finding D65) -> only with the knob
                if not nested_mutable or r.below(100) < kn.mut_absent_v2:
                    absent = True
            if t[1] == "M" and opt and nested_mutable and absent and not (r.below(100) < kn.mut_absent_v2):
                absent = False
            fs.append(None if absent else gen_value(r, mt, kn, True, ver))
        return ("rec", fs)
    raise ValueError(t)


# ----------------------------------------------------------------------------- parsers of the text forms
class _P:
    def __init__(self, s):
        self.s, self.i = s, 0
    def peek(self):
        return self.s[self.i] if self.i < len(self.s) else ""
    def eat(self, c):
        if self.peek() != c:
            raise ValueError(f"expected {c!r} at {self.i} in {self.s[:80]!r}")
        self.i += 1
    def num(self):
        j = self.i
        while self.peek().isdigit():
            self.i += 1
        if j == self.i:
            raise ValueError("number expected")
        return int(self.s[j:self.i])
    def prim(self):
        for w in ("i16", "u16", "i32", "u32", "f32", "i64", "u64", "f64", "u8", "i8", "c8", "b", "y"):
            if self.s.startswith(w, self.i):
                self.i += len(w)
                return w
        raise ValueError("primitive expected")
    def ty(self):
        c = self.peek()
        if c == "s":
            self.i += 1
            return ("str",)
        if c == "w":
            self.i += 1
            return ("wstr",)
        if c == "U":
            self.i += 1
            ext = self.peek(); self.i += 1
            disc = self.prim()
            self.eat("{")
            bs = []
            if self.peek() == "}":
                self.i += 1
                return ("union", ext, disc, bs)
            while True:
                bid = self.num()
                dflt = self.peek() == "d"
                if dflt:
                    self.i += 1
                ls = []
                if self.peek() == "[":
                    self.i += 1
                    while self.peek() != "]":
                        neg = self.peek() == "-"
                        if neg:
                            self.i += 1
                        n = self.num()
                        ls.append(-n if neg else n)
                        if self.peek() == ",":
                            self.i += 1
                    self.i += 1
                self.eat(":")
                bs.append((bid, ls, dflt, self.ty()))
                if self.peek() == ",":
                    self.i += 1
                    continue
                self.eat("}")
                return ("union", ext, disc, bs)
        if c == "Q":
            self.i += 1
            bound = self.num() if self.peek().isdigit() else 0
            self.eat("("); e = self.ty(); self.eat(")")
            return ("seq", e, bound)
        if c == "A":
            self.i += 1
            n = self.num()
            self.eat("("); e = self.ty(); self.eat(")")
            return ("arr", e, n)
        if c == "S":
            self.i += 1
            ext = self.peek(); self.i += 1
            self.eat("{")
            ms = []
            if self.peek() == "}":
                self.i += 1
                return ("struct", ext, ms)
            while True:
                mid = self.num()
                opt = key = mu = False
                while self.peek() in "okm" and self.peek():
                    f = self.peek(); self.i += 1
                    opt, key, mu = opt or f == "o", key or f == "k", mu or f == "m"
                self.eat(":")
                ms.append((mid, opt, key, mu, self.ty()))
                if self.peek() == ",":
                    self.i += 1
                    continue
                self.eat("}")
                return ("struct", ext, ms)
        if c == "E":
            self.i += 1
            h = self.prim()
            ext = ()
            if self.peek() in ("a", "m"):
                ext = (self.peek(),)
                self.i += 1
            self.eat("[")
            ls = []
            if self.peek() == "]":
                self.i += 1
                return ("enum", h, ls) + ext
            while True:
                neg = self.peek() == "-"
                if neg:
                    self.i += 1
                n = self.num()
                ls.append(-n if neg else n)
                if self.peek() == ",":
                    self.i += 1
                    continue
                self.eat("]")
                return ("enum", h, ls) + ext
        return ("prim", self.prim())
    def val(self):
        c = self.peek()
        if c == "x":
            self.i += 1
            j = self.i
            while self.peek() and self.peek() in "0123456789abcdefABCDEF":
                self.i += 1
            return bytes.fromhex(self.s[j:self.i])
        if c == "_":
            self.i += 1
            return None
        if c == "<":
            self.i += 1
            d = self.num()
            if self.peek() == ">":
                self.i += 1
                return ("un", d, None)
            self.eat(",")
            bid = self.num()
            self.eat(":")
            v = self.val()
            self.eat(">")
            return ("un", d, (bid, v))
        if c in "[{":
            close = "]" if c == "[" else "}"
            self.i += 1
            xs = []
            if self.peek() == close:
                self.i += 1
            else:
                while True:
                    xs.append(self.val())
                    if self.peek() == ",":
                        self.i += 1
                        continue
                    self.eat(close)
                    break
            return xs if c == "[" else ("rec", xs)
        return self.num()


def parse_ty(s):
    p = _P(s); t = p.ty()
    if p.i != len(s):
        raise ValueError("trailing text in type")
    return t


def parse_val(s):
    p = _P(s); v = p.val()
    if p.i != len(s):
        raise ValueError("trailing text in value")
    return v


# ----------------------------------------------------------------------------- structural queries used by oracles
def pairs(t, v, top=True):
    """yield (type, value, is_top) for every present sub-value"""
    yield (t, v, top)
    if t[0] == "union":
        if v[2] is not None:
            bt = next((b[3] for b in t[3] if b[0] == v[2][0]), None)
            if bt is not None:
                yield from pairs(bt, v[2][1], False)
        return
    if t[0] == "wstr":
        return
    if t[0] in ("seq", "arr"):
        for x in v:
            yield from pairs(t[1], x, False)
    elif t[0] == "struct":
        for m, f in zip(t[2], v[1]):
            if f is not None:
                yield from pairs(m[4], f, False)


def size_pos(t, ver):
    """mirror of `sizePos` (Model/XcdrWF.lean): every value of the type takes at least one byte"""
    k = t[0]
    if k in ("prim", "str", "enum", "seq", "wstr", "union"):
        return True
    if k == "arr":
        return t[2] > 0 and size_pos(t[1], ver)
    if t[1] == "M":
        return True
    if t[1] == "A" and ver == 2:
        return True
    return bool(t[2]) and (t[2][0][1] or size_pos(t[2][0][4], ver))


def rough_size(t, v):
    """a lower bound of the serialized size (no padding, no headers)"""
    k = t[0]
    if k == "prim" or k == "enum":
        return 1
    if k == "str":
        return 5 + len(v)
    if k == "wstr":
        return 6 + 2 * len(v)
    if k == "union":
        bt = next((b[3] for b in t[3] if v[2] is not None and b[0] == v[2][0]), None)
        return 1 + (rough_size(bt, v[2][1]) if bt is not None else 0)
    if k in ("seq", "arr"):
        return sum(rough_size(t[1], x) for x in v)
    return sum(rough_size(m[4], f) for m, f in zip(t[2], v[1]) if f is not None)


def pid_overflow(mid, mu):
    return mid % 65536 + (16384 if mu else 0) >= 65536


# causes of the open findings, in attribution priority
CAUSES = [
    "xcdr1-parameter-id-overflows-u16",                       # D64
    "member-ids-collide-mod-2^16",                            # D15
    "xcdr1-member-id-needs-extended-pid",                     # D68
    "xcdr1-member-larger-than-65535-bytes",                   # D68
    "xcdr1-mutable-member-id-1-is-sentinel",                  # D67
    "xcdr1-zero-size-member-value-decodes-as-absent",         # D69
    "xcdr2-lc5-for-primitive-sequence",                       # D62
    "xcdr2-nested-mutable-absent-member-search-unbounded",    # D65
    "sequence-of-zero-size-elements-rejected",                # consequence of D66
    "xcdr1-empty-mutable-struct-sentinel-alignment",          # D72
]


def constructs(t, v, ver):
    """names of the constructs of (type, value) that lie outside the round-trip subset for XCDR<ver>.
    Every name is the `cause` of a known finding; an oracle violation is attributed to a finding only if the
    case really contains that construct (so a violation inside the proved subset is never suppressed)."""
    out = set()
    for (st, sv, top) in pairs(t, v):
        # (D63 repaired: CHAR8 values 128..255 are inside the subset now)
        if st[0] in ("seq", "arr"):
            if st[0] == "seq" and len(sv) > 0 and not size_pos(st[1], ver):
                out.add("sequence-of-zero-size-elements-rejected")
        if st[0] != "struct":
            continue
        mut = st[1] == "M"
        if mut and ver == 1 and not st[2]:
            out.add("xcdr1-empty-mutable-struct-sentinel-alignment")
        ids = [m[0] for m in st[2]]
        low = [i % 65536 for i in ids]
        if mut and len(set(low)) != len(low):
            out.add("member-ids-collide-mod-2^16")
        for m, f in zip(st[2], sv[1]):
            mid, opt, _, mu, mt = m
            header1 = ver == 1 and ((mut and f is not None) or (not mut and opt))
            if header1 and pid_overflow(mid, mu):
                out.add("xcdr1-parameter-id-overflows-u16")
            if header1 and f is not None and rough_size(mt, f) >= 60000:
                out.add("xcdr1-member-larger-than-65535-bytes")
            if header1 and f is not None and not size_pos(mt, 1):
                out.add("xcdr1-zero-size-member-value-decodes-as-absent")
            if ver == 1 and mut and f is not None:
                if mid % 65536 >= 16384:
                    out.add("xcdr1-member-id-needs-extended-pid")
                if mid % 16384 == 1 and not top:
                    out.add("xcdr1-mutable-member-id-1-is-sentinel")
            if ver == 2 and mut and f is not None and mt[0] == "seq" and mt[1][0] == "prim" \
                    and PRIMS[mt[1][1]] > 1 and len(f) > 0:
                out.add("xcdr2-lc5-for-primitive-sequence")
        if ver == 2 and mut and not top and any(f is None for f in sv[1]):
            out.add("xcdr2-nested-mutable-absent-member-search-unbounded")
    return out


def attribute(t, v, ver):
    cs = constructs(t, v, ver)
    for c in CAUSES:
        if c in cs:
            return c
    return None


def strict_tail(t, v, ver):
    """the last byte of the encoding of `v` is significant for the (repaired) decoder: removing it makes decoding
    fail or change. Used by the padding oracle (`C09_padding_recorded`): only then can the recorded pad count be
    checked to be not too small."""
    k = t[0]
    if k in ("prim", "str", "enum", "wstr"):
        return True
    if k == "union":
        return False
    if k == "seq":
        return True if len(v) == 0 else strict_tail(t[1], v[-1], ver)
    if k == "arr":
        return len(v) > 0 and strict_tail(t[1], v[-1], ver)
    ext, ms, fs = t[1], t[2], v[1]
    if ext == "A" or not ms:
        return False                      # an appendable structure swallows NotEnoughData
    if ext == "F":
        m, f = ms[-1], fs[-1]
        return True if f is None else (strict_tail(m[4], f, ver) and not (ver == 1 and m[1] and not size_pos(m[4], 1)))
    # mutable
    if ver == 1:
        return all(m[0] % 16384 != 1 for m, f in zip(ms, fs) if f is not None) and \
            all(m[0] % 65536 < 16384 for m in ms)
    present = sorted(((m[0], m, f) for m, f in zip(ms, fs) if f is not None), key=lambda x: x[0])
    if not present:
        return True
    if len(set(m[0] % 65536 for m in ms)) != len(ms):
        return False
    _, m, f = present[-1]
    return strict_tail(m[4], f, ver)


# ----------------------------------------------------------------------------- corpus (exemplars of the findings first)
CORPUS_RT = [
    # D45 XCDR1 mutable struct with an 8-byte member
    "rt 1 le SM{0:u64} {1234605616436508552}",
    # D46 XCDR1 optional member of a final struct followed by another member
    "rt 1 le SF{0:u8,1o:u64,2:u16} {1,5,7}",
    "rt 1 le SF{0:u8,1o:u64,2:u16} {1,_,7}",
    # D47 XCDR2 nested mutable struct followed by another member
    "rt 2 le SF{0:u8,1:SM{0:u8,2:u8},2:u32} {1,{2,3},9}",
    "rt 2 le SF{0:u8,1:SM{0:u8,1:u8},2:u32} {1,{2,3},9}",
    # D61 XCDR1: alignment after an optional member / nested mutable struct relative to the member's origin
    "rt 1 le SF{0:u64,1o:u8,2:u64} {1,2,3}",
    "rt 1 be SF{0:u64,1:SM{0:u8},2:u64} {1,{2},3}",
    # D15 member ids equal mod 2^16
    "rt 2 le SM{5:u32,65541:u32} {1,2}",
    "rt 1 le SM{5:u32,65541:u32} {1,2}",
    # D62 XCDR2 mutable: LC=5 for a sequence of 2-byte elements followed by another member
    "rt 2 le SM{0:Q(u16),1:u32} {[1,2,3],7}",
    # D63 CHAR8 >= 128
    "rt 1 le SF{0:c8} {200}",
    # D64 XCDR1 parameter id overflow (debug build)
    "rt 1 le SM{49152m:u8} {1}",
    # D65 XCDR2 nested mutable with an absent member: the search runs into the next members
    "rt 2 le SF{0:SM{0:u8,1:u32},1:u32,2:u32} {{1,_},536870913,77}",
    "rt 2 le SF{0:SM{0:u8,1:u32},1:u32} {{1,_},536870913}",
    # D67 XCDR1 nested mutable struct with member id 1 (= PID_SENTINEL) followed by another member
    "rt 1 le SF{0:SM{0:u8,1:u8},1:u32} {{1,2},7}",
    # D68 XCDR1 member id >= 2^14
    "rt 1 le SM{16384:u8} {5}",
    # D69 XCDR1 zero-size member value
    "rt 1 le SM{0:SF{},2:u8} {{},5}",
    # D72 XCDR1 mutable struct without members at a position that is not a multiple of 4
    "rt 1 le SF{0:u8,1:SM{}} {1,{}}",
    # D70 sequence of empty structs (rejected since D66)
    "rt 1 le SF{0:Q(SF{})} {[{},{}]}",
    # ids >= 2^16 without collision, hashid-like id >= 2^28 (work)
    "rt 2 le SM{70000:u8} {5}",
    "rt 2 le SM{2428702757:u8} {5}",
    "rt 1 le SM{70000:u8} {5}",
    # plain ones
    "rt 1 le SF{0:u8,1:u64,2:s} {1,2,x6162}",
    "rt 2 be SF{0:u8,1:u64,2:s} {1,2,x6162}",
    "rt 2 le SA{0:Q(s),1:A2(SF{0:u8}),2:Ei16[]} {[x61,x],[{1},{2}],3}",
    "rt 1 le SM{3:u8,2:u16} {1,2}",
    "rt 2 le SM{3:u8,1:u16} {1,_}",
    "rt 1 be SM{0:u8,2o:s,3:Q(u32)} {1,_,[1,2]}",
    "sizeof",
]
CORPUS_DE = [
    # D13 Vec::with_capacity(length)
    "de SF{0:Q(u64)} 00010000ffffffff",
    "de SF{0:Q(s)} 00010000ffffffff",
    # D12 4 * NEXTINT
    "de SM{0:u8} 000b0000100000000000006000000080",
    "de SM{0:u8} 000b0000100000000000007000000020",
    # zero-length string (D11 analogue: saturating_sub in this decoder)
    "de SF{0:s} 0001000000000000",
    "de SF{0:s} 000100000000000000",
    "de SF{0:u8} -",
    "de SF{0:u8} 000c0000",
    "de SA{0:u8,1:u32} 0001000005",
]


# ----------------------------------------------------------------------------- helpers for rt lines
def rt_line(ver, end, t, v):
    return f"rt {ver} {end} {ty_text(t)} {val_text(v)}"


def parse_rt(out):
    """-> (ser_status, hex, [d0, d1, d2]) ; ser_status in ok|PANIC|err ...|bad-op"""
    if not out.startswith("ok "):
        return out, None, []
    parts = out[3:].split(" | ")
    return "ok", parts[0], parts[1:]


def model_outputs(lines, engine=None):
    """run lines through the Lean driver (used to obtain specification bytes / valid encodings)"""
    rc, outs, err = run_lines([model_bin(), engine or model_engine()], lines, timeout=900)
    if rc != 0 or len(outs) != len(lines):
        raise RuntimeError(f"model driver failed rc={rc} {err}")
    return outs


# ----------------------------------------------------------------------------- C07 (XCDR decoder part)
def mutate(r, b):
    b = bytearray(b)
    c = r.below(12)
    if c < 3 and len(b) > 4:                       # truncate
        return bytes(b[:r.range(0, len(b) - 1)])
    if c < 6 and len(b) > 4:                       # flip one bit
        i = r.range(0, len(b) - 1)
        b[i] ^= 1 << r.below(8)
        return bytes(b)
    if c < 9 and len(b) >= 8:                      # overwrite an aligned u32 with a boundary value
        i = 4 * r.range(1, len(b) // 4 - 1)
        val = r.choice([0, 1, 0xffffffff, 0x80000000, 0x7fffffff, 0x40000000, 0x20000000, 0x10000000, 0x60000000,
                        0x70000000, 0x50000000, 0x00010000, 0xffff, len(b), len(b) - 4, 0x3fffffff, 0x1fffffff,
                        0x10000001, 0x04000001])
        b[i:i + 4] = val.to_bytes(4, r.choice(["little", "big"]))
        return bytes(b)
    if c < 10:                                     # change representation identifier
        if len(b) >= 2:
            b[1] = r.choice([0, 1, 2, 3, 6, 7, 8, 9, 10, 11, 4, 5, 12, 255])
        return bytes(b)
    if c < 11:                                     # append garbage
        return bytes(b) + r.bytes(r.range(1, 9))
    return bytes(b[:4]) + r.bytes(r.range(0, 24))  # random body


CORPUS_DE_W = [   # wide strings: length 0, unpaired surrogates, missing / non-zero terminator, truncated
    "de SF{0:w} 0001000000000000",
    "de SF{0:w} 00010000020000004100ffff",
    "de SF{0:w} 000100000200000000d80000",
    "de SF{0:w} 000100000300000000dc00d80000",
    "de SF{0:w} 00010000030000003dd800de0000",
    "de SF{0:w} 0001000003000000410042004300",
    "de SF{0:w} 00010000ffffffff41000000",
    "de SF{0:Q(w)} 00010000ffffffff",
    "de SF{0:w,1:u8} 00010000010000000000070000",
]


def c07_cases(rng, tier):
    """cases for the XCDR-decoder part of C07: `de <ty> <hex>` lines (corpus, mutated valid encodings, random bytes)"""
    r = rng
    n = 1500 if tier == "quick" else 40000
    kn = Knobs(big_id=5, c8_high=5, mut_absent_v2=30, empty_struct=3, long=1, maxlong=120, wstr=8, enum_ext=30)
    cases = [Case([l]) for l in CORPUS_DE] + [Case([l]) for l in CORPUS_DE_W]
    base = []
    for _ in range(n // 5):
        t = gen_type(r, kn)
        ver = r.choice([1, 2])
        v = gen_value(r, t, kn, ver=ver)
        base.append((t, f"ser {ver} {r.choice(['le', 'be'])} {ty_text(t)} {val_text(v)}"))
    outs = model_outputs([l for _, l in base])
    for (t, _), o in zip(base, outs):
        if not o.startswith("ok "):
            continue
        enc = bytes.fromhex(o[3:]) if o[3:] != "-" else b""
        tt = ty_text(t)
        for _ in range(5):
            m = mutate(r, enc)
            cases.append(Case([f"de {tt} {m.hex() or '-'}"]))
    return cases


def c07_oracle(case, out):
    viol = []
    for l, o in zip(case.lines, out):
        if not l.startswith("de "):
            continue
        if o == "PANIC":
            viol.append({"what": "the XCDR decoder panicked on a byte string", "op": l, "got": o, "cause": c07_cause(l, o)})
        elif o == "ALLOC-LIMIT":
            viol.append({"what": "the XCDR decoder requested an allocation above 256 MiB for a short input", "op": l, "got": o,
                         "cause": "xcdr-with-capacity-unbounded"})
        elif o.startswith("ABORT") or o.startswith("CRASH"):
            viol.append({"what": "the XCDR decoder aborted the process", "op": l, "got": o, "cause": None})
    return viol


def c07_cause(line, out):
    """a PANIC of the decoder is attributed to D12 only if the payload is XCDR2 and contains an EMHEADER with LC 6/7
    whose NEXTINT overflows the multiplication"""
    try:
        b = bytes.fromhex(line.split()[2]) if line.split()[2] != "-" else b""
    except ValueError:
        return None
    if len(b) < 12 or b[0] != 0 or b[1] not in (6, 7, 8, 9, 10, 11):
        return None
    order = "little" if b[1] % 2 == 1 else "big"
    body = b[4:]
    for i in range(0, len(body) - 7, 4):
        em = int.from_bytes(body[i:i + 4], order)
        nxt = int.from_bytes(body[i + 4:i + 8], order)
        lc = (em >> 28) & 7
        if (lc == 6 and nxt * 4 >= 2 ** 32) or (lc == 7 and nxt * 8 >= 2 ** 32):
            return "xcdr2-lc6-lc7-multiplication-overflow"
    return None


# ============================================================================= keyed types (C11, C12)
def flat_key_members(t, path=()):
    """the traversal of KeyHolderType::from_dynamic_type: (path, member) of every key member; descends into non-key,
    non-optional structure members"""
    out = []
    if t[0] == "struct":
        for idx, m in enumerate(t[2]):
            if m[2]:
                out.append((path + (idx,), m))
            elif m[4][0] == "struct" and not m[1]:
                out += flat_key_members(m[4], path + (idx,))
    return out


def flat_ids_collide(t):
    ids = [m[0] for _, m in flat_key_members(t)]
    return len(set(ids)) != len(ids)


def value_at(v, path):
    for i in path:
        if v is None:
            return None
        v = v[1][i]
    return v


def key_view(t, v):
    """the key of the sample as the property means it: the values of the key members, by position (not by member id)"""
    return [val_text(value_at(v, p)) for p, _ in flat_key_members(t)]


def key_holder(t, v):
    """type and value of the key-only payload (key members by position; flattened ids may collide)"""
    ks = flat_key_members(t)
    kt = ("struct", t[1], [(m[0], False, True, m[3], m[4]) for _, m in ks])
    return kt, ("rec", [value_at(v, p) for p, _ in ks])


def legal_sample(t, v):
    """no non-optional member without value"""
    if t[0] in ("seq", "arr"):
        return all(legal_sample(t[1], e) for e in v)
    if t[0] != "struct":
        return True
    for (i, o, k, mu, mt), f in zip(t[2], v[1]):
        if f is None:
            if not o:
                return False
        elif not legal_sample(mt, f):
            return False
    return True


UNBOUNDED = float("inf")


def max_key_size(t):
    """maximum serialized size (big-endian XCDR1, from offset 0) of the key members: an int, UNBOUNDED (a string or a
    sequence without bound), or None (optional / mutable parts: this simple calculator does not know).
    Independent of the Lean `keyMaxSize`."""

    def size(tt, pos):
        k = tt[0]
        if pos is None or pos == UNBOUNDED:
            return pos
        if k == "prim" or k == "enum":
            n = PRIMS[tt[1]]
            return (pos + n - 1) // n * n + n
        if k == "str":
            return UNBOUNDED
        if k == "seq":
            if not tt[2]:
                return UNBOUNDED
            pos = (pos + 3) // 4 * 4 + 4
            for _ in range(tt[2]):
                pos = size(tt[1], pos)
            return pos
        if k == "arr":
            for _ in range(tt[2]):
                pos = size(tt[1], pos)
            return pos
        if k == "struct" and tt[1] in "FA":
            for m in tt[2]:
                if m[1]:
                    return None
                pos = size(m[4], pos)
            return pos
        return None
    pos = 0
    for _, m in flat_key_members(t):
        if m[1]:
            return None
        pos = size(m[4], pos)
    return pos


def key_bytes_py(t, v):
    """independent big-endian XCDR1 serialization of the key members (in declaration order, no header); None when the
    key contains optional members / mutable structures (left to the Lean specification)"""
    out = bytearray()

    def put(tt, x):
        k = tt[0]
        if x is None:
            return False
        if k == "prim" or k == "enum":
            n = PRIMS[tt[1]]
            out.extend(b"\0" * (-len(out) % n))
            out.extend(int(x).to_bytes(n, "big"))
            return True
        if k == "str":
            out.extend(b"\0" * (-len(out) % 4))
            out.extend((len(x) + 1).to_bytes(4, "big") + bytes(x) + b"\0")
            return True
        if k == "seq":
            out.extend(b"\0" * (-len(out) % 4))
            out.extend(len(x).to_bytes(4, "big"))
            return all(put(tt[1], e) for e in x)
        if k == "arr":
            return all(put(tt[1], e) for e in x)
        if k == "struct" and tt[1] in "FA":
            return all((not m[1]) and put(m[4], f) for m, f in zip(tt[2], x[1]))
        return False
    for p, m in flat_key_members(t):
        if m[1] or not put(m[4], value_at(v, p)):
            return None
    return bytes(out)


def strip_keys(t):
    if t[0] in ("seq", "arr"):
        return (t[0], strip_keys(t[1]), t[2])
    if t[0] == "struct":
        return ("struct", t[1], [(i, o, False, mu, strip_keys(mt)) for (i, o, k, mu, mt) in t[2]])
    return t


def has_opt_keyed_struct(t):
    """an OPTIONAL member of structure type whose structure carries key members (they are NOT part of the key)"""
    if t[0] != "struct":
        return False
    for m in t[2]:
        if m[4][0] == "struct":
            if m[1] and not m[2] and any_key_flag(m[4]):
                return True
            if has_opt_keyed_struct(m[4]):
                return True
    return False


def any_key_flag(t):
    return t[0] == "struct" and any(m[2] or any_key_flag(m[4]) for m in t[2])


def opt_keyed_struct_paths(t, path=(), reach=True):
    """paths of the optional non-key structure members (with key flags inside) that the key traversal reaches,
    i.e. whose parent chain consists of non-key, non-optional structures"""
    out = []
    if t[0] == "struct":
        for idx, m in enumerate(t[2]):
            if m[4][0] == "struct" and not m[2]:
                if m[1]:
                    if any_key_flag(m[4]):
                        out.append(path + (idx,))
                else:
                    out += opt_keyed_struct_paths(m[4], path + (idx,))
    return out


def key_struct_paths(t, path=()):
    """(path of an earlier key member, path of a later KEY member of structure type whose structure has a key-flagged
    member with the id of that earlier key member) - within one structure the key traversal reaches"""
    out = []
    if t[0] == "struct":
        for j, m in enumerate(t[2]):
            if m[2] and m[4][0] == "struct":
                inner = [im[0] for im in m[4][2] if im[2]]
                for i, e in enumerate(t[2][:j]):
                    if e[2] and e[0] in inner:
                        out.append((path + (i,), path + (j,)))
            elif not m[2] and not m[1] and m[4][0] == "struct":
                out += key_struct_paths(m[4], path + (j,))
    return out


def add_key_struct(r, t):
    """follow-up 5: append to the top structure a KEY member of structure type whose structure has key members of its
    own, the first of them with the member id (and, 3 times in 4, the type) of an earlier outer key member - the natural
    numbering of a keyed type reused as a key (`Sensor{@key id (0); @key Location location (1)}`, `Location{@key zone (0)}`).
    The code copies a key member whole and does not descend into it: the inner key flags are irrelevant."""
    ms = list(t[2])
    outer = [(i, m) for i, m in enumerate(ms) if m[2] and not m[1]]
    if not outer:
        return t
    i, e = r.choice(outer)
    ids = [m[0] for m in ms]
    same = r.chance(3, 4) and e[4][0] in ("prim", "str", "enum")
    it = e[4] if same else ("prim", r.choice(["u8", "u16", "u32", "u64"]))
    inner = [(e[0], False, True, False, it)]
    for j in range(r.below(3)):
        inner.append((max(ids + [e[0]]) + 2 + j, False, r.chance(1, 2), False, ("prim", r.choice(["u8", "u16", "u32"]))))
    new = (max(ids) + 1 + (1 if max(ids) == 0 else 0), False, True, False, ("struct", r.choice("FFA"), inner))
    ms.insert(r.range(i + 1, len(ms)), new)
    return ("struct", t[1], ms)


def change_at(r, t, v, path, ver=None):
    """a copy of v with another value for the member at `path` (None if that is not possible)"""
    def ty_at(tt, pp):
        for i in pp:
            tt = tt[2][i][4]
        return tt

    def rebuild(vv, pp):
        if vv is None:
            return None
        fs = list(vv[1])
        if len(pp) == 1:
            cur = fs[pp[0]]
            for _ in range(30):
                nv = gen_value(r, ty_at(t, path), Knobs(ver=ver, optional=0), ver=ver)
                if cur is None or val_text(nv) != val_text(cur):
                    fs[pp[0]] = nv
                    return ("rec", fs)
            return None
        sub = rebuild(fs[pp[0]], pp[1:])
        if sub is None:
            return None
        fs[pp[0]] = sub
        return ("rec", fs)
    return rebuild(v, path)


def gen_keyed_type(r, ver=None, collide=False, depth=2, counter=None, top=True, exotic=False, optkey=False,
                   keystruct=False):
    t = gen_keyed_type0(r, ver, collide, depth, counter, top, exotic)
    if keystruct and top:
        t = add_key_struct(r, t)
    if optkey and top and not opt_keyed_struct_paths(t):
        # follow-up 3: an optional member whose structure type has key members of its own (a keyed type reused as an
        # optional sub-structure); placed at the top level or inside a non-optional nested structure
        ids = [0]

        def maxid(tt):
            if tt[0] == "struct":
                for m in tt[2]:
                    ids[0] = max(ids[0], m[0])
                    maxid(m[4])
        maxid(t)
        base = ids[0] + 1 + (1 if ids[0] == 0 else 0)
        nk = r.range(1, 2)
        sub_ms = []
        for j in range(nk + r.below(2)):
            kt = r.choice([("prim", "u8"), ("prim", "u16"), ("prim", "u32"), ("prim", "u64"), ("str",),
                           ("arr", ("prim", "u8"), 3)])
            sub_ms.append(((j if collide else base + 1 + j), False, j < nk, False, kt))
        sub = ("struct", r.choice("FFA"), sub_ms)
        new = ((len(t[2]) if collide else base), True, False, r.chance(1, 8), sub)
        ms = list(t[2])
        nested = [i for i, m in enumerate(ms) if m[4][0] == "struct" and not m[1] and not m[2] and m[4][1] != "M"]
        if nested and r.chance(1, 3):
            i = r.choice(nested)
            inner = ms[i][4]
            new_in = ((len(inner[2]) if collide else base), True, False, False, sub)
            ms[i] = ms[i][:4] + (("struct", inner[1], list(inner[2]) + [new_in]),)
        else:
            ms.insert(r.below(len(ms) + 1), new)
        t = ("struct", t[1], ms)
    return t


def toggle_opt_struct(r, t, v, ver=None):
    """a copy of v in which one reachable optional keyed-structure member is removed (if present), or given a value /
    another value (if absent / with probability 1/2): the key must not change"""
    ps = opt_keyed_struct_paths(t)
    if not ps:
        return None
    p = r.choice(ps)

    def ty_at(tt, path):
        for i in path:
            tt = tt[2][i][4]
        return tt

    def rebuild(vv, path):
        if vv is None:
            return None
        fs = list(vv[1])
        if len(path) == 1:
            cur = fs[path[0]]
            if cur is not None and r.chance(1, 2):
                fs[path[0]] = None
            else:
                for _ in range(20):
                    nv = gen_value(r, ty_at(t, p), Knobs(ver=ver, optional=0), ver=ver)
                    if cur is None or val_text(nv) != val_text(cur):
                        fs[path[0]] = nv
                        break
        else:
            fs[path[0]] = rebuild(fs[path[0]], path[1:])
        return ("rec", fs)
    nv = rebuild(v, p)
    return nv if val_text(nv) != val_text(v) else None


def gen_keyed_type0(r, ver=None, collide=False, depth=2, counter=None, top=True, exotic=False):
    """a structure type with at least one key member; nested non-key structures may carry further key members.
    collide=False: member ids are taken from one counter, so the flattened key ids are distinct;
    collide=True: every structure numbers its members from 0 (the natural numbering) -> flattened ids collide (D73)."""
    counter = counter if counter is not None else [0]
    ext = r.choice("FFAM") if top else r.choice("FFA")
    n = r.range(1, 4) if not top else r.range(2, 5)
    ms = []
    have_key = False
    local = 0
    for i in range(n):
        c = r.below(10)
        is_key = r.chance(2, 5)
        if depth > 0 and c < 3 and not is_key:
            sub = gen_keyed_type0(r, ver, collide, depth - 1, counter, top=False, exotic=exotic)
            mt = sub
            have_key = have_key or bool(flat_key_members(sub))
        elif is_key:
            kc = r.below(12)
            if kc < 5:
                mt = ("prim", r.choice([p for p in PRIM_NAMES if p != "c8"] if not exotic else PRIM_NAMES))
            elif kc < 7:
                mt = ("str",)
            elif kc < 8:
                mt = gen_enum(r)
            elif kc < 9:
                mt = ("arr", ("prim", r.choice(["u8", "i16", "u32", "u64"])), r.choice([1, 2, 3, 4, 8, 9]))
            elif kc < 10:
                mt = ("seq", ("prim", r.choice(["u8", "u16", "u32"])), 0)
            else:
                mt = ("struct", r.choice("FFA" + ("M" if exotic else "")),
                      [(j, False, False, False, ("prim", r.choice(["u8", "u16", "u32", "u64"]))) for j in range(r.range(1, 3))])
        else:
            mt = strip_keys(gen_member_type(r, 1, Knobs(ver=ver)))
        if collide:
            mid = local
            local += 1
        else:
            counter[0] += 1
            mid = counter[0] + (1 if counter[0] >= 1 else 0)      # skip id 1 (XCDR1 sentinel, D67)
        opt = (not is_key) and r.chance(1, 6)
        if is_key and exotic and r.chance(1, 6):
            opt = True
        if is_key:
            have_key = True
        ms.append((mid, opt, is_key, r.chance(1, 8), mt))
    if top and not have_key:
        i, o, k, mu, mt = ms[0]
        ms[0] = (i, False, True, mu, ("prim", "u32"))
    return ("struct", ext, ms)


def mutate_value(r, t, v, key):
    """a copy of v in which one member is changed: a key member (key=True) or a non-key member (key=False) that is not
    on the path to a key member; None if there is no such member"""
    kpaths = [p for p, _ in flat_key_members(t)]
    cands = []

    def walk(tt, vv, path):
        if tt[0] != "struct" or vv is None:
            return
        for idx, (m, f) in enumerate(zip(tt[2], vv[1])):
            p = path + (idx,)
            if p in kpaths:
                if key and f is not None:
                    cands.append((p, m[4]))
            elif any(kp[:len(p)] == p for kp in kpaths):
                walk(m[4], f, p)
            else:
                if not key and f is not None and not (tt[1] == "M" and False):
                    cands.append((p, m[4]))
    walk(t, v, ())
    if not cands:
        return None
    p, mt = r.choice(cands)

    def rebuild(vv, path):
        if not path:
            for _ in range(20):
                nv = gen_value(r, mt, Knobs())
                if val_text(nv) != val_text(vv):
                    return nv
            return None
        fs = list(vv[1])
        sub = rebuild(fs[path[0]], path[1:])
        if sub is None:
            return None
        fs[path[0]] = sub
        return ("rec", fs)
    return rebuild(v, p)


# ----------------------------------------------------------------------------- type evolution (C39)
class Incompat(Exception):
    pass


def needs4(t):
    return (t[0] == "prim" and PRIMS[t[1]] >= 4) or t[0] in ("str", "seq")


INTS = ("y", "i8", "u8", "i16", "u16", "i32", "u32", "i64", "u64")
LENIENT = [False]


def _complete_like(t):
    return t[0] in ("struct", "enum") or (t[0] == "prim" and t[1] in INTS)


def ideal_project(tr, tw, v, top=True):
    """what a reader of type tr should see of the value v of the writer's type tw (independent of the Lean `project`;
    recursive: nested structures are projected too). Raises Incompat when the two types are not related by the
    evolution rules of DDS-XTypes 7.2.4 (same kind; structures: same extensibility, final = same members,
    appendable = one member list a prefix of the other, mutable = common members by id)."""
    k = tr[0]
    if LENIENT[0] and not top and _complete_like(tr) and _complete_like(tw) and (tr[0] != "prim" or tw[0] != "prim"):
        return v                       # what the code does: EkComplete against EkComplete / integer is never looked into
    if k != tw[0]:
        raise Incompat("kind")
    if k == "prim":
        if tr[1] != tw[1]:
            raise Incompat("primitive")
        return v
    if k == "str":
        return v
    if k == "enum":
        if tr[1] != tw[1] or list(tr[2]) != list(tw[2]):
            raise Incompat("enum")
        return v
    if k in ("seq", "arr"):
        if k == "arr" and tr[2] != tw[2]:
            raise Incompat("array bound")
        if v is None:
            ideal_project(tr[1], tw[1], None, False)
            return None
        return [ideal_project(tr[1], tw[1], e, False) for e in v] if v else (ideal_project(tr[1], tw[1], None, False) and [] or [])
    if tr[1] != tw[1]:
        raise Incompat("extensibility")
    ext, mr, mw = tr[1], tr[2], tw[2]
    fs = v[1] if v is not None else [None] * len(mw)

    def sub(a, b, f):
        if a[1] != b[1] or a[3] != b[3]:
            raise Incompat("member flags")
        if f is None:
            ideal_project(a[4], b[4], None, False)        # type check only
            return None
        return ideal_project(a[4], b[4], f, False)
    out = []
    if ext in "FA":
        if ext == "F" and len(mr) != len(mw):
            raise Incompat("final member count")
        for i, a in enumerate(mr):
            if i < len(mw):
                if a[0] != mw[i][0]:
                    raise Incompat("member id")
                out.append(sub(a, mw[i], fs[i]))
            else:
                out.append(None)
    else:
        if len(set(m[0] for m in mr)) != len(mr) or len(set(m[0] for m in mw)) != len(mw):
            raise Incompat("duplicate ids")
        for a in mr:
            j = next((j for j, b in enumerate(mw) if b[0] == a[0]), None)
            out.append(None if j is None else sub(a, mw[j], fs[j]))
    if v is None:
        return None
    return ("rec", out)


def strict_assignable(tr, tw):
    """DDS-XTypes 7.2.4.4 for the generated types (independent of the Lean `assignable`): the types are related by the
    evolution rules at every nesting level, there is a common member, non-optional must-understand members and key
    members exist on both sides"""
    try:
        ideal_project(tr, tw, None)
    except Incompat:
        return False
    if tr == tw:
        return True
    ir, iw = [m[0] for m in tr[2]], [m[0] for m in tw[2]]
    if tr[1] == "F":
        return True
    if not set(ir) & set(iw):
        return False
    for ms, other in ((tr[2], iw), (tw[2], ir)):
        for m in ms:
            if ((not m[1] and m[3]) or m[2]) and m[0] not in other:
                return False
    return True


def lenient_assignable(tr, tw):
    """strict_assignable, except that nested structure / enumeration types are not compared (finding D74)"""
    LENIENT[0] = True
    try:
        return strict_assignable(tr, tw)
    finally:
        LENIENT[0] = False


def nested_differences(tr, tw, ver, top=True, out=None, inside_mutable=False):
    """constructs of a related type pair the decoder does not handle (causes of known findings)"""
    out = set() if out is None else out
    if tr[0] != tw[0]:
        return out
    if tr[0] in ("seq", "arr"):
        return nested_differences(tr[1], tw[1], ver, False, out, False)
    if tr[0] != "struct" or tr[1] != tw[1]:
        return out
    ext, mr, mw = tr[1], tr[2], tw[2]
    if ext == "A" and len(mr) != len(mw):
        if not top and ver == 1 and not inside_mutable:
            out.add("xcdr1-nested-appendable-not-delimited")
        if not top and ver == 2 and len(mr) > len(mw):
            out.add("xcdr2-nested-appendable-reader-extra-member-unbounded")
        if not top and ver == 1 and inside_mutable and len(mr) > len(mw) and not needs_input(mr[len(mw)][4]):
            out.add("reader-extra-member-reads-padding")
        if top and len(mr) > len(mw) and (mr[len(mw)][1] or not needs4(mr[len(mw)][4])):
            out.add("reader-extra-member-reads-padding")
    if ext == "M":
        iw = [m[0] for m in mw]
        if not top and ver == 2 and any(m[0] not in iw for m in mr):
            out.add("xcdr2-nested-mutable-absent-member-search-unbounded")
    if ext in "FA":
        for a, b in zip(mr, mw):
            nested_differences(a[4], b[4], ver, False, out, False)
    else:
        for a in mr:
            for b in mw:
                if a[0] == b[0]:
                    nested_differences(a[4], b[4], ver, False, out, True)
    return out


def needs_input(t):
    return not (t[0] == "struct" and not t[2]) and not (t[0] == "arr" and t[2] == 0)


def fresh_member(r, ids, ver, mid=None, small=None):
    kn = Knobs(ver=ver, optional=0)
    if small is None:
        small = r.chance(1, 4)
    t = ("prim", r.choice(["u8", "b", "i16", "c8"])) if small else \
        r.choice([("prim", "u32"), ("prim", "f64"), ("prim", "i64"), ("str",), ("seq", ("prim", "u8"), 0),
                  ("seq", ("str",), 0), ("prim", "f32")])
    if mid is None:
        mid = max(ids + [1]) + 1 + r.below(3)
    return (mid, r.chance(1, 6) if not small else False, False, False, t)


def evolve_type(r, tw, ver, depth=0):
    """-> (reader type, kind): kind = 'legal' (edits of the evolution relation at top level), 'nested' (a nested
    structure evolved), 'illegal' (a change assignability must reject or that the standard does not allow)"""
    ext, ms = tw[1], list(tw[2])
    ids = [m[0] for m in ms]
    c = r.below(20)
    if c < 12 or not ms:                                     # legal edits at this level
        if ext == "F":
            return tw, "legal"
        if ext == "A":
            if r.chance(1, 2) and len(ms) > 1:
                k = r.range(1, len(ms) - 1)
                return ("struct", ext, ms[:k]), "legal"       # writer has more
            n = r.range(1, 3)
            new = []
            for j in range(n):
                new.append(fresh_member(r, ids + [m[0] for m in new], ver, small=(None if j else r.chance(1, 5))))
            return ("struct", ext, ms + new), "legal"         # reader has more
        out = list(ms)
        for _ in range(r.range(1, 3)):
            e = r.below(3)
            if e == 0 and len(out) > 1:
                out.pop(r.below(len(out)))
            elif e == 1:
                out.insert(r.below(len(out) + 1), fresh_member(r, ids + [m[0] for m in out], ver))
            else:
                out = r.shuffle(out)
        if not out:
            out = ms[:1]
        return ("struct", ext, out), "legal"
    if c < 16:                                                # evolve a nested structure
        cand = [i for i, m in enumerate(ms) if m[4][0] == "struct" or (m[4][0] in ("seq", "arr") and m[4][1][0] == "struct")]
        if cand:
            i = r.choice(cand)
            m = ms[i]
            if m[4][0] == "struct":
                nt, _ = evolve_type(r, m[4], ver, depth + 1)
            else:
                et, _ = evolve_type(r, m[4][1], ver, depth + 1)
                nt = (m[4][0], et, m[4][2])
            ms[i] = (m[0], m[1], m[2], m[3], nt)
            return ("struct", ext, ms), "nested"
    # illegal edits
    e = r.below(6)
    if e == 0 and ms:
        i = r.below(len(ms))
        m = ms[i]
        other = r.choice([("prim", "u16"), ("prim", "u64"), ("str",), ("struct", "F", [(0, False, False, False, ("prim", "u8"))]),
                          ("enum", "i8", [0, 1]), ("seq", ("prim", "u8"), 0), ("prim", "b")])
        ms[i] = (m[0], m[1], m[2], m[3], other)
        return ("struct", ext, ms), "illegal"
    if e == 1:
        return ("struct", r.choice([x for x in "FAM" if x != ext]), ms), "illegal"
    if e == 2 and ms:
        i = r.below(len(ms))
        m = ms[i]
        ms[i] = (max(ids) + 5, m[1], m[2], m[3], m[4])
        return ("struct", ext, ms), "illegal"
    if e == 3:
        return ("struct", ext, ms + [(max(ids + [1]) + 1, False, False, True, ("prim", "u32"))]), "illegal"   # must-understand extra
    if e == 4:
        return ("struct", ext, ms + [(max(ids + [1]) + 1, False, True, False, ("prim", "u32"))]), "illegal"   # key extra
    return ("struct", ext, [(max(ids + [1]) + 1 + j, False, False, False, ("prim", "u32")) for j in range(2)]), "illegal"



# ----------------------------------------------------------------------------- wide strings, unions, enum extensibility
# (follow-up 2: constructs added after the first delivery; `has_union` types are compared on the oracle only)
DISC_KINDS = ["u8", "i8", "u16", "i16", "i32", "u32"]          # what `get_discriminator_id_as_i32` accepts
WSAMPLES = [[], [97], [97, 98, 99], [0x20AC], [0xD83D, 0xDE00], [97, 0xD83D, 0xDE00, 98], [0xD800, 0xDC00, 0xDBFF, 0xDFFF],
            [0xFFFF], [1], [0xD7FF, 0xE000]]


def contains(t, kinds):
    """does the type contain a construct of one of the kinds ("wstr", "union", "enumx")"""
    k = t[0]
    if k in kinds or (k == "enum" and len(t) > 3 and "enumx" in kinds):
        return True
    if k in ("seq", "arr"):
        return contains(t[1], kinds)
    if k == "struct":
        return any(contains(m[4], kinds) for m in t[2])
    if k == "union":
        return any(contains(b[3], kinds) for b in t[3])
    return False


def disc_as_i32(kind, n):
    """`get_discriminator_id_as_i32` (deserializer.rs:175)"""
    bits = 8 * PRIMS[kind]
    if kind.startswith("i") and n >= 2 ** (bits - 1):
        n -= 2 ** bits
    if kind == "u32" and n >= 2 ** 31:
        n -= 2 ** 32
    return n


def select_branch(t, d):
    """the branch a discriminator value selects: first explicit label, else the (last) default branch, else None"""
    x = disc_as_i32(t[2], d)
    for b in t[3]:
        if x in b[1]:
            return b
    dfl = [b for b in t[3] if b[2]]
    return dfl[-1] if dfl else None


def gen_wstring(r, kn):
    c = r.below(10)
    if c < 6:
        return list(r.choice(WSAMPLES))
    out = []
    for _ in range(r.range(1, 12) if c < 9 else r.range(40, max(200, min(kn.maxlong, 40000)))):
        k = r.below(8)
        if k < 4:
            out.append(r.range(32, 126))
        elif k < 6:
            out.append(r.choice([0xE9, 0x20AC, 0x7FF, 0x800, 0xD7FF, 0xE000, 0xFFFD, r.range(0xA0, 0xD7FF)]))
        else:
            cp = r.choice([0x10000, 0x1F600, 0x10FFFF, r.range(0x10000, 0x10FFFF)]) - 0x10000
            out += [0xD800 + (cp >> 10), 0xDC00 + (cp & 0x3FF)]
    return out


def gen_union(r, depth, kn, ext=None):
    ext = ext or r.choice(kn.union_ext)
    disc = r.choice(DISC_KINDS)
    bits = 8 * PRIMS[disc]
    signed = disc.startswith("i")
    n = r.range(1, 4)
    pool = [0, 1, 2, 3, 5, 7, 100] + ([-1, -2, -(2 ** (bits - 1))] if signed else [2 ** bits - 1 if bits < 32 else 2 ** 31 - 1])
    labels = r.shuffle(pool)
    dpos = r.below(n + 1) if r.chance(2, 3) else None          # position of the default branch (None: no default)
    bs, used = [], 0
    for i in range(n):
        is_d = dpos == i
        k = 0 if (is_d and r.chance(2, 3)) else r.range(1, 2)
        ls = labels[used:used + k]
        used += k
        bt = gen_member_type(r, depth, kn) if not r.chance(1, 3) else ("prim", gen_prim_name(r))
        bs.append((i + 1, sorted(ls), is_d, bt))
    if kn.union_ids and r.chance(1, 4):
        ids = r.shuffle([1, 2, 3, 4, 5, 9, 100])[:n]
        bs = [(ids[i],) + b[1:] for i, b in enumerate(bs)]
    return ("union", ext, disc, bs)


def gen_union_value(r, t, kn, ver):
    bits = 8 * PRIMS[t[2]]
    explicit = [x for b in t[3] for x in b[1]]
    c = r.below(10)
    if explicit and c < 6:
        x = r.choice(explicit)
    elif c < 9:
        x = r.choice([0, 1, 4, 6, 8, 99, -3 if t[2].startswith("i") else 200])
    else:
        x = r.range(0, 2 ** (bits - 1) - 1)
    if not (-(2 ** (bits - 1)) <= x < 2 ** bits):
        x = 0
    d = x % 2 ** bits
    b = select_branch(t, d)
    if b is None:
        if r.below(100) < kn.union_nobranch:
            return ("un", d, None)
        b = t[3][0]
        d = (b[1][0] % 2 ** bits) if b[1] else d        # b is not selected by d only if it has labels
        b = select_branch(t, d)
    return ("un", d, (b[0], gen_value(r, b[3], kn, True, ver)))


UNION_CAUSES = [
    # D77, D78, D79, D80 are repaired (fixes/D7x-xcdr.patch): no union construct is excused any more, except that an
    # XCDR1 mutable union whose member id is 1 meets the open finding D67 (PID 1 is the list terminator) - and
    # `derive` numbers the branches from 1
    "xcdr1-mutable-member-id-1-is-sentinel",
]


def union_constructs(t, v, ver):
    """constructs around unions the implementation does not round-trip (each a known finding, see notes/xcdr.md F8)"""
    out = set()
    for (tt, vv, _) in pairs(t, v):
        if tt[0] == "union" and tt[1] == "M" and ver == 1 and vv[2] is not None and vv[2][0] % 16384 == 1:
            out.add(UNION_CAUSES[0])
    return out


def attribute_ext(t, v, ver):
    cs = union_constructs(t, v, ver)
    for c in UNION_CAUSES:
        if c in cs:
            return c
    return None


def union_as_struct(t, v):
    """the standard defines the encoding of a union value as that of the structure made of its discriminator and its
    selected member (rules (26)-(28) repeat (17), (23)/(21) and (29)/(30) member for member): final / appendable /
    mutable union <d, id:x> = final / appendable / mutable structure {0 (must-understand): disc, id: branch type}
    with the value {d, x}. Returns the (type, value) with every union replaced, or None when a union sits inside a
    collection (elements would need different types)."""
    k = t[0]
    if k == "union":
        ms = [(0, False, False, True, ("prim", t[2]))]
        fs = [v[1]]
        if v[2] is not None:
            bt = next((b[3] for b in t[3] if b[0] == v[2][0]), None)
            if bt is None:
                return None
            r = union_as_struct(bt, v[2][1])
            if r is None:
                return None
            ms.append((v[2][0], False, False, False, r[0]))
            fs.append(r[1])
        return ("struct", t[1], ms), ("rec", fs)
    if k in ("seq", "arr"):
        if contains(t[1], ("union",)):
            return None
        return t, v
    if k == "struct":
        ms, fs = [], []
        for m, f in zip(t[2], v[1]):
            if f is None:
                # a member without value contributes no value bytes: its type does not matter
                ms.append(m[:4] + (("prim", "u8"),) if contains(m[4], ("union",)) else m); fs.append(None)
                continue
            r = union_as_struct(m[4], f)
            if r is None:
                return None
            ms.append(m[:4] + (r[0],)); fs.append(r[1])
        return ("struct", t[1], ms), ("rec", fs)
    return t, v


def oracle_only(ctx, engine, cases, nontrivial=None, oracle=None):
    """cases whose constructs the Lean model does not cover (unions): run on the implementation only and judged by the
    oracle only (no model comparison). Book-keeping as in RunCtx.differential."""
    from vlib.core import run_cases, harness_bin, case_hash
    impl, _ = run_cases([harness_bin(engine)], cases)
    for c, io in zip(cases, impl):
        ctx.stats["evaluations"] += 1
        h = case_hash(c.lines)
        nt = nontrivial(c, io) if nontrivial else True
        if nt and h not in ctx._seen:
            ctx._seen.add(h)
            ctx.stats["distinct_nontrivial"] += 1
        if oracle:
            for v in oracle(c, io) or []:
                v.setdefault("ops", c.lines)
                ctx.violations.append(v)
    return impl
